import QV.C20.Spec
/-! Helper lemmas for C20 (core Lean only). -/
namespace QV.C20
variable {K : Type}

/-! ### fuel: the number of definition names not yet on the stack -/

theorem filter_len_le {α : Type} (p q : α → Bool) (h : ∀ x, p x = true → q x = true) (L : List α) :
    (L.filter p).length ≤ (L.filter q).length := by
  induction L with
  | nil => simp
  | cons x xs ih =>
    simp only [List.filter_cons]
    cases hp : p x <;> cases hq : q x
    · simpa using ih
    · simp; omega
    · have := h x hp; simp_all
    · simpa using ih

theorem filter_len_lt {α : Type} (p q : α → Bool) (h : ∀ x, p x = true → q x = true) (L : List α) (n : α)
    (hn : n ∈ L) (hq : q n = true) (hp : p n = false) :
    (L.filter p).length < (L.filter q).length := by
  induction L with
  | nil => simp at hn
  | cons x xs ih =>
    simp only [List.filter_cons]
    cases hn with
    | head =>
      have := filter_len_le p q h xs
      simp [hp, hq]; omega
    | tail _ hn' =>
      have := ih hn'
      cases hpx : p x <;> cases hqx : q x
      · simpa using this
      · simp; omega
      · have := h x hpx; simp_all
      · simpa using this

/-- how many definition names are not on the stack -/
def remaining (defs : List (Def K)) (stack : List String) : Nat :=
  ((defs.map (·.name)).filter fun n => decide (n ∉ stack)).length

theorem remaining_push_lt (defs : List (Def K)) (stack : List String) (n : String)
    (hn : n ∈ defs.map (·.name)) (hs : n ∉ stack) :
    remaining defs (stack ++ [n]) < remaining defs stack := by
  unfold remaining
  apply filter_len_lt _ _ _ _ n hn
  · simpa using hs
  · simp
  · intro x hx
    simp at hx ⊢
    exact hx.1

theorem remaining_nil_le (defs : List (Def K)) : remaining defs [] ≤ defs.length := by
  unfold remaining
  calc _ ≤ (defs.map (·.name)).length := List.length_filter_le _ _
    _ = defs.length := by simp

theorem findDef_some {defs : List (Def K)} {n : String} {d : Def K} (h : findDef defs n = some d) :
    d ∈ defs ∧ d.name = n := by
  unfold findDef at h
  have h1 := List.mem_of_find?_eq_some h
  have h2 := List.find?_some h
  exact ⟨h1, by simpa using h2⟩


/-! ### `mapE`, `lookupLast` -/

theorem mapE_ok_iff {α β : Type} (f : α → Except Err β) (l : List α) (bs : List β) :
    mapE f l = .ok bs ↔ Pointwise (fun a b => f a = .ok b) l bs := by
  induction l generalizing bs with
  | nil =>
    constructor
    · intro h; simp [mapE] at h; subst h; exact .nil
    · intro h; cases h; rfl
  | cons a as ih =>
    constructor
    · intro h
      simp only [mapE] at h
      split at h
      · cases h
      · rename_i b hb
        split at h
        · cases h
        · rename_i bs' hbs
          cases h
          exact .cons hb ((ih bs').1 hbs)
    · intro h
      cases h with
      | cons hb hrest =>
        simp only [mapE, hb, (ih _).2 hrest]

theorem pointwise_mono {α β : Type} {R S : α → β → Prop} (h : ∀ a b, R a b → S a b) {l : List α} {m : List β}
    (p : Pointwise R l m) : Pointwise S l m := by
  induction p with
  | nil => exact .nil
  | cons hr _ ih => exact .cons (h _ _ hr) ih

theorem pointwise_length {α β : Type} {R : α → β → Prop} {l : List α} {m : List β}
    (p : Pointwise R l m) : l.length = m.length := by
  induction p with
  | nil => rfl
  | cons _ _ ih => simp [ih]

theorem lookupLast_zip_none {V : Type} (fs : List String) (as : List V) (v : String)
    (hl : fs.length = as.length) : lookupLast (fs.zip as) v = none ↔ v ∉ fs := by
  induction fs generalizing as with
  | nil => simp [lookupLast]
  | cons f fs ih =>
    cases as with
    | nil => simp at hl
    | cons a as =>
      have hl' : fs.length = as.length := by simpa using hl
      simp only [List.zip_cons_cons, lookupLast]
      have := ih as hl'
      cases h : lookupLast (fs.zip as) v with
      | some w => simp [h] at this; simp [this]
      | none =>
        simp [h] at this
        by_cases hf : f = v
        · simp [hf]
        · simp [hf, this]; exact fun e => hf e.symm

theorem lookupLast_zip_iff {V : Type} (fs : List String) (as : List V) (v : String) (a : V)
    (hl : fs.length = as.length) : lookupLast (fs.zip as) v = some a ↔ Binds fs as v a := by
  induction fs generalizing as with
  | nil =>
    simp [lookupLast, Binds]
  | cons f fs ih =>
    cases as with
    | nil => simp at hl
    | cons a0 as =>
      have hl' : fs.length = as.length := by simpa using hl
      simp only [List.zip_cons_cons, lookupLast]
      constructor
      · intro h
        cases hr : lookupLast (fs.zip as) v with
        | some w =>
          simp [hr] at h; subst h
          obtain ⟨i, h1, h2, h3⟩ := (ih as hl').1 hr
          refine ⟨i + 1, by simpa using h1, by simpa using h2, ?_⟩
          intro j hj
          cases j with
          | zero => omega
          | succ j => simpa using h3 j (by omega)
        | none =>
          simp [hr] at h
          obtain ⟨hf, ha⟩ := h
          subst hf; subst ha
          have hnot := (lookupLast_zip_none fs as f hl').1 hr
          refine ⟨0, by simp, by simp, ?_⟩
          intro j hj
          cases j with
          | zero => omega
          | succ j =>
            simp only [List.getElem?_cons_succ]
            intro hc
            exact hnot (List.mem_of_getElem? hc)
      · rintro ⟨i, h1, h2, h3⟩
        cases i with
        | zero =>
          simp at h1 h2
          subst h1; subst h2
          have hnot : f ∉ fs := by
            intro hm
            obtain ⟨j, hj, hjv⟩ := List.getElem_of_mem hm
            have := h3 (j + 1) (by omega)
            simp [hj, hjv] at this
          have := (lookupLast_zip_none fs as f hl').2 hnot
          simp [this]
        | succ i =>
          have hb : Binds fs as v a := ⟨i, by simpa using h1, by simpa using h2, fun j hj => by
            simpa using h3 (j + 1) (by omega)⟩
          have := (ih as hl').2 hb
          simp [this]

theorem isBinding_lookupLast {V : Type} (fs : List String) (as : List V) (hl : fs.length = as.length) :
    IsBinding fs as (lookupLast (fs.zip as)) :=
  fun v a => lookupLast_zip_iff fs as v a hl

/-- a binding is unique -/
theorem isBinding_unique {V : Type} {fs : List String} {as : List V} {σ τ : String → Option V}
    (h1 : IsBinding fs as σ) (h2 : IsBinding fs as τ) : σ = τ := by
  funext v
  cases hs : σ v with
  | some a => exact ((h2 v a).2 ((h1 v a).1 hs)).symm
  | none =>
    cases ht : τ v with
    | none => rfl
    | some b =>
      have := (h1 v b).2 ((h2 v b).1 ht)
      simp [hs] at this

end QV.C20
