import QV.C20.Spec
/-! Helper lemmas for C20 (core Lean only). -/
namespace QV.C20
variable {K : Type}

/-! ### fuel: the number of definition names not yet on the stack -/

theorem filter_len_le {α : Type} (p q : α → Bool) (h : ∀ x, p x = true → q x = true) (L : List α) :
    (L.filter p).length ≤ (L.filter q).length := by
  induction L with
  | nil => simp
  | cons x xs ih =>
    simp only [List.filter_cons]
    cases hp : p x <;> cases hq : q x
    · simpa using ih
    · simp; omega
    · have := h x hp; simp_all
    · simpa using ih

theorem filter_len_lt {α : Type} (p q : α → Bool) (h : ∀ x, p x = true → q x = true) (L : List α) (n : α)
    (hn : n ∈ L) (hq : q n = true) (hp : p n = false) :
    (L.filter p).length < (L.filter q).length := by
  induction L with
  | nil => simp at hn
  | cons x xs ih =>
    simp only [List.filter_cons]
    cases hn with
    | head =>
      have := filter_len_le p q h xs
      simp [hp, hq]; omega
    | tail _ hn' =>
      have := ih hn'
      cases hpx : p x <;> cases hqx : q x
      · simpa using this
      · simp; omega
      · have := h x hpx; simp_all
      · simpa using this

/-- how many definition names are not on the stack -/
def remaining (defs : List (Def K)) (stack : List String) : Nat :=
  ((defs.map (·.name)).filter fun n => decide (n ∉ stack)).length

theorem remaining_push_lt (defs : List (Def K)) (stack : List String) (n : String)
    (hn : n ∈ defs.map (·.name)) (hs : n ∉ stack) :
    remaining defs (stack ++ [n]) < remaining defs stack := by
  unfold remaining
  apply filter_len_lt _ _ _ _ n hn
  · simpa using hs
  · simp
  · intro x hx
    simp at hx ⊢
    exact hx.1

theorem remaining_nil_le (defs : List (Def K)) : remaining defs [] ≤ defs.length := by
  unfold remaining
  calc _ ≤ (defs.map (·.name)).length := List.length_filter_le _ _
    _ = defs.length := by simp

theorem findDef_some {defs : List (Def K)} {n : String} {d : Def K} (h : findDef defs n = some d) :
    d ∈ defs ∧ d.name = n := by
  unfold findDef at h
  have h1 := List.mem_of_find?_eq_some h
  have h2 := List.find?_some h
  exact ⟨h1, by simpa using h2⟩


/-! ### `mapE`, `lookupLast` -/

theorem mapE_ok_iff {α β : Type} (f : α → Except Err β) (l : List α) (bs : List β) :
    mapE f l = .ok bs ↔ Pointwise (fun a b => f a = .ok b) l bs := by
  induction l generalizing bs with
  | nil =>
    constructor
    · intro h; simp [mapE] at h; subst h; exact .nil
    · intro h; cases h; rfl
  | cons a as ih =>
    constructor
    · intro h
      simp only [mapE] at h
      split at h
      · cases h
      · rename_i b hb
        split at h
        · cases h
        · rename_i bs' hbs
          cases h
          exact .cons hb ((ih bs').1 hbs)
    · intro h
      cases h with
      | cons hb hrest =>
        simp only [mapE, hb, (ih _).2 hrest]

theorem pointwise_mono {α β : Type} {R S : α → β → Prop} (h : ∀ a b, R a b → S a b) {l : List α} {m : List β}
    (p : Pointwise R l m) : Pointwise S l m := by
  induction p with
  | nil => exact .nil
  | cons hr _ ih => exact .cons (h _ _ hr) ih

theorem pointwise_length {α β : Type} {R : α → β → Prop} {l : List α} {m : List β}
    (p : Pointwise R l m) : l.length = m.length := by
  induction p with
  | nil => rfl
  | cons _ _ ih => simp [ih]

theorem lookupLast_zip_none {V : Type} (fs : List String) (as : List V) (v : String)
    (hl : fs.length = as.length) : lookupLast (fs.zip as) v = none ↔ v ∉ fs := by
  induction fs generalizing as with
  | nil => simp [lookupLast]
  | cons f fs ih =>
    cases as with
    | nil => simp at hl
    | cons a as =>
      have hl' : fs.length = as.length := by simpa using hl
      simp only [List.zip_cons_cons, lookupLast]
      have := ih as hl'
      cases h : lookupLast (fs.zip as) v with
      | some w => simp [h] at this; simp [this]
      | none =>
        simp [h] at this
        by_cases hf : f = v
        · simp [hf]
        · simp [hf, this]; exact fun e => hf e.symm

theorem lookupLast_zip_iff {V : Type} (fs : List String) (as : List V) (v : String) (a : V)
    (hl : fs.length = as.length) : lookupLast (fs.zip as) v = some a ↔ Binds fs as v a := by
  induction fs generalizing as with
  | nil =>
    simp [lookupLast, Binds]
  | cons f fs ih =>
    cases as with
    | nil => simp at hl
    | cons a0 as =>
      have hl' : fs.length = as.length := by simpa using hl
      simp only [List.zip_cons_cons, lookupLast]
      constructor
      · intro h
        cases hr : lookupLast (fs.zip as) v with
        | some w =>
          simp [hr] at h; subst h
          obtain ⟨i, h1, h2, h3⟩ := (ih as hl').1 hr
          refine ⟨i + 1, by simpa using h1, by simpa using h2, ?_⟩
          intro j hj
          cases j with
          | zero => omega
          | succ j => simpa using h3 j (by omega)
        | none =>
          simp [hr] at h
          obtain ⟨hf, ha⟩ := h
          subst hf; subst ha
          have hnot := (lookupLast_zip_none fs as f hl').1 hr
          refine ⟨0, by simp, by simp, ?_⟩
          intro j hj
          cases j with
          | zero => omega
          | succ j =>
            simp only [List.getElem?_cons_succ]
            intro hc
            exact hnot (List.mem_of_getElem? hc)
      · rintro ⟨i, h1, h2, h3⟩
        cases i with
        | zero =>
          simp at h1 h2
          subst h1; subst h2
          have hnot : f ∉ fs := by
            intro hm
            obtain ⟨j, hj, hjv⟩ := List.getElem_of_mem hm
            have := h3 (j + 1) (by omega)
            simp [hj, hjv] at this
          have := (lookupLast_zip_none fs as f hl').2 hnot
          simp [this]
        | succ i =>
          have hb : Binds fs as v a := ⟨i, by simpa using h1, by simpa using h2, fun j hj => by
            simpa using h3 (j + 1) (by omega)⟩
          have := (ih as hl').2 hb
          simp [this]

theorem isBinding_lookupLast {V : Type} (fs : List String) (as : List V) (hl : fs.length = as.length) :
    IsBinding fs as (lookupLast (fs.zip as)) :=
  fun v a => lookupLast_zip_iff fs as v a hl

/-- a binding is unique -/
theorem isBinding_unique {V : Type} {fs : List String} {as : List V} {σ τ : String → Option V}
    (h1 : IsBinding fs as σ) (h2 : IsBinding fs as τ) : σ = τ := by
  funext v
  cases hs : σ v with
  | some a => exact ((h2 v a).2 ((h1 v a).1 hs)).symm
  | none =>
    cases ht : τ v with
    | none => rfl
    | some b =>
      have := (h1 v b).2 ((h2 v b).1 ht)
      simp [hs] at this


/-! ### `DefGateSequence::expand` -/

theorem mapE_fixed_ok_iff (qs : List Qubit) (fs : List Nat) :
    mapE fixedQubit qs = .ok fs ↔ qs = fs.map Qubit.fixed := by
  rw [mapE_ok_iff]
  induction qs generalizing fs with
  | nil =>
    constructor
    · intro h; cases h; rfl
    · intro h
      cases fs with
      | nil => exact .nil
      | cons => simp at h
  | cons q qs ih =>
    constructor
    · intro h
      cases h with
      | cons hq hrest =>
        rename_i n fs'
        have := (ih fs').1 hrest
        cases q <;> simp [fixedQubit] at hq
        subst hq; simp [this]
    · intro h
      cases fs with
      | nil => simp at h
      | cons n fs' =>
        simp at h
        obtain ⟨h1, h2⟩ := h
        subst h1
        exact .cons (by simp [fixedQubit]) ((ih fs').2 h2)

theorem substQubit_ok_iff (qm : List (String × Qubit)) (q q' : Qubit) :
    substQubit qm q = .ok q' ↔ ∃ v, q = Qubit.var v ∧ lookupLast qm v = some q' := by
  cases q with
  | fixed n => simp [substQubit]
  | placeholder k => simp [substQubit]
  | var v =>
    simp only [substQubit]
    cases h : lookupLast qm v with
    | none => simp [h]
    | some w => simp [h]

theorem substGate_ok_iff (pm : List (String × Expr K)) (qm : List (String × Qubit)) (e b : Gate K) :
    substGate pm qm e = .ok b ↔ ElemInstance (lookupLast pm) (lookupLast qm) e b := by
  unfold substGate
  constructor
  · intro h
    split at h
    · cases h
    · rename_i qs hqs
      cases h
      refine ⟨rfl, rfl, rfl, ?_⟩
      exact pointwise_mono (fun a b hab => (substQubit_ok_iff qm a b).1 hab) ((mapE_ok_iff _ _ _).1 hqs)
  · rintro ⟨h1, h2, h3, h4⟩
    have := (mapE_ok_iff (substQubit qm) e.qubits b.qubits).2
      (pointwise_mono (fun a b hab => (substQubit_ok_iff qm a b).2 hab) h4)
    simp only [this]
    cases b
    simp_all

theorem expandSeq_ok_iff (qvars : List String) (gates : List (Gate K)) (formals : List String)
    (g : Gate K) (body : List (Gate K)) (hp : formals.length = g.params.length) :
    expandSeq qvars gates (formals.zip g.params) g.qubits = .ok body ↔
      ∃ (fs : List Nat) (σ : String → Option (Expr K)) (ρ : String → Option Qubit),
        g.qubits.length = qvars.length ∧ g.qubits = fs.map Qubit.fixed ∧
        IsBinding formals g.params σ ∧ IsBinding qvars g.qubits ρ ∧
        Pointwise (ElemInstance σ ρ) gates body := by
  unfold expandSeq
  constructor
  · intro h
    split at h
    · cases h
    · rename_i hlen
      have hlen' : g.qubits.length = qvars.length := by simpa using hlen
      split at h
      · cases h
      · rename_i fs hfs
        have hq := (mapE_fixed_ok_iff _ _).1 hfs
        refine ⟨fs, lookupLast (formals.zip g.params), lookupLast (qvars.zip (fs.map Qubit.fixed)), hlen', hq,
          isBinding_lookupLast _ _ hp, ?_, ?_⟩
        · rw [hq]; exact isBinding_lookupLast _ _ (by rw [← hlen', hq])
        · exact pointwise_mono (fun a b hab => (substGate_ok_iff _ _ a b).1 hab) ((mapE_ok_iff _ _ _).1 h)
  · rintro ⟨fs, σ, ρ, hlen, hq, hσ, hρ, hpw⟩
    have hne : ¬ (g.qubits.length ≠ qvars.length) := by simp [hlen]
    simp only [hne, if_false]
    have hfs := (mapE_fixed_ok_iff _ _).2 hq
    simp only [hfs]
    have e1 : σ = lookupLast (formals.zip g.params) := isBinding_unique hσ (isBinding_lookupLast _ _ hp)
    have e2 : ρ = lookupLast (qvars.zip (fs.map Qubit.fixed)) := by
      rw [hq] at hρ
      exact isBinding_unique hρ (isBinding_lookupLast _ _ (by rw [← hlen, hq]))
    subst e1; subst e2
    exact (mapE_ok_iff _ _ _).2 (pointwise_mono (fun a b hab => (substGate_ok_iff _ _ a b).2 hab) hpw)


/-! ### `gate_sequence_from_instruction` -/

theorem gsfi_gate_undefined {defs : List (Def K)} {sel : String → Bool} {g : Gate K} {stack : List String}
    (hf : findDef defs g.name = none) : gateSequenceFromInstruction defs sel (.gate g) stack = .ok none := by
  simp [gateSequenceFromInstruction, hf]

theorem gsfi_gate_other {defs : List (Def K)} {sel : String → Bool} {g : Gate K} {stack : List String} {d : Def K}
    (hf : findDef defs g.name = some d) (hs : d.spec = .other) :
    gateSequenceFromInstruction defs sel (.gate g) stack = .ok none := by
  simp [gateSequenceFromInstruction, hf, hs]

theorem gsfi_gate_seq {defs : List (Def K)} {sel : String → Bool} {g : Gate K} {stack : List String} {d : Def K}
    {qvars : List String} {gates : List (Gate K)}
    (hf : findDef defs g.name = some d) (hs : d.spec = .seq qvars gates) :
    gateSequenceFromInstruction defs sel (.gate g) stack =
      if sel g.name then
        if d.params.length ≠ g.params.length then .error (.paramCount d.params.length g.params.length)
        else if !g.mods.isEmpty then .error (.modifiers g.mods)
        else if stack.contains d.name then .error (.cyclic stack)
        else
          match expandSeq qvars gates (d.params.zip g.params) g.qubits with
          | .error e => .error e
          | .ok gs => .ok (some (gs.map Instr.gate, d.name))
      else .ok none := by
  simp only [gateSequenceFromInstruction, hf, hs]
  rfl

theorem not_selected_of_undefined {defs : List (Def K)} {sel : String → Bool} {g : Gate K}
    (hf : findDef defs g.name = none) : ¬ IsSelectedInvocation defs sel (.gate g) := by
  rintro ⟨g', d', hg, hd, _⟩
  cases hg; rw [hf] at hd; cases hd

theorem not_selected_of_other {defs : List (Def K)} {sel : String → Bool} {g : Gate K} {d : Def K}
    (hf : findDef defs g.name = some d) (hs : d.spec = .other) : ¬ IsSelectedInvocation defs sel (.gate g) := by
  rintro ⟨g', d', hg, hd, ⟨qv, gs, hspec⟩, _⟩
  cases hg; rw [hf] at hd; cases hd; rw [hs] at hspec; cases hspec

theorem gsfi_none_iff (defs : List (Def K)) (sel : String → Bool) (i : Instr K) (stack : List String) :
    gateSequenceFromInstruction defs sel i stack = .ok none ↔ ¬ IsSelectedInvocation defs sel i := by
  cases i with
  | other k => simp [gateSequenceFromInstruction, IsSelectedInvocation]
  | gate g =>
    cases hf : findDef defs g.name with
    | none => simp [gsfi_gate_undefined hf, not_selected_of_undefined hf]
    | some d =>
      cases hs : d.spec with
      | other => simp [gsfi_gate_other hf hs, not_selected_of_other hf hs]
      | seq qvars gates =>
        rw [gsfi_gate_seq hf hs]
        by_cases hsel : sel g.name = true
        · have : IsSelectedInvocation defs sel (.gate g) := ⟨g, d, rfl, hf, ⟨qvars, gates, hs⟩, hsel⟩
          simp only [hsel, if_true, this, not_true, iff_false]
          split
          · simp
          · split
            · simp
            · split
              · simp
              · split <;> simp
        · have : ¬ IsSelectedInvocation defs sel (.gate g) := by
            rintro ⟨g', d', hg, _, _, hs'⟩
            cases hg; exact hsel hs'
          simp [hsel, this]

theorem gsfi_some_iff (defs : List (Def K)) (sel : String → Bool) (i : Instr K) (stack : List String)
    (body' : List (Instr K)) (name : String) :
    gateSequenceFromInstruction defs sel i stack = .ok (some (body', name)) ↔
      ∃ g d body, i = .gate g ∧ Selected defs sel g d ∧ g.mods = [] ∧ d.name ∉ stack ∧
        Instantiates d g body ∧ body' = body.map Instr.gate ∧ name = d.name := by
  cases i with
  | other k => simp [gateSequenceFromInstruction]
  | gate g =>
    cases hf : findDef defs g.name with
    | none =>
      rw [gsfi_gate_undefined hf]
      constructor
      · intro h; cases h
      · rintro ⟨g', d', body, hg, ⟨hd, _⟩, _⟩
        cases hg; rw [hf] at hd; cases hd
    | some d =>
      cases hs : d.spec with
      | other =>
        rw [gsfi_gate_other hf hs]
        constructor
        · intro h; cases h
        · rintro ⟨g', d', body, hg, ⟨hd, ⟨qv, gs, hspec⟩, _⟩, _⟩
          cases hg; rw [hf] at hd; cases hd; rw [hs] at hspec; cases hspec
      | seq qvars gates =>
        rw [gsfi_gate_seq hf hs]
        by_cases hsel : sel g.name = true
        · simp only [hsel, if_true]
          by_cases hpc : d.params.length = g.params.length
          · have hpc' : ¬ (d.params.length ≠ g.params.length) := by simp [hpc]
            simp only [hpc', if_false]
            by_cases hm : g.mods = []
            · simp only [hm, List.isEmpty_nil, Bool.not_true, Bool.false_eq_true, if_false]
              by_cases hst : d.name ∈ stack
              · have : stack.contains d.name = true := by simpa using hst
                simp only [this, if_true]
                constructor
                · intro h; cases h
                · rintro ⟨g', d', body, hg, ⟨hd, _⟩, _, hns, _⟩
                  cases hg; rw [hf] at hd; cases hd; exact absurd hst hns
              · have : stack.contains d.name = false := by simpa using hst
                simp only [this, Bool.false_eq_true, if_false]
                constructor
                · intro h
                  split at h
                  · cases h
                  · rename_i gs hgs
                    simp at h
                    obtain ⟨hb, hn⟩ := h
                    obtain ⟨fs, σ, ρ, h1, h2, h3, h4, h5⟩ := (expandSeq_ok_iff qvars gates d.params g gs hpc).1 hgs
                    exact ⟨g, d, gs, rfl, ⟨hf, ⟨qvars, gates, hs⟩, hsel⟩, hm, hst,
                      ⟨qvars, gates, fs, σ, ρ, hs, hpc.symm, h1, h2, h3, h4, h5⟩, hb.symm, hn.symm⟩
                · rintro ⟨g', d', body, hg, ⟨hd, _, _⟩, _, _, hinst, hb, hn⟩
                  cases hg; rw [hf] at hd; cases hd
                  obtain ⟨qv', gs', fs, σ, ρ, hs', _, h1, h2, h3, h4, h5⟩ := hinst
                  rw [hs] at hs'; cases hs'
                  have := (expandSeq_ok_iff qvars gates d.params g body hpc).2 ⟨fs, σ, ρ, h1, h2, h3, h4, h5⟩
                  simp [this, hb, hn]
            · have : (!g.mods.isEmpty) = true := by
                cases hgm : g.mods with
                | nil => exact absurd hgm hm
                | cons => simp
              simp only [this, if_true]
              constructor
              · intro h; cases h
              · rintro ⟨g', d', body, hg, _, hm', _⟩
                cases hg; exact absurd hm' hm
          · have hpc' : d.params.length ≠ g.params.length := hpc
            rw [if_pos hpc']
            constructor
            · intro h; cases h
            · rintro ⟨g', d', body, hg, ⟨hd, _, _⟩, _, _, hinst, _⟩
              cases hg; rw [hf] at hd; cases hd
              obtain ⟨_, _, _, _, _, _, hl, _⟩ := hinst
              exact absurd hl.symm hpc
        · simp only [hsel, Bool.false_eq_true, if_false]
          constructor
          · intro h; cases h
          · rintro ⟨g', d', body, hg, ⟨_, _, hs'⟩, _⟩
            cases hg; exact absurd hs' hsel


/-! ### the loop: `expandWith` against `Expands` -/

theorem gsfi_some_name {defs : List (Def K)} {sel : String → Bool} {i : Instr K} {stack : List String}
    {body : List (Instr K)} {name : String}
    (h : gateSequenceFromInstruction defs sel i stack = .ok (some (body, name))) :
    name ∉ stack ∧ name ∈ defs.map (·.name) := by
  obtain ⟨g, d, b, _, ⟨hf, _, _⟩, _, hns, _, _, hn⟩ := (gsfi_some_iff _ _ _ _ _ _).1 h
  subst hn
  exact ⟨hns, List.mem_map.2 ⟨d, (findDef_some hf).1, rfl⟩⟩

theorem expands_nil_iff {defs : List (Def K)} {sel : String → Bool} {stack : List String} {out : List (Instr K)} :
    Expands defs sel stack [] out ↔ out = [] := by
  constructor
  · intro h; cases h; rfl
  · intro h; subst h; exact .nil _

theorem expandWith_ok_iff (defs : List (Def K)) (sel : String → Bool)
    (nested : List String → List (Instr K) → Outcome (List (Instr K))) (stack : List String)
    (H : ∀ name body out, name ∉ stack → name ∈ defs.map (·.name) →
      (nested (stack ++ [name]) body = .ok out ↔ Expands defs sel (stack ++ [name]) body out))
    (src out : List (Instr K)) :
    expandWith defs sel nested stack src = .ok out ↔ Expands defs sel stack src out := by
  induction src generalizing out with
  | nil => simp [expandWith, expands_nil_iff, eq_comm]
  | cons i rest ih =>
    simp only [expandWith]
    cases hg : gateSequenceFromInstruction defs sel i stack with
    | error e =>
      simp only
      constructor
      · intro h; cases h
      · intro h
        cases h with
        | keep hn _ => rw [(gsfi_none_iff _ _ _ _).2 hn] at hg; cases hg
        | unfold hsel hm hns hinst _ _ =>
          rw [(gsfi_some_iff _ _ _ _ _ _).2 ⟨_, _, _, rfl, hsel, hm, hns, hinst, rfl, rfl⟩] at hg; cases hg
    | ok o =>
      cases o with
      | none =>
        simp only
        have hn := (gsfi_none_iff _ _ _ _).1 hg
        constructor
        · intro h
          cases hr : expandWith defs sel nested stack rest with
          | ok r =>
            rw [hr] at h; simp at h; subst h
            exact .keep hn ((ih r).1 hr)
          | err e => rw [hr] at h; cases h
          | outOfFuel => rw [hr] at h; cases h
        · intro h
          cases h with
          | keep _ hrest => rw [(ih _).2 hrest]
          | unfold hsel _ _ _ _ _ => exact absurd ⟨_, _, rfl, hsel⟩ hn
      | some p =>
        obtain ⟨body', name⟩ := p
        simp only
        obtain ⟨hns, hnd⟩ := gsfi_some_name hg
        constructor
        · intro h
          obtain ⟨g, d, body, hi, hsel, hm, hns', hinst, hb, hname⟩ := (gsfi_some_iff _ _ _ _ _ _).1 hg
          subst hi; subst hb; subst hname
          cases hb : nested (stack ++ [d.name]) (body.map Instr.gate) with
          | ok b =>
            rw [hb] at h
            cases hr : expandWith defs sel nested stack rest with
            | ok r =>
              rw [hr] at h; simp at h; subst h
              exact .unfold hsel hm hns' hinst ((H _ _ _ hns hnd).1 hb) ((ih r).1 hr)
            | err e => rw [hr] at h; cases h
            | outOfFuel => rw [hr] at h; cases h
          | err e => rw [hb] at h; cases h
          | outOfFuel => rw [hb] at h; cases h
        · intro h
          cases h with
          | keep hn _ => rw [(gsfi_none_iff _ _ _ _).2 hn] at hg; cases hg
          | unfold hsel hm hns' hinst hbody hrest =>
            rw [(gsfi_some_iff _ _ _ _ _ _).2 ⟨_, _, _, rfl, hsel, hm, hns', hinst, rfl, rfl⟩] at hg
            simp at hg
            obtain ⟨e1, e2⟩ := hg
            subst e1; subst e2
            rw [(H _ _ _ hns hnd).2 hbody, (ih _).2 hrest]

theorem expandFuel_ok_iff (defs : List (Def K)) (sel : String → Bool) (fuel : Nat) (stack : List String)
    (src out : List (Instr K)) (hf : remaining defs stack < fuel) :
    expandFuel defs sel fuel stack src = .ok out ↔ Expands defs sel stack src out := by
  induction fuel generalizing stack src out with
  | zero => omega
  | succ n ih =>
    simp only [expandFuel]
    apply expandWith_ok_iff
    intro name body out' hns hnd
    exact ih _ _ _ (by have := remaining_push_lt defs stack name hnd hns; omega)

theorem expandWith_ne_outOfFuel (defs : List (Def K)) (sel : String → Bool)
    (nested : List String → List (Instr K) → Outcome (List (Instr K))) (stack : List String)
    (H : ∀ name body, name ∉ stack → name ∈ defs.map (·.name) → nested (stack ++ [name]) body ≠ .outOfFuel)
    (src : List (Instr K)) :
    expandWith defs sel nested stack src ≠ .outOfFuel := by
  induction src with
  | nil => simp [expandWith]
  | cons i rest ih =>
    simp only [expandWith]
    cases hg : gateSequenceFromInstruction defs sel i stack with
    | error e => simp
    | ok o =>
      cases o with
      | none =>
        simp only
        cases hr : expandWith defs sel nested stack rest with
        | ok r => simp
        | err e => simp
        | outOfFuel => exact absurd hr ih
      | some p =>
        obtain ⟨body', name⟩ := p
        simp only
        obtain ⟨hns, hnd⟩ := gsfi_some_name hg
        cases hb : nested (stack ++ [name]) body' with
        | ok b =>
          simp only
          cases hr : expandWith defs sel nested stack rest with
          | ok r => simp
          | err e => simp
          | outOfFuel => exact absurd hr ih
        | err e => simp
        | outOfFuel => exact absurd hb (H _ _ hns hnd)

theorem expandFuel_ne_outOfFuel (defs : List (Def K)) (sel : String → Bool) (fuel : Nat) (stack : List String)
    (src : List (Instr K)) (hf : remaining defs stack < fuel) :
    expandFuel defs sel fuel stack src ≠ .outOfFuel := by
  induction fuel generalizing stack src with
  | zero => omega
  | succ n ih =>
    simp only [expandFuel]
    apply expandWith_ne_outOfFuel
    intro name body hns hnd
    exact ih _ _ (by have := remaining_push_lt defs stack name hnd hns; omega)


/-! ### reachability (`has_path_connecting`) -/

theorem mem_mentions_iff (defs : List (Def K)) (u v : String) : v ∈ mentions defs u ↔ Mentions defs u v := by
  unfold mentions Mentions
  cases hf : findDef defs u with
  | none => simp
  | some d =>
    cases hs : d.spec with
    | other =>
      simp only [hs, List.not_mem_nil, false_iff]
      rintro ⟨d', qv, gs, e, hd, hspec, _⟩
      cases hd; rw [hs] at hspec; cases hspec
    | seq qvars gates =>
      simp only [hs, List.mem_filter, List.mem_map, List.contains_eq_mem, decide_eq_true_eq]
      constructor
      · rintro ⟨⟨e, he, hn⟩, hv⟩
        exact ⟨d, qvars, gates, e, rfl, hs, he, hn, hv⟩
      · rintro ⟨d', qv, gs, e, hd, hspec, he, hn, hv⟩
        cases hd; rw [hs] at hspec; cases hspec
        exact ⟨⟨e, he, hn⟩, hv⟩

/-- a path all of whose nodes after the first lie in `A` -/
inductive PathVia (defs : List (Def K)) (A : List String) : String → String → Prop
  | refl (u) : PathVia defs A u u
  | step {u v d} : Mentions defs u v → v ∈ A → PathVia defs A v d → PathVia defs A u d

theorem reachIn_sound (defs : List (Def K)) (f : Nat) (A : List String) (u d : String)
    (h : reachIn defs f A u d = true) : Reach defs u d := by
  induction f generalizing A u with
  | zero => simp [reachIn] at h
  | succ n ih =>
    simp only [reachIn, Bool.or_eq_true, beq_iff_eq, List.any_eq_true, Bool.and_eq_true] at h
    rcases h with h | ⟨v, hv, _, hr⟩
    · subst h; exact .refl _
    · exact .step ((mem_mentions_iff _ _ _).1 hv) (ih _ _ hr)

theorem pathVia_avoid {defs : List (Def K)} {A : List String} {x d : String} (h : PathVia defs A x d)
    (v : String) : PathVia defs (A.filter (· != v)) x d ∨ PathVia defs (A.filter (· != v)) v d := by
  induction h with
  | refl u => exact .inl (.refl _)
  | @step u' y d' hm hv _ ih =>
    rcases ih with ih | ih
    · by_cases hy : y = v
      · subst hy; exact .inr ih
      · exact .inl (.step hm (by simp [hv, hy]) ih)
    · exact .inr ih

theorem reachIn_complete (defs : List (Def K)) (f : Nat) (A : List String) (u d : String)
    (h : PathVia defs A u d) (hf : A.length < f) : reachIn defs f A u d = true := by
  induction f generalizing A u with
  | zero => omega
  | succ n ih =>
    simp only [reachIn, Bool.or_eq_true, beq_iff_eq, List.any_eq_true, Bool.and_eq_true]
    cases h with
    | refl => exact .inl rfl
    | @step _ v _ hm hv hrest =>
      right
      refine ⟨v, (mem_mentions_iff _ _ _).2 hm, by simpa using hv, ?_⟩
      have hp : PathVia defs (A.filter (· != v)) v d := by
        rcases pathVia_avoid hrest v with h | h <;> exact h
      apply ih _ _ hp
      have := filter_len_lt (fun x => x != v) (fun _ => true) (fun _ _ => rfl) A v hv rfl (by simp)
      have e : (A.filter fun _ => true) = A := by simp
      rw [e] at this
      omega

theorem reach_to_pathVia {defs : List (Def K)} {u d : String} (h : Reach defs u d) :
    PathVia defs (seqNames defs) u d := by
  induction h with
  | refl u => exact .refl _
  | @step _ _ _ hm _ ih =>
    have hv := hm.choose_spec.choose_spec.choose_spec.choose_spec.2.2.2.2
    exact .step hm hv ih

theorem reach_iff (defs : List (Def K)) (u d : String) : reach defs u d = true ↔ Reach defs u d :=
  ⟨reachIn_sound _ _ _ _ _, fun h => reachIn_complete _ _ _ _ _ (reach_to_pathVia h) (Nat.lt_succ_self _)⟩


/-! ### errors -/

theorem mapE_total {α β : Type} (f : α → Except Err β) (l : List α) (h : ∀ a ∈ l, ∃ b, f a = .ok b) :
    ∃ bs, mapE f l = .ok bs := by
  induction l with
  | nil => exact ⟨[], rfl⟩
  | cons a as ih =>
    obtain ⟨b, hb⟩ := h a (by simp)
    obtain ⟨bs, hbs⟩ := ih fun x hx => h x (by simp [hx])
    exact ⟨b :: bs, by simp [mapE, hb, hbs]⟩

theorem mapE_fixed_error_iff (qs : List Qubit) (e : Err) :
    mapE fixedQubit qs = .error e ↔
      ∃ (fs : List Nat) (q : Qubit) (post : List Qubit),
        qs = fs.map Qubit.fixed ++ q :: post ∧ (∀ n, q ≠ Qubit.fixed n) ∧ e = .nonFixedQubit q := by
  induction qs with
  | nil =>
    simp only [mapE]
    constructor
    · intro h; cases h
    · rintro ⟨fs, q, post, h, _⟩
      cases fs <;> simp at h
  | cons q qs ih =>
    simp only [mapE]
    cases q with
    | fixed n =>
      simp only [fixedQubit]
      cases hr : mapE fixedQubit qs with
      | error e' =>
        simp only
        constructor
        · intro h
          cases h
          obtain ⟨fs, q, post, h1, h2, h3⟩ := ih.1 hr
          exact ⟨n :: fs, q, post, by simp [h1], h2, h3⟩
        · rintro ⟨fs, q, post, h1, h2, h3⟩
          cases fs with
          | nil => simp at h1; exact absurd h1.1.symm (h2 n)
          | cons n' fs' =>
            simp at h1
            have := ih.2 ⟨fs', q, post, h1.2, h2, h3⟩
            rw [hr] at this; exact this
      | ok fs0 =>
        simp only
        constructor
        · intro h; cases h
        · rintro ⟨fs, q, post, h1, h2, h3⟩
          cases fs with
          | nil => simp at h1; exact absurd h1.1.symm (h2 n)
          | cons n' fs' =>
            simp at h1
            have := ih.2 ⟨fs', q, post, h1.2, h2, h3⟩
            rw [hr] at this; cases this
    | placeholder k =>
      simp only [fixedQubit]
      constructor
      · intro h; cases h
        exact ⟨[], .placeholder k, qs, by simp, by simp, rfl⟩
      · rintro ⟨fs, q, post, h1, h2, h3⟩
        cases fs with
        | nil => simp at h1; rw [h3, ← h1.1]
        | cons n' fs' => simp at h1
    | var v =>
      simp only [fixedQubit]
      constructor
      · intro h; cases h
        exact ⟨[], .var v, qs, by simp, by simp, rfl⟩
      · rintro ⟨fs, q, post, h1, h2, h3⟩
        cases fs with
        | nil => simp at h1; rw [h3, ← h1.1]
        | cons n' fs' => simp at h1

/-- the elements of a validated sequence always instantiate -/
theorem substGates_total (pm : List (String × Expr K)) (qvars : List String) (fs : List Nat)
    (gates : List (Gate K)) (hl : qvars.length = fs.length)
    (hw : ∀ e ∈ gates, ∀ q ∈ e.qubits, ∃ v, q = Qubit.var v ∧ v ∈ qvars) :
    ∃ bs, mapE (substGate pm (qvars.zip (fs.map Qubit.fixed))) gates = .ok bs := by
  apply mapE_total
  intro e he
  unfold substGate
  have : ∃ qs, mapE (substQubit (qvars.zip (fs.map Qubit.fixed))) e.qubits = .ok qs := by
    apply mapE_total
    intro q hq
    obtain ⟨v, hv, hmem⟩ := hw e he q hq
    subst hv
    simp only [substQubit]
    cases hl' : lookupLast (qvars.zip (fs.map Qubit.fixed)) v with
    | some w => exact ⟨w, rfl⟩
    | none =>
      have := (lookupLast_zip_none qvars (fs.map Qubit.fixed) v (by simp [hl])).1 hl'
      exact absurd hmem this
  obtain ⟨qs, hqs⟩ := this
  simp [hqs]

theorem expandSeq_error_iff (qvars : List String) (gates : List (Gate K)) (pm : List (String × Expr K))
    (qargs : List Qubit) (e : Err)
    (hw : ∀ g ∈ gates, ∀ q ∈ g.qubits, ∃ v, q = Qubit.var v ∧ v ∈ qvars) :
    expandSeq qvars gates pm qargs = .error e ↔
      (qargs.length ≠ qvars.length ∧ e = .qubitCount qvars.length qargs.length) ∨
      (qargs.length = qvars.length ∧ ∃ (fs : List Nat) (q : Qubit) (post : List Qubit),
        qargs = fs.map Qubit.fixed ++ q :: post ∧ (∀ n, q ≠ Qubit.fixed n) ∧ e = .nonFixedQubit q) := by
  unfold expandSeq
  by_cases hlen : qargs.length = qvars.length
  · have hne : ¬ (qargs.length ≠ qvars.length) := by simp [hlen]
    rw [if_neg hne]
    have hR : ((qargs.length ≠ qvars.length ∧ e = .qubitCount qvars.length qargs.length) ∨
        (qargs.length = qvars.length ∧ ∃ (fs : List Nat) (q : Qubit) (post : List Qubit),
          qargs = fs.map Qubit.fixed ++ q :: post ∧ (∀ n, q ≠ Qubit.fixed n) ∧ e = .nonFixedQubit q)) ↔
        ∃ (fs : List Nat) (q : Qubit) (post : List Qubit),
          qargs = fs.map Qubit.fixed ++ q :: post ∧ (∀ n, q ≠ Qubit.fixed n) ∧ e = .nonFixedQubit q := by
      constructor
      · rintro (⟨h, _⟩ | ⟨_, h⟩)
        · exact absurd hlen h
        · exact h
      · intro h; exact .inr ⟨hlen, h⟩
    rw [hR]
    cases hf : mapE fixedQubit qargs with
    | error e' =>
      simp only
      have := mapE_fixed_error_iff qargs e
      rw [hf] at this
      constructor
      · intro h; cases h; exact this.1 rfl
      · intro h; have := this.2 h; cases this; rfl
    | ok fs =>
      simp only
      have hq := (mapE_fixed_ok_iff _ _).1 hf
      obtain ⟨bs, hbs⟩ := substGates_total pm qvars fs gates (by rw [← hlen, hq]; simp) hw
      rw [hbs]
      constructor
      · intro h; cases h
      · intro h
        have := (mapE_fixed_error_iff qargs e).2 h
        rw [hf] at this; cases this
  · have hne : qargs.length ≠ qvars.length := hlen
    rw [if_pos hne]
    constructor
    · intro h; cases h; exact .inl ⟨hne, rfl⟩
    · rintro (⟨_, h⟩ | ⟨h, _⟩)
      · rw [h]
      · exact absurd h hlen

theorem gsfi_error_iff (defs : List (Def K)) (sel : String → Bool) (i : Instr K) (stack : List String) (e : Err)
    (hw : WellFormed defs) :
    gateSequenceFromInstruction defs sel i stack = .error e ↔ LocalErr defs sel stack i e := by
  cases i with
  | other k =>
    simp only [gateSequenceFromInstruction]
    constructor
    · intro h; cases h
    · intro h; cases h
  | gate g =>
    cases hf : findDef defs g.name with
    | none =>
      rw [gsfi_gate_undefined hf]
      constructor
      · intro h; cases h
      · intro h
        have : IsSelectedInvocation defs sel (.gate g) := by
          cases h <;> exact ⟨_, _, rfl, ‹Selected defs sel g _›⟩
        exact absurd this (not_selected_of_undefined hf)
    | some d =>
      cases hs : d.spec with
      | other =>
        rw [gsfi_gate_other hf hs]
        constructor
        · intro h; cases h
        · intro h
          have : IsSelectedInvocation defs sel (.gate g) := by
            cases h <;> exact ⟨_, _, rfl, ‹Selected defs sel g _›⟩
          exact absurd this (not_selected_of_other hf hs)
      | seq qvars gates =>
        have hsd : ∀ {d'}, Selected defs sel g d' → d' = d := by
          intro d' h; have := hf.symm.trans h.1; simp at this; exact this.symm
        have hwd := hw d (findDef_some hf).1 qvars gates hs
        rw [gsfi_gate_seq hf hs]
        by_cases hsel : sel g.name = true
        · have hS : Selected defs sel g d := ⟨hf, ⟨qvars, gates, hs⟩, hsel⟩
          simp only [hsel, if_true]
          by_cases hpc : d.params.length = g.params.length
          · have hpc' : ¬ (d.params.length ≠ g.params.length) := by simp [hpc]
            simp only [hpc', if_false]
            by_cases hm : g.mods = []
            · simp only [hm, List.isEmpty_nil, Bool.not_true, Bool.false_eq_true, if_false]
              by_cases hst : d.name ∈ stack
              · have : stack.contains d.name = true := by simpa using hst
                simp only [this, if_true]
                constructor
                · intro h; cases h; exact .cyclic hS hpc hm hst
                · intro h
                  cases h with
                  | paramCount h1 h2 => cases hsd h1; exact absurd hpc h2
                  | modifiers h1 _ h3 => exact absurd hm h3
                  | cyclic _ _ _ _ => rfl
                  | qubitCount h1 _ _ h4 _ _ => cases hsd h1; exact absurd hst h4
                  | nonFixed h1 _ _ h4 _ _ _ _ => cases hsd h1; exact absurd hst h4
              · have : stack.contains d.name = false := by simpa using hst
                simp only [this, Bool.false_eq_true, if_false]
                have key := expandSeq_error_iff qvars gates (d.params.zip g.params) g.qubits e hwd
                constructor
                · intro h
                  have h' : expandSeq qvars gates (d.params.zip g.params) g.qubits = .error e := by
                    split at h
                    · rename_i e' he'; cases h; exact he'
                    · cases h
                  rcases key.1 h' with ⟨h1, h2⟩ | ⟨h1, fs, q, post, h2, h3, h4⟩
                  · subst h2; exact .qubitCount hS hpc hm hst hs h1
                  · subst h4; exact .nonFixed hS hpc hm hst hs h1 h2 h3
                · intro h
                  have h' : expandSeq qvars gates (d.params.zip g.params) g.qubits = .error e := by
                    apply key.2
                    cases h with
                    | paramCount h1 h2 => cases hsd h1; exact absurd hpc h2
                    | modifiers h1 _ h3 => exact absurd hm h3
                    | cyclic h1 _ _ h4 => cases hsd h1; exact absurd h4 hst
                    | qubitCount h1 _ _ _ h5 h6 =>
                      cases hsd h1; rw [hs] at h5; cases h5
                      exact .inl ⟨h6, rfl⟩
                    | nonFixed h1 _ _ _ h5 h6 h7 h8 =>
                      cases hsd h1; rw [hs] at h5; cases h5
                      exact .inr ⟨h6, _, _, _, h7, h8, rfl⟩
                  rw [h']
            · have : (!g.mods.isEmpty) = true := by
                cases hgm : g.mods with
                | nil => exact absurd hgm hm
                | cons => simp
              simp only [this, if_true]
              constructor
              · intro h; cases h; exact .modifiers hS hpc hm
              · intro h
                cases h with
                | paramCount h1 h2 => cases hsd h1; exact absurd hpc h2
                | modifiers _ _ _ => rfl
                | cyclic _ _ h3 _ => exact absurd h3 hm
                | qubitCount _ _ h3 _ _ _ => exact absurd h3 hm
                | nonFixed _ _ h3 _ _ _ _ _ => exact absurd h3 hm
          · have hpc' : d.params.length ≠ g.params.length := hpc
            rw [if_pos hpc']
            constructor
            · intro h; cases h; exact .paramCount hS hpc'
            · intro h
              cases h with
              | paramCount h1 _ => cases hsd h1; rfl
              | modifiers h1 h2 _ => cases hsd h1; exact absurd h2 hpc
              | cyclic h1 h2 _ _ => cases hsd h1; exact absurd h2 hpc
              | qubitCount h1 h2 _ _ _ _ => cases hsd h1; exact absurd h2 hpc
              | nonFixed h1 h2 _ _ _ _ _ _ => cases hsd h1; exact absurd h2 hpc
        · simp only [hsel, Bool.false_eq_true, if_false]
          constructor
          · intro h; cases h
          · intro h
            have : sel g.name = true := by
              cases h <;> exact (‹Selected defs sel g _›).2.2
            exact absurd this hsel


theorem expands_single_keep {defs : List (Def K)} {sel : String → Bool} {stack : List String} {i : Instr K}
    (hn : ¬ IsSelectedInvocation defs sel i) : Expands defs sel stack [i] [i] :=
  .keep hn (.nil _)

theorem expandWith_err_iff (defs : List (Def K)) (sel : String → Bool) (hw : WellFormed defs)
    (nested : List String → List (Instr K) → Outcome (List (Instr K))) (stack : List String)
    (Hok : ∀ name body out, name ∉ stack → name ∈ defs.map (·.name) →
      (nested (stack ++ [name]) body = .ok out ↔ Expands defs sel (stack ++ [name]) body out))
    (Herr : ∀ name body e, name ∉ stack → name ∈ defs.map (·.name) →
      (nested (stack ++ [name]) body = .err e ↔ ErrAt defs sel (stack ++ [name]) body e))
    (src : List (Instr K)) (e : Err) :
    expandWith defs sel nested stack src = .err e ↔ ErrAt defs sel stack src e := by
  induction src with
  | nil =>
    simp only [expandWith]
    constructor
    · intro h; cases h
    · intro h; cases h
  | cons i rest ih =>
    simp only [expandWith]
    cases hg : gateSequenceFromInstruction defs sel i stack with
    | error e' =>
      simp only
      have hl := (gsfi_error_iff defs sel i stack e' hw).1 hg
      constructor
      · intro h; cases h; exact .here hl
      · intro h
        cases h with
        | here hl' =>
          have := (gsfi_error_iff defs sel i stack e hw).2 hl'
          rw [hg] at this; cases this; rfl
        | inside hsel hm hns hinst _ =>
          rw [(gsfi_some_iff _ _ _ _ _ _).2 ⟨_, _, _, rfl, hsel, hm, hns, hinst, rfl, rfl⟩] at hg; cases hg
        | later hex _ =>
          cases hex with
          | keep hn _ => rw [(gsfi_none_iff _ _ _ _).2 hn] at hg; cases hg
          | unfold hsel hm hns hinst _ _ =>
            rw [(gsfi_some_iff _ _ _ _ _ _).2 ⟨_, _, _, rfl, hsel, hm, hns, hinst, rfl, rfl⟩] at hg; cases hg
    | ok o =>
      cases o with
      | none =>
        simp only
        have hn := (gsfi_none_iff _ _ _ _).1 hg
        constructor
        · intro h
          cases hr : expandWith defs sel nested stack rest with
          | ok r => rw [hr] at h; cases h
          | err e' =>
            rw [hr] at h; cases h
            exact .later (expands_single_keep hn) (ih.1 hr)
          | outOfFuel => rw [hr] at h; cases h
        · intro h
          cases h with
          | here hl =>
            have := (gsfi_error_iff defs sel i stack e hw).2 hl
            rw [hg] at this; cases this
          | inside hsel _ _ _ _ => exact absurd ⟨_, _, rfl, hsel⟩ hn
          | later _ hrest => rw [ih.2 hrest]
      | some p =>
        obtain ⟨body', name⟩ := p
        simp only
        obtain ⟨hns, hnd⟩ := gsfi_some_name hg
        obtain ⟨g, d, body, hi, hsel, hm, hns', hinst, hb, hname⟩ := (gsfi_some_iff _ _ _ _ _ _).1 hg
        subst hi; subst hb; subst hname
        have hgs : ∀ {d' body''}, Selected defs sel g d' → g.mods = [] → d'.name ∉ stack →
            Instantiates d' g body'' → body''.map Instr.gate = body.map Instr.gate ∧ d'.name = d.name := by
          intro d' body'' h1 h2 h3 h4
          have := (gsfi_some_iff _ _ _ _ _ _).2 ⟨_, _, _, rfl, h1, h2, h3, h4, rfl, rfl⟩
          rw [hg] at this
          simp at this
          exact ⟨this.1.symm, this.2.symm⟩
        constructor
        · intro h
          cases hb : nested (stack ++ [d.name]) (body.map Instr.gate) with
          | ok b =>
            rw [hb] at h
            cases hr : expandWith defs sel nested stack rest with
            | ok r => rw [hr] at h; cases h
            | err e' =>
              rw [hr] at h; cases h
              have hx := (Hok _ _ _ hns hnd).1 hb
              have : Expands defs sel stack [.gate g] (b ++ []) := .unfold hsel hm hns' hinst hx (.nil _)
              exact .later this (ih.1 hr)
            | outOfFuel => rw [hr] at h; cases h
          | err e' =>
            rw [hb] at h; cases h
            exact .inside hsel hm hns' hinst ((Herr _ _ _ hns hnd).1 hb)
          | outOfFuel => rw [hb] at h; cases h
        · intro h
          cases h with
          | here hl =>
            have := (gsfi_error_iff defs sel _ stack e hw).2 hl
            rw [hg] at this; cases this
          | inside hsel' hm' hns'' hinst' hin =>
            obtain ⟨e1, e2⟩ := hgs hsel' hm' hns'' hinst'
            rw [e1, e2] at hin
            rw [(Herr _ _ _ hns hnd).2 hin]
          | later hex hrest =>
            cases hex with
            | keep hn _ => exact absurd ⟨_, _, rfl, hsel⟩ hn
            | unfold hsel' hm' hns'' hinst' hbody _ =>
              obtain ⟨e1, e2⟩ := hgs hsel' hm' hns'' hinst'
              rw [e1, e2] at hbody
              rw [(Hok _ _ _ hns hnd).2 hbody, ih.2 hrest]

theorem expandFuel_err_iff (defs : List (Def K)) (sel : String → Bool) (hw : WellFormed defs) (fuel : Nat)
    (stack : List String) (src : List (Instr K)) (e : Err) (hf : remaining defs stack < fuel) :
    expandFuel defs sel fuel stack src = .err e ↔ ErrAt defs sel stack src e := by
  induction fuel generalizing stack src e with
  | zero => omega
  | succ n ih =>
    simp only [expandFuel]
    apply expandWith_err_iff defs sel hw
    · intro name body out hns hnd
      exact expandFuel_ok_iff defs sel n _ _ _ (by have := remaining_push_lt defs stack name hnd hns; omega)
    · intro name body e' hns hnd
      exact ih _ _ _ (by have := remaining_push_lt defs stack name hnd hns; omega)

/-- a misused invocation cannot also be unfolded or kept -/
theorem localErr_not_expands {defs : List (Def K)} {sel : String → Bool} {stack : List String} {i : Instr K}
    {e : Err} {rest out : List (Instr K)} (hl : LocalErr defs sel stack i e)
    (hx : Expands defs sel stack (i :: rest) out) : False := by
  have hsd : ∀ {g d d'}, Selected defs sel g d → Selected defs sel g d' → d = d' := by
    intro g d d' h h'; have := h.1.symm.trans h'.1; simpa using this
  cases hx with
  | keep hn _ =>
    apply hn
    cases hl <;> exact ⟨_, _, rfl, ‹Selected defs sel _ _›⟩
  | unfold hsel hm hns hinst _ _ =>
    obtain ⟨qv, gs, fs, σ, ρ, hs, hp, hq, hfx, _⟩ := hinst
    cases hl with
    | paramCount h1 h2 => cases hsd hsel h1; exact h2 hp.symm
    | modifiers _ _ h3 => exact h3 hm
    | cyclic h1 _ _ h4 => cases hsd hsel h1; exact hns h4
    | qubitCount h1 _ _ _ h5 h6 => cases hsd hsel h1; rw [hs] at h5; cases h5; exact h6 hq
    | @nonFixed _ _ _ _ fs' q post h1 _ _ _ _ _ h7 h8 =>
      rw [hfx] at h7
      have hmem : q ∈ fs.map Qubit.fixed := by rw [h7]; simp
      obtain ⟨n, _, hn⟩ := List.mem_map.1 hmem
      exact h8 n hn.symm

theorem expands_mem_split {defs : List (Def K)} {sel : String → Bool} {stack : List String}
    {src out : List (Instr K)} (hx : Expands defs sel stack src out) {i : Instr K} (hi : i ∈ src) :
    ∃ rest out', Expands defs sel stack (i :: rest) out' := by
  induction hx with
  | nil => simp at hi
  | @keep stack j rest out hn hrest ih =>
    cases hi with
    | head => exact ⟨rest, _, .keep hn hrest⟩
    | tail _ h => exact ih h
  | @unfold stack g d body b rest out hsel hm hns hinst hb hrest _ ih =>
    cases hi with
    | head => exact ⟨rest, _, .unfold hsel hm hns hinst hb hrest⟩
    | tail _ h => exact ih h

/-- a reachable misuse rules out a successful expansion -/
theorem bad_not_expands {defs : List (Def K)} {sel : String → Bool} {stack : List String} {src : List (Instr K)}
    (hb : Bad defs sel stack src) : ∀ out, ¬ Expands defs sel stack src out := by
  induction hb with
  | here hi hl =>
    intro out hx
    obtain ⟨rest, out', hx'⟩ := expands_mem_split hx hi
    exact localErr_not_expands hl hx'
  | @inside stack src g d body hi hsel hm hns hinst _ ih =>
    intro out hx
    obtain ⟨rest, out', hx'⟩ := expands_mem_split hx hi
    cases hx' with
    | keep hn _ => exact hn ⟨_, _, rfl, hsel⟩
    | unfold hsel' _ _ hinst' hbody _ =>
      have e := hsel.1.symm.trans hsel'.1
      simp at e; subst e
      obtain ⟨qv, gs, fs, σ, ρ, hs, hp, a1, a2, a3, a4, a5⟩ := hinst
      obtain ⟨qv', gs', fs', σ', ρ', hs', _, a1', a2', a3', a4', a5'⟩ := hinst'
      rw [hs] at hs'; cases hs'
      have e1 := (expandSeq_ok_iff qv gs _ _ _ hp.symm).2 ⟨fs, σ, ρ, a1, a2, a3, a4, a5⟩
      have e2 := (expandSeq_ok_iff qv gs _ _ _ hp.symm).2 ⟨fs', σ', ρ', a1', a2', a3', a4', a5'⟩
      rw [e1] at e2; cases e2
      exact ih _ hbody

theorem errAt_bad {defs : List (Def K)} {sel : String → Bool} {stack : List String} {src : List (Instr K)}
    {e : Err} (h : ErrAt defs sel stack src e) : Bad defs sel stack src := by
  induction h with
  | here hl => exact .here (by simp) hl
  | inside hsel hm hns hinst _ ih => exact .inside (by simp) hsel hm hns hinst ih
  | later _ _ ih =>
    cases ih with
    | here hi hl => exact .here (by simp [hi]) hl
    | inside hi hsel hm hns hinst hb => exact .inside (by simp [hi]) hsel hm hns hinst hb

end QV.C20
