import QV.C20.Spec
/-! Helper lemmas for C20 (core Lean only). -/
namespace QV.C20
variable {K : Type}

/-! ### fuel: the number of definition names not yet on the stack -/

theorem filter_len_le {α : Type} (p q : α → Bool) (h : ∀ x, p x = true → q x = true) (L : List α) :
    (L.filter p).length ≤ (L.filter q).length := by
  induction L with
  | nil => simp
  | cons x xs ih =>
    simp only [List.filter_cons]
    cases hp : p x <;> cases hq : q x
    · simpa using ih
    · simp; omega
    · have := h x hp; simp_all
    · simpa using ih

theorem filter_len_lt {α : Type} (p q : α → Bool) (h : ∀ x, p x = true → q x = true) (L : List α) (n : α)
    (hn : n ∈ L) (hq : q n = true) (hp : p n = false) :
    (L.filter p).length < (L.filter q).length := by
  induction L with
  | nil => simp at hn
  | cons x xs ih =>
    simp only [List.filter_cons]
    cases hn with
    | head =>
      have := filter_len_le p q h xs
      simp [hp, hq]; omega
    | tail _ hn' =>
      have := ih hn'
      cases hpx : p x <;> cases hqx : q x
      · simpa using this
      · simp; omega
      · have := h x hpx; simp_all
      · simpa using this

/-- how many definition names are not on the stack -/
def remaining (defs : List (Def K)) (stack : List String) : Nat :=
  ((defs.map (·.name)).filter fun n => decide (n ∉ stack)).length

theorem remaining_push_lt (defs : List (Def K)) (stack : List String) (n : String)
    (hn : n ∈ defs.map (·.name)) (hs : n ∉ stack) :
    remaining defs (stack ++ [n]) < remaining defs stack := by
  unfold remaining
  apply filter_len_lt _ _ _ _ n hn
  · simpa using hs
  · simp
  · intro x hx
    simp at hx ⊢
    exact hx.1

theorem remaining_nil_le (defs : List (Def K)) : remaining defs [] ≤ defs.length := by
  unfold remaining
  calc _ ≤ (defs.map (·.name)).length := List.length_filter_le _ _
    _ = defs.length := by simp

theorem findDef_some {defs : List (Def K)} {n : String} {d : Def K} (h : findDef defs n = some d) :
    d ∈ defs ∧ d.name = n := by
  unfold findDef at h
  have h1 := List.mem_of_find?_eq_some h
  have h2 := List.find?_some h
  exact ⟨h1, by simpa using h2⟩


/-! ### `mapE`, `lookupLast` -/

theorem mapE_ok_iff {α β : Type} (f : α → Except Err β) (l : List α) (bs : List β) :
    mapE f l = .ok bs ↔ Pointwise (fun a b => f a = .ok b) l bs := by
  induction l generalizing bs with
  | nil =>
    constructor
    · intro h; simp [mapE] at h; subst h; exact .nil
    · intro h; cases h; rfl
  | cons a as ih =>
    constructor
    · intro h
      simp only [mapE] at h
      split at h
      · cases h
      · rename_i b hb
        split at h
        · cases h
        · rename_i bs' hbs
          cases h
          exact .cons hb ((ih bs').1 hbs)
    · intro h
      cases h with
      | cons hb hrest =>
        simp only [mapE, hb, (ih _).2 hrest]

theorem pointwise_mono {α β : Type} {R S : α → β → Prop} (h : ∀ a b, R a b → S a b) {l : List α} {m : List β}
    (p : Pointwise R l m) : Pointwise S l m := by
  induction p with
  | nil => exact .nil
  | cons hr _ ih => exact .cons (h _ _ hr) ih

theorem pointwise_length {α β : Type} {R : α → β → Prop} {l : List α} {m : List β}
    (p : Pointwise R l m) : l.length = m.length := by
  induction p with
  | nil => rfl
  | cons _ _ ih => simp [ih]

theorem lookupLast_zip_none {V : Type} (fs : List String) (as : List V) (v : String)
    (hl : fs.length = as.length) : lookupLast (fs.zip as) v = none ↔ v ∉ fs := by
  induction fs generalizing as with
  | nil => simp [lookupLast]
  | cons f fs ih =>
    cases as with
    | nil => simp at hl
    | cons a as =>
      have hl' : fs.length = as.length := by simpa using hl
      simp only [List.zip_cons_cons, lookupLast]
      have := ih as hl'
      cases h : lookupLast (fs.zip as) v with
      | some w => simp [h] at this; simp [this]
      | none =>
        simp [h] at this
        by_cases hf : f = v
        · simp [hf]
        · simp [hf, this]; exact fun e => hf e.symm

theorem lookupLast_zip_iff {V : Type} (fs : List String) (as : List V) (v : String) (a : V)
    (hl : fs.length = as.length) : lookupLast (fs.zip as) v = some a ↔ Binds fs as v a := by
  induction fs generalizing as with
  | nil =>
    simp [lookupLast, Binds]
  | cons f fs ih =>
    cases as with
    | nil => simp at hl
    | cons a0 as =>
      have hl' : fs.length = as.length := by simpa using hl
      simp only [List.zip_cons_cons, lookupLast]
      constructor
      · intro h
        cases hr : lookupLast (fs.zip as) v with
        | some w =>
          simp [hr] at h; subst h
          obtain ⟨i, h1, h2, h3⟩ := (ih as hl').1 hr
          refine ⟨i + 1, by simpa using h1, by simpa using h2, ?_⟩
          intro j hj
          cases j with
          | zero => omega
          | succ j => simpa using h3 j (by omega)
        | none =>
          simp [hr] at h
          obtain ⟨hf, ha⟩ := h
          subst hf; subst ha
          have hnot := (lookupLast_zip_none fs as f hl').1 hr
          refine ⟨0, by simp, by simp, ?_⟩
          intro j hj
          cases j with
          | zero => omega
          | succ j =>
            simp only [List.getElem?_cons_succ]
            intro hc
            exact hnot (List.mem_of_getElem? hc)
      · rintro ⟨i, h1, h2, h3⟩
        cases i with
        | zero =>
          simp at h1 h2
          subst h1; subst h2
          have hnot : f ∉ fs := by
            intro hm
            obtain ⟨j, hj, hjv⟩ := List.getElem_of_mem hm
            have := h3 (j + 1) (by omega)
            simp [hj, hjv] at this
          have := (lookupLast_zip_none fs as f hl').2 hnot
          simp [this]
        | succ i =>
          have hb : Binds fs as v a := ⟨i, by simpa using h1, by simpa using h2, fun j hj => by
            simpa using h3 (j + 1) (by omega)⟩
          have := (ih as hl').2 hb
          simp [this]

theorem isBinding_lookupLast {V : Type} (fs : List String) (as : List V) (hl : fs.length = as.length) :
    IsBinding fs as (lookupLast (fs.zip as)) :=
  fun v a => lookupLast_zip_iff fs as v a hl

/-- a binding is unique -/
theorem isBinding_unique {V : Type} {fs : List String} {as : List V} {σ τ : String → Option V}
    (h1 : IsBinding fs as σ) (h2 : IsBinding fs as τ) : σ = τ := by
  funext v
  cases hs : σ v with
  | some a => exact ((h2 v a).2 ((h1 v a).1 hs)).symm
  | none =>
    cases ht : τ v with
    | none => rfl
    | some b =>
      have := (h1 v b).2 ((h2 v b).1 ht)
      simp [hs] at this


/-! ### `DefGateSequence::expand` -/

theorem mapE_fixed_ok_iff (qs : List Qubit) (fs : List Nat) :
    mapE fixedQubit qs = .ok fs ↔ qs = fs.map Qubit.fixed := by
  rw [mapE_ok_iff]
  induction qs generalizing fs with
  | nil =>
    constructor
    · intro h; cases h; rfl
    · intro h
      cases fs with
      | nil => exact .nil
      | cons => simp at h
  | cons q qs ih =>
    constructor
    · intro h
      cases h with
      | cons hq hrest =>
        rename_i n fs'
        have := (ih fs').1 hrest
        cases q <;> simp [fixedQubit] at hq
        subst hq; simp [this]
    · intro h
      cases fs with
      | nil => simp at h
      | cons n fs' =>
        simp at h
        obtain ⟨h1, h2⟩ := h
        subst h1
        exact .cons (by simp [fixedQubit]) ((ih fs').2 h2)

theorem substQubit_ok_iff (qm : List (String × Qubit)) (q q' : Qubit) :
    substQubit qm q = .ok q' ↔ ∃ v, q = Qubit.var v ∧ lookupLast qm v = some q' := by
  cases q with
  | fixed n => simp [substQubit]
  | placeholder k => simp [substQubit]
  | var v =>
    simp only [substQubit]
    cases h : lookupLast qm v with
    | none => simp [h]
    | some w => simp [h]

theorem substGate_ok_iff (pm : List (String × Expr K)) (qm : List (String × Qubit)) (e b : Gate K) :
    substGate pm qm e = .ok b ↔ ElemInstance (lookupLast pm) (lookupLast qm) e b := by
  unfold substGate
  constructor
  · intro h
    split at h
    · cases h
    · rename_i qs hqs
      cases h
      refine ⟨rfl, rfl, rfl, ?_⟩
      exact pointwise_mono (fun a b hab => (substQubit_ok_iff qm a b).1 hab) ((mapE_ok_iff _ _ _).1 hqs)
  · rintro ⟨h1, h2, h3, h4⟩
    have := (mapE_ok_iff (substQubit qm) e.qubits b.qubits).2
      (pointwise_mono (fun a b hab => (substQubit_ok_iff qm a b).2 hab) h4)
    simp only [this]
    cases b
    simp_all

theorem expandSeq_ok_iff (qvars : List String) (gates : List (Gate K)) (formals : List String)
    (g : Gate K) (body : List (Gate K)) (hp : formals.length = g.params.length) :
    expandSeq qvars gates (formals.zip g.params) g.qubits = .ok body ↔
      ∃ (fs : List Nat) (σ : String → Option (Expr K)) (ρ : String → Option Qubit),
        g.qubits.length = qvars.length ∧ g.qubits = fs.map Qubit.fixed ∧
        IsBinding formals g.params σ ∧ IsBinding qvars g.qubits ρ ∧
        Pointwise (ElemInstance σ ρ) gates body := by
  unfold expandSeq
  constructor
  · intro h
    split at h
    · cases h
    · rename_i hlen
      have hlen' : g.qubits.length = qvars.length := by simpa using hlen
      split at h
      · cases h
      · rename_i fs hfs
        have hq := (mapE_fixed_ok_iff _ _).1 hfs
        refine ⟨fs, lookupLast (formals.zip g.params), lookupLast (qvars.zip (fs.map Qubit.fixed)), hlen', hq,
          isBinding_lookupLast _ _ hp, ?_, ?_⟩
        · rw [hq]; exact isBinding_lookupLast _ _ (by rw [← hlen', hq])
        · exact pointwise_mono (fun a b hab => (substGate_ok_iff _ _ a b).1 hab) ((mapE_ok_iff _ _ _).1 h)
  · rintro ⟨fs, σ, ρ, hlen, hq, hσ, hρ, hpw⟩
    have hne : ¬ (g.qubits.length ≠ qvars.length) := by simp [hlen]
    simp only [hne, if_false]
    have hfs := (mapE_fixed_ok_iff _ _).2 hq
    simp only [hfs]
    have e1 : σ = lookupLast (formals.zip g.params) := isBinding_unique hσ (isBinding_lookupLast _ _ hp)
    have e2 : ρ = lookupLast (qvars.zip (fs.map Qubit.fixed)) := by
      rw [hq] at hρ
      exact isBinding_unique hρ (isBinding_lookupLast _ _ (by rw [← hlen, hq]))
    subst e1; subst e2
    exact (mapE_ok_iff _ _ _).2 (pointwise_mono (fun a b hab => (substGate_ok_iff _ _ a b).2 hab) hpw)


/-! ### `gate_sequence_from_instruction` -/

theorem gsfi_gate_undefined {defs : List (Def K)} {sel : String → Bool} {g : Gate K} {stack : List String}
    (hf : findDef defs g.name = none) : gateSequenceFromInstruction defs sel (.gate g) stack = .ok none := by
  simp [gateSequenceFromInstruction, hf]

theorem gsfi_gate_other {defs : List (Def K)} {sel : String → Bool} {g : Gate K} {stack : List String} {d : Def K}
    (hf : findDef defs g.name = some d) (hs : d.spec = .other) :
    gateSequenceFromInstruction defs sel (.gate g) stack = .ok none := by
  simp [gateSequenceFromInstruction, hf, hs]

theorem gsfi_gate_seq {defs : List (Def K)} {sel : String → Bool} {g : Gate K} {stack : List String} {d : Def K}
    {qvars : List String} {gates : List (Gate K)}
    (hf : findDef defs g.name = some d) (hs : d.spec = .seq qvars gates) :
    gateSequenceFromInstruction defs sel (.gate g) stack =
      if sel g.name then
        if d.params.length ≠ g.params.length then .error (.paramCount d.params.length g.params.length)
        else if !g.mods.isEmpty then .error (.modifiers g.mods)
        else if stack.contains d.name then .error (.cyclic stack)
        else
          match expandSeq qvars gates (d.params.zip g.params) g.qubits with
          | .error e => .error e
          | .ok gs => .ok (some (gs.map Instr.gate, d.name))
      else .ok none := by
  simp only [gateSequenceFromInstruction, hf, hs]
  rfl

theorem not_selected_of_undefined {defs : List (Def K)} {sel : String → Bool} {g : Gate K}
    (hf : findDef defs g.name = none) : ¬ IsSelectedInvocation defs sel (.gate g) := by
  rintro ⟨g', d', hg, hd, _⟩
  cases hg; rw [hf] at hd; cases hd

theorem not_selected_of_other {defs : List (Def K)} {sel : String → Bool} {g : Gate K} {d : Def K}
    (hf : findDef defs g.name = some d) (hs : d.spec = .other) : ¬ IsSelectedInvocation defs sel (.gate g) := by
  rintro ⟨g', d', hg, hd, ⟨qv, gs, hspec⟩, _⟩
  cases hg; rw [hf] at hd; cases hd; rw [hs] at hspec; cases hspec

theorem gsfi_none_iff (defs : List (Def K)) (sel : String → Bool) (i : Instr K) (stack : List String) :
    gateSequenceFromInstruction defs sel i stack = .ok none ↔ ¬ IsSelectedInvocation defs sel i := by
  cases i with
  | other k => simp [gateSequenceFromInstruction, IsSelectedInvocation]
  | gate g =>
    cases hf : findDef defs g.name with
    | none => simp [gsfi_gate_undefined hf, not_selected_of_undefined hf]
    | some d =>
      cases hs : d.spec with
      | other => simp [gsfi_gate_other hf hs, not_selected_of_other hf hs]
      | seq qvars gates =>
        rw [gsfi_gate_seq hf hs]
        by_cases hsel : sel g.name = true
        · have : IsSelectedInvocation defs sel (.gate g) := ⟨g, d, rfl, hf, ⟨qvars, gates, hs⟩, hsel⟩
          simp only [hsel, if_true, this, not_true, iff_false]
          split
          · simp
          · split
            · simp
            · split
              · simp
              · split <;> simp
        · have : ¬ IsSelectedInvocation defs sel (.gate g) := by
            rintro ⟨g', d', hg, _, _, hs'⟩
            cases hg; exact hsel hs'
          simp [hsel, this]

theorem gsfi_some_iff (defs : List (Def K)) (sel : String → Bool) (i : Instr K) (stack : List String)
    (body' : List (Instr K)) (name : String) :
    gateSequenceFromInstruction defs sel i stack = .ok (some (body', name)) ↔
      ∃ g d body, i = .gate g ∧ Selected defs sel g d ∧ g.mods = [] ∧ d.name ∉ stack ∧
        Instantiates d g body ∧ body' = body.map Instr.gate ∧ name = d.name := by
  cases i with
  | other k => simp [gateSequenceFromInstruction]
  | gate g =>
    cases hf : findDef defs g.name with
    | none =>
      rw [gsfi_gate_undefined hf]
      constructor
      · intro h; cases h
      · rintro ⟨g', d', body, hg, ⟨hd, _⟩, _⟩
        cases hg; rw [hf] at hd; cases hd
    | some d =>
      cases hs : d.spec with
      | other =>
        rw [gsfi_gate_other hf hs]
        constructor
        · intro h; cases h
        · rintro ⟨g', d', body, hg, ⟨hd, ⟨qv, gs, hspec⟩, _⟩, _⟩
          cases hg; rw [hf] at hd; cases hd; rw [hs] at hspec; cases hspec
      | seq qvars gates =>
        rw [gsfi_gate_seq hf hs]
        by_cases hsel : sel g.name = true
        · simp only [hsel, if_true]
          by_cases hpc : d.params.length = g.params.length
          · have hpc' : ¬ (d.params.length ≠ g.params.length) := by simp [hpc]
            simp only [hpc', if_false]
            by_cases hm : g.mods = []
            · simp only [hm, List.isEmpty_nil, Bool.not_true, Bool.false_eq_true, if_false]
              by_cases hst : d.name ∈ stack
              · have : stack.contains d.name = true := by simpa using hst
                simp only [this, if_true]
                constructor
                · intro h; cases h
                · rintro ⟨g', d', body, hg, ⟨hd, _⟩, _, hns, _⟩
                  cases hg; rw [hf] at hd; cases hd; exact absurd hst hns
              · have : stack.contains d.name = false := by simpa using hst
                simp only [this, Bool.false_eq_true, if_false]
                constructor
                · intro h
                  split at h
                  · cases h
                  · rename_i gs hgs
                    simp at h
                    obtain ⟨hb, hn⟩ := h
                    obtain ⟨fs, σ, ρ, h1, h2, h3, h4, h5⟩ := (expandSeq_ok_iff qvars gates d.params g gs hpc).1 hgs
                    exact ⟨g, d, gs, rfl, ⟨hf, ⟨qvars, gates, hs⟩, hsel⟩, hm, hst,
                      ⟨qvars, gates, fs, σ, ρ, hs, hpc.symm, h1, h2, h3, h4, h5⟩, hb.symm, hn.symm⟩
                · rintro ⟨g', d', body, hg, ⟨hd, _, _⟩, _, _, hinst, hb, hn⟩
                  cases hg; rw [hf] at hd; cases hd
                  obtain ⟨qv', gs', fs, σ, ρ, hs', _, h1, h2, h3, h4, h5⟩ := hinst
                  rw [hs] at hs'; cases hs'
                  have := (expandSeq_ok_iff qvars gates d.params g body hpc).2 ⟨fs, σ, ρ, h1, h2, h3, h4, h5⟩
                  simp [this, hb, hn]
            · have : (!g.mods.isEmpty) = true := by
                cases hgm : g.mods with
                | nil => exact absurd hgm hm
                | cons => simp
              simp only [this, if_true]
              constructor
              · intro h; cases h
              · rintro ⟨g', d', body, hg, _, hm', _⟩
                cases hg; exact absurd hm' hm
          · have hpc' : d.params.length ≠ g.params.length := hpc
            rw [if_pos hpc']
            constructor
            · intro h; cases h
            · rintro ⟨g', d', body, hg, ⟨hd, _, _⟩, _, _, hinst, _⟩
              cases hg; rw [hf] at hd; cases hd
              obtain ⟨_, _, _, _, _, _, hl, _⟩ := hinst
              exact absurd hl.symm hpc
        · simp only [hsel, Bool.false_eq_true, if_false]
          constructor
          · intro h; cases h
          · rintro ⟨g', d', body, hg, ⟨_, _, hs'⟩, _⟩
            cases hg; exact absurd hs' hsel


/-! ### the loop: `expandWith` against `Expands` -/

theorem gsfi_some_name {defs : List (Def K)} {sel : String → Bool} {i : Instr K} {stack : List String}
    {body : List (Instr K)} {name : String}
    (h : gateSequenceFromInstruction defs sel i stack = .ok (some (body, name))) :
    name ∉ stack ∧ name ∈ defs.map (·.name) := by
  obtain ⟨g, d, b, _, ⟨hf, _, _⟩, _, hns, _, _, hn⟩ := (gsfi_some_iff _ _ _ _ _ _).1 h
  subst hn
  exact ⟨hns, List.mem_map.2 ⟨d, (findDef_some hf).1, rfl⟩⟩

theorem expands_nil_iff {defs : List (Def K)} {sel : String → Bool} {stack : List String} {out : List (Instr K)} :
    Expands defs sel stack [] out ↔ out = [] := by
  constructor
  · intro h; cases h; rfl
  · intro h; subst h; exact .nil _

theorem expandWith_ok_iff (defs : List (Def K)) (sel : String → Bool)
    (nested : List String → List (Instr K) → Outcome (List (Instr K))) (stack : List String)
    (H : ∀ name body out, name ∉ stack → name ∈ defs.map (·.name) →
      (nested (stack ++ [name]) body = .ok out ↔ Expands defs sel (stack ++ [name]) body out))
    (src out : List (Instr K)) :
    expandWith defs sel nested stack src = .ok out ↔ Expands defs sel stack src out := by
  induction src generalizing out with
  | nil => simp [expandWith, expands_nil_iff, eq_comm]
  | cons i rest ih =>
    simp only [expandWith]
    cases hg : gateSequenceFromInstruction defs sel i stack with
    | error e =>
      simp only
      constructor
      · intro h; cases h
      · intro h
        cases h with
        | keep hn _ => rw [(gsfi_none_iff _ _ _ _).2 hn] at hg; cases hg
        | unfold hsel hm hns hinst _ _ =>
          rw [(gsfi_some_iff _ _ _ _ _ _).2 ⟨_, _, _, rfl, hsel, hm, hns, hinst, rfl, rfl⟩] at hg; cases hg
    | ok o =>
      cases o with
      | none =>
        simp only
        have hn := (gsfi_none_iff _ _ _ _).1 hg
        constructor
        · intro h
          cases hr : expandWith defs sel nested stack rest with
          | ok r =>
            rw [hr] at h; simp at h; subst h
            exact .keep hn ((ih r).1 hr)
          | err e => rw [hr] at h; cases h
          | outOfFuel => rw [hr] at h; cases h
        · intro h
          cases h with
          | keep _ hrest => rw [(ih _).2 hrest]
          | unfold hsel _ _ _ _ _ => exact absurd ⟨_, _, rfl, hsel⟩ hn
      | some p =>
        obtain ⟨body', name⟩ := p
        simp only
        obtain ⟨hns, hnd⟩ := gsfi_some_name hg
        constructor
        · intro h
          obtain ⟨g, d, body, hi, hsel, hm, hns', hinst, hb, hname⟩ := (gsfi_some_iff _ _ _ _ _ _).1 hg
          subst hi; subst hb; subst hname
          cases hb : nested (stack ++ [d.name]) (body.map Instr.gate) with
          | ok b =>
            rw [hb] at h
            cases hr : expandWith defs sel nested stack rest with
            | ok r =>
              rw [hr] at h; simp at h; subst h
              exact .unfold hsel hm hns' hinst ((H _ _ _ hns hnd).1 hb) ((ih r).1 hr)
            | err e => rw [hr] at h; cases h
            | outOfFuel => rw [hr] at h; cases h
          | err e => rw [hb] at h; cases h
          | outOfFuel => rw [hb] at h; cases h
        · intro h
          cases h with
          | keep hn _ => rw [(gsfi_none_iff _ _ _ _).2 hn] at hg; cases hg
          | unfold hsel hm hns' hinst hbody hrest =>
            rw [(gsfi_some_iff _ _ _ _ _ _).2 ⟨_, _, _, rfl, hsel, hm, hns', hinst, rfl, rfl⟩] at hg
            simp at hg
            obtain ⟨e1, e2⟩ := hg
            subst e1; subst e2
            rw [(H _ _ _ hns hnd).2 hbody, (ih _).2 hrest]

theorem expandFuel_ok_iff (defs : List (Def K)) (sel : String → Bool) (fuel : Nat) (stack : List String)
    (src out : List (Instr K)) (hf : remaining defs stack < fuel) :
    expandFuel defs sel fuel stack src = .ok out ↔ Expands defs sel stack src out := by
  induction fuel generalizing stack src out with
  | zero => omega
  | succ n ih =>
    simp only [expandFuel]
    apply expandWith_ok_iff
    intro name body out' hns hnd
    exact ih _ _ _ (by have := remaining_push_lt defs stack name hnd hns; omega)

theorem expandWith_ne_outOfFuel (defs : List (Def K)) (sel : String → Bool)
    (nested : List String → List (Instr K) → Outcome (List (Instr K))) (stack : List String)
    (H : ∀ name body, name ∉ stack → name ∈ defs.map (·.name) → nested (stack ++ [name]) body ≠ .outOfFuel)
    (src : List (Instr K)) :
    expandWith defs sel nested stack src ≠ .outOfFuel := by
  induction src with
  | nil => simp [expandWith]
  | cons i rest ih =>
    simp only [expandWith]
    cases hg : gateSequenceFromInstruction defs sel i stack with
    | error e => simp
    | ok o =>
      cases o with
      | none =>
        simp only
        cases hr : expandWith defs sel nested stack rest with
        | ok r => simp
        | err e => simp
        | outOfFuel => exact absurd hr ih
      | some p =>
        obtain ⟨body', name⟩ := p
        simp only
        obtain ⟨hns, hnd⟩ := gsfi_some_name hg
        cases hb : nested (stack ++ [name]) body' with
        | ok b =>
          simp only
          cases hr : expandWith defs sel nested stack rest with
          | ok r => simp
          | err e => simp
          | outOfFuel => exact absurd hr ih
        | err e => simp
        | outOfFuel => exact absurd hb (H _ _ hns hnd)

theorem expandFuel_ne_outOfFuel (defs : List (Def K)) (sel : String → Bool) (fuel : Nat) (stack : List String)
    (src : List (Instr K)) (hf : remaining defs stack < fuel) :
    expandFuel defs sel fuel stack src ≠ .outOfFuel := by
  induction fuel generalizing stack src with
  | zero => omega
  | succ n ih =>
    simp only [expandFuel]
    apply expandWith_ne_outOfFuel
    intro name body hns hnd
    exact ih _ _ (by have := remaining_push_lt defs stack name hnd hns; omega)


/-! ### reachability (`has_path_connecting`) -/

theorem mem_mentions_iff (defs : List (Def K)) (u v : String) : v ∈ mentions defs u ↔ Mentions defs u v := by
  unfold mentions Mentions
  cases hf : findDef defs u with
  | none => simp
  | some d =>
    cases hs : d.spec with
    | other =>
      simp only [hs, List.not_mem_nil, false_iff]
      rintro ⟨d', qv, gs, e, hd, hspec, _⟩
      cases hd; rw [hs] at hspec; cases hspec
    | seq qvars gates =>
      simp only [hs, List.mem_filter, List.mem_map, List.contains_eq_mem, decide_eq_true_eq]
      constructor
      · rintro ⟨⟨e, he, hn⟩, hv⟩
        exact ⟨d, qvars, gates, e, rfl, hs, he, hn, hv⟩
      · rintro ⟨d', qv, gs, e, hd, hspec, he, hn, hv⟩
        cases hd; rw [hs] at hspec; cases hspec
        exact ⟨⟨e, he, hn⟩, hv⟩

/-- a path all of whose nodes after the first lie in `A` -/
inductive PathVia (defs : List (Def K)) (A : List String) : String → String → Prop
  | refl (u) : PathVia defs A u u
  | step {u v d} : Mentions defs u v → v ∈ A → PathVia defs A v d → PathVia defs A u d

theorem reachIn_sound (defs : List (Def K)) (f : Nat) (A : List String) (u d : String)
    (h : reachIn defs f A u d = true) : Reach defs u d := by
  induction f generalizing A u with
  | zero => simp [reachIn] at h
  | succ n ih =>
    simp only [reachIn, Bool.or_eq_true, beq_iff_eq, List.any_eq_true, Bool.and_eq_true] at h
    rcases h with h | ⟨v, hv, _, hr⟩
    · subst h; exact .refl _
    · exact .step ((mem_mentions_iff _ _ _).1 hv) (ih _ _ hr)

theorem pathVia_avoid {defs : List (Def K)} {A : List String} {x d : String} (h : PathVia defs A x d)
    (v : String) : PathVia defs (A.filter (· != v)) x d ∨ PathVia defs (A.filter (· != v)) v d := by
  induction h with
  | refl u => exact .inl (.refl _)
  | @step u' y d' hm hv _ ih =>
    rcases ih with ih | ih
    · by_cases hy : y = v
      · subst hy; exact .inr ih
      · exact .inl (.step hm (by simp [hv, hy]) ih)
    · exact .inr ih

theorem reachIn_complete (defs : List (Def K)) (f : Nat) (A : List String) (u d : String)
    (h : PathVia defs A u d) (hf : A.length < f) : reachIn defs f A u d = true := by
  induction f generalizing A u with
  | zero => omega
  | succ n ih =>
    simp only [reachIn, Bool.or_eq_true, beq_iff_eq, List.any_eq_true, Bool.and_eq_true]
    cases h with
    | refl => exact .inl rfl
    | @step _ v _ hm hv hrest =>
      right
      refine ⟨v, (mem_mentions_iff _ _ _).2 hm, by simpa using hv, ?_⟩
      have hp : PathVia defs (A.filter (· != v)) v d := by
        rcases pathVia_avoid hrest v with h | h <;> exact h
      apply ih _ _ hp
      have := filter_len_lt (fun x => x != v) (fun _ => true) (fun _ _ => rfl) A v hv rfl (by simp)
      have e : (A.filter fun _ => true) = A := by simp
      rw [e] at this
      omega

theorem reach_to_pathVia {defs : List (Def K)} {u d : String} (h : Reach defs u d) :
    PathVia defs (seqNames defs) u d := by
  induction h with
  | refl u => exact .refl _
  | @step _ _ _ hm _ ih =>
    have hv := hm.choose_spec.choose_spec.choose_spec.choose_spec.2.2.2.2
    exact .step hm hv ih

theorem reach_iff (defs : List (Def K)) (u d : String) : reach defs u d = true ↔ Reach defs u d :=
  ⟨reachIn_sound _ _ _ _ _, fun h => reachIn_complete _ _ _ _ _ (reach_to_pathVia h) (Nat.lt_succ_self _)⟩


/-! ### the closure `reachFrom` -/

theorem mem_foldl_addNew (visited l acc : List String) (y : String) :
    y ∈ l.foldl (addNew visited) acc ↔ y ∈ acc ∨ (y ∈ l ∧ y ∉ visited) := by
  induction l generalizing acc with
  | nil => simp
  | cons x xs ih =>
    simp only [List.foldl_cons]
    rw [ih]
    unfold addNew
    by_cases h : (visited.contains x || acc.contains x) = true
    · simp only [h, if_true]
      simp only [Bool.or_eq_true, List.contains_eq_mem, decide_eq_true_eq] at h
      constructor
      · rintro (h1 | ⟨h1, h2⟩)
        · exact .inl h1
        · exact .inr ⟨by simp [h1], h2⟩
      · rintro (h1 | ⟨h1, h2⟩)
        · exact .inl h1
        · cases h1 with
          | head =>
            rcases h with h | h
            · exact absurd h h2
            · exact .inl h
          | tail _ h1' => exact .inr ⟨h1', h2⟩
    · simp only [h]
      simp only [Bool.or_eq_true, List.contains_eq_mem, decide_eq_true_eq, not_or] at h
      constructor
      · rintro (h1 | ⟨h1, h2⟩)
        · rcases List.mem_append.1 h1 with h1 | h1
          · exact .inl h1
          · simp at h1; subst h1; exact .inr ⟨by simp, h.1⟩
        · exact .inr ⟨by simp [h1], h2⟩
      · rintro (h1 | ⟨h1, h2⟩)
        · exact .inl (by simp [h1])
        · cases h1 with
          | head => exact .inl (by simp)
          | tail _ h1' => exact .inr ⟨h1', h2⟩

theorem mem_newNodes (defs : List (Def K)) (frontier visited : List String) (y : String) :
    y ∈ newNodes defs frontier visited ↔ (∃ x ∈ frontier, Mentions defs x y) ∧ y ∉ visited := by
  unfold newNodes
  rw [mem_foldl_addNew]
  simp only [List.not_mem_nil, false_or, List.mem_flatMap, mem_mentions_iff]

theorem reach_snoc {defs : List (Def K)} {u x y : String} (h : Reach defs u x) (hm : Mentions defs x y) :
    Reach defs u y := by
  induction h with
  | refl => exact .step hm (.refl _)
  | step h1 _ ih => exact .step h1 (ih hm)

theorem bfs_sound (defs : List (Def K)) (S : List String) (fuel : Nat) (frontier visited : List String)
    (hv : ∀ x ∈ visited, ∃ u ∈ S, Reach defs u x) (hf : ∀ x ∈ frontier, x ∈ visited) :
    ∀ n ∈ bfs defs fuel frontier visited, ∃ u ∈ S, Reach defs u n := by
  induction fuel generalizing frontier visited with
  | zero => simpa [bfs] using hv
  | succ f ih =>
    simp only [bfs]
    split
    · exact hv
    · apply ih
      · intro x hx
        rcases List.mem_append.1 hx with hx | hx
        · exact hv x hx
        · obtain ⟨⟨w, hw, hm⟩, _⟩ := (mem_newNodes defs frontier visited x).1 hx
          obtain ⟨u, hu, hr⟩ := hv w (hf w hw)
          exact ⟨u, hu, reach_snoc hr hm⟩
      · intro x hx; exact List.mem_append.2 (.inr hx)

/-- how many sequence names are not yet visited -/
def unvisited (defs : List (Def K)) (visited : List String) : Nat :=
  ((seqNames defs).filter fun n => decide (n ∉ visited)).length

theorem mentions_target_seq {defs : List (Def K)} {x y : String} (h : Mentions defs x y) : y ∈ seqNames defs :=
  h.choose_spec.choose_spec.choose_spec.choose_spec.2.2.2.2

theorem bfs_closed (defs : List (Def K)) (fuel : Nat) (frontier visited : List String)
    (hfuel : unvisited defs visited < fuel)
    (hf : ∀ x ∈ frontier, x ∈ visited)
    (hinv : ∀ x ∈ visited, x ∉ frontier → ∀ y, Mentions defs x y → y ∈ visited) :
    (∀ x ∈ visited, x ∈ bfs defs fuel frontier visited) ∧
    (∀ x ∈ bfs defs fuel frontier visited, ∀ y, Mentions defs x y → y ∈ bfs defs fuel frontier visited) := by
  induction fuel generalizing frontier visited with
  | zero => omega
  | succ f ih =>
    simp only [bfs]
    by_cases hnew : (newNodes defs frontier visited).isEmpty = true
    · simp only [hnew, if_true]
      refine ⟨fun x hx => hx, ?_⟩
      intro x hx y hm
      by_cases hxf : x ∈ frontier
      · by_cases hy : y ∈ visited
        · exact hy
        · have : y ∈ newNodes defs frontier visited := (mem_newNodes _ _ _ _).2 ⟨⟨x, hxf, hm⟩, hy⟩
          rw [List.isEmpty_iff] at hnew
          rw [hnew] at this; simp at this
      · exact hinv x hx hxf y hm
    · simp only [hnew]
      have hne : newNodes defs frontier visited ≠ [] := by
        intro h; rw [h] at hnew; simp at hnew
      obtain ⟨y0, hy0⟩ := List.exists_mem_of_ne_nil _ hne
      obtain ⟨⟨x0, hx0, hm0⟩, hy0v⟩ := (mem_newNodes _ _ _ _).1 hy0
      have hdec : unvisited defs (visited ++ newNodes defs frontier visited) < unvisited defs visited := by
        unfold unvisited
        apply filter_len_lt _ _ _ _ y0 (mentions_target_seq hm0)
        · simpa using hy0v
        · simp; exact fun _ => hy0
        · intro x hx
          simp at hx ⊢
          exact hx.1
      have := ih (newNodes defs frontier visited) (visited ++ newNodes defs frontier visited) (by omega)
        (fun x hx => List.mem_append.2 (.inr hx))
        (by
          intro x hx hxn y hm
          rcases List.mem_append.1 hx with hx | hx
          · by_cases hxf : x ∈ frontier
            · by_cases hy : y ∈ visited
              · exact List.mem_append.2 (.inl hy)
              · exact List.mem_append.2 (.inr ((mem_newNodes _ _ _ _).2 ⟨⟨x, hxf, hm⟩, hy⟩))
            · exact List.mem_append.2 (.inl (hinv x hx hxf y hm))
          · exact absurd hx hxn)
      exact ⟨fun x hx => this.1 x (List.mem_append.2 (.inl hx)), this.2⟩

theorem mem_reachFrom_iff (defs : List (Def K)) (S : List String) (n : String) :
    n ∈ reachFrom defs S ↔ ∃ u ∈ S, Reach defs u n := by
  unfold reachFrom
  constructor
  · exact bfs_sound defs S _ S S (fun x hx => ⟨x, hx, .refl _⟩) (fun x hx => hx) n
  · rintro ⟨u, hu, hr⟩
    have hc := bfs_closed defs ((seqNames defs).length + 1) S S
      (by unfold unvisited; have := List.length_filter_le (fun n => decide (n ∉ S)) (seqNames defs); omega)
      (fun x hx => hx) (fun x hx hxn => absurd hx hxn)
    have hu' := hc.1 u hu
    clear hu
    induction hr with
    | refl => exact hu'
    | step hm _ ih => exact ih (hc.2 _ hu' _ hm)

/-! ### errors -/

theorem mapE_total {α β : Type} (f : α → Except Err β) (l : List α) (h : ∀ a ∈ l, ∃ b, f a = .ok b) :
    ∃ bs, mapE f l = .ok bs := by
  induction l with
  | nil => exact ⟨[], rfl⟩
  | cons a as ih =>
    obtain ⟨b, hb⟩ := h a (by simp)
    obtain ⟨bs, hbs⟩ := ih fun x hx => h x (by simp [hx])
    exact ⟨b :: bs, by simp [mapE, hb, hbs]⟩

theorem mapE_fixed_error_iff (qs : List Qubit) (e : Err) :
    mapE fixedQubit qs = .error e ↔
      ∃ (fs : List Nat) (q : Qubit) (post : List Qubit),
        qs = fs.map Qubit.fixed ++ q :: post ∧ (∀ n, q ≠ Qubit.fixed n) ∧ e = .nonFixedQubit q := by
  induction qs with
  | nil =>
    simp only [mapE]
    constructor
    · intro h; cases h
    · rintro ⟨fs, q, post, h, _⟩
      cases fs <;> simp at h
  | cons q qs ih =>
    simp only [mapE]
    cases q with
    | fixed n =>
      simp only [fixedQubit]
      cases hr : mapE fixedQubit qs with
      | error e' =>
        simp only
        constructor
        · intro h
          cases h
          obtain ⟨fs, q, post, h1, h2, h3⟩ := ih.1 hr
          exact ⟨n :: fs, q, post, by simp [h1], h2, h3⟩
        · rintro ⟨fs, q, post, h1, h2, h3⟩
          cases fs with
          | nil => simp at h1; exact absurd h1.1.symm (h2 n)
          | cons n' fs' =>
            simp at h1
            have := ih.2 ⟨fs', q, post, h1.2, h2, h3⟩
            rw [hr] at this; exact this
      | ok fs0 =>
        simp only
        constructor
        · intro h; cases h
        · rintro ⟨fs, q, post, h1, h2, h3⟩
          cases fs with
          | nil => simp at h1; exact absurd h1.1.symm (h2 n)
          | cons n' fs' =>
            simp at h1
            have := ih.2 ⟨fs', q, post, h1.2, h2, h3⟩
            rw [hr] at this; cases this
    | placeholder k =>
      simp only [fixedQubit]
      constructor
      · intro h; cases h
        exact ⟨[], .placeholder k, qs, by simp, by simp, rfl⟩
      · rintro ⟨fs, q, post, h1, h2, h3⟩
        cases fs with
        | nil => simp at h1; rw [h3, ← h1.1]
        | cons n' fs' => simp at h1
    | var v =>
      simp only [fixedQubit]
      constructor
      · intro h; cases h
        exact ⟨[], .var v, qs, by simp, by simp, rfl⟩
      · rintro ⟨fs, q, post, h1, h2, h3⟩
        cases fs with
        | nil => simp at h1; rw [h3, ← h1.1]
        | cons n' fs' => simp at h1

/-- the elements of a validated sequence always instantiate -/
theorem substGates_total (pm : List (String × Expr K)) (qvars : List String) (fs : List Nat)
    (gates : List (Gate K)) (hl : qvars.length = fs.length)
    (hw : ∀ e ∈ gates, ∀ q ∈ e.qubits, ∃ v, q = Qubit.var v ∧ v ∈ qvars) :
    ∃ bs, mapE (substGate pm (qvars.zip (fs.map Qubit.fixed))) gates = .ok bs := by
  apply mapE_total
  intro e he
  unfold substGate
  have : ∃ qs, mapE (substQubit (qvars.zip (fs.map Qubit.fixed))) e.qubits = .ok qs := by
    apply mapE_total
    intro q hq
    obtain ⟨v, hv, hmem⟩ := hw e he q hq
    subst hv
    simp only [substQubit]
    cases hl' : lookupLast (qvars.zip (fs.map Qubit.fixed)) v with
    | some w => exact ⟨w, rfl⟩
    | none =>
      have := (lookupLast_zip_none qvars (fs.map Qubit.fixed) v (by simp [hl])).1 hl'
      exact absurd hmem this
  obtain ⟨qs, hqs⟩ := this
  simp [hqs]

theorem mapE_error_iff {α β : Type} (f : α → Except Err β) (l : List α) (e : Err) :
    mapE f l = .error e ↔
      ∃ pre a post, l = pre ++ a :: post ∧ (∀ x ∈ pre, ∃ b, f x = .ok b) ∧ f a = .error e := by
  induction l with
  | nil =>
    simp only [mapE]
    constructor
    · intro h; cases h
    · rintro ⟨pre, a, post, h, _⟩
      cases pre <;> simp at h
  | cons a as ih =>
    simp only [mapE]
    cases hfa : f a with
    | error e' =>
      simp only
      constructor
      · intro h; cases h
        exact ⟨[], a, as, rfl, by simp, hfa⟩
      · rintro ⟨pre, a', post, h1, h2, h3⟩
        cases pre with
        | nil => simp at h1; rw [← h1.1, hfa] at h3; cases h3; rfl
        | cons x pre' =>
          simp at h1
          obtain ⟨b, hb⟩ := h2 x (by simp)
          rw [← h1.1, hfa] at hb; cases hb
    | ok b =>
      simp only
      cases hr : mapE f as with
      | error e'' =>
        simp only
        rw [hr] at ih
        constructor
        · intro h
          obtain ⟨pre, a', post, h1, h2, h3⟩ := ih.1 h
          refine ⟨a :: pre, a', post, by simp [h1], ?_, h3⟩
          intro x hx
          cases hx with
          | head => exact ⟨b, hfa⟩
          | tail _ hx' => exact h2 x hx'
        · rintro ⟨pre, a', post, h1, h2, h3⟩
          cases pre with
          | nil => simp at h1; rw [← h1.1, hfa] at h3; cases h3
          | cons x pre' =>
            simp at h1
            exact ih.2 ⟨pre', a', post, h1.2, fun y hy => h2 y (by simp [hy]), h3⟩
      | ok bs =>
        simp only
        rw [hr] at ih
        constructor
        · intro h; cases h
        · rintro ⟨pre, a', post, h1, h2, h3⟩
          cases pre with
          | nil => simp at h1; rw [← h1.1, hfa] at h3; cases h3
          | cons x pre' =>
            simp at h1
            have := ih.2 ⟨pre', a', post, h1.2, fun y hy => h2 y (by simp [hy]), h3⟩
            cases this

theorem mapE_ok_exists_iff {α β : Type} (f : α → Except Err β) (l : List α) :
    (∃ bs, mapE f l = .ok bs) ↔ ∀ a ∈ l, ∃ b, f a = .ok b := by
  constructor
  · rintro ⟨bs, h⟩
    have hp := (mapE_ok_iff f l bs).1 h
    clear h
    induction hp with
    | nil => simp
    | cons hab _ ih =>
      intro x hx
      cases hx with
      | head => exact ⟨_, hab⟩
      | tail _ hx' => exact ih x hx'
  · exact mapE_total f l

theorem substQubit_zip_ok_iff (qvars : List String) (fs : List Nat) (hl : qvars.length = fs.length) (q : Qubit) :
    (∃ q', substQubit (qvars.zip (fs.map Qubit.fixed)) q = .ok q') ↔ ∃ v, q = Qubit.var v ∧ v ∈ qvars := by
  constructor
  · rintro ⟨q', h⟩
    obtain ⟨v, hv, hlk⟩ := (substQubit_ok_iff _ _ _).1 h
    refine ⟨v, hv, ?_⟩
    by_cases hm : v ∈ qvars
    · exact hm
    · have := (lookupLast_zip_none qvars (fs.map Qubit.fixed) v (by simp [hl])).2 hm
      rw [this] at hlk; cases hlk
  · rintro ⟨v, hv, hm⟩
    subst hv
    simp only [substQubit]
    cases hlk : lookupLast (qvars.zip (fs.map Qubit.fixed)) v with
    | some w => exact ⟨w, rfl⟩
    | none =>
      exact absurd hm ((lookupLast_zip_none qvars (fs.map Qubit.fixed) v (by simp [hl])).1 hlk)

theorem substQubit_zip_error_iff (qvars : List String) (fs : List Nat) (hl : qvars.length = fs.length)
    (q : Qubit) (e : Err) :
    substQubit (qvars.zip (fs.map Qubit.fixed)) q = .error e ↔
      ((∀ v, q ≠ Qubit.var v) ∧ e = .invalidElemQubit q) ∨
      (∃ v, q = Qubit.var v ∧ v ∉ qvars ∧ e = .undefinedElemQubit v) := by
  cases q with
  | fixed n =>
    simp only [substQubit]
    constructor
    · intro h; cases h; exact .inl ⟨by simp, rfl⟩
    · rintro (⟨_, h⟩ | ⟨v, h, _⟩)
      · rw [h]
      · cases h
  | placeholder k =>
    simp only [substQubit]
    constructor
    · intro h; cases h; exact .inl ⟨by simp, rfl⟩
    · rintro (⟨_, h⟩ | ⟨v, h, _⟩)
      · rw [h]
      · cases h
  | var v =>
    simp only [substQubit]
    cases hlk : lookupLast (qvars.zip (fs.map Qubit.fixed)) v with
    | some w =>
      simp only
      have hm : v ∈ qvars := by
        by_cases hm : v ∈ qvars
        · exact hm
        · have := (lookupLast_zip_none qvars (fs.map Qubit.fixed) v (by simp [hl])).2 hm
          rw [this] at hlk; cases hlk
      constructor
      · intro h; cases h
      · rintro (⟨h, _⟩ | ⟨v', h1, h2, _⟩)
        · exact absurd rfl (h v)
        · cases h1; exact absurd hm h2
    | none =>
      simp only
      have hm := (lookupLast_zip_none qvars (fs.map Qubit.fixed) v (by simp [hl])).1 hlk
      constructor
      · intro h; cases h; exact .inr ⟨v, rfl, hm, rfl⟩
      · rintro (⟨h, _⟩ | ⟨v', h1, _, h3⟩)
        · exact absurd rfl (h v)
        · cases h1; rw [h3]

theorem all_bound_iff (qvars : List String) (pre : List Qubit) :
    (∀ x ∈ pre, ∃ v, x = Qubit.var v ∧ v ∈ qvars) ↔ ∃ vs : List String, pre = vs.map Qubit.var ∧ ∀ v ∈ vs, v ∈ qvars := by
  induction pre with
  | nil => simp
  | cons x xs ih =>
    constructor
    · intro h
      obtain ⟨v, hv, hm⟩ := h x (by simp)
      obtain ⟨vs, h1, h2⟩ := ih.1 fun y hy => h y (by simp [hy])
      refine ⟨v :: vs, by simp [hv, h1], ?_⟩
      intro w hw
      cases hw with
      | head => exact hm
      | tail _ hw' => exact h2 w hw'
    · rintro ⟨vs, h1, h2⟩
      cases vs with
      | nil => simp at h1
      | cons v vs' =>
        simp at h1
        intro y hy
        cases hy with
        | head => exact ⟨v, h1.1, h2 v (by simp)⟩
        | tail _ hy' => exact ih.2 ⟨vs', h1.2, fun w hw => h2 w (by simp [hw])⟩ y hy'

theorem substGate_zip_ok_iff (pm : List (String × Expr K)) (qvars : List String) (fs : List Nat)
    (hl : qvars.length = fs.length) (e : Gate K) :
    (∃ b, substGate pm (qvars.zip (fs.map Qubit.fixed)) e = .ok b) ↔ BoundQubits qvars e := by
  unfold BoundQubits
  rw [← show (∀ a ∈ e.qubits, ∃ b, substQubit (qvars.zip (fs.map Qubit.fixed)) a = .ok b) ↔ _ from
    forall_congr' fun q => imp_congr_right fun _ => substQubit_zip_ok_iff qvars fs hl q]
  rw [← mapE_ok_exists_iff]
  unfold substGate
  constructor
  · rintro ⟨b, h⟩
    split at h
    · cases h
    · rename_i qs hqs; exact ⟨qs, hqs⟩
  · rintro ⟨qs, hqs⟩
    simp [hqs]

theorem substGate_error_iff (pm : List (String × Expr K)) (qm : List (String × Qubit)) (e : Gate K) (err : Err) :
    substGate pm qm e = .error err ↔ mapE (substQubit qm) e.qubits = .error err := by
  unfold substGate
  cases h : mapE (substQubit qm) e.qubits with
  | error e' => simp
  | ok qs => simp

theorem mapE_substGate_error_iff (pm : List (String × Expr K)) (qvars : List String) (fs : List Nat)
    (hl : qvars.length = fs.length) (gates : List (Gate K)) (err : Err) :
    mapE (substGate pm (qvars.zip (fs.map Qubit.fixed))) gates = .error err ↔ ElemErr qvars gates err := by
  rw [mapE_error_iff]
  constructor
  · rintro ⟨pre, e, post, h1, h2, h3⟩
    subst h1
    have hpre : ∀ e' ∈ pre, BoundQubits qvars e' := fun e' he' =>
      (substGate_zip_ok_iff pm qvars fs hl e').1 (h2 e' he')
    rw [substGate_error_iff, mapE_error_iff] at h3
    obtain ⟨qpre, q, rest, hq1, hq2, hq3⟩ := h3
    have hb : ∀ x ∈ qpre, ∃ v, x = Qubit.var v ∧ v ∈ qvars := fun x hx =>
      (substQubit_zip_ok_iff qvars fs hl x).1 (hq2 x hx)
    obtain ⟨vs, hvs, hvm⟩ := (all_bound_iff qvars qpre).1 hb
    subst hvs
    rcases (substQubit_zip_error_iff qvars fs hl q err).1 hq3 with ⟨hnv, he⟩ | ⟨v, hv, hnm, he⟩
    · subst he; exact .invalid hpre hq1 hvm hnv
    · subst he; subst hv; exact .undefined hpre hq1 hvm hnm
  · intro h
    cases h with
    | @invalid pre e post vs q rest hpre hq hvs hnv =>
      refine ⟨pre, e, post, rfl, fun x hx => (substGate_zip_ok_iff pm qvars fs hl x).2 (hpre x hx), ?_⟩
      rw [substGate_error_iff, mapE_error_iff]
      refine ⟨vs.map Qubit.var, q, rest, hq, ?_, ?_⟩
      · intro x hx
        exact (substQubit_zip_ok_iff qvars fs hl x).2 ((all_bound_iff qvars _).2 ⟨vs, rfl, hvs⟩ x hx)
      · exact (substQubit_zip_error_iff qvars fs hl q _).2 (.inl ⟨hnv, rfl⟩)
    | @undefined pre e post vs v rest hpre hq hvs hnm =>
      refine ⟨pre, e, post, rfl, fun x hx => (substGate_zip_ok_iff pm qvars fs hl x).2 (hpre x hx), ?_⟩
      rw [substGate_error_iff, mapE_error_iff]
      refine ⟨vs.map Qubit.var, .var v, rest, hq, ?_, ?_⟩
      · intro x hx
        exact (substQubit_zip_ok_iff qvars fs hl x).2 ((all_bound_iff qvars _).2 ⟨vs, rfl, hvs⟩ x hx)
      · exact (substQubit_zip_error_iff qvars fs hl _ _).2 (.inr ⟨v, rfl, hnm, rfl⟩)

theorem expandSeq_error_iff (qvars : List String) (gates : List (Gate K)) (pm : List (String × Expr K))
    (qargs : List Qubit) (e : Err) :
    expandSeq qvars gates pm qargs = .error e ↔
      (qargs.length ≠ qvars.length ∧ e = .qubitCount qvars.length qargs.length) ∨
      (qargs.length = qvars.length ∧ ∃ (fs : List Nat) (q : Qubit) (post : List Qubit),
        qargs = fs.map Qubit.fixed ++ q :: post ∧ (∀ n, q ≠ Qubit.fixed n) ∧ e = .nonFixedQubit q) ∨
      (qargs.length = qvars.length ∧ ∃ fs : List Nat, qargs = fs.map Qubit.fixed ∧ ElemErr qvars gates e) := by
  unfold expandSeq
  by_cases hlen : qargs.length = qvars.length
  · have hne : ¬ (qargs.length ≠ qvars.length) := by simp [hlen]
    rw [if_neg hne]
    cases hf : mapE fixedQubit qargs with
    | error e' =>
      simp only
      have key := mapE_fixed_error_iff qargs e
      rw [hf] at key
      constructor
      · intro h; cases h; exact .inr (.inl ⟨hlen, key.1 rfl⟩)
      · rintro (⟨h, _⟩ | ⟨_, h⟩ | ⟨_, fs, hq, _⟩)
        · exact absurd hlen h
        · have := key.2 h; cases this; rfl
        · have := (mapE_fixed_ok_iff qargs fs).2 hq
          rw [hf] at this; cases this
    | ok fs =>
      simp only
      have hq := (mapE_fixed_ok_iff _ _).1 hf
      have hl : qvars.length = fs.length := by rw [← hlen, hq]; simp
      rw [mapE_substGate_error_iff pm qvars fs hl gates e]
      constructor
      · intro h; exact .inr (.inr ⟨hlen, fs, hq, h⟩)
      · rintro (⟨h, _⟩ | ⟨_, h⟩ | ⟨_, fs', _, h⟩)
        · exact absurd hlen h
        · have := (mapE_fixed_error_iff qargs e).2 h
          rw [hf] at this; cases this
        · exact h
  · have hne : qargs.length ≠ qvars.length := hlen
    rw [if_pos hne]
    constructor
    · intro h; cases h; exact .inl ⟨hne, rfl⟩
    · rintro (⟨_, h⟩ | ⟨h, _⟩ | ⟨h, _⟩)
      · rw [h]
      · exact absurd h hlen
      · exact absurd h hlen

theorem gsfi_error_iff (defs : List (Def K)) (sel : String → Bool) (i : Instr K) (stack : List String) (e : Err) :
    gateSequenceFromInstruction defs sel i stack = .error e ↔ LocalErr defs sel stack i e := by
  cases i with
  | other k =>
    simp only [gateSequenceFromInstruction]
    constructor
    · intro h; cases h
    · intro h; cases h
  | gate g =>
    cases hf : findDef defs g.name with
    | none =>
      rw [gsfi_gate_undefined hf]
      constructor
      · intro h; cases h
      · intro h
        have : IsSelectedInvocation defs sel (.gate g) := by
          cases h <;> exact ⟨_, _, rfl, ‹Selected defs sel g _›⟩
        exact absurd this (not_selected_of_undefined hf)
    | some d =>
      cases hs : d.spec with
      | other =>
        rw [gsfi_gate_other hf hs]
        constructor
        · intro h; cases h
        · intro h
          have : IsSelectedInvocation defs sel (.gate g) := by
            cases h <;> exact ⟨_, _, rfl, ‹Selected defs sel g _›⟩
          exact absurd this (not_selected_of_other hf hs)
      | seq qvars gates =>
        have hsd : ∀ {d'}, Selected defs sel g d' → d' = d := by
          intro d' h; have := hf.symm.trans h.1; simp at this; exact this.symm
        rw [gsfi_gate_seq hf hs]
        by_cases hsel : sel g.name = true
        · have hS : Selected defs sel g d := ⟨hf, ⟨qvars, gates, hs⟩, hsel⟩
          simp only [hsel, if_true]
          by_cases hpc : d.params.length = g.params.length
          · have hpc' : ¬ (d.params.length ≠ g.params.length) := by simp [hpc]
            simp only [hpc', if_false]
            by_cases hm : g.mods = []
            · simp only [hm, List.isEmpty_nil, Bool.not_true, Bool.false_eq_true, if_false]
              by_cases hst : d.name ∈ stack
              · have : stack.contains d.name = true := by simpa using hst
                simp only [this, if_true]
                constructor
                · intro h; cases h; exact .cyclic hS hpc hm hst
                · intro h
                  cases h with
                  | paramCount h1 h2 => cases hsd h1; exact absurd hpc h2
                  | modifiers h1 _ h3 => exact absurd hm h3
                  | cyclic _ _ _ _ => rfl
                  | qubitCount h1 _ _ h4 _ _ => cases hsd h1; exact absurd hst h4
                  | nonFixed h1 _ _ h4 _ _ _ _ => cases hsd h1; exact absurd hst h4
                  | elem h1 _ _ h4 _ _ _ _ => cases hsd h1; exact absurd hst h4
              · have : stack.contains d.name = false := by simpa using hst
                simp only [this, Bool.false_eq_true, if_false]
                have key := expandSeq_error_iff qvars gates (d.params.zip g.params) g.qubits e
                constructor
                · intro h
                  have h' : expandSeq qvars gates (d.params.zip g.params) g.qubits = .error e := by
                    split at h
                    · rename_i e' he'; cases h; exact he'
                    · cases h
                  rcases key.1 h' with ⟨h1, h2⟩ | ⟨h1, fs, q, post, h2, h3, h4⟩ | ⟨h1, fs, h2, h3⟩
                  · subst h2; exact .qubitCount hS hpc hm hst hs h1
                  · subst h4; exact .nonFixed hS hpc hm hst hs h1 h2 h3
                  · exact .elem hS hpc hm hst hs h1 h2 h3
                · intro h
                  have h' : expandSeq qvars gates (d.params.zip g.params) g.qubits = .error e := by
                    apply key.2
                    cases h with
                    | paramCount h1 h2 => cases hsd h1; exact absurd hpc h2
                    | modifiers h1 _ h3 => exact absurd hm h3
                    | cyclic h1 _ _ h4 => cases hsd h1; exact absurd h4 hst
                    | qubitCount h1 _ _ _ h5 h6 =>
                      cases hsd h1; rw [hs] at h5; cases h5
                      exact .inl ⟨h6, rfl⟩
                    | nonFixed h1 _ _ _ h5 h6 h7 h8 =>
                      cases hsd h1; rw [hs] at h5; cases h5
                      exact .inr (.inl ⟨h6, _, _, _, h7, h8, rfl⟩)
                    | elem h1 _ _ _ h5 h6 h7 h8 =>
                      cases hsd h1; rw [hs] at h5; cases h5
                      exact .inr (.inr ⟨h6, _, h7, h8⟩)
                  rw [h']
            · have : (!g.mods.isEmpty) = true := by
                cases hgm : g.mods with
                | nil => exact absurd hgm hm
                | cons => simp
              simp only [this, if_true]
              constructor
              · intro h; cases h; exact .modifiers hS hpc hm
              · intro h
                cases h with
                | paramCount h1 h2 => cases hsd h1; exact absurd hpc h2
                | modifiers _ _ _ => rfl
                | cyclic _ _ h3 _ => exact absurd h3 hm
                | qubitCount _ _ h3 _ _ _ => exact absurd h3 hm
                | nonFixed _ _ h3 _ _ _ _ _ => exact absurd h3 hm
                | elem _ _ h3 _ _ _ _ _ => exact absurd h3 hm
          · have hpc' : d.params.length ≠ g.params.length := hpc
            rw [if_pos hpc']
            constructor
            · intro h; cases h; exact .paramCount hS hpc'
            · intro h
              cases h with
              | paramCount h1 _ => cases hsd h1; rfl
              | modifiers h1 h2 _ => cases hsd h1; exact absurd h2 hpc
              | cyclic h1 h2 _ _ => cases hsd h1; exact absurd h2 hpc
              | qubitCount h1 h2 _ _ _ _ => cases hsd h1; exact absurd h2 hpc
              | nonFixed h1 h2 _ _ _ _ _ _ => cases hsd h1; exact absurd h2 hpc
              | elem h1 h2 _ _ _ _ _ _ => cases hsd h1; exact absurd h2 hpc
        · simp only [hsel, Bool.false_eq_true, if_false]
          constructor
          · intro h; cases h
          · intro h
            have : sel g.name = true := by
              cases h <;> exact (‹Selected defs sel g _›).2.2
            exact absurd this hsel


theorem expands_single_keep {defs : List (Def K)} {sel : String → Bool} {stack : List String} {i : Instr K}
    (hn : ¬ IsSelectedInvocation defs sel i) : Expands defs sel stack [i] [i] :=
  .keep hn (.nil _)

theorem expandWith_err_iff (defs : List (Def K)) (sel : String → Bool)
    (nested : List String → List (Instr K) → Outcome (List (Instr K))) (stack : List String)
    (Hok : ∀ name body out, name ∉ stack → name ∈ defs.map (·.name) →
      (nested (stack ++ [name]) body = .ok out ↔ Expands defs sel (stack ++ [name]) body out))
    (Herr : ∀ name body e, name ∉ stack → name ∈ defs.map (·.name) →
      (nested (stack ++ [name]) body = .err e ↔ ErrAt defs sel (stack ++ [name]) body e))
    (src : List (Instr K)) (e : Err) :
    expandWith defs sel nested stack src = .err e ↔ ErrAt defs sel stack src e := by
  induction src with
  | nil =>
    simp only [expandWith]
    constructor
    · intro h; cases h
    · intro h; cases h
  | cons i rest ih =>
    simp only [expandWith]
    cases hg : gateSequenceFromInstruction defs sel i stack with
    | error e' =>
      simp only
      have hl := (gsfi_error_iff defs sel i stack e').1 hg
      constructor
      · intro h; cases h; exact .here hl
      · intro h
        cases h with
        | here hl' =>
          have := (gsfi_error_iff defs sel i stack e).2 hl'
          rw [hg] at this; cases this; rfl
        | inside hsel hm hns hinst _ =>
          rw [(gsfi_some_iff _ _ _ _ _ _).2 ⟨_, _, _, rfl, hsel, hm, hns, hinst, rfl, rfl⟩] at hg; cases hg
        | later hex _ =>
          cases hex with
          | keep hn _ => rw [(gsfi_none_iff _ _ _ _).2 hn] at hg; cases hg
          | unfold hsel hm hns hinst _ _ =>
            rw [(gsfi_some_iff _ _ _ _ _ _).2 ⟨_, _, _, rfl, hsel, hm, hns, hinst, rfl, rfl⟩] at hg; cases hg
    | ok o =>
      cases o with
      | none =>
        simp only
        have hn := (gsfi_none_iff _ _ _ _).1 hg
        constructor
        · intro h
          cases hr : expandWith defs sel nested stack rest with
          | ok r => rw [hr] at h; cases h
          | err e' =>
            rw [hr] at h; cases h
            exact .later (expands_single_keep hn) (ih.1 hr)
          | outOfFuel => rw [hr] at h; cases h
        · intro h
          cases h with
          | here hl =>
            have := (gsfi_error_iff defs sel i stack e).2 hl
            rw [hg] at this; cases this
          | inside hsel _ _ _ _ => exact absurd ⟨_, _, rfl, hsel⟩ hn
          | later _ hrest => rw [ih.2 hrest]
      | some p =>
        obtain ⟨body', name⟩ := p
        simp only
        obtain ⟨hns, hnd⟩ := gsfi_some_name hg
        obtain ⟨g, d, body, hi, hsel, hm, hns', hinst, hb, hname⟩ := (gsfi_some_iff _ _ _ _ _ _).1 hg
        subst hi; subst hb; subst hname
        have hgs : ∀ {d' body''}, Selected defs sel g d' → g.mods = [] → d'.name ∉ stack →
            Instantiates d' g body'' → body''.map Instr.gate = body.map Instr.gate ∧ d'.name = d.name := by
          intro d' body'' h1 h2 h3 h4
          have := (gsfi_some_iff _ _ _ _ _ _).2 ⟨_, _, _, rfl, h1, h2, h3, h4, rfl, rfl⟩
          rw [hg] at this
          simp at this
          exact ⟨this.1.symm, this.2.symm⟩
        constructor
        · intro h
          cases hb : nested (stack ++ [d.name]) (body.map Instr.gate) with
          | ok b =>
            rw [hb] at h
            cases hr : expandWith defs sel nested stack rest with
            | ok r => rw [hr] at h; cases h
            | err e' =>
              rw [hr] at h; cases h
              have hx := (Hok _ _ _ hns hnd).1 hb
              have : Expands defs sel stack [.gate g] (b ++ []) := .unfold hsel hm hns' hinst hx (.nil _)
              exact .later this (ih.1 hr)
            | outOfFuel => rw [hr] at h; cases h
          | err e' =>
            rw [hb] at h; cases h
            exact .inside hsel hm hns' hinst ((Herr _ _ _ hns hnd).1 hb)
          | outOfFuel => rw [hb] at h; cases h
        · intro h
          cases h with
          | here hl =>
            have := (gsfi_error_iff defs sel _ stack e).2 hl
            rw [hg] at this; cases this
          | inside hsel' hm' hns'' hinst' hin =>
            obtain ⟨e1, e2⟩ := hgs hsel' hm' hns'' hinst'
            rw [e1, e2] at hin
            rw [(Herr _ _ _ hns hnd).2 hin]
          | later hex hrest =>
            cases hex with
            | keep hn _ => exact absurd ⟨_, _, rfl, hsel⟩ hn
            | unfold hsel' hm' hns'' hinst' hbody _ =>
              obtain ⟨e1, e2⟩ := hgs hsel' hm' hns'' hinst'
              rw [e1, e2] at hbody
              rw [(Hok _ _ _ hns hnd).2 hbody, ih.2 hrest]

theorem expandFuel_err_iff (defs : List (Def K)) (sel : String → Bool) (fuel : Nat)
    (stack : List String) (src : List (Instr K)) (e : Err) (hf : remaining defs stack < fuel) :
    expandFuel defs sel fuel stack src = .err e ↔ ErrAt defs sel stack src e := by
  induction fuel generalizing stack src e with
  | zero => omega
  | succ n ih =>
    simp only [expandFuel]
    apply expandWith_err_iff defs sel
    · intro name body out hns hnd
      exact expandFuel_ok_iff defs sel n _ _ _ (by have := remaining_push_lt defs stack name hnd hns; omega)
    · intro name body e' hns hnd
      exact ih _ _ _ (by have := remaining_push_lt defs stack name hnd hns; omega)

theorem pointwise_split {α β : Type} {R : α → β → Prop} {pre : List α} {a : α} {post : List α} {m : List β}
    (h : Pointwise R (pre ++ a :: post) m) : ∃ b, R a b := by
  induction pre generalizing m with
  | nil => cases h with | cons hr _ => exact ⟨_, hr⟩
  | cons x xs ih => cases h with | cons _ hrest => exact ih hrest

/-- a malformed element cannot be instantiated -/
theorem elemErr_not_pointwise {qvars : List String} {gates : List (Gate K)} {e : Err}
    {σ : String → Option (Expr K)} {ρ : String → Option Qubit} {body : List (Gate K)}
    (he : ElemErr qvars gates e) (hρ : ∀ v q, ρ v = some q → v ∈ qvars)
    (hp : Pointwise (ElemInstance σ ρ) gates body) : False := by
  cases he with
  | invalid _ hq _ hnv =>
    obtain ⟨b, hb⟩ := pointwise_split hp
    have := hb.qubits
    rw [hq] at this
    obtain ⟨bq, v, hv, _⟩ := pointwise_split this
    exact hnv v hv
  | undefined _ hq _ hnm =>
    obtain ⟨b, hb⟩ := pointwise_split hp
    have := hb.qubits
    rw [hq] at this
    obtain ⟨bq, v', hv, hr⟩ := pointwise_split this
    cases hv
    exact hnm (hρ _ _ hr)

/-- a misused invocation cannot also be unfolded or kept -/
theorem localErr_not_expands {defs : List (Def K)} {sel : String → Bool} {stack : List String} {i : Instr K}
    {e : Err} {rest out : List (Instr K)} (hl : LocalErr defs sel stack i e)
    (hx : Expands defs sel stack (i :: rest) out) : False := by
  have hsd : ∀ {g d d'}, Selected defs sel g d → Selected defs sel g d' → d = d' := by
    intro g d d' h h'; have := h.1.symm.trans h'.1; simpa using this
  cases hx with
  | keep hn _ =>
    apply hn
    cases hl <;> exact ⟨_, _, rfl, ‹Selected defs sel _ _›⟩
  | unfold hsel hm hns hinst _ _ =>
    obtain ⟨qv, gs, fs, σ, ρ, hs, hp, hq, hfx, _, hρ, hpw⟩ := hinst
    cases hl with
    | paramCount h1 h2 => cases hsd hsel h1; exact h2 hp.symm
    | modifiers _ _ h3 => exact h3 hm
    | cyclic h1 _ _ h4 => cases hsd hsel h1; exact hns h4
    | qubitCount h1 _ _ _ h5 h6 => cases hsd hsel h1; rw [hs] at h5; cases h5; exact h6 hq
    | @nonFixed _ _ _ _ fs' q post h1 _ _ _ _ _ h7 h8 =>
      rw [hfx] at h7
      have hmem : q ∈ fs.map Qubit.fixed := by rw [h7]; simp
      obtain ⟨n, _, hn⟩ := List.mem_map.1 hmem
      exact h8 n hn.symm
    | elem h1 _ _ _ h5 _ _ h8 =>
      cases hsd hsel h1; rw [hs] at h5; cases h5
      refine elemErr_not_pointwise h8 (fun v q hvq => ?_) hpw
      obtain ⟨i, hi, _⟩ := (hρ v q).1 hvq
      exact List.mem_of_getElem? hi

theorem expands_mem_split {defs : List (Def K)} {sel : String → Bool} {stack : List String}
    {src out : List (Instr K)} (hx : Expands defs sel stack src out) {i : Instr K} (hi : i ∈ src) :
    ∃ rest out', Expands defs sel stack (i :: rest) out' := by
  induction hx with
  | nil => simp at hi
  | @keep stack j rest out hn hrest ih =>
    cases hi with
    | head => exact ⟨rest, _, .keep hn hrest⟩
    | tail _ h => exact ih h
  | @unfold stack g d body b rest out hsel hm hns hinst hb hrest _ ih =>
    cases hi with
    | head => exact ⟨rest, _, .unfold hsel hm hns hinst hb hrest⟩
    | tail _ h => exact ih h

/-- a reachable misuse rules out a successful expansion -/
theorem bad_not_expands {defs : List (Def K)} {sel : String → Bool} {stack : List String} {src : List (Instr K)}
    (hb : Bad defs sel stack src) : ∀ out, ¬ Expands defs sel stack src out := by
  induction hb with
  | here hi hl =>
    intro out hx
    obtain ⟨rest, out', hx'⟩ := expands_mem_split hx hi
    exact localErr_not_expands hl hx'
  | @inside stack src g d body hi hsel hm hns hinst _ ih =>
    intro out hx
    obtain ⟨rest, out', hx'⟩ := expands_mem_split hx hi
    cases hx' with
    | keep hn _ => exact hn ⟨_, _, rfl, hsel⟩
    | unfold hsel' _ _ hinst' hbody _ =>
      have e := hsel.1.symm.trans hsel'.1
      simp at e; subst e
      obtain ⟨qv, gs, fs, σ, ρ, hs, hp, a1, a2, a3, a4, a5⟩ := hinst
      obtain ⟨qv', gs', fs', σ', ρ', hs', _, a1', a2', a3', a4', a5'⟩ := hinst'
      rw [hs] at hs'; cases hs'
      have e1 := (expandSeq_ok_iff qv gs _ _ _ hp.symm).2 ⟨fs, σ, ρ, a1, a2, a3, a4, a5⟩
      have e2 := (expandSeq_ok_iff qv gs _ _ _ hp.symm).2 ⟨fs', σ', ρ', a1', a2', a3', a4', a5'⟩
      rw [e1] at e2; cases e2
      exact ih _ hbody

theorem errAt_bad {defs : List (Def K)} {sel : String → Bool} {stack : List String} {src : List (Instr K)}
    {e : Err} (h : ErrAt defs sel stack src e) : Bad defs sel stack src := by
  induction h with
  | here hl => exact .here (by simp) hl
  | inside hsel hm hns hinst _ ih => exact .inside (by simp) hsel hm hns hinst ih
  | later _ _ ih =>
    cases ih with
    | here hi hl => exact .here (by simp [hi]) hl
    | inside hi hsel hm hns hinst hb => exact .inside (by simp [hi]) hsel hm hns hinst hb

/-! ### the stack-free relation implies the stack-indexed one (finite derivations contain no cycle) -/

/-- `ExpandsPure` with a bound on the nesting depth of unfoldings -/
inductive ExpandsPureN (defs : List (Def K)) (sel : String → Bool) :
    Nat → List (Instr K) → List (Instr K) → Prop
  | nil (n) : ExpandsPureN defs sel n [] []
  | keep {n i rest out} :
      ¬ IsSelectedInvocation defs sel i → ExpandsPureN defs sel n rest out →
      ExpandsPureN defs sel n (i :: rest) (i :: out)
  | unfold {n g d body b rest out} :
      Selected defs sel g d → g.mods = [] → Instantiates d g body →
      ExpandsPureN defs sel n (body.map Instr.gate) b →
      ExpandsPureN defs sel (n + 1) rest out →
      ExpandsPureN defs sel (n + 1) (.gate g :: rest) (b ++ out)

theorem expandsPureN_mono {defs : List (Def K)} {sel : String → Bool} {n m : Nat} {src out : List (Instr K)}
    (h : ExpandsPureN defs sel n src out) (hm : n ≤ m) : ExpandsPureN defs sel m src out := by
  induction h generalizing m with
  | nil => exact .nil _
  | keep hn _ ih => exact .keep hn (ih hm)
  | unfold hsel hmods hinst _ _ ih1 ih2 =>
    cases m with
    | zero => omega
    | succ m' => exact .unfold hsel hmods hinst (ih1 (by omega)) (ih2 (by omega))

theorem expandsPure_sized {defs : List (Def K)} {sel : String → Bool} {src out : List (Instr K)}
    (h : ExpandsPure defs sel src out) : ∃ n, ExpandsPureN defs sel n src out := by
  induction h with
  | nil => exact ⟨0, .nil _⟩
  | keep hn _ ih => obtain ⟨n, h⟩ := ih; exact ⟨n, .keep hn h⟩
  | unfold hsel hm hinst _ _ ih1 ih2 =>
    obtain ⟨n1, h1⟩ := ih1
    obtain ⟨n2, h2⟩ := ih2
    exact ⟨max n1 n2 + 1, .unfold hsel hm hinst (expandsPureN_mono h1 (by omega)) (expandsPureN_mono h2 (by omega))⟩

/-- the definition named `u` has a sequence element named `v`, and `v` names a selected sequence definition -/
def Calls (defs : List (Def K)) (sel : String → Bool) (u v : String) : Prop :=
  ∃ du qv gs e dv, findDef defs u = some du ∧ du.spec = .seq qv gs ∧ e ∈ gs ∧ e.name = v ∧
    findDef defs v = some dv ∧ (∃ qv' gs', dv.spec = .seq qv' gs') ∧ sel v = true

inductive CallsPlus (defs : List (Def K)) (sel : String → Bool) : String → String → Prop
  | single {u v} : Calls defs sel u v → CallsPlus defs sel u v
  | step {u v w} : Calls defs sel u v → CallsPlus defs sel v w → CallsPlus defs sel u w

theorem callsPlus_snoc {defs : List (Def K)} {sel : String → Bool} {a b c : String}
    (h : CallsPlus defs sel a b) (hc : Calls defs sel b c) : CallsPlus defs sel a c := by
  induction h with
  | single h1 => exact .step h1 (.single hc)
  | step h1 _ ih => exact .step h1 (ih hc)

theorem pointwise_mem_left {α β : Type} {R : α → β → Prop} {l : List α} {m : List β}
    (h : Pointwise R l m) {a : α} (ha : a ∈ l) : ∃ b ∈ m, R a b := by
  induction h with
  | nil => simp at ha
  | cons hr _ ih =>
    cases ha with
    | head => exact ⟨_, by simp, hr⟩
    | tail _ ha' => obtain ⟨b, hb, hR⟩ := ih ha'; exact ⟨b, by simp [hb], hR⟩

theorem pointwise_mem_right {α β : Type} {R : α → β → Prop} {l : List α} {m : List β}
    (h : Pointwise R l m) {b : β} (hb : b ∈ m) : ∃ a ∈ l, R a b := by
  induction h with
  | nil => simp at hb
  | cons hr _ ih =>
    cases hb with
    | head => exact ⟨_, by simp, hr⟩
    | tail _ hb' => obtain ⟨a, ha, hR⟩ := ih hb'; exact ⟨a, by simp [ha], hR⟩

/-- a selected invocation inside a bounded derivation is unfolded one level deeper -/
theorem expandsPureN_extract {defs : List (Def K)} {sel : String → Bool} {n : Nat} {src out : List (Instr K)}
    (h : ExpandsPureN defs sel n src out) {g : Gate K} {d : Def K} (hg : Instr.gate g ∈ src)
    (hsel : Selected defs sel g d) :
    ∃ n' body b, n = n' + 1 ∧ Instantiates d g body ∧ ExpandsPureN defs sel n' (body.map Instr.gate) b := by
  induction h with
  | nil => simp at hg
  | keep hn _ ih =>
    cases hg with
    | head => exact absurd ⟨_, _, rfl, hsel⟩ hn
    | tail _ hg' => exact ih hg'
  | @unfold n g0 d0 body b rest out hsel0 _ hinst hb _ _ ih2 =>
    cases hg with
    | head =>
      have e := hsel.1.symm.trans hsel0.1
      simp at e; subst e
      exact ⟨n, body, b, rfl, hinst, hb⟩
    | tail _ hg' => exact ih2 hg'

/-- some well-formed invocation of the definition named `v` has a body whose expansion has depth ≤ `n` -/
def Derivable (defs : List (Def K)) (sel : String → Bool) (n : Nat) (v : String) : Prop :=
  ∃ g d body b, Selected defs sel g d ∧ d.name = v ∧ Instantiates d g body ∧
    ExpandsPureN defs sel n (body.map Instr.gate) b

theorem selected_name {defs : List (Def K)} {sel : String → Bool} {g : Gate K} {d : Def K}
    (h : Selected defs sel g d) : d.name = g.name := (findDef_some h.1).2

theorem derivable_calls {defs : List (Def K)} {sel : String → Bool} {n : Nat} {u v : String}
    (h : Derivable defs sel n u) (hc : Calls defs sel u v) : ∃ m, m < n ∧ Derivable defs sel m v := by
  obtain ⟨g, d, body, b, hsel, hdn, hinst, hder⟩ := h
  obtain ⟨du, qv, gs, e, dv, hfu, hsu, he, hen, hfv, hsv, hselv⟩ := hc
  have hdu : du = d := by
    have h1 := hsel.1
    rw [← selected_name hsel, hdn, hfu] at h1
    simpa using h1
  subst hdu
  obtain ⟨qv0, gs0, fs, σ, ρ, hs0, _, _, _, _, _, hpw⟩ := hinst
  rw [hsu] at hs0; cases hs0
  obtain ⟨be, hbe, hinstE⟩ := pointwise_mem_left hpw he
  have hbn : be.name = v := hinstE.name.trans hen
  have hselB : Selected defs sel be dv := ⟨by rw [hbn]; exact hfv, hsv, by rw [hbn]; exact hselv⟩
  obtain ⟨n', body', b', hn, hinst', hder'⟩ :=
    expandsPureN_extract hder (List.mem_map.2 ⟨be, hbe, rfl⟩) hselB
  exact ⟨n', by omega, be, dv, body', b', hselB, (selected_name hselB).trans hbn, hinst', hder'⟩

theorem derivable_callsPlus {defs : List (Def K)} {sel : String → Bool} {n : Nat} {u v : String}
    (hc : CallsPlus defs sel u v) (h : Derivable defs sel n u) : ∃ m, m < n ∧ Derivable defs sel m v := by
  induction hc generalizing n with
  | single h1 => exact derivable_calls h h1
  | step h1 _ ih =>
    obtain ⟨m, hm, hd⟩ := derivable_calls h h1
    obtain ⟨m', hm', hd'⟩ := ih hd
    exact ⟨m', by omega, hd'⟩

/-- **No cycle inside a finite derivation.** -/
theorem derivable_acyclic {defs : List (Def K)} {sel : String → Bool} (n : Nat) (u : String)
    (h : Derivable defs sel n u) : ¬ CallsPlus defs sel u u := by
  induction n using Nat.strongRecOn generalizing u with
  | _ n ih =>
    intro hc
    obtain ⟨m, hm, hd⟩ := derivable_callsPlus hc h
    exact ih m hm u hd hc

theorem instance_calls {defs : List (Def K)} {sel : String → Bool} {g g' : Gate K} {d d' : Def K}
    {body : List (Gate K)} (hsel : Selected defs sel g d) (hinst : Instantiates d g body)
    (hg' : Instr.gate g' ∈ body.map Instr.gate) (hsel' : Selected defs sel g' d') :
    Calls defs sel d.name d'.name := by
  obtain ⟨qv, gs, fs, σ, ρ, hs, _, _, _, _, _, hpw⟩ := hinst
  obtain ⟨x, hx, hxe⟩ := List.mem_map.1 hg'
  cases hxe
  obtain ⟨e, he, hE⟩ := pointwise_mem_right hpw hx
  have hn' := selected_name hsel'
  refine ⟨d, qv, gs, e, d', ?_, hs, he, by rw [hn']; exact hE.name.symm, ?_, hsel'.2.1, ?_⟩
  · rw [selected_name hsel]; exact hsel.1
  · rw [hn']; exact hsel'.1
  · rw [hn']; exact hsel'.2.2

theorem expandsPureN_expands {defs : List (Def K)} {sel : String → Bool} {n : Nat} {src out : List (Instr K)}
    (h : ExpandsPureN defs sel n src out) (stack : List String)
    (hinv : ∀ s ∈ stack, ∀ g d, Instr.gate g ∈ src → Selected defs sel g d → CallsPlus defs sel s d.name) :
    Expands defs sel stack src out := by
  induction h generalizing stack with
  | nil => exact .nil _
  | keep hn _ ih =>
    exact .keep hn (ih stack fun s hs g d hg hsel => hinv s hs g d (by simp [hg]) hsel)
  | @unfold n g d body b rest out hsel hm hinst hb _ ih1 ih2 =>
    have hder : Derivable defs sel n d.name := ⟨g, d, body, b, hsel, rfl, hinst, hb⟩
    have hns : d.name ∉ stack := fun hin =>
      derivable_acyclic n d.name hder (hinv d.name hin g d (by simp) hsel)
    refine .unfold hsel hm hns hinst (ih1 (stack ++ [d.name]) ?_)
      (ih2 stack fun s hs g' d' hg' hsel' => hinv s hs g' d' (by simp [hg']) hsel')
    intro s hs g' d' hg' hsel'
    have hc := instance_calls hsel hinst hg' hsel'
    rcases List.mem_append.1 hs with hs | hs
    · exact callsPlus_snoc (hinv s hs g d (by simp) hsel) hc
    · simp at hs; subst hs; exact .single hc

/-! ### the verifier `verifyPure` -/

theorem mem_removeName {allowed : List String} {name n : String} :
    n ∈ removeName allowed name ↔ n ∈ allowed ∧ n ≠ name := by
  simp [removeName]

/-- `allowed` are exactly the definition names that are not on the stack (it may contain other names too) -/
def AllowedInv (defs : List (Def K)) (allowed stack : List String) : Prop :=
  (∀ n, n ∈ defs.map (·.name) → n ∉ stack → n ∈ allowed) ∧ (∀ n ∈ stack, n ∉ allowed)

theorem allowedInv_push {defs : List (Def K)} {allowed stack : List String} {name : String}
    (h : AllowedInv defs allowed stack) : AllowedInv defs (removeName allowed name) (stack ++ [name]) := by
  constructor
  · intro n hn hns
    simp at hns
    exact mem_removeName.2 ⟨h.1 n hn hns.1, hns.2⟩
  · intro n hn hm
    obtain ⟨hma, hne⟩ := mem_removeName.1 hm
    rcases List.mem_append.1 hn with hn | hn
    · exact h.2 n hn hma
    · simp at hn; exact hne hn

theorem gsfi_nil_stack {defs : List (Def K)} {sel : String → Bool} {g : Gate K} {d : Def K}
    {body : List (Gate K)} (hsel : Selected defs sel g d) (hm : g.mods = []) (hinst : Instantiates d g body) :
    gateSequenceFromInstruction defs sel (.gate g) [] = .ok (some (body.map Instr.gate, d.name)) :=
  (gsfi_some_iff _ _ _ _ _ _).2 ⟨_, _, _, rfl, hsel, hm, by simp, hinst, rfl, rfl⟩

theorem verifyPure_iff [DecidableEq K] (defs : List (Def K)) (sel : String → Bool) (allowed : List String)
    (src out : List (Instr K)) :
    ∀ (stack : List String), AllowedInv defs allowed stack → ∀ r,
      (verifyPure defs sel allowed src out = some r ↔ ∃ o, out = o ++ r ∧ Expands defs sel stack src o) := by
  induction allowed, src, out using verifyPure.induct defs sel with
  | case1 allowed out =>
    intro stack _ r
    simp only [verifyPure]
    constructor
    · intro h; cases h; exact ⟨[], rfl, .nil _⟩
    · rintro ⟨o, h1, h2⟩; cases h2; simp at h1; rw [h1]
  | case2 allowed i rest out a hg =>
    intro stack _ r
    rw [verifyPure.eq_def]; simp only [hg]
    constructor
    · intro h; cases h
    · rintro ⟨o, _, h2⟩
      cases h2 with
      | keep hn _ => rw [(gsfi_none_iff _ _ _ _).2 hn] at hg; cases hg
      | unfold hsel hm _ hinst _ _ => rw [gsfi_nil_stack hsel hm hinst] at hg; cases hg
  | case3 allowed rest o out' hg ih =>
    intro stack hinv r
    have hn := (gsfi_none_iff _ _ _ _).1 hg
    rw [verifyPure.eq_def]; simp only [hg, if_true]
    rw [ih stack hinv r]
    constructor
    · rintro ⟨o2, h1, h2⟩; exact ⟨o :: o2, by simp [h1], .keep hn h2⟩
    · rintro ⟨o3, h1, h2⟩
      cases h2 with
      | keep _ hrest => simp at h1; exact ⟨_, h1, hrest⟩
      | unfold hsel _ _ _ _ _ => exact absurd ⟨_, _, rfl, hsel⟩ hn
  | case4 allowed i rest hg o out' hne =>
    intro stack _ r
    have hn := (gsfi_none_iff _ _ _ _).1 hg
    rw [verifyPure.eq_def]; simp only [hg, hne, if_false]
    constructor
    · intro h; cases h
    · rintro ⟨o3, h1, h2⟩
      cases h2 with
      | keep _ _ => simp at h1; exact absurd h1.1 hne
      | unfold hsel _ _ _ _ _ => exact absurd ⟨_, _, rfl, hsel⟩ hn
  | case5 allowed i rest hg =>
    intro stack _ r
    have hn := (gsfi_none_iff _ _ _ _).1 hg
    rw [verifyPure.eq_def]; simp only [hg]
    constructor
    · intro h; cases h
    · rintro ⟨o3, h1, h2⟩
      cases h2 with
      | keep _ _ => simp at h1
      | unfold hsel _ _ _ _ _ => exact absurd ⟨_, _, rfl, hsel⟩ hn
  | case6 allowed i rest out body name hg hmem out' hinner ih1 ih2 =>
    intro stack hinv r
    obtain ⟨g, d, body0, hi, hsel, hm, _, hinst, hb, hname⟩ := (gsfi_some_iff _ _ _ _ _ _).1 hg
    subst hi; subst hb; subst hname
    have hns : d.name ∉ stack := fun hin => hinv.2 _ hin hmem
    have hinv' := allowedInv_push (name := d.name) hinv
    rw [verifyPure.eq_def]; simp only [hg, hmem, dite_true, hinner]
    rw [ih2 stack hinv r]
    have key := (ih1 (stack ++ [d.name]) hinv' out').1 hinner
    obtain ⟨b, hout, hbx⟩ := key
    constructor
    · rintro ⟨o2, h1, h2⟩
      exact ⟨b ++ o2, by rw [hout, h1]; simp, .unfold hsel hm hns hinst hbx h2⟩
    · rintro ⟨o3, h1, h2⟩
      cases h2 with
      | keep hn _ => exact absurd ⟨_, _, rfl, hsel⟩ hn
      | @unfold _ _ d' body' b' _ o2 hsel' hm' _ hinst' hb' hrest =>
        have e := gsfi_nil_stack hsel' hm' hinst'
        rw [hg] at e
        simp at e
        obtain ⟨e1, e2⟩ := e
        rw [← e1, ← e2] at hb'
        have := (ih1 (stack ++ [d.name]) hinv' (o2 ++ r)).2 ⟨b', by rw [h1]; simp, hb'⟩
        rw [hinner] at this
        cases this
        exact ⟨o2, rfl, hrest⟩
  | case7 allowed i rest out body name hg hmem hinner ih1 =>
    intro stack hinv r
    obtain ⟨g, d, body0, hi, hsel, hm, _, hinst, hb, hname⟩ := (gsfi_some_iff _ _ _ _ _ _).1 hg
    subst hi; subst hb; subst hname
    have hinv' := allowedInv_push (name := d.name) hinv
    rw [verifyPure.eq_def]; simp only [hg, hmem, dite_true, hinner]
    constructor
    · intro h; cases h
    · rintro ⟨o3, h1, h2⟩
      cases h2 with
      | keep hn _ => exact absurd ⟨_, _, rfl, hsel⟩ hn
      | @unfold _ _ d' body' b' _ o2 hsel' hm' _ hinst' hb' hrest =>
        have e := gsfi_nil_stack hsel' hm' hinst'
        rw [hg] at e
        simp at e
        obtain ⟨e1, e2⟩ := e
        rw [← e1, ← e2] at hb'
        have := (ih1 (stack ++ [d.name]) hinv' (o2 ++ r)).2 ⟨b', by rw [h1]; simp, hb'⟩
        rw [hinner] at this
        cases this
  | case8 allowed i rest out body name hg hmem =>
    intro stack hinv r
    obtain ⟨hns0, hnd⟩ := gsfi_some_name hg
    obtain ⟨g, d, body0, hi, hsel, hm, _, hinst, hb, hname⟩ := (gsfi_some_iff _ _ _ _ _ _).1 hg
    subst hi; subst hb; subst hname
    rw [verifyPure.eq_def]; simp only [hg, hmem, dite_false]
    constructor
    · intro h; cases h
    · rintro ⟨o3, h1, h2⟩
      cases h2 with
      | keep hn _ => exact absurd ⟨_, _, rfl, hsel⟩ hn
      | @unfold _ _ d' body' b' _ o2 hsel' hm' hns' hinst' hb' hrest =>
        have e := hsel.1.symm.trans hsel'.1
        simp at e; subst e
        exact absurd (hinv.1 _ hnd hns') hmem

/-! ### applicable misuse kinds (no priority, no order) -/

theorem not_all_isFixed_iff (qs : List Qubit) :
    qs.all isFixed = false ↔ ∃ q ∈ qs, ∀ n, q ≠ Qubit.fixed n := by
  induction qs with
  | nil => simp
  | cons q qs ih =>
    simp only [List.all_cons, Bool.and_eq_false_iff, ih, List.mem_cons, exists_eq_or_imp]
    apply or_congr _ Iff.rfl
    cases q <;> simp [isFixed]

theorem not_all_isVar_iff (qs : List Qubit) :
    qs.all isVar = false ↔ ∃ q ∈ qs, ∀ v, q ≠ Qubit.var v := by
  induction qs with
  | nil => simp
  | cons q qs ih =>
    simp only [List.all_cons, Bool.and_eq_false_iff, ih, List.mem_cons, exists_eq_or_imp]
    apply or_congr _ Iff.rfl
    cases q <;> simp [isVar]

theorem any_unboundVar_iff (qvars : List String) (qs : List Qubit) :
    qs.any (unboundVar qvars) = true ↔ ∃ v, Qubit.var v ∈ qs ∧ v ∉ qvars := by
  induction qs with
  | nil => simp
  | cons q qs ih =>
    simp only [List.any_cons, Bool.or_eq_true, ih, List.mem_cons]
    constructor
    · rintro (h | ⟨v, h1, h2⟩)
      · cases q with
        | var v => simp [unboundVar] at h; exact ⟨v, .inl rfl, h⟩
        | fixed n => simp [unboundVar] at h
        | placeholder n => simp [unboundVar] at h
      · exact ⟨v, .inr h1, h2⟩
    · rintro ⟨v, h1 | h1, h2⟩
      · left; rw [← h1]; simpa [unboundVar] using h2
      · exact .inr ⟨v, h1, h2⟩

theorem localKinds_seq {defs : List (Def K)} {sel : String → Bool} {g : Gate K} {stack : List String} {d : Def K}
    {qvars : List String} {gates : List (Gate K)}
    (hf : findDef defs g.name = some d) (hs : d.spec = .seq qvars gates) (hsel : sel g.name = true) :
    localKinds defs sel (.gate g) stack =
      (if d.params.length ≠ g.params.length then [Kind.paramCount] else []) ++
      (if g.mods.isEmpty then [] else [Kind.modifiers]) ++
      (if stack.contains d.name then [Kind.cyclic] else []) ++
      (if g.qubits.length ≠ qvars.length then [Kind.qubitCount] else []) ++
      (if g.qubits.all isFixed then [] else [Kind.nonFixed]) ++
      (if gates.all (fun e => e.qubits.all isVar) then [] else [Kind.invalidElem]) ++
      (if gates.any (fun e => e.qubits.any (unboundVar qvars)) then [Kind.undefinedElem] else []) := by
  simp only [localKinds, hf, hs, hsel, if_true]

theorem misuse_selected {defs : List (Def K)} {sel : String → Bool} {stack : List String} {i : Instr K} {k : Kind}
    (h : Misuse defs sel stack i k) : ∃ g d, i = .gate g ∧ Selected defs sel g d := by
  cases h <;> exact ⟨_, _, rfl, ‹Selected defs sel _ _›⟩

theorem mem_localKinds_iff (defs : List (Def K)) (sel : String → Bool) (i : Instr K) (stack : List String)
    (k : Kind) : k ∈ localKinds defs sel i stack ↔ Misuse defs sel stack i k := by
  by_cases hsel : ∃ g d, i = .gate g ∧ Selected defs sel g d
  · obtain ⟨g, d, rfl, hS⟩ := hsel
    obtain ⟨hf, ⟨qvars, gates, hs⟩, hsl⟩ := hS
    have hS : Selected defs sel g d := ⟨hf, ⟨qvars, gates, hs⟩, hsl⟩
    have hsd : ∀ {d'}, Selected defs sel g d' → d' = d := fun h => by
      have := hf.symm.trans h.1; simp at this; exact this.symm
    rw [localKinds_seq hf hs hsl]
    simp only [List.mem_append]
    constructor
    · rintro ((((((h | h) | h) | h) | h) | h) | h)
      · split at h
        · simp at h; subst h; exact .paramCount hS ‹_›
        · simp at h
      · split at h
        · simp at h
        · simp at h; subst h
          exact .modifiers hS (by intro hm; simp_all)
      · split at h
        · simp at h; subst h; exact .cyclic hS (by simpa using ‹stack.contains d.name = true›)
        · simp at h
      · split at h
        · simp at h; subst h; exact .qubitCount hS hs ‹_›
        · simp at h
      · split at h
        · simp at h
        · simp at h; subst h
          rename_i hq
          obtain ⟨q, hq1, hq2⟩ := (not_all_isFixed_iff g.qubits).1 (by simpa using hq)
          exact .nonFixed hS hq1 hq2
      · split at h
        · simp at h
        · simp at h; subst h
          rename_i hq
          have : ∃ e ∈ gates, e.qubits.all isVar = false := by
            have h' : gates.all (fun e => e.qubits.all isVar) = false := by simpa using hq
            rw [List.all_eq_false] at h'
            obtain ⟨e, he, hne⟩ := h'
            exact ⟨e, he, by simpa using hne⟩
          obtain ⟨e, he, hev⟩ := this
          obtain ⟨q, hq1, hq2⟩ := (not_all_isVar_iff e.qubits).1 hev
          exact .invalidElem hS hs he hq1 hq2
      · split at h
        · simp at h; subst h
          rename_i hq
          rw [List.any_eq_true] at hq
          obtain ⟨e, he, hev⟩ := hq
          obtain ⟨v, hv1, hv2⟩ := (any_unboundVar_iff qvars e.qubits).1 hev
          exact .undefinedElem hS hs he hv1 hv2
        · simp at h
    · intro h
      cases h with
      | paramCount h1 h2 =>
        cases hsd h1
        refine .inl (.inl (.inl (.inl (.inl (.inl ?_)))))
        simp [h2]
      | modifiers h1 h2 =>
        refine .inl (.inl (.inl (.inl (.inl (.inr ?_)))))
        have : g.mods.isEmpty = false := by
          cases hm : g.mods with
          | nil => exact absurd hm h2
          | cons => simp
        simp [this]
      | cyclic h1 h2 =>
        cases hsd h1
        refine .inl (.inl (.inl (.inl (.inr ?_))))
        have : stack.contains d.name = true := by simpa using h2
        rw [if_pos this]; simp
      | qubitCount h1 h2 h3 =>
        cases hsd h1; rw [hs] at h2; cases h2
        refine .inl (.inl (.inl (.inr ?_)))
        simp [h3]
      | nonFixed h1 h2 h3 =>
        refine .inl (.inl (.inr ?_))
        have := (not_all_isFixed_iff g.qubits).2 ⟨_, h2, h3⟩
        simp [this]
      | invalidElem h1 h2 h3 h4 h5 =>
        cases hsd h1; rw [hs] at h2; cases h2
        refine .inl (.inr ?_)
        have h6 := (not_all_isVar_iff _).2 ⟨_, h4, h5⟩
        have : gates.all (fun e => e.qubits.all isVar) = false := by
          rw [List.all_eq_false]
          exact ⟨_, h3, by simp [h6]⟩
        simp [this]
      | undefinedElem h1 h2 h3 h4 h5 =>
        cases hsd h1; rw [hs] at h2; cases h2
        refine .inr ?_
        have h6 := (any_unboundVar_iff qvars _).2 ⟨_, h4, h5⟩
        have : gates.any (fun e => e.qubits.any (unboundVar qvars)) = true := by
          rw [List.any_eq_true]
          exact ⟨_, h3, h6⟩
        simp [this]
  · have h1 : localKinds defs sel i stack = [] := by
      cases i with
      | other k => rfl
      | gate g =>
        cases hf : findDef defs g.name with
        | none => simp [localKinds, hf]
        | some d =>
          cases hs : d.spec with
          | other => simp [localKinds, hf, hs]
          | seq qvars gates =>
            by_cases hsl : sel g.name = true
            · exact absurd ⟨g, d, rfl, hf, ⟨qvars, gates, hs⟩, hsl⟩ hsel
            · simp [localKinds, hf, hs, hsl]
    rw [h1]
    simp only [List.not_mem_nil, false_iff]
    intro h
    exact hsel (misuse_selected h)

/-- the reported error is one of the applicable kinds -/
theorem localErr_misuse {defs : List (Def K)} {sel : String → Bool} {stack : List String} {i : Instr K} {e : Err}
    (h : LocalErr defs sel stack i e) : Misuse defs sel stack i e.kind := by
  cases h with
  | paramCount h1 h2 => exact .paramCount h1 h2
  | modifiers h1 _ h3 => exact .modifiers h1 h3
  | cyclic h1 _ _ h4 => exact .cyclic h1 h4
  | qubitCount h1 _ _ _ h5 h6 => exact .qubitCount h1 h5 h6
  | nonFixed h1 _ _ _ _ _ h7 h8 => exact .nonFixed h1 (by rw [h7]; simp) h8
  | elem h1 _ _ _ h5 _ _ h8 =>
    cases h8 with
    | @invalid pre e0 post vs q rest _ hq _ hnv =>
      exact .invalidElem (e := e0) h1 h5 (by simp) (by rw [hq]; simp) hnv
    | @undefined pre e0 post vs v rest _ hq _ hnm =>
      exact .undefinedElem (e := e0) h1 h5 (by simp) (by rw [hq]; simp) hnm

/-- an applicable misuse makes the invocation fail (with some error) -/
theorem misuse_localErr {defs : List (Def K)} {sel : String → Bool} {stack : List String} {i : Instr K} {k : Kind}
    (h : Misuse defs sel stack i k) : ∃ e, LocalErr defs sel stack i e := by
  cases hg : gateSequenceFromInstruction defs sel i stack with
  | error e => exact ⟨e, (gsfi_error_iff defs sel i stack e).1 hg⟩
  | ok o =>
    exfalso
    cases o with
    | none =>
      have hn := (gsfi_none_iff _ _ _ _).1 hg
      apply hn
      cases h <;> exact ⟨_, _, rfl, ‹Selected defs sel _ _›⟩
    | some p =>
      obtain ⟨body', name⟩ := p
      obtain ⟨g, d, body, hi, hsel, hm, hns, hinst, _, _⟩ := (gsfi_some_iff _ _ _ _ _ _).1 hg
      subst hi
      have hsd : ∀ {d'}, Selected defs sel g d' → d' = d := fun h' => by
        have := hsel.1.symm.trans h'.1; simp at this; exact this.symm
      obtain ⟨qv, gs, fs, σ, ρ, hs, hp, hq, hfx, _, hρ, hpw⟩ := hinst
      cases h with
      | paramCount h1 h2 => cases hsd h1; exact h2 hp.symm
      | modifiers _ h2 => exact h2 hm
      | cyclic h1 h2 => cases hsd h1; exact hns h2
      | qubitCount h1 h2 h3 => cases hsd h1; rw [hs] at h2; cases h2; exact h3 hq
      | nonFixed _ h2 h3 =>
        rw [hfx] at h2
        obtain ⟨n, _, hn⟩ := List.mem_map.1 h2
        exact h3 n hn.symm
      | invalidElem h1 h2 h3 h4 h5 =>
        cases hsd h1; rw [hs] at h2; cases h2
        obtain ⟨b, _, hb⟩ := pointwise_mem_left hpw h3
        obtain ⟨bq, _, v, hv, _⟩ := pointwise_mem_left hb.qubits h4
        exact h5 v hv
      | undefinedElem h1 h2 h3 h4 h5 =>
        cases hsd h1; rw [hs] at h2; cases h2
        obtain ⟨b, _, hb⟩ := pointwise_mem_left hpw h3
        obtain ⟨bq, _, v', hv, hr⟩ := pointwise_mem_left hb.qubits h4
        cases hv
        obtain ⟨j, hj, _⟩ := (hρ _ _).1 hr
        exact h5 (List.mem_of_getElem? hj)

theorem misuseAt_mono {defs : List (Def K)} {sel : String → Bool} {stack : List String}
    {src src' : List (Instr K)} {k : Kind} (h : MisuseAt defs sel stack src k) (hs : ∀ i ∈ src, i ∈ src') :
    MisuseAt defs sel stack src' k := by
  cases h with
  | here hi hm => exact .here (hs _ hi) hm
  | inside hg hsel hm hns hinst hin => exact .inside (hs _ hg) hsel hm hns hinst hin

theorem kindsWith_iff (defs : List (Def K)) (sel : String → Bool)
    (nested : List String → List (Instr K) → List Kind) (stack : List String)
    (H : ∀ name body k, name ∉ stack → name ∈ defs.map (·.name) →
      (k ∈ nested (stack ++ [name]) body ↔ MisuseAt defs sel (stack ++ [name]) body k))
    (src : List (Instr K)) (k : Kind) :
    k ∈ kindsWith defs sel nested stack src ↔ MisuseAt defs sel stack src k := by
  induction src with
  | nil =>
    simp only [kindsWith, List.not_mem_nil, false_iff]
    intro h
    cases h with
    | here hi _ => simp at hi
    | inside hg _ _ _ _ _ => simp at hg
  | cons i rest ih =>
    simp only [kindsWith, List.mem_append]
    constructor
    · rintro ((h | h) | h)
      · exact .here (by simp) ((mem_localKinds_iff _ _ _ _ _).1 h)
      · split at h
        · rename_i body name hg
          obtain ⟨hns, hnd⟩ := gsfi_some_name hg
          obtain ⟨g, d, body0, hi, hsel, hm, hns', hinst, hb, hname⟩ := (gsfi_some_iff _ _ _ _ _ _).1 hg
          subst hi; subst hb; subst hname
          exact .inside (by simp) hsel hm hns' hinst ((H _ _ _ hns hnd).1 h)
        · simp at h
      · exact misuseAt_mono (ih.1 h) (fun j hj => by simp [hj])
    · intro h
      cases h with
      | here hi hm =>
        cases hi with
        | head => exact .inl (.inl ((mem_localKinds_iff _ _ _ _ _).2 hm))
        | tail _ hi' => exact .inr (ih.2 (.here hi' hm))
      | inside hg hsel hm hns hinst hin =>
        cases hg with
        | head =>
          have hgs := (gsfi_some_iff _ _ _ _ _ _).2 ⟨_, _, _, rfl, hsel, hm, hns, hinst, rfl, rfl⟩
          obtain ⟨hns0, hnd⟩ := gsfi_some_name hgs
          refine .inl (.inr ?_)
          rw [hgs]
          exact (H _ _ _ hns0 hnd).2 hin
        | tail _ hg' => exact .inr (ih.2 (.inside hg' hsel hm hns hinst hin))

theorem kindsFuel_iff (defs : List (Def K)) (sel : String → Bool) (fuel : Nat) (stack : List String)
    (src : List (Instr K)) (k : Kind) (hf : remaining defs stack < fuel) :
    k ∈ kindsFuel defs sel fuel stack src ↔ MisuseAt defs sel stack src k := by
  induction fuel generalizing stack src k with
  | zero => omega
  | succ n ih =>
    simp only [kindsFuel]
    apply kindsWith_iff
    intro name body k' hns hnd
    exact ih _ _ _ (by have := remaining_push_lt defs stack name hnd hns; omega)

theorem errAt_misuseAt {defs : List (Def K)} {sel : String → Bool} {stack : List String} {src : List (Instr K)}
    {e : Err} (h : ErrAt defs sel stack src e) : MisuseAt defs sel stack src e.kind := by
  induction h with
  | here hl => exact .here (by simp) (localErr_misuse hl)
  | inside hsel hm hns hinst _ ih => exact .inside (by simp) hsel hm hns hinst ih
  | later _ _ ih => exact misuseAt_mono ih (fun j hj => by simp [hj])

theorem misuseAt_bad {defs : List (Def K)} {sel : String → Bool} {stack : List String} {src : List (Instr K)}
    {k : Kind} (h : MisuseAt defs sel stack src k) : Bad defs sel stack src := by
  induction h with
  | here hi hm => obtain ⟨e, he⟩ := misuse_localErr hm; exact .here hi he
  | inside hg hsel hm hns hinst _ ih => exact .inside hg hsel hm hns hinst ih

end QV.C20
