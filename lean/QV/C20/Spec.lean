import QV.C20.Model
/-
C20 — the property as declarative `Prop`s, written without reference to the expansion algorithm:

* `Binds` / `IsBinding`: what "formal parameters are bound to the arguments" means (positionally; if a
  formal name is repeated the last occurrence wins, as a `HashMap` built from the pairs behaves);
* `ElemInstance` / `Instantiates`: "`g(p…) q…` unfolds to the definition's gates with formal parameters
  and qubits substituted";
* `Expands`: the recursive replacement of selected invocations (relational, big-step), indexed by the
  names of the enclosing expansions; `ExpandsPure` is the same without that index;
* `LocalErr` / `ErrAt`: which error is reported, and where (first in depth-first program order);
* `Mentions` / `Reach` / `Kept`: which definitions are retained.
-/
namespace QV.C20
variable {K : Type}

/-- `v` is bound to `a`: `a` is the actual at the last position where the formal `v` occurs. -/
def Binds {V : Type} (formals : List String) (actuals : List V) (v : String) (a : V) : Prop :=
  ∃ i : Nat, formals[i]? = some v ∧ actuals[i]? = some a ∧ ∀ j : Nat, i < j → formals[j]? ≠ some v

/-- `σ` is the substitution that binds `formals` to `actuals` (and nothing else). -/
def IsBinding {V : Type} (formals : List String) (actuals : List V) (σ : String → Option V) : Prop :=
  ∀ v a, σ v = some a ↔ Binds formals actuals v a

/-- element-wise relation between two lists of the same length -/
inductive Pointwise {α β : Type} (R : α → β → Prop) : List α → List β → Prop
  | nil : Pointwise R [] []
  | cons {a b as bs} : R a b → Pointwise R as bs → Pointwise R (a :: as) (b :: bs)

/-- `b` is the sequence element `e` with its parameter expressions substituted by `σ` and each of its
qubit variables replaced by what `ρ` binds it to; name and modifiers are kept. -/
structure ElemInstance (σ : String → Option (Expr K)) (ρ : String → Option Qubit) (e b : Gate K) : Prop where
  name : b.name = e.name
  mods : b.mods = e.mods
  params : b.params = e.params.map (subst σ)
  qubits : Pointwise (fun eq bq => ∃ v, eq = Qubit.var v ∧ ρ v = some bq) e.qubits b.qubits

/-- The invocation `g` of the AS SEQUENCE definition `d` is well-formed (right number of parameters and
qubits, all qubits fixed) and unfolds to `body`. -/
def Instantiates (d : Def K) (g : Gate K) (body : List (Gate K)) : Prop :=
  ∃ (qvars : List String) (gates : List (Gate K)) (fs : List Nat)
      (σ : String → Option (Expr K)) (ρ : String → Option Qubit),
    d.spec = .seq qvars gates ∧
    g.params.length = d.params.length ∧ g.qubits.length = qvars.length ∧
    g.qubits = fs.map Qubit.fixed ∧
    IsBinding d.params g.params σ ∧ IsBinding qvars g.qubits ρ ∧
    Pointwise (ElemInstance σ ρ) gates body

/-- `g` invokes the AS SEQUENCE definition `d`, and the filter selects it for expansion. -/
def Selected (defs : List (Def K)) (sel : String → Bool) (g : Gate K) (d : Def K) : Prop :=
  findDef defs g.name = some d ∧ (∃ qvars gates, d.spec = .seq qvars gates) ∧ sel g.name = true

/-- the instruction is an invocation of a selected AS SEQUENCE definition -/
def IsSelectedInvocation (defs : List (Def K)) (sel : String → Bool) (i : Instr K) : Prop :=
  ∃ g d, i = .gate g ∧ Selected defs sel g d

/-- **Expansion, relationally.** `Expands defs sel stack src out`: `out` is `src` with every selected
invocation replaced, recursively, by its instantiated sequence; every other instruction is copied, in
order. `stack` lists the definitions whose expansion encloses `src`: a definition is never unfolded
inside its own expansion. -/
inductive Expands (defs : List (Def K)) (sel : String → Bool) :
    List String → List (Instr K) → List (Instr K) → Prop
  | nil (stack) : Expands defs sel stack [] []
  | keep {stack i rest out} :
      ¬ IsSelectedInvocation defs sel i → Expands defs sel stack rest out →
      Expands defs sel stack (i :: rest) (i :: out)
  | unfold {stack g d body b rest out} :
      Selected defs sel g d → g.mods = [] → d.name ∉ stack → Instantiates d g body →
      Expands defs sel (stack ++ [d.name]) (body.map Instr.gate) b →
      Expands defs sel stack rest out →
      Expands defs sel stack (.gate g :: rest) (b ++ out)

/-- The same replacement with no bookkeeping at all: plain recursive substitution. -/
inductive ExpandsPure (defs : List (Def K)) (sel : String → Bool) :
    List (Instr K) → List (Instr K) → Prop
  | nil : ExpandsPure defs sel [] []
  | keep {i rest out} :
      ¬ IsSelectedInvocation defs sel i → ExpandsPure defs sel rest out →
      ExpandsPure defs sel (i :: rest) (i :: out)
  | unfold {g d body b rest out} :
      Selected defs sel g d → g.mods = [] → Instantiates d g body →
      ExpandsPure defs sel (body.map Instr.gate) b →
      ExpandsPure defs sel rest out →
      ExpandsPure defs sel (.gate g :: rest) (b ++ out)

/-- What `DefGateSequence::try_new` guarantees of every AS SEQUENCE definition: each qubit of each
element is one of the definition's qubit variables. -/
def WellFormed (defs : List (Def K)) : Prop :=
  ∀ d ∈ defs, ∀ qvars gates, d.spec = .seq qvars gates →
    ∀ e ∈ gates, ∀ q ∈ e.qubits, ∃ v, q = Qubit.var v ∧ v ∈ qvars

/-- every qubit of the sequence element is one of the definition's qubit variables -/
def BoundQubits (qvars : List String) (e : Gate K) : Prop :=
  ∀ q ∈ e.qubits, ∃ v, q = Qubit.var v ∧ v ∈ qvars

/-- **A malformed sequence element** (possible only for definitions that bypassed
`DefGateSequence::try_new`): the first element, in order, one of whose qubits is not a qubit variable of the
definition, and within it the first such qubit — reported as `InvalidGateSequenceElementQubit` if it is not a
variable at all, as `UndefinedGateSequenceElementQubit` if it is an unbound variable. -/
inductive ElemErr (qvars : List String) : List (Gate K) → Err → Prop
  | invalid {pre e post} {vs : List String} {q rest} :
      (∀ e' ∈ pre, BoundQubits qvars e') → e.qubits = vs.map Qubit.var ++ q :: rest →
      (∀ v ∈ vs, v ∈ qvars) → (∀ v, q ≠ Qubit.var v) →
      ElemErr qvars (pre ++ e :: post) (.invalidElemQubit q)
  | undefined {pre e post} {vs : List String} {v rest} :
      (∀ e' ∈ pre, BoundQubits qvars e') → e.qubits = vs.map Qubit.var ++ Qubit.var v :: rest →
      (∀ w ∈ vs, w ∈ qvars) → v ∉ qvars →
      ElemErr qvars (pre ++ e :: post) (.undefinedElemQubit v)

/-- **Misuse of one invocation**, with the error it is reported as. The checks have a fixed priority:
parameter count, then modifiers, then a cycle (the definition is already being expanded), then qubit
count, then the first non-fixed qubit argument, then (for definitions that bypassed validation) the first
malformed element qubit. -/
inductive LocalErr (defs : List (Def K)) (sel : String → Bool) (stack : List String) : Instr K → Err → Prop
  | paramCount {g d} : Selected defs sel g d → d.params.length ≠ g.params.length →
      LocalErr defs sel stack (.gate g) (.paramCount d.params.length g.params.length)
  | modifiers {g d} : Selected defs sel g d → d.params.length = g.params.length → g.mods ≠ [] →
      LocalErr defs sel stack (.gate g) (.modifiers g.mods)
  | cyclic {g d} : Selected defs sel g d → d.params.length = g.params.length → g.mods = [] →
      d.name ∈ stack →
      LocalErr defs sel stack (.gate g) (.cyclic stack)
  | qubitCount {g d qvars gates} : Selected defs sel g d → d.params.length = g.params.length → g.mods = [] →
      d.name ∉ stack → d.spec = .seq qvars gates → g.qubits.length ≠ qvars.length →
      LocalErr defs sel stack (.gate g) (.qubitCount qvars.length g.qubits.length)
  | nonFixed {g d qvars gates} {fs : List Nat} {q post} : Selected defs sel g d → d.params.length = g.params.length →
      g.mods = [] → d.name ∉ stack → d.spec = .seq qvars gates → g.qubits.length = qvars.length →
      g.qubits = fs.map Qubit.fixed ++ q :: post → (∀ n, q ≠ Qubit.fixed n) →
      LocalErr defs sel stack (.gate g) (.nonFixedQubit q)
  | elem {g d qvars gates} {fs : List Nat} {e} : Selected defs sel g d → d.params.length = g.params.length →
      g.mods = [] → d.name ∉ stack → d.spec = .seq qvars gates → g.qubits.length = qvars.length →
      g.qubits = fs.map Qubit.fixed → ElemErr qvars gates e →
      LocalErr defs sel stack (.gate g) e

/-- **Which error, where.** `ErrAt defs sel stack src e`: walking `src` in order and unfolding selected
invocations depth-first, the first misuse met is reported as `e`. -/
inductive ErrAt (defs : List (Def K)) (sel : String → Bool) : List String → List (Instr K) → Err → Prop
  | here {stack i rest e} : LocalErr defs sel stack i e → ErrAt defs sel stack (i :: rest) e
  | inside {stack g d body rest e} :
      Selected defs sel g d → g.mods = [] → d.name ∉ stack → Instantiates d g body →
      ErrAt defs sel (stack ++ [d.name]) (body.map Instr.gate) e →
      ErrAt defs sel stack (.gate g :: rest) e
  | later {stack i rest out e} :
      Expands defs sel stack [i] out → ErrAt defs sel stack rest e → ErrAt defs sel stack (i :: rest) e

/-- **Some misuse is reachable** (order-free): an invocation anywhere in `src`, or anywhere in the
instantiated body of a well-formed selected invocation of `src`, recursively, is misused. -/
inductive Bad (defs : List (Def K)) (sel : String → Bool) : List String → List (Instr K) → Prop
  | here {stack src i e} : i ∈ src → LocalErr defs sel stack i e → Bad defs sel stack src
  | inside {stack src g d body} : Instr.gate g ∈ src →
      Selected defs sel g d → g.mods = [] → d.name ∉ stack → Instantiates d g body →
      Bad defs sel (stack ++ [d.name]) (body.map Instr.gate) → Bad defs sel stack src

/-- The *kind* of an error: what the statement distinguishes ("cycles and arity or modifier misuse are
reported as errors"); payloads (counts, the cycle stack, the offending qubit) and message text are not part
of the property. -/
inductive Kind where
  | paramCount | cyclic | qubitCount | nonFixed | modifiers | invalidElem | undefinedElem
  deriving DecidableEq, Repr, Inhabited

def Err.kind : Err → Kind
  | .paramCount .. => .paramCount
  | .cyclic .. => .cyclic
  | .qubitCount .. => .qubitCount
  | .nonFixedQubit .. => .nonFixed
  | .modifiers .. => .modifiers
  | .invalidElemQubit .. => .invalidElem
  | .undefinedElemQubit .. => .undefinedElem

/-- **The misuse kinds that apply to one invocation** — with no priority among them: the property does not
say which of several applicable errors is reported. -/
inductive Misuse (defs : List (Def K)) (sel : String → Bool) (stack : List String) : Instr K → Kind → Prop
  | paramCount {g d} : Selected defs sel g d → d.params.length ≠ g.params.length →
      Misuse defs sel stack (.gate g) .paramCount
  | modifiers {g d} : Selected defs sel g d → g.mods ≠ [] → Misuse defs sel stack (.gate g) .modifiers
  | cyclic {g d} : Selected defs sel g d → d.name ∈ stack → Misuse defs sel stack (.gate g) .cyclic
  | qubitCount {g d qvars gates} : Selected defs sel g d → d.spec = .seq qvars gates →
      g.qubits.length ≠ qvars.length → Misuse defs sel stack (.gate g) .qubitCount
  | nonFixed {g d q} : Selected defs sel g d → q ∈ g.qubits → (∀ n, q ≠ Qubit.fixed n) →
      Misuse defs sel stack (.gate g) .nonFixed
  | invalidElem {g d qvars gates e q} : Selected defs sel g d → d.spec = .seq qvars gates → e ∈ gates →
      q ∈ e.qubits → (∀ v, q ≠ Qubit.var v) → Misuse defs sel stack (.gate g) .invalidElem
  | undefinedElem {g d qvars gates e v} : Selected defs sel g d → d.spec = .seq qvars gates → e ∈ gates →
      Qubit.var v ∈ e.qubits → v ∉ qvars → Misuse defs sel stack (.gate g) .undefinedElem

/-- **The misuse kinds applicable somewhere the expansion can reach** (order-free): at an instruction of
`src`, or inside the instantiated body of a well-formed selected invocation of `src`, recursively. An
implementation may report any of them (whichever it meets or tests first). -/
inductive MisuseAt (defs : List (Def K)) (sel : String → Bool) : List String → List (Instr K) → Kind → Prop
  | here {stack src i k} : i ∈ src → Misuse defs sel stack i k → MisuseAt defs sel stack src k
  | inside {stack src g d body k} : Instr.gate g ∈ src →
      Selected defs sel g d → g.mods = [] → d.name ∉ stack → Instantiates d g body →
      MisuseAt defs sel (stack ++ [d.name]) (body.map Instr.gate) k → MisuseAt defs sel stack src k

def isFixed : Qubit → Bool
  | .fixed _ => true
  | _ => false
def isVar : Qubit → Bool
  | .var _ => true
  | _ => false
def unboundVar (qvars : List String) : Qubit → Bool
  | .var v => !qvars.contains v
  | _ => false

/-- Bool form of `Misuse`: the applicable kinds of one instruction, in a fixed order -/
def localKinds (defs : List (Def K)) (sel : String → Bool) (i : Instr K) (stack : List String) : List Kind :=
  match i with
  | .other _ => []
  | .gate g =>
    match findDef defs g.name with
    | none => []
    | some d =>
      match d.spec with
      | .other => []
      | .seq qvars gates =>
        if sel g.name then
          (if d.params.length ≠ g.params.length then [Kind.paramCount] else []) ++
          (if g.mods.isEmpty then [] else [Kind.modifiers]) ++
          (if stack.contains d.name then [Kind.cyclic] else []) ++
          (if g.qubits.length ≠ qvars.length then [Kind.qubitCount] else []) ++
          (if g.qubits.all isFixed then [] else [Kind.nonFixed]) ++
          (if gates.all (fun e => e.qubits.all isVar) then [] else [Kind.invalidElem]) ++
          (if gates.any (fun e => e.qubits.any (unboundVar qvars)) then [Kind.undefinedElem] else [])
        else []

/-- Bool form of `MisuseAt`, same recursion scheme as the expansion (one unit of fuel per nesting level) -/
def kindsWith (defs : List (Def K)) (sel : String → Bool)
    (nested : List String → List (Instr K) → List Kind) (stack : List String) : List (Instr K) → List Kind
  | [] => []
  | i :: rest =>
    localKinds defs sel i stack ++
      (match gateSequenceFromInstruction defs sel i stack with
        | .ok (some (body, name)) => nested (stack ++ [name]) body
        | _ => []) ++
      kindsWith defs sel nested stack rest

def kindsFuel (defs : List (Def K)) (sel : String → Bool) : Nat → List String → List (Instr K) → List Kind
  | 0 => fun _ _ => []
  | n + 1 => kindsWith defs sel (kindsFuel defs sel n)

/-- every misuse kind an implementation may legitimately report for this body -/
def misuseKinds (defs : List (Def K)) (sel : String → Bool) (src : List (Instr K)) : List Kind :=
  kindsFuel defs sel (defs.length + 1) [] src

/-- `u`'s sequence has an element named `v`, and both are AS SEQUENCE definitions. -/
def Mentions (defs : List (Def K)) (u v : String) : Prop :=
  ∃ d qvars gates e, findDef defs u = some d ∧ d.spec = .seq qvars gates ∧ e ∈ gates ∧ e.name = v ∧
    v ∈ seqNames defs

/-- reflexive-transitive closure of `Mentions` -/
inductive Reach (defs : List (Def K)) : String → String → Prop
  | refl (u) : Reach defs u u
  | step {u v w} : Mentions defs u v → Reach defs v w → Reach defs u w

/-- **Which definitions are retained**: every non-sequence definition; a sequence definition iff it is
not selected, or is reachable (through any sequence definitions) from one that is not selected. -/
def Kept (defs : List (Def K)) (sel : String → Bool) (d : Def K) : Prop :=
  d.spec = .other ∨ sel d.name = false ∨
    ∃ u, u ∈ seqNames defs ∧ sel u = false ∧ Reach defs u d.name

/-- `allowed` without `name` -/
def removeName (allowed : List String) (name : String) : List String := allowed.filter (· != name)

theorem removeName_length_lt (allowed : List String) (name : String) (h : name ∈ allowed) :
    (removeName allowed name).length < allowed.length := by
  unfold removeName
  induction allowed with
  | nil => simp at h
  | cons x xs ih =>
    by_cases hx : x = name
    · subst hx
      have := List.length_filter_le (fun y => y != x) xs
      simp; omega
    · have hm : name ∈ xs := by
        cases h with
        | head => exact absurd rfl hx
        | tail _ h' => exact h'
      have := ih hm
      simp [hx]; omega

/-- **Second, independent Bool oracle for the expansion** (a verifier, written from the relational
specification): consume from `out` the expansion of `src` and return what is left. No fuel and no stack: a
definition being unfolded is removed from the `allowed` names for its own body, which loses nothing because
a finite derivation contains no cycle (`derivable_acyclic`). One-level unfolding and its side conditions are
`gate_sequence_from_instruction` with an empty stack (proved `↔ Selected ∧ Instantiates`).
`verifyPure defs sel (defs.map name) src out = some [] ↔ ExpandsPure defs sel src out` (`C20_verifyPure_iff`). -/
def verifyPure [DecidableEq K] (defs : List (Def K)) (sel : String → Bool) :
    List String → List (Instr K) → List (Instr K) → Option (List (Instr K))
  | _, [], out => some out
  | allowed, i :: rest, out =>
    match gateSequenceFromInstruction defs sel i [] with
    | .error _ => none
    | .ok none =>
      match out with
      | o :: out' => if o = i then verifyPure defs sel allowed rest out' else none
      | [] => none
    | .ok (some (body, name)) =>
      if _h : name ∈ allowed then
        match verifyPure defs sel (removeName allowed name) body out with
        | some out' => verifyPure defs sel allowed rest out'
        | none => none
      else none
termination_by allowed src => (allowed.length, src.length)
decreasing_by
  all_goals simp_wf
  · exact Prod.Lex.right _ (by simp)
  · exact Prod.Lex.left _ _ (removeName_length_lt allowed name _h)
  · exact Prod.Lex.right _ (by simp)

end QV.C20
