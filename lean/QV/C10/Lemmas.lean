import QV.Shared.ProgramLemmas
import QV.C10.Model
/-! Per-operation preservation lemmas for C10: well-formedness, completeness, freshness. -/
namespace QV.C10
open QV.Prog

/-! ### well-formedness is preserved by every operation -/

theorem wf_of_sub2 {p₁ p₂ p' : Program} (h₁ : WF p₁) (h₂ : WF p₂)
    (hs : ∀ k, (p'.container k).Sublist (p₁.container k) ∨ (p'.container k).Sublist (p₂.container k)) :
    WF p' := by
  constructor
  · intro k x hx
    rcases hs k with h | h
    · exact h₁.kinds k x (h.subset hx)
    · exact h₂.kinds k x (h.subset hx)
  · intro k hb
    rcases hs k with h | h
    · have : (keys (p'.container k)).Sublist (keys (p₁.container k)) := by
        simpa [keys] using h.map (fun x : Instr => x.key)
      exact (h₁.nodup k hb).sublist this
    · have : (keys (p'.container k)).Sublist (keys (p₂.container k)) := by
        simpa [keys] using h.map (fun x : Instr => x.key)
      exact (h₂.nodup k hb).sublist this

theorem wf_expandCalibrations {p : Program} (h : WF p) (out : List Instr) : WF (expandCalibrations p out) :=
  wf_addMany (wf_rebuildUsed (wf_cloneWithoutBody h)) out

def seqBase (p : Program) (kept : List String) : Program :=
  { p with gateDefs := p.gateDefs.filter (fun g => kept.contains g.key), body := [], used := [] }

theorem wf_seqBase {p : Program} (h : WF p) (kept : List String) : WF (seqBase p kept) := by
  apply wf_of_sub h
  intro k; cases k <;> simp [seqBase, Program.container]

theorem expandSequences_eq (p : Program) (kept : List String) (out : List Instr) :
    expandSequences p kept out = addMany (rebuildUsed (seqBase p kept)) out := rfl

theorem wf_expandSequences {p : Program} (h : WF p) (kept : List String) (out : List Instr) :
    WF (expandSequences p kept out) :=
  wf_addMany (wf_rebuildUsed (wf_seqBase h kept)) out

/-- the program `simplify` has after dropping the calibrations and rebuilding the cache (879-881) -/
def simpMid (p : Program) (out : List Instr) : Program :=
  rebuildUsed { expandCalibrations p out with cals := [], mcals := [] }

theorem wf_simpMid {p : Program} (h : WF p) (out : List Instr) : WF (simpMid p out) := by
  apply wf_rebuildUsed
  apply wf_of_sub (wf_expandCalibrations h out)
  intro k; cases k <;> simp [Program.container]

theorem simplify_eq (p : Program) (out : List Instr) (kF kW kE : List String) :
    simplify p out kF kW kE =
      { simpMid p out with frames := (simpMid p out).frames.filter (fun f => kF.contains f.key)
                           waveforms := (simpMid p out).waveforms.filter (fun w => kW.contains w.key)
                           externs := (simpMid p out).externs.filter (fun x => kE.contains x.key) } := rfl

theorem wf_simplify {p : Program} (h : WF p) (out : List Instr) (kF kW kE : List String) :
    WF (simplify p out kF kW kE) := by
  rw [simplify_eq]
  apply wf_of_sub (wf_simpMid h out)
  intro k
  cases k <;> simp [Program.container]

theorem wf_wrapInLoop {p : Program} (h : WF p) (n : Nat) (hd tl : List Instr) : WF (wrapInLoop p n hd tl) := by
  match n with
  | 0 => exact wf_cloneWithoutBody h
  | 1 => exact h
  | n + 2 => exact wf_addMany (wf_cloneWithoutBody h) _

theorem wf_resolvePlaceholders {p : Program} (h : WF p) (nb : List Instr)
    (hv : ∀ x ∈ nb, x.kind = .body) : WF (resolvePlaceholders p nb) := by
  apply wf_rebuildUsed
  constructor
  · intro k x hx
    cases k
    case body => exact hv x (by simpa [Program.container] using hx)
    all_goals exact h.kinds _ x (by simpa [Program.container] using hx)
  · intro k hb
    have := h.nodup k hb
    cases k <;> simp_all [Program.container]

theorem wf_step {p : Program} (h : WF p) (o : Op) (hv : o.valid = true) : WF (step p o) := by
  cases o with
  | add i => exact wf_add h i
  | addMany is => exact wf_addMany h is
  | cloneWithoutBody => exact wf_cloneWithoutBody h
  | expandCalibrations r => cases r with
    | none => exact h
    | some out => exact wf_expandCalibrations h out
  | expandSequences r => cases r with
    | none => exact h
    | some r => exact wf_expandSequences h r.1 r.2
  | simplify r => cases r with
    | none => exact h
    | some r => obtain ⟨out, kF, kW, kE⟩ := r; exact wf_simplify h out kF kW kE
  | wrapInLoop n hd tl => exact wf_wrapInLoop h n hd tl
  | resolvePlaceholders nb =>
    apply wf_resolvePlaceholders h
    intro x hx
    simp only [Op.valid, List.all_eq_true, beq_iff_eq] at hv
    exact hv x hx
  | filter mask => exact wf_fromInstructions _
  | rebuild => exact wf_fromInstructions _
  | intoRebuild => exact wf_fromInstructions _
  | clone => exact h

theorem wf_eval (h : Hist) (hv : h.valid = true) : WF (eval h) := by
  induction h with
  | new is => exact wf_fromInstructions is
  | op h o ih =>
    simp only [Hist.valid, Bool.and_eq_true] at hv
    exact wf_step (ih hv.1) o hv.2
  | concat a b iha ihb =>
    simp only [Hist.valid, Bool.and_eq_true] at hv
    exact wf_concat (iha hv.1) (ihb hv.2)

/-! ### invariant after the operations that rebuild the cache -/

theorem inv_simplify {p : Program} (h : WF p) (out : List Instr) (kF kW kE : List String) :
    Inv (simplify p out kF kW kE) := by
  intro q
  have hm := inv_rebuildUsed { expandCalibrations p out with cals := [], mcals := [] } q
  have hc := Q_congr (wf_simplify h out kF kW kE) (wf_simpMid h out) rfl rfl rfl q
  rw [hc]
  exact hm

theorem inv_rebuild {p : Program} (h : WF p) : Inv (fromInstructions (toInstructions p)) := by
  rw [fromInstructions_toInstructions h]; exact inv_rebuildUsed p

/-! ### completeness (`Q ⊆ used`): broken only by clone-without-body -/

theorem complete_empty : Complete empty := by
  intro q hq; simp [empty, toInstructions, qubitsOf] at hq

theorem complete_cloneWithoutBody_iff (p : Program) : Complete (cloneWithoutBody p) ↔ cloneClean p = true := by
  simp only [Complete, cloneClean, List.isEmpty_iff]
  constructor
  · intro h
    apply List.eq_nil_iff_forall_not_mem.mpr
    intro q hq
    have := h q hq
    simp [cloneWithoutBody] at this
  · intro h q hq; rw [h] at hq; simp at hq

theorem complete_step {p : Program} (hw : WF p) (hc : Complete p) (o : Op)
    (hl : stepNoLoss p o = true) : Complete (step p o) := by
  cases o with
  | add i => exact complete_add hc i
  | addMany is => exact complete_addMany hc is
  | cloneWithoutBody => exact (complete_cloneWithoutBody_iff p).mpr hl
  | expandCalibrations r => cases r with
    | none => exact hc
    | some out => exact complete_addMany ((inv_iff _).mp (inv_rebuildUsed _)).1 out
  | expandSequences r => cases r with
    | none => exact hc
    | some r => exact complete_addMany ((inv_iff _).mp (inv_rebuildUsed _)).1 r.2
  | simplify r => cases r with
    | none => exact hc
    | some r => obtain ⟨out, kF, kW, kE⟩ := r; exact ((inv_iff _).mp (inv_simplify hw out kF kW kE)).1
  | wrapInLoop n hd tl =>
    match n with
    | 0 => exact (complete_cloneWithoutBody_iff p).mpr (by simpa [stepNoLoss] using hl)
    | 1 => exact hc
    | n + 2 =>
      have : cloneClean p = true := by simpa [stepNoLoss] using hl
      exact complete_addMany ((complete_cloneWithoutBody_iff p).mpr this) _
  | resolvePlaceholders nb => exact ((inv_iff _).mp (inv_rebuildUsed _)).1
  | filter mask => exact ((inv_iff _).mp (inv_filterInstructions hw mask)).1
  | rebuild => exact ((inv_iff _).mp (inv_rebuild hw)).1
  | intoRebuild =>
    show Complete (fromInstructions (intoInstructions p))
    rw [intoInstructions_eq]; exact ((inv_iff _).mp (inv_rebuild hw)).1
  | clone => exact hc

/-! ### freshness (`used ⊆ Q`): broken only by replacing a definition that carries qubits -/

theorem fresh_empty : Fresh empty := by
  intro q hq; simp [empty] at hq

theorem fresh_add_clean {p : Program} (h : Fresh p) (i : Instr) (hc : addClean p i = true) :
    Fresh (add p i) := by
  apply fresh_add h i
  intro old hr q hq
  simp only [addClean] at hc
  have hr' : (if i.kind = .body then none else lookup (p.container i.kind) i.key) = some old := hr
  rw [hr'] at hc
  exact subset_iff.mp hc q hq

theorem fresh_addMany_clean {p : Program} (h : Fresh p) (is : List Instr) (hc : addManyClean p is = true) :
    Fresh (addMany p is) := by
  induction is generalizing p with
  | nil => exact h
  | cons i is ih =>
    simp only [addManyClean, Bool.and_eq_true] at hc
    exact ih (fresh_add_clean h i hc.1) hc.2

theorem fresh_concat_clean {p q : Program} (hp : Fresh p) (hq : Fresh q) (hwq : WF q)
    (hc : concatClean p q = true) : Fresh (concat p q) := by
  apply fresh_concat hp hq hwq
  intro y ⟨k, hb, hy, hk⟩ x hx
  apply subset_iff.mp hc
  simp only [qubitsOf, List.mem_flatMap]
  refine ⟨y, ?_, hx⟩
  simp only [replaced, List.mem_flatMap, List.mem_filter, List.contains_iff_mem]
  refine ⟨k, ?_, hy, hk⟩
  cases k <;> simp [Kind.defs] at hb ⊢

theorem fresh_step {p : Program} (hw : WF p) (hf : Fresh p) (o : Op)
    (hs : stepNoStale p o = true) : Fresh (step p o) := by
  cases o with
  | add i => exact fresh_add_clean hf i hs
  | addMany is => exact fresh_addMany_clean hf is hs
  | cloneWithoutBody => exact fresh_cloneWithoutBody p
  | expandCalibrations r => cases r with
    | none => exact hf
    | some out => exact fresh_addMany_clean ((inv_iff _).mp (inv_rebuildUsed _)).2 out hs
  | expandSequences r => cases r with
    | none => exact hf
    | some r => exact fresh_addMany_clean ((inv_iff _).mp (inv_rebuildUsed _)).2 r.2 hs
  | simplify r => cases r with
    | none => exact hf
    | some r => obtain ⟨out, kF, kW, kE⟩ := r; exact ((inv_iff _).mp (inv_simplify hw out kF kW kE)).2
  | wrapInLoop n hd tl =>
    match n with
    | 0 => exact fresh_cloneWithoutBody p
    | 1 => exact hf
    | n + 2 =>
      have : addManyClean (cloneWithoutBody p) (hd ++ p.body ++ tl) = true := by
        simpa [stepNoStale] using hs
      exact fresh_addMany_clean (fresh_cloneWithoutBody p) _ this
  | resolvePlaceholders nb => exact ((inv_iff _).mp (inv_rebuildUsed _)).2
  | filter mask => exact ((inv_iff _).mp (inv_filterInstructions hw mask)).2
  | rebuild => exact ((inv_iff _).mp (inv_rebuild hw)).2
  | intoRebuild =>
    show Fresh (fromInstructions (intoInstructions p))
    rw [intoInstructions_eq]; exact ((inv_iff _).mp (inv_rebuild hw)).2
  | clone => exact hf

end QV.C10
