import QV.Shared.Program
/-
C10 — the state machine of public `Program` operations and how each one treats the used-qubit
cache. The container/cache functions themselves are in `QV/Shared/Program.lean` (one Lean function
per Rust function); here: the operations as data (`Op`), histories as trees (`Hist`, because the
operand of a concatenation has a history of its own), and the two decidable predicates on
histories that exclude exactly the two known findings.

Opaque inputs (supplied by the harness from the real run, because they are other properties'
business): the instructions a calibration expansion hands to `add_instruction` (`out`), the result
of sequence-gate expansion and the gate definitions kept, which frames / waveforms / extern pragmas
`simplify` found to be used, the five instructions `wrap_in_loop` generates, the body after
placeholder resolution, the verdicts of a filter predicate.
-/
namespace QV.C10
open QV.Prog

inductive Op where
  /-- `add_instruction` -/
  | add (i : Instr)
  /-- `add_instructions` -/
  | addMany (is : List Instr)
  /-- `clone_without_body_instructions` -/
  | cloneWithoutBody
  /-- `expand_calibrations` / `expand_calibrations_with_source_map`; `none` = `Err` (program unchanged) -/
  | expandCalibrations (r : Option (List Instr))
  /-- `expand_defgate_sequences` / `…_with_source_map`; kept gate-definition keys and new body -/
  | expandSequences (r : Option (List String × List Instr))
  /-- `simplify`; expansion output and the kept frame / waveform / extern keys -/
  | simplify (r : Option (List Instr × List String × List String × List String))
  /-- `wrap_in_loop(_, _, n)`; `hd = [DECLARE, MOVE, LABEL]`, `tl = [SUB, JUMP-WHEN]` -/
  | wrapInLoop (n : Nat) (hd tl : List Instr)
  /-- `resolve_placeholders` / `resolve_placeholders_with_custom_resolvers`; the resolved body -/
  | resolvePlaceholders (newBody : List Instr)
  /-- `filter_instructions(pred)`; the verdicts of `pred` on the listing -/
  | filter (mask : List Bool)
  /-- `Program::from_instructions(p.to_instructions())` -/
  | rebuild
  /-- `Program::from_instructions(p.into_instructions())` -/
  | intoRebuild
  /-- `clone()` -/
  | clone
  deriving Repr, Inhabited

def step (p : Program) : Op → Program
  | .add i => add p i
  | .addMany is => addMany p is
  | .cloneWithoutBody => cloneWithoutBody p
  | .expandCalibrations none => p
  | .expandCalibrations (some out) => expandCalibrations p out
  | .expandSequences none => p
  | .expandSequences (some (kept, out)) => expandSequences p kept out
  | .simplify none => p
  | .simplify (some (out, kF, kW, kE)) => simplify p out kF kW kE
  | .wrapInLoop n hd tl => wrapInLoop p n hd tl
  | .resolvePlaceholders nb => resolvePlaceholders p nb
  | .filter mask => filterInstructions p mask
  | .rebuild => fromInstructions (toInstructions p)
  | .intoRebuild => fromInstructions (intoInstructions p)
  | .clone => p

/-- a history: a program comes from an instruction list (`from_instructions`, `from_str`, `new` =
the empty list), from an operation on a program, or from concatenating two programs -/
inductive Hist where
  | new (is : List Instr)
  | op (h : Hist) (o : Op)
  | concat (a b : Hist)
  deriving Repr, Inhabited

def eval : Hist → Program
  | .new is => fromInstructions is
  | .op h o => step (eval h) o
  | .concat a b => concat (eval a) (eval b)

/-! ### validity of the opaque inputs -/

/-- placeholder resolution rewrites body instructions into body instructions -/
def Op.valid : Op → Bool
  | .resolvePlaceholders nb => nb.all (fun x => x.kind == .body)
  | _ => true

def Hist.valid : Hist → Bool
  | .new _ => true
  | .op h o => h.valid && o.valid
  | .concat a b => a.valid && b.valid

/-! ### finding 1: `clone_without_body_instructions` resets the cache -/

/-- the retained definitions mention no qubit (so an empty cache is right) -/
def cloneClean (p : Program) : Bool := (qubitsOf (toInstructions (cloneWithoutBody p))).isEmpty

def stepNoLoss (p : Program) : Op → Bool
  | .cloneWithoutBody => cloneClean p
  | .wrapInLoop n _ _ => n == 1 || cloneClean p
  | _ => true

/-- no `clone_without_body_instructions` (directly or through `wrap_in_loop`) on a program whose
retained calibrations mention qubits -/
def Hist.noLoss : Hist → Bool
  | .new _ => true
  | .op h o => h.noLoss && stepNoLoss (eval h) o
  | .concat a b => a.noLoss && b.noLoss

/-! ### finding 2: a redefined calibration leaves stale qubits -/

/-- adding `i` replaces no definition, or every qubit of the replaced one is still mentioned by the
new listing -/
def addClean (p : Program) (i : Instr) : Bool :=
  match (if i.kind = .body then none else lookup (p.container i.kind) i.key) with
  | some old => subset old.getQubits (qubitsOf (toInstructions (add p i)))
  | none => true

def addManyClean (p : Program) : List Instr → Bool
  | [] => true
  | i :: is => addClean p i && addManyClean (add p i) is

/-- the definitions of `p` that `p += q` overwrites -/
def replaced (p q : Program) : List Instr :=
  Kind.defs.flatMap fun k => (p.container k).filter fun x => (keys (q.container k)).contains x.key

def concatClean (p q : Program) : Bool :=
  subset (qubitsOf (replaced p q)) (qubitsOf (toInstructions (concat p q)))

def stepNoStale (p : Program) : Op → Bool
  | .add i => addClean p i
  | .addMany is => addManyClean p is
  | .expandCalibrations (some out) => addManyClean (rebuildUsed (cloneWithoutBody p)) out
  | .expandSequences (some (kept, out)) =>
      addManyClean (rebuildUsed { p with gateDefs := p.gateDefs.filter (fun g => kept.contains g.key),
                                         body := [], used := [] }) out
  | .wrapInLoop n hd tl =>
      n == 0 || n == 1 || addManyClean (cloneWithoutBody p) (hd ++ p.body ++ tl)
  | _ => true

/-- no step at which a definition carrying qubits is replaced and some of its qubits disappear
from the listing while staying in the cache -/
def Hist.noStale : Hist → Bool
  | .new is => addManyClean empty is
  | .op h o => h.noStale && stepNoStale (eval h) o
  | .concat a b => a.noStale && b.noStale && concatClean (eval a) (eval b)

end QV.C10
