import QV.Wire
import QV.Shared.ProgramWire
import QV.C10.Model
/-! Driver side of the C10 correspondence check. -/
namespace QV.C10
open QV QV.Prog

def decStrs : Sexp → Option (List String)
  | .list xs => xs.mapM Sexp.asStr?
  | _ => none

def decOp : Sexp → Option Op
  | .list [.atom "add", i] => (decInstr i).map .add
  | .list [.atom "addMany", is] => (decInstrs is).map .addMany
  | .list [.atom "cloneWb"] => some .cloneWithoutBody
  | .list [.atom "expCal", .atom "none"] => some (.expandCalibrations none)
  | .list [.atom "expCal", .list [.atom "some", out]] => (decInstrs out).map fun o => .expandCalibrations (some o)
  | .list [.atom "expSeq", .atom "none"] => some (.expandSequences none)
  | .list [.atom "expSeq", .list [.atom "some", kept, out]] => do
    let k ← decStrs kept
    let o ← decInstrs out
    pure (.expandSequences (some (k, o)))
  | .list [.atom "simplify", .atom "none"] => some (.simplify none)
  | .list [.atom "simplify", .list [.atom "some", out, kF, kW, kE]] => do
    let o ← decInstrs out
    let f ← decStrs kF
    let w ← decStrs kW
    let e ← decStrs kE
    pure (.simplify (some (o, f, w, e)))
  | .list [.atom "wrap", n, hd, tl] => do
    let n ← n.asNat?
    let hd ← decInstrs hd
    let tl ← decInstrs tl
    pure (.wrapInLoop n hd tl)
  | .list [.atom "resolve", nb] => (decInstrs nb).map .resolvePlaceholders
  | .list [.atom "filter", .list bs] => (bs.mapM decBool).map .filter
  | .list [.atom "rebuild"] => some .rebuild
  | .list [.atom "intoRebuild"] => some .intoRebuild
  | .list [.atom "clone"] => some .clone
  | _ => none

partial def decHist : Sexp → Option Hist
  | .list [.atom "new", is] => (decInstrs is).map .new
  | .list [.atom "op", h, o] => do
    let h ← decHist h
    let o ← decOp o
    pure (.op h o)
  | .list [.atom "concat", a, b] => do
    let a ← decHist a
    let b ← decHist b
    pure (.concat a b)
  | _ => none

def opInstrs : Op → List Instr
  | .add i => [i]
  | .addMany is => is
  | .expandCalibrations (some o) => o
  | .expandSequences (some (_, o)) => o
  | .simplify (some (o, _, _, _)) => o
  | .wrapInLoop _ hd tl => hd ++ tl
  | .resolvePlaceholders nb => nb
  | _ => []

/-- every instruction the history mentions -/
def Hist.instrs : Hist → List Instr
  | .new is => is
  | .op h o => h.instrs ++ opInstrs o
  | .concat a b => a.instrs ++ b.instrs

def opName : Op → String
  | .add _ => "add" | .addMany _ => "addMany" | .cloneWithoutBody => "cloneWb"
  | .expandCalibrations none => "expCal-err" | .expandCalibrations (some _) => "expCal"
  | .expandSequences none => "expSeq-err" | .expandSequences (some _) => "expSeq"
  | .simplify none => "simplify-err" | .simplify (some _) => "simplify"
  | .wrapInLoop n _ _ => if n ≥ 2 then "wrap-n" else s!"wrap-{n}"
  | .resolvePlaceholders _ => "resolve" | .filter _ => "filter" | .rebuild => "rebuild"
  | .intoRebuild => "intoRebuild" | .clone => "clone"

def Hist.opNames : Hist → List String
  | .new _ => []
  | .op h o => h.opNames ++ [opName o]
  | .concat a b => a.opNames ++ b.opNames ++ ["concat"]

/-- the programs after the initial node and after every step of the top-level chain -/
def spine : Hist → List Program
  | .new is => [fromInstructions is]
  | .op h o => spine h ++ [step (eval h) o]
  | .concat a b => spine a ++ [concat (eval a) (eval b)]

def Hist.size : Hist → Nat
  | .new _ => 0
  | .op h _ => h.size + 1
  | .concat a b => a.size + b.size + 1

structure State where
  listing : List Instr
  used : List Qubit

def decState (tbl : List Instr) : Sexp → Option State
  | .list [.atom "state", l, u] => do
    let listing ← decPids tbl l
    let used ← decQubits u
    pure { listing, used }
  | _ => none

def State.missing (s : State) : List Qubit := (qubitsOf s.listing).filter (fun q => !s.used.contains q)
def State.stale (s : State) : List Qubit := s.used.filter (fun q => !(qubitsOf s.listing).contains q)
/-- the property's first clause on an observed state -/
def State.inv (s : State) : Bool := setEq s.used (qubitsOf s.listing)

def showState (s : State) : String := s!"{showListing s.listing} used={showQubits s.used}"
def showProg (p : Program) : String := s!"{showListing (toInstructions p)} used={showQubits p.used}"

def agreeState (p : Program) (s : State) : Bool :=
  decide (toInstructions p = s.listing) && setEq p.used s.used

/-- narrow classifiers of the two known findings on an observed state of history `h`:
missing qubits all belong to calibrations retained in the listing and the history clones without
body a program with such calibrations; stale qubits all belong to calibrations the history
mentions but the listing no longer holds and the history replaces a calibration -/
def kfTags (h : Hist) (noLoss noStale : Bool) (s : State) : List String :=
  let calsIn := s.listing.filter (fun i => i.kind == .cal || i.kind == .mcal)
  let calsGone := h.instrs.filter (fun i => (i.kind == .cal || i.kind == .mcal) && !s.listing.contains i)
  let m := s.missing
  let st := s.stale
  let mOk := m.isEmpty || (!noLoss && m.all (fun q => (qubitsOf calsIn).contains q))
  let sOk := st.isEmpty || (!noStale && st.all (fun q => (qubitsOf calsGone).contains q))
  if mOk && sOk then
    (if m.isEmpty then [] else ["kf:C10/clone-without-body-resets-cache"]) ++
    (if st.isEmpty then [] else ["kf:C10/redefined-calibration-leaves-stale-qubits"])
  else []

def handle (inp out : Sexp) : CaseResult :=
  match inp with
  | .list [.atom "hist", hx] =>
    match decHist hx with
    | none => .bad "undecodable history"
    | some h =>
    match out with
    | .list [.atom "out", .list (.atom "new" :: nw), .list (.atom "trace" :: sts), .list [.atom "rused", ru],
             .list [.atom "eq", e], .list [.atom "calq", cq], .list [.atom "keymm", km], .list (.atom "sib" :: sibs)] =>
      match nw.mapM decInstr, decQubits ru, decBool e, cq.asNat?, km.asNat?, sibs.mapM Sexp.asStr? with
      | some fresh, some rused, some eq, some calq, some keymm, some sib =>
        let tbl := h.instrs ++ fresh
        match sts.mapM (decState tbl) with
        | none => { agree := false, specOk := true, nontrivial := false, tags := ["undecodable-output"], detail := s!"impl={out}" }
        | some states =>
          let ps := spine h
          let final := eval h
          let rebuilt := fromInstructions (toInstructions final)
          let projOk := tbl.all Instr.projOk
          let agree := projOk && keymm == 0 && sib.isEmpty && ps.length == states.length &&
            (ps.zip states).all (fun (p, s) => agreeState p s) &&
            setEq rebuilt.used rused && progEq final rebuilt == eq
          let last := states.getLast?
          -- spec: the cache of the FINAL observed state is the qubit set of its listing, and the
          -- program equals the one rebuilt from its listing
          let invOk := match last with | some s => s.inv | none => false
          -- calq: calibration definitions whose get_qubits is not identifier ++ body qubits
          let specOk := invOk && eq && calq == 0 && keymm == 0 && sib.isEmpty
          let noLoss := h.noLoss
          let noStale := h.noStale
          let valid := h.valid
          let kf := match last with
            | some s => if invOk then [] else kfTags h noLoss noStale s
            | none => []
          -- non-trivial: the history has an operation and the final listing mentions a qubit
          let nontrivial := h.size ≥ 1 && !(qubitsOf (toInstructions final)).isEmpty
          let tags := h.opNames.eraseDups ++
            [s!"ops{min h.size 9}", if valid then "valid" else "INVALID",
             if noLoss then "noLoss" else "loss", if noStale then "noStale" else "stale",
             if invB final then "inv" else "inv-broken"] ++ (if keymm == 0 then [] else ["key-mismatch"]) ++ (if sib.isEmpty then [] else ["sibling-mismatch"]) ++
            (let l := toInstructions final
             if l.isEmpty then ["flavour-empty"] else if l.all (fun i => i.kind == .mcal) then ["flavour-only-mcal"]
             else if l.all (fun i => i.kind == .cal || i.kind == .mcal) then ["flavour-only-calibrations"]
             else if l.all (fun i => i.kind != .body) then ["flavour-only-definitions"] else []) ++
            (if final.used.any (fun q => match q with | .ph _ => true | _ => false) then ["placeholder-in-cache"] else []) ++ kf
          { agree, specOk, nontrivial, tags,
            detail := s!"model spine: {ps.map showProg} rebuilt.used={showQubits rebuilt.used} eq={progEq final rebuilt} | " ++
              s!"impl trace: {states.map showState} rused={showQubits rused} eq={eq} new={showListing fresh} projOk={projOk} calqMismatches={calq} keyMismatches={keymm} failedSiblingRelations={sib}" }
      | _, _, _, _, _, _ => { agree := false, specOk := true, nontrivial := false, tags := ["undecodable-output"], detail := s!"impl={out}" }
    | _ => { agree := false, specOk := true, nontrivial := false, tags := ["undecodable-output"], detail := s!"impl={out}" }
  | .list [.atom "pair", ax, bx] =>
    match decHist ax, decHist bx with
    | some a, some b =>
      match out with
      | .list [.atom "pout", .list (.atom "new" :: nw), sa, sb, .list [.atom "eq", e], .list [.atom "keymm", km], .list (.atom "sib" :: sibs)] =>
        match nw.mapM decInstr, decBool e, km.asNat?, sibs.mapM Sexp.asStr? with
        | some fresh, some eq, some keymm, some sib =>
          let tbl := a.instrs ++ b.instrs ++ fresh
          match decState tbl sa, decState tbl sb with
          | some sa, some sb =>
            let pa := eval a
            let pb := eval b
            let agree := tbl.all Instr.projOk && keymm == 0 && sib.isEmpty && agreeState pa sa && agreeState pb sb && progEq pa pb == eq
            -- spec: the same listing implies equal programs
            let same := decide (sa.listing = sb.listing)
            let specOk := (!same || eq) && keymm == 0 && sib.isEmpty
            let kf := if specOk then [] else
              (if sa.inv then [] else kfTags a a.noLoss a.noStale sa) ++
              (if sb.inv then [] else kfTags b b.noLoss b.noStale sb)
            -- a failing pair is explained only if every side whose cache is wrong is explained
            let explained := keymm == 0 && sib.isEmpty && (sa.inv || !(kfTags a a.noLoss a.noStale sa).isEmpty) &&
                             (sb.inv || !(kfTags b b.noLoss b.noStale sb).isEmpty) && !(sa.inv && sb.inv)
            let tags := ["pair", if same then "same-listing" else "different-listing",
              if eq then "eq" else "neq"] ++ (if explained then kf.eraseDups else [])
            { agree, specOk, nontrivial := same && (a.size + b.size ≥ 1), tags,
              detail := s!"model: a={showProg pa} b={showProg pb} eq={progEq pa pb} | impl: a={showState sa} b={showState sb} eq={eq}" }
          | _, _ => { agree := false, specOk := true, nontrivial := false, tags := ["undecodable-output"], detail := s!"impl={out}" }
        | _, _, _, _ => { agree := false, specOk := true, nontrivial := false, tags := ["undecodable-output"], detail := s!"impl={out}" }
      | _ => { agree := false, specOk := true, nontrivial := false, tags := ["undecodable-output"], detail := s!"impl={out}" }
    | _, _ => .bad "undecodable pair"
  | _ => .bad s!"undecodable input {inp}"

end QV.C10

def main : IO UInt32 := QV.runMain QV.C10.handle
