import QV.C10.Lemmas
/-
C10 — A program's used-qubit set and equality depend only on its content.

"After any sequence of public operations, a program's used-qubit set equals the set of qubits
mentioned by its instructions. Two programs with the same instruction listing compare equal. The
operations include building, adding, concatenating, cloning without body, resolving placeholders,
expanding calibrations or gate sequences, and simplifying."

FULL STATEMENT (false of the code, see `C10_full_counterexample`):
    ∀ h : Hist, h.valid → Inv (eval h)
where `Inv p := ∀ q, q ∈ p.used ↔ q ∈ qubitsOf (toInstructions p)`.

The invariant splits into two inclusions and each of the two known findings breaks exactly one:
* `Complete p` (listing ⊆ cache) fails only through `clone_without_body_instructions` (directly
  or inside `wrap_in_loop`) on a program whose retained definitions mention qubits
  — finding C10/clone-without-body-resets-cache; excluded by `Hist.noLoss`;
* `Fresh p` (cache ⊆ listing) fails only when a definition carrying qubits is replaced and one of
  its qubits is no longer mentioned — finding C10/redefined-calibration-leaves-stale-qubits;
  excluded by `Hist.noStale`.
Both predicates are decidable functions of the history (`QV/C10/Model.lean`) and both are shown
to be TIGHT at the step where they apply. All theorems are unbounded: induction over histories of
any shape and size (a tree, since a concatenation operand has its own history).
-/
namespace QV.C10
open QV.Prog

/-! #### reachable programs are well-formed -/

theorem C10_wf_reachable (h : Hist) (hv : h.valid = true) : WF (eval h) := wf_eval h hv

/-! #### the base case and the two half-invariants -/

theorem C10_inv_empty : Inv empty := by
  intro q; simp [empty, toInstructions, qubitsOf]

/-- listing ⊆ cache after every history that never clones-without-body a program whose retained
definitions mention qubits — however many calibrations were redefined on the way -/
theorem C10_complete_partial (h : Hist) (hv : h.valid = true) (hl : h.noLoss = true) :
    Complete (eval h) := by
  induction h with
  | new is => exact complete_addMany complete_empty is
  | op h o ih =>
    simp only [Hist.valid, Hist.noLoss, Bool.and_eq_true] at hv hl
    exact complete_step (wf_eval h hv.1) (ih hv.1 hl.1) o hl.2
  | concat a b iha ihb =>
    simp only [Hist.valid, Hist.noLoss, Bool.and_eq_true] at hv hl
    exact complete_concat (iha hv.1 hl.1) (ihb hv.2 hl.2)

/-- cache ⊆ listing after every history in which no replaced definition loses a qubit — however
often the program was cloned without body -/
theorem C10_fresh_partial (h : Hist) (hv : h.valid = true) (hs : h.noStale = true) :
    Fresh (eval h) := by
  induction h with
  | new is => exact fresh_addMany_clean fresh_empty is hs
  | op h o ih =>
    simp only [Hist.valid, Hist.noStale, Bool.and_eq_true] at hv hs
    exact fresh_step (wf_eval h hv.1) (ih hv.1 hs.1) o hs.2
  | concat a b iha ihb =>
    simp only [Hist.valid, Hist.noStale, Bool.and_eq_true] at hv hs
    exact fresh_concat_clean (iha hv.1 hs.1.1) (ihb hv.2 hs.1.2) (wf_eval b hv.2) hs.2

/-- THE INVARIANT, for every history that avoids exactly the two known findings -/
theorem C10_partial (h : Hist) (hv : h.valid = true) (hl : h.noLoss = true) (hs : h.noStale = true) :
    Inv (eval h) :=
  (inv_iff _).mpr ⟨C10_complete_partial h hv hl, C10_fresh_partial h hv hs⟩

/-- the inductive step on its own: any single operation keeps the invariant when the two
step-predicates hold -/
theorem C10_step_inv {p : Program} (hw : WF p) (hi : Inv p) (o : Op)
    (hl : stepNoLoss p o = true) (hs : stepNoStale p o = true) : Inv (step p o) :=
  (inv_iff _).mpr ⟨complete_step hw ((inv_iff p).mp hi).1 o hl, fresh_step hw ((inv_iff p).mp hi).2 o hs⟩

theorem C10_concat_inv {p q : Program} (hq : WF q) (hip : Inv p) (hiq : Inv q)
    (hc : concatClean p q = true) : Inv (concat p q) :=
  (inv_iff _).mpr ⟨complete_concat ((inv_iff p).mp hip).1 ((inv_iff q).mp hiq).1,
    fresh_concat_clean ((inv_iff p).mp hip).2 ((inv_iff q).mp hiq).2 hq hc⟩

/-! #### operations that RESTORE the invariant whatever the state was -/

/-- `simplify`, `resolve_placeholders`, `filter_instructions`, rebuilding from the listing and
failed expansions aside, these operations recompute the cache: the invariant holds afterwards even
if it did not before -/
theorem C10_restoring_ops {p : Program} (hw : WF p) :
    (∀ out kF kW kE, Inv (step p (.simplify (some (out, kF, kW, kE))))) ∧
    (∀ nb, Inv (step p (.resolvePlaceholders nb))) ∧
    (∀ mask, Inv (step p (.filter mask))) ∧
    Inv (step p .rebuild) ∧ Inv (step p .intoRebuild) :=
  ⟨fun out kF kW kE => inv_simplify hw out kF kW kE, fun _ => inv_rebuildUsed _,
   fun mask => inv_filterInstructions hw mask, inv_rebuild hw,
   by show Inv (fromInstructions (intoInstructions p)); rw [intoInstructions_eq]; exact inv_rebuild hw⟩

/-! #### tightness: the excluded situations are exactly the failing ones -/

/-- cloning without body keeps the invariant iff the retained definitions mention no qubit -/
theorem C10_clone_iff (p : Program) : Inv (cloneWithoutBody p) ↔ cloneClean p = true := by
  rw [inv_iff, complete_cloneWithoutBody_iff]
  exact ⟨fun h => h.1, fun h => ⟨h, fresh_cloneWithoutBody p⟩⟩

/-- from a state satisfying the invariant, `add_instruction` keeps it iff no replaced definition
loses a qubit -/
theorem C10_add_iff {p : Program} (hi : Inv p) (i : Instr) : Inv (add p i) ↔ addClean p i = true := by
  have ⟨hc, hf⟩ := (inv_iff p).mp hi
  constructor
  · intro h
    have hfa := ((inv_iff _).mp h).2
    simp only [addClean]
    cases hr : (if i.kind = .body then none else lookup (p.container i.kind) i.key) with
    | none => rfl
    | some old =>
      apply subset_iff.mpr
      exact fresh_add_imp hc i hfa old hr
  · intro h
    exact (inv_iff _).mpr ⟨complete_add hc i, fresh_add_clean hf i h⟩

/-! #### equality depends only on content -/

/-- two well-formed programs satisfying the invariant with the same listing compare equal under
the derived `PartialEq` (which also compares the cache) -/
theorem C10_equal_listing_equal_program {p q : Program} (hp : WF p) (hq : WF q) (ip : Inv p) (iq : Inv q)
    (hl : toInstructions p = toInstructions q) : progEq p q = true := by
  apply progEq_of_containers hp
  · intro k
    rw [← filter_toInstructions hp k, ← filter_toInstructions hq k, hl]
  · intro x; rw [ip x, iq x, hl]

theorem C10_equal_listing_equal_history (a b : Hist)
    (va : a.valid = true) (vb : b.valid = true) (la : a.noLoss = true) (lb : b.noLoss = true)
    (sa : a.noStale = true) (sb : b.noStale = true)
    (hl : toInstructions (eval a) = toInstructions (eval b)) : progEq (eval a) (eval b) = true :=
  C10_equal_listing_equal_program (wf_eval a va) (wf_eval b vb) (C10_partial a va la sa)
    (C10_partial b vb lb sb) hl

/-- conversely, equal programs have equal caches as sets: where the invariant fails on one side
only, two programs with the same listing compare UNEQUAL -/
theorem C10_unequal_of_broken {p q : Program} (hl : toInstructions p = toInstructions q)
    (iq : Inv q) (np : ¬ Inv p) : progEq p q = false := by
  cases h : progEq p q with
  | false => rfl
  | true =>
    exfalso; apply np
    intro x; rw [progEq_used h x, iq x, hl]

/-! #### the findings, as proved counterexamples -/

private def cal5 : Instr := ⟨.cal, "X 5", 0, "DEFCAL X 5:\n\tNOP", [.fixed 5]⟩
private def x0 : Instr := ⟨.body, "", 1, "X 0", [.fixed 0]⟩
private def calA : Instr := ⟨.cal, "X 0", 2, "DEFCAL X 0:\n\tY 7", [.fixed 0, .fixed 7]⟩
private def calB : Instr := ⟨.cal, "X 0", 3, "DEFCAL X 0:\n\tY 13", [.fixed 0, .fixed 13]⟩
private def declN : Instr := ⟨.decl, "n", 4, "DECLARE n INTEGER[1]", []⟩
private def mv : Instr := ⟨.body, "", 5, "MOVE n[0] 3", []⟩
private def lbl : Instr := ⟨.body, "", 6, "LABEL @l", []⟩
private def sb : Instr := ⟨.body, "", 7, "SUB n[0] 1", []⟩
private def jw : Instr := ⟨.body, "", 8, "JUMP-WHEN @l n[0]", []⟩

private def hClone : Hist := .op (.new [cal5, x0]) .cloneWithoutBody
private def hWrap0 : Hist := .op (.new [cal5, x0]) (.wrapInLoop 0 [declN, mv, lbl] [sb, jw])
private def hWrap3 : Hist := .op (.new [cal5, x0]) (.wrapInLoop 3 [declN, mv, lbl] [sb, jw])
private def hRedef : Hist := .new [calA, calB]
private def hRedefAdd : Hist := .op (.new [calA]) (.add calB)
private def hRedefConcat : Hist := .concat (.new [calA]) (.new [calB])

private theorem not_inv_of_invB {p : Program} (h : invB p = false) : ¬ Inv p := by
  rw [← invB_iff, h]; simp

/-- finding C10/clone-without-body-resets-cache: `DEFCAL X 5: NOP; X 0`, clone without body →
cache {} but the listing mentions qubit 5; `wrap_in_loop` inherits it (n=0: {} vs {5}; n=3: {0} vs {0,5}) -/
theorem C10_clone_counterexample :
    ¬ Inv (eval hClone) ∧ ¬ Inv (eval hWrap0) ∧ ¬ Inv (eval hWrap3) ∧
    hClone.noLoss = false ∧ hWrap0.noLoss = false ∧ hWrap3.noLoss = false ∧
    hClone.noStale = true ∧ hWrap3.noStale = true :=
  ⟨not_inv_of_invB (by decide), not_inv_of_invB (by decide), not_inv_of_invB (by decide),
   by decide, by decide, by decide, by decide, by decide⟩

/-- finding C10/redefined-calibration-leaves-stale-qubits: `DEFCAL X 0: Y 7; DEFCAL X 0: Y 13` has
cache {0,7,13} while its listing mentions {0,13} — through from_instructions, add_instruction and += -/
theorem C10_redefinition_counterexample :
    ¬ Inv (eval hRedef) ∧ ¬ Inv (eval hRedefAdd) ∧ ¬ Inv (eval hRedefConcat) ∧
    hRedef.noStale = false ∧ hRedefAdd.noStale = false ∧ hRedefConcat.noStale = false ∧
    hRedef.noLoss = true :=
  ⟨not_inv_of_invB (by decide), not_inv_of_invB (by decide), not_inv_of_invB (by decide),
   by decide, by decide, by decide, by decide⟩

/-- the full statement is false of the code as it is -/
theorem C10_full_counterexample : ¬ (∀ h : Hist, h.valid = true → Inv (eval h)) := fun h =>
  C10_clone_counterexample.1 (h hClone (by decide))

/-- and so is "same listing ⇒ equal": the redefined program and the program rebuilt from its
listing have the same listing and compare unequal -/
theorem C10_equality_counterexample :
    toInstructions (eval hRedef) = toInstructions (eval (.op hRedef .rebuild)) ∧
    progEq (eval hRedef) (eval (.op hRedef .rebuild)) = false := by
  constructor <;> decide

/-! #### non-vacuity -/

private def hLong : Hist :=
  .op (.concat (.op (.new [cal5, x0, calA]) (.expandCalibrations (some [x0, ⟨.body, "", 9, "Y 7", [.fixed 7]⟩])))
               (.op (.new [declN, x0]) (.wrapInLoop 2 [declN, mv, lbl] [sb, jw])))
      (.simplify (some ([x0], [], [], [])))

example : hLong.valid = true ∧ hLong.noLoss = true ∧ hLong.noStale = true := by decide
example : Inv (eval hLong) := C10_partial hLong (by decide) (by decide) (by decide)
/-- a clean history that does replace a calibration (the replaced one's qubits survive) -/
example : (Hist.new [calA, x0, ⟨.body, "", 9, "Y 7", [.fixed 7]⟩, calB]).noStale = true := by decide
/-- a clean clone: no calibration is retained -/
example : (Hist.op (.new [declN, x0]) .cloneWithoutBody).noLoss = true := by decide

end QV.C10
