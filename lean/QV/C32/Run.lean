import QV.Wire
import QV.C32.Model
import QV.C32.Spec
/-! Driver side of the C32 correspondence check (see docs/C32.md). -/
namespace QV.C32
open QV

/-! ### f64 bits ↔ Float ↔ exact dyadic -/

private def hexVal (c : Char) : Option Nat :=
  if '0' ≤ c ∧ c ≤ '9' then some (c.toNat - '0'.toNat)
  else if 'a' ≤ c ∧ c ≤ 'f' then some (c.toNat - 'a'.toNat + 10)
  else none

/-- atom `x0123456789abcdef` ↦ the 64-bit pattern -/
def bitsOfAtom (s : Sexp) : Option Nat :=
  match s with
  | .atom a =>
    match a.toList with
    | 'x' :: ds =>
      if ds.length != 16 then none
      else ds.foldlM (fun acc c => (hexVal c).map fun v => acc * 16 + v) 0
    | _ => none
  | _ => none

def floatOfBits (n : Nat) : Float := Float.ofBits (UInt64.ofNat n)

/-- exact value of a finite f64 bit pattern as `m / 2^s`; `none` for NaN/±inf and for `-0.0`
(the sign of zero matters to `1.0 / (rate * 100.0)`; the generator never produces it for rates and
for other positions `-0.0` behaves as `0`, handled by `dyOfBitsZ`). -/
def dyOfBits (n : Nat) : Option Dy :=
  let neg := n / 2 ^ 63 == 1
  let e : Nat := (n / 2 ^ 52) % 2048
  let frac := n % 2 ^ 52
  if e == 2047 then none
  else if e == 0 && frac == 0 && neg then none
  else
    let m : Nat := if e == 0 then frac else frac + 2 ^ 52
    let ex : Int := Int.ofNat (if e == 0 then 1 else e) - 1075
    let sm : Int := if neg then -(m : Int) else (m : Int)
    if m == 0 then some ⟨0, 0⟩
    else if ex ≥ 0 then some ⟨sm * (2 : Int) ^ ex.toNat, 0⟩
    else some ⟨sm, (-ex).toNat⟩

/-- like `dyOfBits` but `-0.0 ↦ 0` -/
def dyOfBitsZ (n : Nat) : Option Dy :=
  if n == 2 ^ 63 then some ⟨0, 0⟩ else dyOfBits n

private partial def trailingZeros (n : Nat) (acc : Nat) : Nat :=
  if n == 0 then acc else if n % 2 == 0 then trailingZeros (n / 2) (acc + 1) else acc

/-- the f64 nearest to a dyadic (exact whenever the dyadic is an f64, which is the only use) -/
def floatOfDy (d : Dy) : Float :=
  let a := d.m.natAbs
  if a == 0 then 0.0
  else
    let t := trailingZeros a 0
    let odd := a / 2 ^ t
    let f := Float.scaleB (Float.ofNat odd) ((t : Int) - (d.s : Int))
    if d.m < 0 then -f else f

/-- the f64-rounded product, as a dyadic -/
def fmulF (a b : Dy) : Dy :=
  match dyOfBitsZ (floatOfDy a * floatOfDy b).toBits.toNat with
  | some d => d
  | none => ⟨0, 0⟩

def sameValue (a b : Dy) : Bool := a.m * (2 : Int) ^ b.s == b.m * (2 : Int) ^ a.s

/-- mirror of builtin.rs:259-276 in f64 arithmetic (cross-check of the exact model's comparison) -/
def resolveCountF (d r : Float) : Except SamplingErr Nat :=
  let fract := d * r
  let sc := fract.round
  let mis := fract - sc
  let maxMis := 1.0 / (r * 100.0)
  if sc < 0.0 || sc >= 4294967295.0 then .error .outOfRange
  else if mis.abs >= maxMis then .error .misaligned
  else .ok sc.toUInt32.toNat

/-! ### complex doubles -/

structure CF where
  re : Float
  im : Float

instance : Inhabited CF := ⟨⟨0.0, 0.0⟩⟩

def twoPi : Float := 2.0 * 3.14159265358979323846264338327950288

instance : Scalar CF where
  zero := ⟨0.0, 0.0⟩
  one := ⟨1.0, 0.0⟩
  add a b := ⟨a.re + b.re, a.im + b.im⟩
  -- num_complex: (a.re*b.re - a.im*b.im, a.re*b.im + a.im*b.re)
  mul a b := ⟨a.re * b.re - a.im * b.im, a.re * b.im + a.im * b.re⟩
  -- only ever applied to real operands in the pipeline (detuning*index/rate, scale/count)
  div a b :=
    if a.im == 0.0 && b.im == 0.0 then ⟨a.re / b.re, 0.0⟩
    else
      let n := b.re * b.re + b.im * b.im
      ⟨(a.re * b.re + a.im * b.im) / n, (a.im * b.re - a.re * b.im) / n⟩
  ofNat n := ⟨Float.ofNat n, 0.0⟩
  ofDy d := ⟨floatOfDy d, 0.0⟩
  -- Radians::from(Cycles(x)) = x * 2.0 * PI ; Complex64::cis(t) = (cos t, sin t)
  turn x := let t := x.re * 2.0 * 3.14159265358979323846264338327950288; ⟨Float.cos t, Float.sin t⟩
  isZero x := x.re == 0.0 && x.im == 0.0

def CF.norm (a : CF) : Float := Float.sqrt (a.re * a.re + a.im * a.im)
def CF.sub (a b : CF) : CF := ⟨a.re - b.re, a.im - b.im⟩
def CF.hasNaN (a : CF) : Bool := a.re.isNaN || a.im.isNaN
def CF.bitEq (a b : CF) : Bool := a.re.toBits == b.re.toBits && a.im.toBits == b.im.toBits
def CF.isZero (a : CF) : Bool := a.re == 0.0 && a.im == 0.0

/-- `|a - b| ≤ tol · max(|a|, |b|)` (both NaN counts as equal) -/
def CF.close (tol : Float) (a b : CF) : Bool :=
  if a.hasNaN || b.hasNaN then a.hasNaN && b.hasNaN
  else
    let d := (a.sub b).norm
    d <= tol * (if a.norm > b.norm then a.norm else b.norm)

/-! ### decoding -/

inductive R where
  | err (e : SamplingErr)
  | crash
  | ph (flat : Bool) (n : Nat)
  | s (flat : Bool) (n : Nat) (vals : Array CF)
  | skip
  | bad

def R.count? : R → Option Nat
  | .ph _ n => some n
  | .s _ n _ => some n
  | _ => none

def R.cls : R → String
  | .err .outOfRange => "err-range"
  | .err .misaligned => "err-misaligned"
  | .crash => "crash"
  | .ph true _ => "ph-flat"
  | .ph false _ => "ph-vec"
  | .s true _ _ => "s-flat"
  | .s false _ _ => "s-vec"
  | .skip => "skip"
  | .bad => "bad"

def R.get (r : R) (k : Nat) : CF :=
  match r with
  | .s true _ v => v.getD 0 default
  | .s false _ v => v.getD k default
  | _ => default

private def floatsOf (xs : List Sexp) : Option (Array CF) :=
  let rec go : List Sexp → Array CF → Option (Array CF)
    | [], acc => some acc
    | a :: b :: rest, acc =>
      match bitsOfAtom a, bitsOfAtom b with
      | some x, some y => go rest (acc.push ⟨floatOfBits x, floatOfBits y⟩)
      | _, _ => none
    | _, _ => none
  go xs #[]

def decodeR (s : Sexp) : R :=
  match s with
  | .atom "skip" => .skip
  | .list [.atom "err", .atom "range"] => .err .outOfRange
  | .list [.atom "err", .atom "misaligned"] => .err .misaligned
  | .list (.atom "crash" :: _) => .crash
  | .list [.atom "ph", .atom "flat", n] => match n.asNat? with | some n => .ph true n | none => .bad
  | .list [.atom "ph", .atom "vec", n] => match n.asNat? with | some n => .ph false n | none => .bad
  | .list [.atom "s", .atom "flat", n, re, im] =>
    match n.asNat?, floatsOf [re, im] with
    | some n, some v => .s true n v
    | _, _ => .bad
  | .list (.atom "s" :: .atom "vec" :: rest) =>
    match floatsOf rest with
    | some v => .s false v.size v
    | none => .bad
  | _ => .bad

def ofOut (o : Out CF) : R :=
  match o with
  | .err e => .err e
  | .crash => .crash
  | .placeholder (.flat _ n) => .ph true n
  | .placeholder (.vec l) => .ph false l.length
  | .samples (.flat iq n) => .s true n #[iq]
  | .samples (.vec l) => .s false l.length l.toArray

/-- What the comparison may ignore because the property does not constrain it:
`bothErr` — the rounded count is out of range AND the duration is misaligned (either error is right,
which one is reported depends on the order of two tests); `zeroPartial` — a partial request with a
known zero scale (a placeholder and all-zero samples are both allowed by the statement). -/
structure Loose where
  bothErr : Bool := false
  zeroPartial : Bool := false

def R.isFlat : R → Bool
  | .s f _ _ => f
  | .ph f _ => f
  | _ => false

def R.allZero (r : R) : Bool :=
  match r with
  | .s _ n v => n == 0 || v.all CF.isZero
  | _ => false

/-- numeric equality (`-0.0 = 0.0`, NaN = NaN) -/
def CF.same (a b : CF) : Bool :=
  (a.re == b.re || (a.re.isNaN && b.re.isNaN)) && (a.im == b.im || (a.im.isNaN && b.im.isNaN))

/-- element-wise comparison of two sample sequences of equal length, whatever their representation
(`IqSamples::Flat` and `IqSamples::Samples` are documented as equivalent) -/
def R.elems (eq : CF → CF → Bool) (a b : R) (n : Nat) : Bool :=
  n == 0 || (if a.isFlat && b.isFlat then eq (a.get 0) (b.get 0)
             else (List.range n).all fun k => eq (a.get k) (b.get k))

/-- same outcome up to representation: error class (either one when both apply), length, values to
tolerance (a flat value of an empty sequence is not observable) -/
def R.agrees (lo : Loose) (tol : Float) (a b : R) : Bool :=
  match a, b with
  | .err e, .err f => e == f || lo.bothErr
  | .crash, .crash => true
  | .ph _ na, .ph _ nb => na == nb
  | .s _ na _, .s _ nb _ => na == nb && R.elems (CF.close tol) a b na
  | .ph _ na, .s _ nb _ => lo.zeroPartial && na == nb && b.allZero
  | .s _ na _, .ph _ nb => lo.zeroPartial && na == nb && a.allZero
  | .skip, .skip => true
  | _, _ => false

/-- the same samples (numerically), the same placeholder length, the same error — representation ignored -/
def R.bitEq (a b : R) : Bool :=
  match a, b with
  | .err e, .err f => e == f
  | .crash, .crash => true
  | .ph _ na, .ph _ nb => na == nb
  | .s _ na _, .s _ nb _ => na == nb && R.elems CF.same a b na
  | _, _ => false

/-- same error class / same length, whatever the representation -/
def R.sameShape (a b : R) : Bool :=
  match a, b with
  | .err e, .err f => e == f
  | .crash, .crash => true
  | _, _ => match a.count?, b.count? with
    | some x, some y => x == y
    | _, _ => false

structure In where
  kind : Kind
  durBits : Nat
  rateBits : Nat
  dur : Dy
  rate : Dy
  padL : Dy
  padR : Dy
  scale : Param CF
  phase : Param CF
  det : Param CF
  mask : Nat
  iq : CF
  fill : Array CF
  light : Bool

private def kindOfName : String → Option Kind
  | "flat" => some .flat
  | "gaussian" => some .gaussian
  | "dragGaussian" => some .dragGaussian
  | "erfSquare" => some .erfSquare
  | "hermiteGaussian" => some .hermiteGaussian
  | "boxcarKernel" => some .boxcarKernel
  | "raisedCosine" => some .raisedCosine
  | _ => none

private def paramOf (s : Sexp) : Option (Param CF) :=
  match s with
  | .atom "absent" => some .absent
  | .atom "unknown" => some .unknown
  | .list [.atom "k", x] => (bitsOfAtom x).map fun b => .known ⟨floatOfBits b, 0.0⟩
  | _ => none

def decodeIn (s : Sexp) : Option In :=
  match s with
  | .list [.atom "req", .atom kn, .list [.atom "dur", d], .list [.atom "rate", r],
      .list [.atom "pad", pl, pr], .list [.atom "scale", sc], .list [.atom "phase", ph],
      .list [.atom "det", dt], .list [.atom "mask", mk], .list [.atom "iq", ire, iim],
      .list [.atom "fill", f0, f1, f2], .list (.atom "params" :: _), .list [.atom "light", .atom lt]] => do
    let kind ← kindOfName kn
    let db ← bitsOfAtom d
    let rb ← bitsOfAtom r
    let dur ← dyOfBitsZ db
    let rate ← dyOfBits rb
    let padL ← (bitsOfAtom pl).bind dyOfBitsZ
    let padR ← (bitsOfAtom pr).bind dyOfBitsZ
    let scale ← paramOf sc
    let phase ← paramOf ph
    let det ← paramOf dt
    let mask ← mk.asNat?
    let iq ← floatsOf [ire, iim]
    let fill ← [f0, f1, f2].mapM fun x => (bitsOfAtom x).map fun b => (⟨floatOfBits b, 0.0⟩ : CF)
    some { kind, durBits := db, rateBits := rb, dur, rate, padL, padR, scale, phase, det, mask,
           iq := iq.getD 0 default, fill := fill.toArray, light := lt == "true" }
  | _ => none

private def field (out : Sexp) (name : String) : Sexp :=
  match out with
  | .list (.atom "out" :: fs) =>
    match fs.find? (fun f => match f with | .list [.atom n, _] => n == name | _ => false) with
    | some (.list [_, v]) => v
    | _ => .atom "missing"
  | _ => .atom "missing"

private def fieldList (out : Sexp) (name : String) : List Sexp :=
  match out with
  | .list (.atom "out" :: fs) =>
    match fs.find? (fun f => match f with | .list (.atom n :: _) => n == name | _ => false) with
    | some (.list (_ :: vs)) => vs
    | _ => []
  | _ => []

private def bucket (n : Nat) : String :=
  if n == 0 then "n0" else if n == 1 then "n1" else if n < 8 then "n2-7" else if n < 32 then "n8-31"
  else if n < 256 then "n32-255" else if n < 5000 then "n256-4999" else "n-huge"

private def knownVal (p : Param CF) (dflt : CF) : CF :=
  match p with
  | .known x => x
  | _ => dflt

def handle (inp out : Sexp) : CaseResult :=
  match decodeIn inp with
  | none => .bad s!"undecodable input {inp}"
  | some q =>
    let rMain := decodeR (field out "main")
    let rFilled := decodeR (field out "filled")
    let rDirect := decodeR (field out "direct")
    let rBase := decodeR (field out "base")
    let rDbl := decodeR (field out "dbl")
    let rRot := decodeR (field out "rot")
    let conc := field out "conc"
    let sibD := (fieldList out "sibd").map decodeR
    let sibM := (fieldList out "sibm").map decodeR
    let rApd := decodeR (field out "apd")
    let explicitS := field out "explicit"
    let tol : Float := 1e-12
    -- the model request
    let left := if q.kind.padded then padSamples fmulF q.padL q.rate else 0
    let right := if q.kind.padded then padSamples fmulF q.padR q.rate else 0
    let env : Nat → CF := fun k => rBase.get (left + k)
    let req : Request CF :=
      { kind := q.kind,
        common := { duration := q.dur, scale := q.scale, phase := q.phase, detuning := q.det },
        rate := q.rate, padL := q.padL, padR := q.padR, wfKnown := q.mask == 0, iq := q.iq, env := env }
    let s := q.fill.getD 0 default
    let p := q.fill.getD 1 default
    let d := q.fill.getD 2 default
    let reqF := req.fill s p d
    let sF := knownVal reqF.common.scale ⟨1.0, 0.0⟩
    let pF := knownVal reqF.common.phase ⟨0.0, 0.0⟩
    let reqBase : Request CF :=
      { reqF with common := { duration := q.dur, scale := .absent, phase := .absent, detuning := .absent } }
    let reqDbl : Request CF := { reqF with common := { reqF.common with scale := .known ⟨2.0 * sF.re, 0.0⟩ } }
    let reqRot : Request CF := { reqF with common := { reqF.common with phase := .known ⟨pF.re + 0.25, 0.0⟩ } }
    let mMain := ofOut (sample fmulF req)
    let mFilled := ofOut (sample fmulF reqF)
    -- 1. model ↔ implementation
    let cntF := resolveCountF (floatOfBits q.durBits) (floatOfBits q.rateBits)
    let cntM := resolveCount fmulF q.dur q.rate
    let mirrorOk := (match cntF, cntM with
      | .ok a, .ok b => a == b
      | .error a, .error b => a == b
      | _, _ => false)
    let concOk := match conc with
      | .atom "some" => q.mask == 0
      | .atom "none" => q.mask != 0
      | _ => false
    -- what the property leaves open (see `Loose`)
    let x := fmulF q.dur q.rate
    let nRound := roundHA x.m x.den
    let bothErr := (decide (nRound < 0) || decide (u32Max ≤ nRound)) && !alignedB x q.rate nRound
    let zeroScaleKnown := match q.scale with | .known v => v.isZero | _ => false
    let lo : Loose := { bothErr := bothErr, zeroPartial := req.isPartial && zeroScaleKnown }
    let loF : Loose := { bothErr := bothErr }
    -- a padded total beyond usize::MAX is outside the property's bounded parameter ranges: whatever the
    -- implementation does there (panic, saturate, error) is not compared
    let outOfDomain := (match mMain with | .crash => true | _ => false) || (match mFilled with | .crash => true | _ => false)
    let agreeMain := R.agrees lo tol mMain rMain
    let agreeFilled := R.agrees loF tol mFilled rFilled && R.agrees loF tol mFilled rDirect
    let agreeVariants :=
      if q.light then
        R.agrees loF tol (ofOut (sample fmulF reqBase)) rBase &&
        R.agrees loF tol (ofOut (sample fmulF reqDbl)) rDbl &&
        R.agrees loF tol (ofOut (sample fmulF reqRot)) rRot
      else true
    let mirrorOk := mirrorOk || bothErr
    let agree := outOfDomain || (agreeMain && agreeFilled && agreeVariants && mirrorOk && concOk)
    -- 2. the specification, evaluated on the implementation's outputs
    let exact := sameValue x (q.dur.mul q.rate) &&
      (!q.kind.padded || (sameValue (fmulF q.padL q.rate) (q.padL.mul q.rate) &&
                          sameValue (fmulF q.padR q.rate) (q.padR.mul q.rate)))
    let modelCrash := match mFilled with | .crash => true | _ => false
    -- (a) length / error class
    let padOk := !q.kind.padded ||
      (padSpecB (fmulF q.padL q.rate) left && padSpecB (fmulF q.padR q.rate) right)
    let countRes : Option (Except SamplingErr Nat) :=
      match rDirect with
      | .err e => some (.error e)
      | _ => match rDirect.count? with
        | some total => if total ≥ left + right then some (.ok (total - left - right)) else none
        | none => none
    let specCount :=
      match rDirect with
      | .crash => modelCrash   -- usize overflow: outside the property's bounded parameter ranges
      | _ => match countRes with
        | some res => padOk && countSpecLooseB x q.rate res
        | none => false
    -- (b) every variant has the same error class / length
    let specShape := R.sameShape rMain rDirect && R.sameShape rFilled rDirect &&
      (!q.light || (R.sameShape rBase rDirect && R.sameShape rDbl rDirect && R.sameShape rRot rDirect))
    -- (c) once known, the same samples (partial API on fully known data ≡ concrete API, bit for bit)
    let specKnown := R.bitEq rFilled rDirect
    -- (d) partial ⇒ placeholder of the same length (or, with a known zero scale, all zeros);
    --     not partial ⇒ exactly the concrete samples
    let zeroScale := match q.scale with | .known v => v.isZero | _ => false
    let allZero (r : R) : Bool := match r with
      | .s _ n v => n == 0 || v.all CF.isZero
      | _ => false
    let specPartial :=
      match rDirect with
      | .err _ | .crash => true   -- covered by (b)
      | _ =>
        if req.isPartial then
          (match rMain with
           | .ph _ _ => true
           | .s _ _ _ => zeroScale && allZero rMain
           | _ => false)
        else R.bitEq rMain rDirect
    -- (e) zero scale ⇒ zeros
    let zeroF := sF.isZero
    let specZero := !zeroF || (match rDirect with | .s _ _ _ => allZero rDirect | _ => true)
    -- (f) no detuning: sample k = scale · cis(2π·phase) · base k
    let detZero := match reqF.common.detuning with | .absent => true | .known v => v.isZero | .unknown => false
    let rotor : CF := Scalar.mul sF (Scalar.turn pF)
    let pairwise (a b : R) (f : CF → CF) (tol : Float) : Bool :=
      match a, b with
      | .s _ na _, .s _ nb _ => na == nb && (List.range na).all fun k => CF.close tol (a.get k) (f (b.get k))
      | .err _, _ | .crash, _ => true
      | _, _ => false
    let specLinear := !q.light || !detZero || pairwise rDirect rBase (fun v => Scalar.mul rotor v) tol
    -- (g) doubling the scale doubles every sample; a quarter turn multiplies every sample by i
    let tolRot : Float := if detZero then 1e-12 else 1e-10
    let specDbl := !q.light || pairwise rDbl rDirect (fun v => ⟨2.0 * v.re, 2.0 * v.im⟩) tol
    let specRot := !q.light || pairwise rRot rDirect (fun v => ⟨-v.im, v.re⟩) tolRot
    -- (h) sibling entry points (struct-level trait impls, Waveform::from_parameters, WaveformInvocation →
    --     Waveform::new → try_evaluate) return bit for bit what the enum-level entry points return
    let specSiblings := sibD.length == 4 && sibM.length == 2 &&
      sibD.all (fun r => R.bitEq r rDirect) && sibM.all (fun r => R.bitEq r rMain)
    -- (i) `resolve_with_sample_rate`: same count / error as sampling, defaults 1, 0, 0
    let mResolved := rawResolve fmulF reqF.common q.rate
    let specExplicit :=
      match explicitS, mResolved with
      | .list [.atom "ex", n, sc, ph, dt], .total ex =>
        n.asNat? == some ex.count &&
          (match bitsOfAtom sc, bitsOfAtom ph, bitsOfAtom dt with
           | some a, some b, some c =>
             CF.same ⟨floatOfBits a, 0.0⟩ ⟨ex.scale.re, 0.0⟩ && CF.same ⟨floatOfBits b, 0.0⟩ ⟨ex.phase.re, 0.0⟩ &&
               CF.same ⟨floatOfBits c, 0.0⟩ ⟨ex.detuning.re, 0.0⟩
           | _, _, _ => false) &&
          (match rDirect with
           | .crash => true
           | _ => (rDirect.count?).map (fun t => decide (t == left + ex.count + right)) == some true)
      | .list [.atom "err", .atom "range"], .err _ =>
        R.sameShape rDirect (.err .outOfRange) && (decide (nRound < 0) || decide (u32Max ≤ nRound))
      | .list [.atom "err", .atom "misaligned"], .err _ =>
        R.sameShape rDirect (.err .misaligned) && !alignedB x q.rate nRound
      | _, _ => false
    -- (j) the public slice function apply_phase_and_detuning on scale·envelope gives the samples
    let specApd := !q.light || (match rApd with
      | .skip => (match rBase with | .s _ _ _ => false | _ => true)
      | _ => pairwise rDirect rApd (fun v => v) (if detZero then 1e-12 else 1e-10))
    let specOk := outOfDomain || (specCount && specShape && specKnown && specPartial && specZero && specLinear &&
      specDbl && specRot && specSiblings && specExplicit && specApd)
    let fails :=
      (if agreeMain then [] else ["model-main"]) ++ (if agreeFilled then [] else ["model-filled"]) ++
      (if agreeVariants then [] else ["model-variants"]) ++ (if mirrorOk then [] else ["float-mirror"]) ++
      (if concOk then [] else ["concretize"]) ++
      (if specCount then [] else ["spec-count"]) ++ (if specShape then [] else ["spec-shape"]) ++
      (if specKnown then [] else ["spec-known"]) ++ (if specPartial then [] else ["spec-partial"]) ++
      (if specZero then [] else ["spec-zero"]) ++ (if specLinear then [] else ["spec-linear"]) ++
      (if specDbl then [] else ["spec-double"]) ++ (if specRot then [] else ["spec-rotate"]) ++
      (if specSiblings then [] else ["spec-siblings"]) ++ (if specExplicit then [] else ["spec-explicit"]) ++
      (if specApd then [] else ["spec-apd"])
    let nontrivial := match rDirect with
      | .err _ => true
      | _ => match rDirect.count? with | some n => n ≥ 1 | none => false
    let tags :=
      [s!"{repr q.kind}".replace "QV.C32.Kind." "", s!"main-{rMain.cls}", s!"direct-{rDirect.cls}",
       if exact then "exact-product" else "inexact-product",
       bucket ((rDirect.count?).getD 0)] ++
      (if req.isPartial then ["partial"] else ["total"]) ++
      (if zeroF then ["zero-scale"] else []) ++
      (if detZero then [] else ["detuned"]) ++
      (if left > 0 then ["pad-left"] else []) ++ (if right > 0 then ["pad-right"] else []) ++
      (if q.light then [] else ["heavy-variants-skipped"]) ++
      (if modelCrash then ["usize-overflow"] else [])
    { agree := agree, specOk := specOk, nontrivial := nontrivial, tags := tags,
      detail := s!"failed={fails} model-main={mMain.cls}/{(mMain.count?).getD 0} impl-main={rMain.cls}/{(rMain.count?).getD 0} model-filled={mFilled.cls}/{(mFilled.count?).getD 0} impl-direct={rDirect.cls}/{(rDirect.count?).getD 0} countF={repr (match cntF with | .ok n => (n : Int) | .error .outOfRange => -1 | .error .misaligned => -2)} left={left} right={right}" }

end QV.C32

def main : IO UInt32 := QV.runMain QV.C32.handle
