import QV.C32.Model
/-
C32 specification, written independently of the model's algorithms: what "the rounded product",
"rounded-up padding" and "aligned" mean, as Props over exact integers, with Bool checkers that the
driver evaluates on the IMPLEMENTATION's sample counts (`Props.lean` proves checker ↔ Prop).
-/
namespace QV.C32

/-- `n` is `m/p` rounded to the nearest integer, ties away from zero (f64 `round`):
`|m/p - n| ≤ 1/2`, and at distance exactly `1/2` the result is the one of larger magnitude. -/
def IsRoundHA (m : Int) (p : Nat) (n : Int) : Prop :=
  2 * (m - n * p).natAbs ≤ p ∧ (2 * (m - n * p).natAbs = p → m.natAbs < (n * p).natAbs)

def isRoundHAB (m : Int) (p : Nat) (n : Int) : Bool :=
  decide (2 * (m - n * p).natAbs ≤ p) &&
    (!(decide (2 * (m - n * p).natAbs = p)) || decide (m.natAbs < (n * p).natAbs))

/-- `c = ⌈m/p⌉`: `(c-1)·p < m ≤ c·p`. -/
def IsCeil (m : Int) (p : Nat) (c : Int) : Prop := (c - 1) * p < m ∧ m ≤ c * p

def isCeilB (m : Int) (p : Nat) (c : Int) : Bool := decide ((c - 1) * p < m) && decide (m ≤ c * p)

/-- The duration "aligns with the sample rate" (the premise of the statement, made precise as the
criterion of the code in exact arithmetic): with `x = d·r` the product in samples and `n` its
rounding, `|x - n| < 1/(100·r)`; a negative rate never aligns, rate `0` always does. -/
def Aligned (x rate : Dy) (n : Int) : Prop :=
  0 ≤ rate.m ∧ (x.m - n * x.den).natAbs * 100 * rate.m.natAbs < x.den * rate.den

def alignedB (x rate : Dy) (n : Int) : Bool :=
  decide (0 ≤ rate.m) && decide ((x.m - n * x.den).natAbs * 100 * rate.m.natAbs < x.den * rate.den)

/-- **Sample-count specification.**  With `x` the product duration·rate and `n` its rounding:
`ok k` iff `k = n`, `0 ≤ n < u32::MAX` and the duration aligns; `outOfRange` iff `n` is outside
`[0, u32::MAX)`; `misaligned` iff in range and not aligned. -/
def CountSpec (x rate : Dy) (res : Except SamplingErr Nat) : Prop :=
  ∃ n : Int, IsRoundHA x.m x.den n ∧
    match res with
    | .ok k => (k : Int) = n ∧ n < u32Max ∧ Aligned x rate n
    | .error .outOfRange => n < 0 ∨ u32Max ≤ n
    | .error .misaligned => 0 ≤ n ∧ n < u32Max ∧ ¬ Aligned x rate n

/-- Bool form of `CountSpec`; for the error cases the witness `n` is found with `roundHA`
(any witness would do: `IsRoundHA` determines `n` uniquely, `Props.isRoundHA_unique`). -/
def countSpecB (x rate : Dy) (res : Except SamplingErr Nat) : Bool :=
  match res with
  | .ok k => isRoundHAB x.m x.den k && decide ((k : Int) < u32Max) && alignedB x rate k
  | .error .outOfRange =>
    let n := roundHA x.m x.den
    isRoundHAB x.m x.den n && (decide (n < 0) || decide (u32Max ≤ n))
  | .error .misaligned =>
    let n := roundHA x.m x.den
    isRoundHAB x.m x.den n && decide (0 ≤ n) && decide (n < u32Max) && !alignedB x rate n

/-- The same specification without fixing WHICH error is reported when both apply (rounded count out
of range and duration misaligned): the property does not constrain the order of the two tests.
`CountSpec` implies it (`Props.C32_count_loose`); this is the form evaluated on the implementation's
outputs. -/
def CountSpecLoose (x rate : Dy) (res : Except SamplingErr Nat) : Prop :=
  ∃ n : Int, IsRoundHA x.m x.den n ∧
    match res with
    | .ok k => (k : Int) = n ∧ n < u32Max ∧ Aligned x rate n
    | .error .outOfRange => n < 0 ∨ u32Max ≤ n
    | .error .misaligned => ¬ Aligned x rate n

def countSpecLooseB (x rate : Dy) (res : Except SamplingErr Nat) : Bool :=
  match res with
  | .ok k => isRoundHAB x.m x.den k && decide ((k : Int) < u32Max) && alignedB x rate k
  | .error .outOfRange =>
    let n := roundHA x.m x.den
    isRoundHAB x.m x.den n && (decide (n < 0) || decide (u32Max ≤ n))
  | .error .misaligned =>
    let n := roundHA x.m x.den
    isRoundHAB x.m x.den n && !alignedB x rate n

/-- **Padding specification**: the number of padding samples is `⌈pad·rate⌉`, clamped to
`[0, usize::MAX]`. -/
def PadSpec (x : Dy) (k : Nat) : Prop :=
  ∃ c : Int, IsCeil x.m x.den c ∧ k = min c.toNat usizeMax

def padSpecB (x : Dy) (k : Nat) : Bool :=
  -- candidates: the clamped value itself, or (when k = 0) any non-positive ceiling
  if k = 0 then decide (x.m ≤ 0)
  else if k = usizeMax then decide (((usizeMax : Int) - 1) * x.den < x.m)
  else decide (k < usizeMax) && isCeilB x.m x.den k

/-! ## Laws assumed of the scalar type in the value theorems

A commutative ring with a division satisfying `a / b = a · (1 / b)` and `0 / a = 0`, a map
`turn = x ↦ cis(2πx)` that turns addition into multiplication, and a faithful zero test.  Every field
with `turn x = exp(2πi·x)` satisfies them (`Props.lean` shows this for ℂ); IEEE doubles do not
(rounding) — that gap is the declared partial part of C32. -/

open Scalar in
structure Laws (K : Type) [Scalar K] : Prop where
  mul_assoc : ∀ a b c : K, mul (mul a b) c = mul a (mul b c)
  mul_comm : ∀ a b : K, mul a b = mul b a
  zero_mul : ∀ a : K, mul zero a = zero
  one_mul : ∀ a : K, mul one a = a
  zero_add : ∀ a : K, add zero a = a
  add_assoc : ∀ a b c : K, add (add a b) c = add a (add b c)
  zero_div : ∀ a : K, div zero a = zero
  div_def : ∀ a b : K, div a b = mul a (div one b)
  turn_zero : turn (zero : K) = one
  turn_add : ∀ a b : K, turn (add a b) = mul (turn a) (turn b)
  isZero_iff : ∀ a : K, isZero a = true ↔ a = zero

end QV.C32
