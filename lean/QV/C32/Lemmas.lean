import QV.C32.Spec
/-
C32 helper lemmas (core Lean only): the model's integer rounding functions meet their declarative
specifications, the specifications determine their value uniquely, and structural facts about the
sampling pipeline used by `Props.lean`.
-/
namespace QV.C32


theorem roundHA_spec (m : Int) (p : Nat) (hp : 0 < p) : IsRoundHA m p (roundHA m p) := by
  unfold IsRoundHA roundHA
  have h1 := Nat.div_add_mod (2 * m.natAbs + p) (2 * p)
  have h2 := Nat.mod_lt (2 * m.natAbs + p) (show 0 < 2 * p by omega)
  generalize (2 * m.natAbs + p) / (2 * p) = q at *
  generalize (2 * m.natAbs + p) % (2 * p) = r at *
  have h3 : 2 * p * q = 2 * (q * p) := by rw [Nat.mul_comm 2 p, Nat.mul_assoc, Nat.mul_comm p, Nat.mul_assoc, Nat.mul_comm]
  simp only []
  split
  · have e : (-(q : Int)) * (p : Int) = -((q * p : Nat) : Int) := by simp [Int.neg_mul]
    rw [e]
    generalize q * p = t at *
    omega
  · have e : ((q : Int)) * (p : Int) = ((q * p : Nat) : Int) := by simp
    rw [e]
    generalize q * p = t at *
    omega


theorem isRoundHA_unique_lt (m : Int) (p : Nat) (hp : 0 < p) (n n' : Int)
    (h : IsRoundHA m p n) (h' : IsRoundHA m p n') (hlt : n < n') : False := by
  unfold IsRoundHA at h h'
  obtain ⟨h1, h2⟩ := h
  obtain ⟨h1', h2'⟩ := h'
  have hpz : (0 : Int) ≤ (p : Int) := Int.natCast_nonneg p
  -- n' ≤ n + 1
  have hle : n' ≤ n + 1 := by
    apply Classical.byContradiction
    intro hc
    have h2n : n + 2 ≤ n' := by omega
    have := Int.mul_le_mul_of_nonneg_right h2n hpz
    rw [Int.add_mul] at this
    generalize n * (p : Int) = a at *
    generalize n' * (p : Int) = b at *
    omega
  have he : n' = n + 1 := by omega
  subst he
  have hb : (n + 1) * (p : Int) = n * p + p := by rw [Int.add_mul, Int.one_mul]
  rw [hb] at h1' h2'
  rcases Int.lt_or_le n 0 with hn | hn
  · have : (n + 1) * (p : Int) ≤ 0 := Int.mul_nonpos_of_nonpos_of_nonneg (by omega) hpz
    rw [hb] at this
    generalize n * (p : Int) = a at *
    omega
  · have : 0 ≤ n * (p : Int) := Int.mul_nonneg hn hpz
    generalize n * (p : Int) = a at *
    omega

theorem isRoundHA_unique (m : Int) (p : Nat) (hp : 0 < p) (n n' : Int)
    (h : IsRoundHA m p n) (h' : IsRoundHA m p n') : n = n' := by
  rcases Int.lt_trichotomy n n' with hlt | heq | hgt
  · exact (isRoundHA_unique_lt m p hp n n' h h' hlt).elim
  · exact heq
  · exact (isRoundHA_unique_lt m p hp n' n h' h hgt).elim

theorem ceilDiv_spec (m : Int) (p : Nat) (hp : 0 < p) : IsCeil m p (ceilDiv m p) := by
  unfold IsCeil ceilDiv
  have hp' : (0 : Int) < (p : Int) := by omega
  have h1 := Int.emod_add_mul_ediv (-m) (p : Int)
  have h2 := Int.emod_nonneg (-m) (show (p : Int) ≠ 0 by omega)
  have h3 := Int.emod_lt_of_pos (-m) hp'
  generalize (-m) / (p : Int) = d at *
  generalize (-m) % (p : Int) = r at *
  have e1 : (-d - 1) * (p : Int) = -(d * p) - p := by
    rw [Int.sub_mul, Int.neg_mul, Int.one_mul]
  have e2 : (-d) * (p : Int) = -(d * p) := by rw [Int.neg_mul]
  rw [e1, e2]
  rw [Int.mul_comm] at h1
  generalize d * (p : Int) = t at *
  omega

theorem isCeil_unique (m : Int) (p : Nat) (_hp : 0 < p) (c c' : Int)
    (h : IsCeil m p c) (h' : IsCeil m p c') : c = c' := by
  unfold IsCeil at h h'
  have hpz : (0 : Int) ≤ (p : Int) := Int.natCast_nonneg p
  rcases Int.lt_trichotomy c c' with hlt | heq | hgt
  · exfalso
    have : c * (p : Int) ≤ (c' - 1) * p := Int.mul_le_mul_of_nonneg_right (by omega) hpz
    generalize c * (p : Int) = a at *
    generalize (c' - 1) * (p : Int) = b at *
    omega
  · exact heq
  · exfalso
    have : c' * (p : Int) ≤ (c - 1) * p := Int.mul_le_mul_of_nonneg_right (by omega) hpz
    generalize c' * (p : Int) = a at *
    generalize (c - 1) * (p : Int) = b at *
    omega



theorem den_pos (x : Dy) : 0 < x.den := Nat.pow_pos (by decide)

/-- `resolveCount` with the rounding named -/
theorem resolveCount_eq (fmul : Dy → Dy → Dy) (d r : Dy) (x : Dy) (n : Int) (hx : fmul d r = x)
    (hn : roundHA x.m x.den = n) :
    resolveCount fmul d r =
      if n < 0 ∨ n ≥ u32Max then .error .outOfRange
      else if r.m < 0 then .error .misaligned
      else if (x.m - n * x.den).natAbs * 100 * r.m.natAbs ≥ x.den * r.den then .error .misaligned
      else .ok n.toNat := by
  subst hx; subst hn; rfl

theorem resolveCount_spec (fmul : Dy → Dy → Dy) (d r : Dy) :
    CountSpec (fmul d r) r (resolveCount fmul d r) := by
  have hr := roundHA_spec (fmul d r).m (fmul d r).den (den_pos _)
  rw [resolveCount_eq fmul d r (fmul d r) _ rfl rfl]
  generalize roundHA (fmul d r).m (fmul d r).den = n at *
  generalize fmul d r = x at *
  refine ⟨n, hr, ?_⟩
  by_cases h1 : n < 0 ∨ n ≥ u32Max
  · rw [if_pos h1]; unfold u32Max at *; simp only []; omega
  · rw [if_neg h1]
    by_cases h2 : r.m < 0
    · rw [if_pos h2]; simp only [Aligned]; unfold u32Max at *; omega
    · rw [if_neg h2]
      by_cases h3 : (x.m - n * x.den).natAbs * 100 * r.m.natAbs ≥ x.den * r.den
      · rw [if_pos h3]; simp only [Aligned]; unfold u32Max at *
        refine ⟨by omega, by omega, ?_⟩
        intro ⟨_, hlt⟩
        omega
      · rw [if_neg h3]; simp only [Aligned]; unfold u32Max at *
        refine ⟨by omega, by omega, by omega, ?_⟩
        omega


theorem isRoundHAB_iff (m : Int) (p : Nat) (n : Int) : isRoundHAB m p n = true ↔ IsRoundHA m p n := by
  unfold isRoundHAB IsRoundHA
  simp only [Bool.and_eq_true, Bool.or_eq_true, Bool.not_eq_true', decide_eq_true_eq, decide_eq_false_iff_not]
  constructor
  · rintro ⟨h1, h2⟩
    refine ⟨h1, fun h => ?_⟩
    rcases h2 with h2 | h2
    · exact absurd h h2
    · exact h2
  · rintro ⟨h1, h2⟩
    refine ⟨h1, ?_⟩
    by_cases h : 2 * (m - n * ↑p).natAbs = p
    · exact Or.inr (h2 h)
    · exact Or.inl h

theorem alignedB_iff (x r : Dy) (n : Int) : alignedB x r n = true ↔ Aligned x r n := by
  unfold alignedB Aligned
  simp only [Bool.and_eq_true, decide_eq_true_eq]

theorem isCeilB_iff (m : Int) (p : Nat) (c : Int) : isCeilB m p c = true ↔ IsCeil m p c := by
  unfold isCeilB IsCeil
  simp only [Bool.and_eq_true, decide_eq_true_eq]

theorem countSpecB_iff (x r : Dy) (res : Except SamplingErr Nat) :
    countSpecB x r res = true ↔ CountSpec x r res := by
  have hs := roundHA_spec x.m x.den (den_pos x)
  unfold countSpecB CountSpec
  match res with
  | .ok k =>
    simp only [Bool.and_eq_true, decide_eq_true_eq, isRoundHAB_iff, alignedB_iff]
    constructor
    · rintro ⟨⟨h1, h2⟩, h3⟩
      exact ⟨k, h1, rfl, h2, h3⟩
    · rintro ⟨n, h1, h2, h3, h4⟩
      subst h2
      exact ⟨⟨h1, h3⟩, h4⟩
  | .error .outOfRange =>
    simp only [Bool.and_eq_true, Bool.or_eq_true, decide_eq_true_eq, isRoundHAB_iff]
    constructor
    · rintro ⟨h1, h2⟩
      exact ⟨_, h1, h2⟩
    · rintro ⟨n, h1, h2⟩
      have := isRoundHA_unique _ _ (den_pos x) _ _ h1 hs
      subst this
      exact ⟨hs, h2⟩
  | .error .misaligned =>
    simp only [Bool.and_eq_true, Bool.not_eq_true', decide_eq_true_eq, isRoundHAB_iff]
    constructor
    · rintro ⟨⟨⟨h1, h2⟩, h3⟩, h4⟩
      refine ⟨_, h1, h2, h3, ?_⟩
      intro ha
      rw [← alignedB_iff] at ha
      rw [ha] at h4
      exact Bool.noConfusion h4
    · rintro ⟨n, h1, h2, h3, h4⟩
      have := isRoundHA_unique _ _ (den_pos x) _ _ h1 hs
      subst this
      refine ⟨⟨⟨hs, h2⟩, h3⟩, ?_⟩
      cases hb : alignedB x r (roundHA x.m x.den)
      · rfl
      · exact absurd ((alignedB_iff _ _ _).1 hb) h4

theorem countSpec_loose (x r : Dy) (res : Except SamplingErr Nat) (h : CountSpec x r res) :
    CountSpecLoose x r res := by
  obtain ⟨n, hn, h⟩ := h
  refine ⟨n, hn, ?_⟩
  match res with
  | .ok k => exact h
  | .error .outOfRange => exact h
  | .error .misaligned => exact h.2.2

theorem countSpecLooseB_iff (x r : Dy) (res : Except SamplingErr Nat) :
    countSpecLooseB x r res = true ↔ CountSpecLoose x r res := by
  have hs := roundHA_spec x.m x.den (den_pos x)
  unfold countSpecLooseB CountSpecLoose
  match res with
  | .ok k =>
    simp only [Bool.and_eq_true, decide_eq_true_eq, isRoundHAB_iff, alignedB_iff]
    constructor
    · rintro ⟨⟨h1, h2⟩, h3⟩
      exact ⟨k, h1, rfl, h2, h3⟩
    · rintro ⟨n, h1, h2, h3, h4⟩
      subst h2
      exact ⟨⟨h1, h3⟩, h4⟩
  | .error .outOfRange =>
    simp only [Bool.and_eq_true, Bool.or_eq_true, decide_eq_true_eq, isRoundHAB_iff]
    constructor
    · rintro ⟨h1, h2⟩
      exact ⟨_, h1, h2⟩
    · rintro ⟨n, h1, h2⟩
      have := isRoundHA_unique _ _ (den_pos x) _ _ h1 hs
      subst this
      exact ⟨hs, h2⟩
  | .error .misaligned =>
    simp only [Bool.and_eq_true, Bool.not_eq_true', isRoundHAB_iff]
    constructor
    · rintro ⟨h1, h4⟩
      refine ⟨_, h1, ?_⟩
      intro ha
      rw [← alignedB_iff] at ha
      rw [ha] at h4
      exact Bool.noConfusion h4
    · rintro ⟨n, h1, h4⟩
      have := isRoundHA_unique _ _ (den_pos x) _ _ h1 hs
      subst this
      refine ⟨hs, ?_⟩
      cases hb : alignedB x r (roundHA x.m x.den)
      · rfl
      · exact absurd ((alignedB_iff _ _ _).1 hb) h4

/-- the specification determines the outcome -/
theorem countSpec_functional (x r : Dy) (a b : Except SamplingErr Nat)
    (ha : CountSpec x r a) (hb : CountSpec x r b) : a = b := by
  obtain ⟨n, hn, ha⟩ := ha
  obtain ⟨n', hn', hb⟩ := hb
  have := isRoundHA_unique _ _ (den_pos x) _ _ hn hn'
  subst this
  match a, b with
  | .ok k, .ok k' => simp only [] at ha hb; congr 1; omega
  | .ok k, .error .outOfRange => simp only [] at ha hb; omega
  | .ok k, .error .misaligned => simp only [] at ha hb; exact absurd ha.2.2 hb.2.2
  | .error .outOfRange, .ok k => simp only [] at ha hb; omega
  | .error .misaligned, .ok k => simp only [] at ha hb; exact absurd hb.2.2 ha.2.2
  | .error .outOfRange, .error .outOfRange => rfl
  | .error .misaligned, .error .misaligned => rfl
  | .error .outOfRange, .error .misaligned => simp only [] at ha hb; omega
  | .error .misaligned, .error .outOfRange => simp only [] at ha hb; omega

theorem padSamples_spec (fmul : Dy → Dy → Dy) (pad rate : Dy) :
    PadSpec (fmul pad rate) (padSamples fmul pad rate) :=
  ⟨_, ceilDiv_spec _ _ (den_pos _), rfl⟩

theorem toNat_cases (c : Int) : (c ≤ 0 ∧ c.toNat = 0) ∨ (0 < c ∧ (c.toNat : Int) = c) := by
  rcases Int.lt_or_le 0 c with h | h
  · exact Or.inr ⟨h, Int.toNat_of_nonneg (Int.le_of_lt h)⟩
  · exact Or.inl ⟨h, Int.toNat_of_nonpos h⟩

theorem padSpecB_iff (x : Dy) (k : Nat) : padSpecB x k = true ↔ PadSpec x k := by
  have hp := den_pos x
  have hc := ceilDiv_spec x.m x.den hp
  unfold padSpecB PadSpec
  constructor
  · intro h
    refine ⟨ceilDiv x.m x.den, hc, ?_⟩
    unfold IsCeil at hc
    generalize ceilDiv x.m x.den = c at *
    have hpz : (0 : Int) ≤ (x.den : Int) := Int.natCast_nonneg _
    split at h
    · next hk =>
      have hm : x.m ≤ 0 := by simpa using h
      subst hk
      -- c ≤ 0, else (c-1)*p ≥ 0 ≥ m contradiction
      have : c ≤ 0 := by
        apply Classical.byContradiction; intro hcn
        have : 0 ≤ (c - 1) * (x.den : Int) := Int.mul_nonneg (by omega) hpz
        omega
      rcases toNat_cases c with ⟨h0, e⟩ | ⟨h0, e⟩ <;> omega
    · split at h
      · next hk1 hk =>
        have hm : ((usizeMax : Int) - 1) * x.den < x.m := by simpa using h
        subst hk
        have : (usizeMax : Int) ≤ c := by
          apply Classical.byContradiction; intro hcn
          have : c * (x.den : Int) ≤ ((usizeMax : Int) - 1) * x.den :=
            Int.mul_le_mul_of_nonneg_right (by omega) hpz
          omega
        rcases toNat_cases c with ⟨h0, e⟩ | ⟨h0, e⟩ <;> omega
      · next hk1 hk2 =>
        rw [Bool.and_eq_true, decide_eq_true_eq] at h
        have h' := (isCeilB_iff _ _ _).1 h.2
        have hlt := h.1
        have := isCeil_unique _ _ hp _ _ h' hc
        rcases toNat_cases c with ⟨h0, e⟩ | ⟨h0, e⟩ <;> omega
  · rintro ⟨c', hc', hk⟩
    have := isCeil_unique _ _ hp _ _ hc' hc
    subst this
    unfold IsCeil at hc
    generalize ceilDiv x.m x.den = c at *
    have hpz : (0 : Int) ≤ (x.den : Int) := Int.natCast_nonneg _
    split
    · next hk0 =>
      have hu : 0 < usizeMax := by decide
      have : c ≤ 0 := by rcases toNat_cases c with ⟨h0, e⟩ | ⟨h0, e⟩ <;> omega
      have : c * (x.den : Int) ≤ 0 := Int.mul_nonpos_of_nonpos_of_nonneg this hpz
      simp only [decide_eq_true_eq]; omega
    · split
      · next hk1 hk2 =>
        have hu : 0 < usizeMax := by decide
        have : (usizeMax : Int) ≤ c := by
          rcases toNat_cases c with ⟨h0, e⟩ | ⟨h0, e⟩ <;> omega
        have : ((usizeMax : Int) - 1) * x.den ≤ (c - 1) * x.den :=
          Int.mul_le_mul_of_nonneg_right (by omega) hpz
        simp only [decide_eq_true_eq]; omega
      · next hk1 hk2 =>
        have : (k : Int) = c := by
          rcases toNat_cases c with ⟨h0, e⟩ | ⟨h0, e⟩ <;> omega
        rw [Bool.and_eq_true, decide_eq_true_eq, this]
        refine ⟨?_, (isCeilB_iff _ _ _).2 hc⟩
        rcases toNat_cases c with ⟨h0, e⟩ | ⟨h0, e⟩ <;> omega


/-! ## The sampling pipeline, case by case -/

open Scalar

variable {K : Type} [Scalar K]

theorem rawResolve_err (fmul : Dy → Dy → Dy) (c : Common K) (rate : Dy) (e : SamplingErr)
    (h : resolveCount fmul c.duration rate = .error e) : rawResolve fmul c rate = .err e := by
  simp [rawResolve, h]

/-- no common parameter is specified-but-unknown -/
def Common.allKnown (c : Common K) : Bool :=
  !(c.scale.isUnknown || c.phase.isUnknown || c.detuning.isUnknown)

/-- after a successful count, `rawResolve` is `total` exactly when no common parameter is unknown -/
theorem rawResolve_ok (fmul : Dy → Dy → Dy) (c : Common K) (rate : Dy) (k : Nat)
    (h : resolveCount fmul c.duration rate = .ok k) :
    (rawResolve fmul c rate = .part k ∧ c.allKnown = false) ∨
    (∃ s p d, rawResolve fmul c rate = .total ⟨k, s, p, d⟩ ∧
        c.scale.evalOr one = some s ∧ c.phase.evalOr zero = some p ∧ c.detuning.evalOr zero = some d ∧
        c.allKnown = true) := by
  obtain ⟨dur, sc, ph, dt⟩ := c
  cases sc <;> cases ph <;> cases dt <;>
    simp [rawResolve, h, Param.evalOr, Param.isUnknown, Common.allKnown]

theorem flatPlaceholder_count (c : Common K) (n : Nat) : (flatPlaceholder c n).count? = some n := by
  unfold flatPlaceholder
  split <;> simp [Out.count?, Iq.count]

theorem sampleFlat_count (fmul : Dy → Dy → Dy) (iq? : Option K) (c : Common K) (rate : Dy) (k : Nat)
    (h : resolveCount fmul c.duration rate = .ok k) : (sampleFlat fmul iq? c rate).count? = some k := by
  unfold sampleFlat
  rcases rawResolve_ok fmul c rate k h with ⟨hr, _⟩ | ⟨s, p, d, hr, _⟩
  · rw [hr]; exact flatPlaceholder_count c k
  · rw [hr]
    cases iq? with
    | none => exact flatPlaceholder_count c k
    | some iq =>
      simp only []
      split <;> simp [Out.count?, Iq.count]

theorem sampleBoxcar_count (fmul : Dy → Dy → Dy) (c : Common K) (rate : Dy) (k : Nat)
    (h : resolveCount fmul c.duration rate = .ok k) : (sampleBoxcar fmul c rate).count? = some k := by
  unfold sampleBoxcar
  rcases rawResolve_ok fmul c rate k h with ⟨hr, _⟩ | ⟨s, p, d, hr, _⟩
  · rw [hr]; exact flatPlaceholder_count c k
  · rw [hr]
    simp only []
    split <;> simp [Out.count?, Iq.count]

/-- the three possible outcomes of the enveloped sampler after a successful count -/
theorem sampleEnv_cases (fmul : Dy → Dy → Dy) (padded : Bool) (padL padR : Dy) (wfKnown : Bool)
    (env : Nat → K) (c : Common K) (rate : Dy) (k : Nat)
    (h : resolveCount fmul c.duration rate = .ok k) :
    let left := if padded then padSamples fmul padL rate else 0
    let right := if padded then padSamples fmul padR rate else 0
    let total := left + k + right
    (total > usizeMax ∧ sampleEnv fmul padded padL padR wfKnown env c rate = .crash) ∨
    (total ≤ usizeMax ∧ scaleIsZero c = true ∧
      sampleEnv fmul padded padL padR wfKnown env c rate = .samples (.flat zero total)) ∨
    (total ≤ usizeMax ∧ scaleIsZero c = false ∧ (c.allKnown && wfKnown) = false ∧
      sampleEnv fmul padded padL padR wfKnown env c rate = .placeholder (.vec (List.replicate total ()))) ∨
    (total ≤ usizeMax ∧ scaleIsZero c = false ∧ (c.allKnown && wfKnown) = true ∧
      ∃ s p d, c.scale.evalOr one = some s ∧ c.phase.evalOr zero = some p ∧
        c.detuning.evalOr zero = some d ∧
        sampleEnv fmul padded padL padR wfKnown env c rate =
          .samples (.vec ((List.range total).map fun j =>
            applyPD (mul s (paddedEnv env left k j)) p d (ofDy rate) j))) := by
  intro left right total
  unfold sampleEnv
  rcases rawResolve_ok fmul c rate k h with ⟨hr, hk⟩ | ⟨s, p, d, hr, hs, hp, hd, hk⟩
  · rw [hr]
    simp only []
    by_cases hc : total > usizeMax
    · left; exact ⟨hc, by simp only [left, right, total] at hc; simp [hc]⟩
    · right
      have hc' : ¬ (left + k + right > usizeMax) := hc
      simp only [left, right] at hc'
      cases hz : scaleIsZero c
      · right; left
        refine ⟨Nat.le_of_not_gt hc, rfl, by simp [hk], ?_⟩
        simp [hc', hz, left, right, total]
      · left
        refine ⟨Nat.le_of_not_gt hc, rfl, ?_⟩
        simp [hc', hz, left, right, total]
  · rw [hr]
    simp only []
    by_cases hc : total > usizeMax
    · left
      refine ⟨hc, ?_⟩
      simp only [left, right, total] at hc
      cases wfKnown <;> cases hz : scaleIsZero c <;> simp [hc]
    · right
      have hc' : ¬ (left + k + right > usizeMax) := hc
      simp only [left, right] at hc'
      cases hz : scaleIsZero c
      · cases hw : wfKnown
        · right; left
          refine ⟨Nat.le_of_not_gt hc, rfl, by simp, ?_⟩
          simp [hc', hz, left, right, total]
        · right; right
          refine ⟨Nat.le_of_not_gt hc, rfl, by simp [hk], s, p, d, hs, hp, hd, ?_⟩
          simp [hc', hz, left, right, total]
      · left
        refine ⟨Nat.le_of_not_gt hc, rfl, ?_⟩
        cases wfKnown <;> simp [hc', hz, left, right, total]



theorem range_map_get (n : Nat) (f : Nat → K) (j : Nat) :
    ((List.range n).map f)[j]? = if j < n then some (f j) else none := by
  by_cases h : j < n
  · simp [h]
  · simp [h]

theorem range_map_get' (n : Nat) (f : Nat → K) (j : Nat) :
    Option.map f (List.range n)[j]? = if j < n then some (f j) else none := by
  by_cases h : j < n
  · simp [h]
  · simp [h]

/-- outcomes of the Flat sampler after a successful count -/
theorem sampleFlat_cases (fmul : Dy → Dy → Dy) (iq? : Option K) (c : Common K) (rate : Dy) (k : Nat)
    (h : resolveCount fmul c.duration rate = .ok k) :
    ((c.allKnown && iq?.isSome) = false ∧ sampleFlat fmul iq? c rate = flatPlaceholder c k) ∨
    (c.allKnown = true ∧ ∃ iq s p d, iq? = some iq ∧ c.scale.evalOr one = some s ∧
      c.phase.evalOr zero = some p ∧ c.detuning.evalOr zero = some d ∧
      sampleFlat fmul iq? c rate =
        if isZero d then .samples (.flat (applyPhase (mul s iq) p) k)
        else .samples (.vec ((List.range k).map fun j => applyPD (mul s iq) p d (ofDy rate) j))) := by
  unfold sampleFlat
  rcases rawResolve_ok fmul c rate k h with ⟨hr, hk⟩ | ⟨s, p, d, hr, hs, hp, hd, hk⟩
  · left; rw [hr]; exact ⟨by simp [hk], rfl⟩
  · rw [hr]
    cases iq? with
    | none => left; exact ⟨by simp, rfl⟩
    | some iq => right; exact ⟨hk, iq, s, p, d, rfl, hs, hp, hd, rfl⟩

theorem sampleBoxcar_cases (fmul : Dy → Dy → Dy) (c : Common K) (rate : Dy) (k : Nat)
    (h : resolveCount fmul c.duration rate = .ok k) :
    (c.allKnown = false ∧ sampleBoxcar fmul c rate = flatPlaceholder c k) ∨
    (c.allKnown = true ∧ ∃ s p d, c.scale.evalOr one = some s ∧
      c.phase.evalOr zero = some p ∧ c.detuning.evalOr zero = some d ∧
      sampleBoxcar fmul c rate =
        if isZero d then .samples (.flat (mul (div s (ofNat k)) (turn p)) k)
        else .samples (.vec ((List.range k).map fun j =>
          mul (div s (ofNat k)) (turn (add (div (mul d (ofNat j)) (ofDy rate)) p))))) := by
  unfold sampleBoxcar
  rcases rawResolve_ok fmul c rate k h with ⟨hr, hk⟩ | ⟨s, p, d, hr, hs, hp, hd, hk⟩
  · left; rw [hr]; exact ⟨hk, rfl⟩
  · right; rw [hr]; exact ⟨hk, s, p, d, hs, hp, hd, rfl⟩

def padLeft (fmul : Dy → Dy → Dy) (r : Request K) : Nat :=
  if r.kind.padded then padSamples fmul r.padL r.rate else 0
def padRight (fmul : Dy → Dy → Dy) (r : Request K) : Nat :=
  if r.kind.padded then padSamples fmul r.padR r.rate else 0
/-- total number of samples of a request whose duration resolves to `k` samples -/
def totalCount (fmul : Dy → Dy → Dy) (r : Request K) (k : Nat) : Nat :=
  padLeft fmul r + k + padRight fmul r

/-- the value of sample `j` of a fully known request with resolved parameters `S P D` -/
def valueAt (fmul : Dy → Dy → Dy) (r : Request K) (k : Nat) (S P D : K) (j : Nat) : K :=
  match r.kind with
  | .flat =>
    if isZero D then applyPhase (mul S r.iq) P else applyPD (mul S r.iq) P D (ofDy r.rate) j
  | .boxcarKernel =>
    if isZero D then mul (div S (ofNat k)) (turn P)
    else mul (div S (ofNat k)) (turn (add (div (mul D (ofNat j)) (ofDy r.rate)) P))
  | _ =>
    if scaleIsZero r.common then zero
    else applyPD (mul S (paddedEnv r.env (padLeft fmul r) k j)) P D (ofDy r.rate) j

theorem isPartial_false_iff (r : Request K) :
    r.isPartial = false ↔ r.common.allKnown = true ∧ (r.wfKnown = true ∨ r.kind = .boxcarKernel) := by
  unfold Request.isPartial Common.allKnown
  cases r.common.scale.isUnknown <;> cases r.common.phase.isUnknown <;>
    cases r.common.detuning.isUnknown <;> cases r.wfKnown <;> cases r.kind <;> simp

theorem sample_get (fmul : Dy → Dy → Dy) (r : Request K) (k : Nat) (S P D : K)
    (hp : r.isPartial = false)
    (h : resolveCount fmul r.common.duration r.rate = .ok k)
    (hfit : totalCount fmul r k ≤ usizeMax)
    (hS : r.common.scale.evalOr one = some S) (hP : r.common.phase.evalOr zero = some P)
    (hD : r.common.detuning.evalOr zero = some D) (j : Nat) :
    (sample fmul r).get? j =
      if j < totalCount fmul r k then some (valueAt fmul r k S P D j) else none := by
  obtain ⟨hall, hwf⟩ := (isPartial_false_iff r).1 hp
  unfold sample
  cases hk : r.kind with
  | flat =>
    have hw : r.wfKnown = true := by rcases hwf with h | h; exact h; rw [hk] at h; cases h
    simp only [hw, if_true]
    rcases sampleFlat_cases fmul (some r.iq) r.common r.rate k h with ⟨h1, _⟩ | ⟨_, iq, s, p, d, hiq, hs, hp', hd, he⟩
    · simp [hall] at h1
    · cases hiq
      rw [hS] at hs; rw [hP] at hp'; rw [hD] at hd; cases hs; cases hp'; cases hd
      rw [he]
      simp only [totalCount, padLeft, padRight, valueAt, hk, Kind.padded]
      split <;> simp [Out.get?, Iq.get?, range_map_get']
  | boxcarKernel =>
    rcases sampleBoxcar_cases fmul r.common r.rate k h with ⟨h1, _⟩ | ⟨_, s, p, d, hs, hp', hd, he⟩
    · rw [hall] at h1; cases h1
    · rw [hS] at hs; rw [hP] at hp'; rw [hD] at hd; cases hs; cases hp'; cases hd
      simp only []
      rw [he]
      simp only [totalCount, padLeft, padRight, valueAt, hk, Kind.padded]
      split <;> simp [Out.get?, Iq.get?, range_map_get']
  | gaussian | dragGaussian | hermiteGaussian | erfSquare | raisedCosine =>
    have hw : r.wfKnown = true := by rcases hwf with h | h; exact h; rw [hk] at h; cases h
    simp only []
    have hc := sampleEnv_cases fmul r.kind.padded r.padL r.padR r.wfKnown r.env r.common r.rate k h
    simp only [hk, Kind.padded, if_true, if_false, Bool.false_eq_true, reduceIte] at hc
    simp only [totalCount, padLeft, padRight, hk, Kind.padded, if_true, if_false, Bool.false_eq_true, reduceIte] at hfit
    simp only [totalCount, padLeft, padRight, valueAt, hk, Kind.padded, if_true, if_false, Bool.false_eq_true, reduceIte]
    rcases hc with ⟨h1, _⟩ | ⟨_, hz, he⟩ | ⟨_, _, h3, _⟩ | ⟨_, hz, _, s, p, d, hs, hp', hd, he⟩
    · simp at h1; omega
    · rw [he]; simp [Out.get?, Iq.get?, hz]
    · simp [hall, hw] at h3
    · rw [hS] at hs; rw [hP] at hp'; rw [hD] at hd; cases hs; cases hp'; cases hd
      rw [he]; simp [Out.get?, Iq.get?, range_map_get', hz]



theorem resolveCount_lt (fmul : Dy → Dy → Dy) (d r : Dy) (k : Nat)
    (h : resolveCount fmul d r = .ok k) : (k : Int) < u32Max := by
  have := resolveCount_spec fmul d r
  rw [h] at this
  obtain ⟨n, _, h1, h2, _⟩ := this
  omega

theorem sample_err (fmul : Dy → Dy → Dy) (r : Request K) (e : SamplingErr)
    (h : resolveCount fmul r.common.duration r.rate = .error e) : sample fmul r = .err e := by
  have := rawResolve_err fmul r.common r.rate e h
  unfold sample
  cases r.kind <;> simp [sampleFlat, sampleBoxcar, sampleEnv, this]

theorem flatPlaceholder_ne_crash (c : Common K) (n : Nat) : flatPlaceholder c n ≠ .crash := by
  unfold flatPlaceholder; intro h; cases h

/-- outcome of any request after a successful count: crash exactly when the padded total exceeds
`usize::MAX`, otherwise a placeholder or samples of the total length -/
theorem sample_ok (fmul : Dy → Dy → Dy) (r : Request K) (k : Nat)
    (h : resolveCount fmul r.common.duration r.rate = .ok k) :
    (totalCount fmul r k > usizeMax ∧ sample fmul r = .crash) ∨
    (totalCount fmul r k ≤ usizeMax ∧ (sample fmul r).count? = some (totalCount fmul r k)) := by
  have hlt := resolveCount_lt fmul _ _ k h
  have hk : k ≤ usizeMax := by unfold u32Max at hlt; unfold usizeMax; omega
  unfold sample
  cases hkind : r.kind with
  | flat =>
    right
    simp only [totalCount, padLeft, padRight, hkind, Kind.padded, Bool.false_eq_true, if_false]
    exact ⟨by omega, by simpa using sampleFlat_count fmul _ r.common r.rate k h⟩
  | boxcarKernel =>
    right
    simp only [totalCount, padLeft, padRight, hkind, Kind.padded, Bool.false_eq_true, if_false]
    exact ⟨by omega, by simpa using sampleBoxcar_count fmul r.common r.rate k h⟩
  | gaussian | dragGaussian | hermiteGaussian | erfSquare | raisedCosine =>
    have hc := sampleEnv_cases fmul r.kind.padded r.padL r.padR r.wfKnown r.env r.common r.rate k h
    simp only [hkind, Kind.padded, if_true, if_false, Bool.false_eq_true] at hc
    simp only [totalCount, padLeft, padRight, hkind, Kind.padded, Bool.false_eq_true, if_false, if_true]
    rcases hc with ⟨h1, he⟩ | ⟨h1, _, he⟩ | ⟨h1, _, _, he⟩ | ⟨h1, _, _, s, p, d, _, _, _, he⟩
    · left; exact ⟨h1, he⟩
    · right; exact ⟨h1, by rw [he]; simp [Out.count?, Iq.count]⟩
    · right; exact ⟨h1, by rw [he]; simp [Out.count?, Iq.count]⟩
    · right; exact ⟨h1, by rw [he]; simp [Out.count?, Iq.count]⟩



theorem flatPlaceholder_is (c : Common K) (n : Nat) :
    ∃ p : Iq Unit, flatPlaceholder c n = .placeholder p ∧ p.count = n := by
  unfold flatPlaceholder
  split
  · exact ⟨_, rfl, rfl⟩
  · exact ⟨_, rfl, by simp [Iq.count]⟩

theorem isPartial_true_cases (r : Request K) (h : r.isPartial = true) :
    r.common.allKnown = false ∨ (r.wfKnown = false ∧ r.kind ≠ .boxcarKernel) := by
  cases hall : r.common.allKnown
  · exact Or.inl rfl
  · right
    cases hw : r.wfKnown
    · refine ⟨rfl, fun hk => ?_⟩
      have := (isPartial_false_iff r).2 ⟨hall, Or.inr hk⟩
      rw [this] at h; cases h
    · have := (isPartial_false_iff r).2 ⟨hall, Or.inl hw⟩
      rw [this] at h; cases h

/-- a partial request gives a placeholder of the full length — or, for the enveloped kinds with a
known zero scale, all-zero samples of the full length -/
theorem sample_partial (fmul : Dy → Dy → Dy) (r : Request K) (k : Nat)
    (hp : r.isPartial = true)
    (h : resolveCount fmul r.common.duration r.rate = .ok k)
    (hfit : totalCount fmul r k ≤ usizeMax) :
    (∃ p : Iq Unit, sample fmul r = .placeholder p ∧ p.count = totalCount fmul r k) ∨
    (scaleIsZero r.common = true ∧ sample fmul r = .samples (.flat zero (totalCount fmul r k))) := by
  have hpc := isPartial_true_cases r hp
  unfold sample
  cases hkind : r.kind with
  | flat =>
    left
    simp only [totalCount, padLeft, padRight, hkind, Kind.padded, Bool.false_eq_true, if_false]
    rcases sampleFlat_cases fmul (if r.wfKnown = true then some r.iq else none) r.common r.rate k h with
      ⟨_, he⟩ | ⟨hall, iq, _, _, _, hiq, _⟩
    · rw [he]; simpa using flatPlaceholder_is r.common k
    · exfalso
      rcases hpc with h1 | ⟨h1, _⟩
      · rw [hall] at h1; cases h1
      · simp [h1] at hiq
  | boxcarKernel =>
    left
    simp only [totalCount, padLeft, padRight, hkind, Kind.padded, Bool.false_eq_true, if_false]
    rcases sampleBoxcar_cases fmul r.common r.rate k h with ⟨_, he⟩ | ⟨hall, _⟩
    · rw [he]; simpa using flatPlaceholder_is r.common k
    · exfalso
      rcases hpc with h1 | ⟨_, h1⟩
      · rw [hall] at h1; cases h1
      · exact h1 hkind
  | gaussian | dragGaussian | hermiteGaussian | erfSquare | raisedCosine =>
    have hc := sampleEnv_cases fmul r.kind.padded r.padL r.padR r.wfKnown r.env r.common r.rate k h
    simp only [hkind, Kind.padded, if_true, if_false, Bool.false_eq_true] at hc
    simp only [totalCount, padLeft, padRight, hkind, Kind.padded, Bool.false_eq_true, if_false, if_true] at hfit ⊢
    rcases hc with ⟨h1, _⟩ | ⟨_, hz, he⟩ | ⟨_, _, _, he⟩ | ⟨_, _, hak, _⟩
    · omega
    · right; exact ⟨hz, he⟩
    · left; exact ⟨_, he, by simp [Iq.count]⟩
    · exfalso
      rcases hpc with h1 | ⟨h1, _⟩
      · simp [h1] at hak
      · simp [h1] at hak

/-- a request without unknown parameters gives concrete samples of the full length -/
theorem sample_total (fmul : Dy → Dy → Dy) (r : Request K) (k : Nat)
    (hp : r.isPartial = false)
    (h : resolveCount fmul r.common.duration r.rate = .ok k)
    (hfit : totalCount fmul r k ≤ usizeMax) :
    ∃ s : Iq K, sample fmul r = .samples s ∧ s.count = totalCount fmul r k := by
  obtain ⟨hall, hwf⟩ := (isPartial_false_iff r).1 hp
  unfold sample
  cases hkind : r.kind with
  | flat =>
    have hw : r.wfKnown = true := by rcases hwf with h | h; exact h; rw [hkind] at h; cases h
    simp only [totalCount, padLeft, padRight, hkind, Kind.padded, Bool.false_eq_true, if_false, hw, if_true]
    rcases sampleFlat_cases fmul (some r.iq) r.common r.rate k h with ⟨h1, _⟩ | ⟨_, iq, s, p, d, _, _, _, _, he⟩
    · simp [hall] at h1
    · rw [he]; split
      · exact ⟨_, rfl, by simp [Iq.count]⟩
      · exact ⟨_, rfl, by simp [Iq.count]⟩
  | boxcarKernel =>
    simp only [totalCount, padLeft, padRight, hkind, Kind.padded, Bool.false_eq_true, if_false]
    rcases sampleBoxcar_cases fmul r.common r.rate k h with ⟨h1, _⟩ | ⟨_, s, p, d, _, _, _, he⟩
    · rw [hall] at h1; cases h1
    · rw [he]; split
      · exact ⟨_, rfl, by simp [Iq.count]⟩
      · exact ⟨_, rfl, by simp [Iq.count]⟩
  | gaussian | dragGaussian | hermiteGaussian | erfSquare | raisedCosine =>
    have hw : r.wfKnown = true := by rcases hwf with h | h; exact h; rw [hkind] at h; cases h
    have hc := sampleEnv_cases fmul r.kind.padded r.padL r.padR r.wfKnown r.env r.common r.rate k h
    simp only [hkind, Kind.padded, if_true, if_false, Bool.false_eq_true] at hc
    simp only [totalCount, padLeft, padRight, hkind, Kind.padded, Bool.false_eq_true, if_false, if_true] at hfit ⊢
    rcases hc with ⟨h1, _⟩ | ⟨_, _, he⟩ | ⟨_, _, h3, _⟩ | ⟨_, _, _, s, p, d, _, _, _, he⟩
    · omega
    · exact ⟨_, he, by simp [Iq.count]⟩
    · simp [hall, hw] at h3
    · exact ⟨_, he, by simp [Iq.count]⟩


/-! ## Algebra of sample values (under `Laws`) -/


namespace Laws
variable (L : Laws K)
include L
theorem mul_zero (a : K) : mul a zero = (zero : K) := by rw [L.mul_comm, L.zero_mul]
theorem mul_one (a : K) : mul a one = a := by rw [L.mul_comm, L.one_mul]
theorem isZero_zero : isZero (zero : K) = true := (L.isZero_iff _).2 rfl
theorem mul_left_comm (a b c : K) : mul a (mul b c) = mul b (mul a c) := by
  rw [← L.mul_assoc, L.mul_comm a b, L.mul_assoc]
theorem div_mul (a b c : K) : div (mul a b) c = mul a (div b c) := by
  rw [L.div_def (mul a b) c, L.div_def b c, L.mul_assoc]
end Laws

/-- the envelope value behind sample `j`: the constant `iq` (Flat), `1/count` (BoxcarKernel), the
zero-padded envelope otherwise -/
def baseAt (fmul : Dy → Dy → Dy) (r : Request K) (k : Nat) (j : Nat) : K :=
  match r.kind with
  | .flat => r.iq
  | .boxcarKernel => div one (ofNat k)
  | _ => paddedEnv r.env (padLeft fmul r) k j

/-- scaling: `valueAt` is linear in the scale -/
theorem valueAt_scale (L : Laws K) (fmul : Dy → Dy → Dy) (r r' : Request K) (k : Nat) (a S P D : K)
    (j : Nat) (hkind : r'.kind = r.kind) (hiq : r'.iq = r.iq) (henv : r'.env = r.env)
    (hrate : r'.rate = r.rate) (hpl : padLeft fmul r' = padLeft fmul r)
    (hz : scaleIsZero r.common = true → S = zero)
    (hz' : scaleIsZero r'.common = isZero (mul a S)) :
    valueAt fmul r' k (mul a S) P D j = mul a (valueAt fmul r k S P D j) := by
  unfold valueAt
  rw [hkind, hiq, henv, hrate, hpl, hz']
  cases r.kind with
  | flat =>
    simp only []
    split <;> simp only [applyPD, applyPhase, L.mul_assoc]
  | boxcarKernel =>
    simp only []
    split <;> simp only [L.div_mul, L.mul_assoc]
  | gaussian | dragGaussian | hermiteGaussian | erfSquare | raisedCosine =>
    simp only []
    cases hzz : isZero (mul a S)
    · cases hz0 : scaleIsZero r.common
      · simp only [applyPD, applyPhase, L.mul_assoc, Bool.false_eq_true, if_false]
      · have := hz hz0
        subst this
        rw [L.mul_zero, L.isZero_zero] at hzz
        cases hzz
    · have hm : mul a S = zero := (L.isZero_iff _).1 hzz
      cases hz0 : scaleIsZero r.common
      · simp only [applyPD, applyPhase, Bool.false_eq_true, if_false, if_true]
        rw [← L.mul_assoc, ← L.mul_assoc, hm, L.zero_mul, L.zero_mul]
      · simp only [if_true, L.mul_zero]

/-- phase: advancing the phase by `q` multiplies by `turn q` -/
theorem valueAt_phase (L : Laws K) (fmul : Dy → Dy → Dy) (r r' : Request K) (k : Nat) (q S P D : K)
    (j : Nat) (hkind : r'.kind = r.kind) (hiq : r'.iq = r.iq) (henv : r'.env = r.env)
    (hrate : r'.rate = r.rate) (hpl : padLeft fmul r' = padLeft fmul r)
    (hz' : scaleIsZero r'.common = scaleIsZero r.common) :
    valueAt fmul r' k S (add P q) D j = mul (turn q) (valueAt fmul r k S P D j) := by
  unfold valueAt
  rw [hkind, hiq, henv, hrate, hpl, hz']
  cases r.kind with
  | flat =>
    simp only []
    split
    · simp only [applyPhase, L.turn_add]
      rw [← L.mul_assoc, L.mul_comm (turn q)]
    · simp only [applyPD, applyPhase, ← L.add_assoc, L.turn_add]
      rw [← L.mul_assoc, L.mul_comm (turn q)]
  | boxcarKernel =>
    simp only []
    split
    · simp only [L.turn_add]
      rw [← L.mul_assoc, L.mul_comm (turn q)]
    · simp only [← L.add_assoc, L.turn_add]
      rw [← L.mul_assoc, L.mul_comm (turn q)]
  | gaussian | dragGaussian | hermiteGaussian | erfSquare | raisedCosine =>
    simp only []
    split
    · rw [L.mul_zero]
    · simp only [applyPD, applyPhase, ← L.add_assoc, L.turn_add]
      rw [← L.mul_assoc, L.mul_comm (turn q)]

/-- without detuning: `scale · cis(2π·phase) · base` -/
theorem valueAt_closed (L : Laws K) (fmul : Dy → Dy → Dy) (r : Request K) (k : Nat) (S P : K) (j : Nat)
    (hz : scaleIsZero r.common = true → S = zero) :
    valueAt fmul r k S P zero j = mul (mul S (turn P)) (baseAt fmul r k j) := by
  unfold valueAt baseAt
  cases r.kind with
  | flat =>
    simp only [L.isZero_zero, if_true, applyPhase]
    rw [L.mul_assoc, L.mul_assoc, L.mul_comm r.iq]
  | boxcarKernel =>
    simp only [L.isZero_zero, if_true]
    rw [L.div_def S, L.mul_assoc, L.mul_assoc, L.mul_comm (div one _)]
  | gaussian | dragGaussian | hermiteGaussian | erfSquare | raisedCosine =>
    simp only []
    split
    · next h0 => rw [hz h0, L.zero_mul, L.zero_mul]
    · simp only [applyPD, applyPhase, L.zero_mul, L.zero_div, L.zero_add]
      rw [L.mul_assoc, L.mul_assoc, L.mul_comm (turn P)]

/-- zero scale: every value is zero -/
theorem valueAt_zero (L : Laws K) (fmul : Dy → Dy → Dy) (r : Request K) (k : Nat) (P D : K) (j : Nat) :
    valueAt fmul r k zero P D j = (zero : K) := by
  unfold valueAt
  cases r.kind <;> simp only [] <;> split <;>
    simp only [applyPD, applyPhase, L.zero_mul, L.zero_div, L.div_mul, L.div_def zero]


/-! ## Filling unknown parameters; congruence of shapes -/


/-- the request with its scale / phase replaced by a known value -/
def Request.withScale (r : Request K) (a : K) : Request K :=
  { r with common := { r.common with scale := .known a } }
def Request.withPhase (r : Request K) (a : K) : Request K :=
  { r with common := { r.common with phase := .known a } }

theorem Param.fill_of_known (p : Param K) (v : K) (h : p.isUnknown = false) : p.fill v = p := by
  cases p <;> simp_all [Param.fill, Param.isUnknown]

theorem Param.fill_isUnknown (p : Param K) (v : K) : (p.fill v).isUnknown = false := by
  cases p <;> simp [Param.fill, Param.isUnknown]

theorem Param.evalOr_of_known (p : Param K) (d : K) (h : p.isUnknown = false) :
    ∃ v, p.evalOr d = some v := by
  cases p <;> simp_all [Param.evalOr, Param.isUnknown]

theorem allKnown_iff (c : Common K) : c.allKnown = true ↔
    c.scale.isUnknown = false ∧ c.phase.isUnknown = false ∧ c.detuning.isUnknown = false := by
  unfold Common.allKnown
  cases c.scale.isUnknown <;> cases c.phase.isUnknown <;> cases c.detuning.isUnknown <;> simp

theorem fill_isPartial (r : Request K) (s p d : K) : (r.fill s p d).isPartial = false := by
  rw [isPartial_false_iff]
  refine ⟨(allKnown_iff _).2 ⟨?_, ?_, ?_⟩, Or.inl rfl⟩ <;> simp [Request.fill, Param.fill_isUnknown]

theorem fill_totalCount (fmul : Dy → Dy → Dy) (r : Request K) (s p d : K) (k : Nat) :
    totalCount fmul (r.fill s p d) k = totalCount fmul r k := rfl

/-- two requests with the same duration, rate, kind and paddings have the same error / crash / length -/
theorem sample_shape_congr (fmul : Dy → Dy → Dy) (r r' : Request K)
    (hd : r'.common.duration = r.common.duration) (hr : r'.rate = r.rate)
    (ht : ∀ k, totalCount fmul r' k = totalCount fmul r k) :
    (sample fmul r').count? = (sample fmul r).count? ∧
    (∀ e, sample fmul r' = .err e ↔ sample fmul r = .err e) ∧
    (sample fmul r' = .crash ↔ sample fmul r = .crash) := by
  cases h : resolveCount fmul r.common.duration r.rate with
  | error e =>
    have h' : resolveCount fmul r'.common.duration r'.rate = .error e := by rw [hd, hr]; exact h
    rw [sample_err fmul r e h, sample_err fmul r' e h']
    exact ⟨rfl, fun _ => Iff.rfl, Iff.rfl⟩
  | ok k =>
    have h' : resolveCount fmul r'.common.duration r'.rate = .ok k := by rw [hd, hr]; exact h
    rcases sample_ok fmul r k h with ⟨h1, e1⟩ | ⟨h1, e1⟩ <;>
      rcases sample_ok fmul r' k h' with ⟨h2, e2⟩ | ⟨h2, e2⟩
    · rw [e1, e2]; exact ⟨rfl, fun _ => Iff.rfl, Iff.rfl⟩
    · rw [ht] at h2; omega
    · rw [ht] at h2; omega
    · rw [ht] at e2
      refine ⟨by rw [e1, e2], fun e => ?_, ?_⟩
      · constructor <;> intro he
        · rw [he] at e2; cases e2
        · rw [he] at e1; cases e1
      · constructor <;> intro he
        · rw [he] at e2; cases e2
        · rw [he] at e1; cases e1

theorem fill_sample_of_total (fmul : Dy → Dy → Dy) (r : Request K) (s p d : K)
    (hp : r.isPartial = false) : sample fmul (r.fill s p d) = sample fmul r := by
  obtain ⟨hall, hwf⟩ := (isPartial_false_iff r).1 hp
  obtain ⟨h1, h2, h3⟩ := (allKnown_iff _).1 hall
  have hc : (r.fill s p d).common = r.common := by
    simp only [Request.fill, Param.fill_of_known _ _ h1, Param.fill_of_known _ _ h2,
      Param.fill_of_known _ _ h3]
  rcases hwf with hw | hk
  · have : r.fill s p d = r := by
      obtain ⟨kind, common, rate, padL, padR, wf, iq, env⟩ := r
      simp only [Request.fill] at hc ⊢
      simp only [] at hw
      subst hw
      simp only [Request.mk.injEq, and_true, true_and]
      exact hc
    rw [this]
  · unfold sample
    have hk' : (r.fill s p d).kind = .boxcarKernel := hk
    rw [hk, hk']
    simp only []
    rw [hc]
    rfl



/-- resolved scale / phase / detuning of a request without unknown common parameters -/
theorem resolved_params (r : Request K) (hp : r.isPartial = false) :
    ∃ S P D, r.common.scale.evalOr one = some S ∧ r.common.phase.evalOr zero = some P ∧
      r.common.detuning.evalOr zero = some D := by
  obtain ⟨hall, _⟩ := (isPartial_false_iff r).1 hp
  obtain ⟨h1, h2, h3⟩ := (allKnown_iff _).1 hall
  obtain ⟨S, hS⟩ := Param.evalOr_of_known r.common.scale one h1
  obtain ⟨P, hP⟩ := Param.evalOr_of_known r.common.phase zero h2
  obtain ⟨D, hD⟩ := Param.evalOr_of_known r.common.detuning zero h3
  exact ⟨S, P, D, hS, hP, hD⟩

/-- transfer of a pointwise identity between the values of two total requests of the same shape to
their sampled outputs -/
theorem get_transfer (fmul : Dy → Dy → Dy) (r r' : Request K) (f : K → K)
    (hp : r.isPartial = false) (hp' : r'.isPartial = false)
    (hd : r'.common.duration = r.common.duration) (hr : r'.rate = r.rate)
    (ht : ∀ k, totalCount fmul r' k = totalCount fmul r k)
    (S P D S' P' D' : K)
    (hS : r.common.scale.evalOr one = some S) (hP : r.common.phase.evalOr zero = some P)
    (hD : r.common.detuning.evalOr zero = some D)
    (hS' : r'.common.scale.evalOr one = some S') (hP' : r'.common.phase.evalOr zero = some P')
    (hD' : r'.common.detuning.evalOr zero = some D')
    (hv : ∀ k j, valueAt fmul r' k S' P' D' j = f (valueAt fmul r k S P D j)) (j : Nat) :
    (sample fmul r').get? j = ((sample fmul r).get? j).map f := by
  cases h : resolveCount fmul r.common.duration r.rate with
  | error e =>
    have h' : resolveCount fmul r'.common.duration r'.rate = .error e := by rw [hd, hr]; exact h
    rw [sample_err fmul r e h, sample_err fmul r' e h']
    rfl
  | ok k =>
    have h' : resolveCount fmul r'.common.duration r'.rate = .ok k := by rw [hd, hr]; exact h
    by_cases hfit : totalCount fmul r k ≤ usizeMax
    · have hfit' : totalCount fmul r' k ≤ usizeMax := by rw [ht]; exact hfit
      rw [sample_get fmul r k S P D hp h hfit hS hP hD, sample_get fmul r' k S' P' D' hp' h' hfit' hS' hP' hD', ht]
      split
      · simp [hv]
      · rfl
    · have hfit' : ¬ totalCount fmul r' k ≤ usizeMax := by rw [ht]; exact hfit
      rcases sample_ok fmul r k h with ⟨_, e1⟩ | ⟨h1, _⟩
      · rcases sample_ok fmul r' k h' with ⟨_, e2⟩ | ⟨h2, _⟩
        · rw [e1, e2]; rfl
        · exact absurd h2 hfit'
      · exact absurd h1 hfit

theorem withScale_isPartial (r : Request K) (a : K) (hp : r.isPartial = false) :
    (r.withScale a).isPartial = false := by
  rw [isPartial_false_iff] at hp ⊢
  obtain ⟨hall, hw⟩ := hp
  obtain ⟨_, h2, h3⟩ := (allKnown_iff _).1 hall
  exact ⟨(allKnown_iff _).2 ⟨rfl, h2, h3⟩, hw⟩

theorem withPhase_isPartial (r : Request K) (a : K) (hp : r.isPartial = false) :
    (r.withPhase a).isPartial = false := by
  rw [isPartial_false_iff] at hp ⊢
  obtain ⟨hall, hw⟩ := hp
  obtain ⟨h1, _, h3⟩ := (allKnown_iff _).1 hall
  exact ⟨(allKnown_iff _).2 ⟨h1, rfl, h3⟩, hw⟩

/-- if the zero-scale shortcut fires, the resolved scale is zero -/
theorem scaleIsZero_resolved (L : Laws K) (c : Common K) (S : K) (hS : c.scale.evalOr one = some S)
    (hz : scaleIsZero c = true) : S = zero := by
  unfold scaleIsZero at hz
  cases hsc : c.scale with
  | absent => rw [hsc] at hz; cases hz
  | unknown => rw [hsc] at hz; cases hz
  | known x =>
    rw [hsc] at hz hS
    simp only [Param.evalOr, Option.some.injEq] at hS
    subst hS
    exact (L.isZero_iff _).1 hz

end QV.C32
