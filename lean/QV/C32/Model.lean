/-
C32 model: built-in waveform sampling (quil-rs/src/waveform/builtin.rs, sampling.rs,
builtin/partiality.rs).

What is modelled, one Lean function per Rust function:

* `resolveCount`      ↔ the numeric part of `CommonBuiltinParameters::raw_resolve_with_sample_rate`
                        (builtin.rs:245-276): product, `round`, range test, misalignment test.
* `rawResolve`        ↔ the rest of `raw_resolve_with_sample_rate` (builtin.rs:277-297): defaults
                        for scale/phase/detuning, `Total` vs `Partial(sample_count)`.
* `padSamples`        ↔ `(pad * sample_rate).ceil() as usize` (builtin.rs:839-840, 953-954).
* `sampleFlat`        ↔ `Flat::raw_iq_values_at_sample_rate` + `resolve_for_flat_unless_detuned`.
* `sampleBoxcar`      ↔ `BoxcarKernel::raw_iq_values_at_sample_rate` + `resolve_for_flat_unless_detuned`.
* `sampleEnv`         ↔ `build_sample_per_time_step_and_adjust_for_common_parameters` (Gaussian,
                        DragGaussian, HermiteGaussian) and the bodies of
                        `ErfSquare/RaisedCosine::raw_iq_values_at_sample_rate` (with padding), on top of
                        `concretize_and_resolve` and `build_samples_and_adjust_for_builtin_parameters`.
* `applyPhase`, `applyPD` ↔ `apply_phase`, `apply_phase_and_detuning_at_index`.
* `Iq`, `Iq.count`, `Iq.get?` ↔ `IqSamples<T>`, `sample_count`, `get`.

Numbers.  Durations, sample rates and paddings are exact dyadic rationals `Dy` (`m / 2^s`; every
finite f64 is one).  The product `duration * sample_rate` (and `pad * sample_rate`) is a parameter
`fmul` of every function: the theorems instantiate it with the exact product `Dy.mul`; the driver
(`Run.lean`) instantiates it with the f64-rounded product (again a dyadic) and reports on which cases
the two coincide (tag `exact-product`), so the same model code is executed on every case.  `round`,
`ceil`, the subtraction `fract - sample_count` and the range test are exact in f64; the comparison
with `1.0 / (sample_rate * 100.0)` is modelled exactly (it can differ from the f64 comparison only when
`|misalignment|` *equals* the rounded threshold; the driver evaluates both and flags a difference).  Sample values live in an abstract scalar type `K` (class `Scalar`): the
model performs the same operations in the same order as the Rust code; theorems assume the
commutative-ring/`cis` laws `Laws K`, the driver instantiates `K` with pairs of `Float`.
Envelope shapes (gaussian, erf, cosine …) are an abstract function `env : Nat → K` of the time-step
index: the property is about lengths and linearity, not envelope values.
-/
namespace QV.C32

/-! ## Exact dyadic rationals -/

/-- `m / 2^s`. -/
structure Dy where
  m : Int
  s : Nat
  deriving Repr, DecidableEq

namespace Dy
/-- the denominator `2^s` -/
def den (x : Dy) : Nat := 2 ^ x.s
/-- exact product -/
def mul (a b : Dy) : Dy := ⟨a.m * b.m, a.s + b.s⟩
end Dy

/-- f64 `round` (half away from zero) of `m / p`, `p > 0`: `sign(m) * floor(|m|/p + 1/2)`. -/
def roundHA (m : Int) (p : Nat) : Int :=
  let q : Nat := (2 * m.natAbs + p) / (2 * p)
  if m < 0 then -(q : Int) else (q : Int)

/-- f64 `ceil` of `m / p`, `p > 0`. -/
def ceilDiv (m : Int) (p : Nat) : Int := -((-m) / (p : Int))

/-! ## Sample count (builtin.rs:259-276) -/

inductive SamplingErr where
  | outOfRange    -- SamplingError::SampleCountOutOfRange
  | misaligned    -- SamplingError::MisalignedDuration
  deriving Repr, DecidableEq

/-- `u32::MAX` -/
def u32Max : Int := 4294967295

/--
`sample_count_fract = duration * sample_rate; sample_count = fract.round();
 misalignment = fract - sample_count; max_misalignment = 1.0 / (sample_rate * 100.0);
 if sample_count < 0.0 || sample_count >= u32::MAX { OutOfRange }
 else if misalignment.abs() >= max_misalignment { Misaligned } else { Ok(sample_count as u32) }`

Over exact rationals, with `x = m/p` the product and `r = rate.m / 2^rate.s`:
`|x - n| >= 1/(100 r)`  ⇔  `|m - n p| * 100 * rate.m >= p * 2^rate.s` when `r > 0`; for `r < 0`
`max_misalignment` is negative and the test always fires; for `r = 0` it is `+inf` and never fires.
-/
def resolveCount (fmul : Dy → Dy → Dy) (duration rate : Dy) : Except SamplingErr Nat :=
  let x := fmul duration rate
  let p := x.den
  let n := roundHA x.m p
  if n < 0 ∨ n ≥ u32Max then .error .outOfRange
  else if rate.m < 0 then .error .misaligned
  else if (x.m - n * p).natAbs * 100 * rate.m.natAbs ≥ p * rate.den then .error .misaligned
  else .ok n.toNat

/-- `usize::MAX` on the 64-bit targets the harness runs on. -/
def usizeMax : Nat := 18446744073709551615

/-- `(pad * sample_rate).ceil() as usize` (saturating cast: negative ↦ 0, huge ↦ usize::MAX). -/
def padSamples (fmul : Dy → Dy → Dy) (pad rate : Dy) : Nat :=
  let x := fmul pad rate
  min (ceilDiv x.m x.den).toNat usizeMax

/-! ## Scalars -/

/-- The operations the sampling pipeline performs on sample values.  Real parameters
(scale, phase, detuning, sample rate, indices) are embedded in the same type. -/
class Scalar (K : Type) where
  zero : K
  one : K
  add : K → K → K
  mul : K → K → K
  div : K → K → K
  ofNat : Nat → K
  ofDy : Dy → K
  /-- `cis(2π·x)`: `Complex64::cis(Radians::from(Cycles(x)).0)` -/
  turn : K → K
  /-- `x == 0.0` -/
  isZero : K → Bool

open Scalar

/-! ## Parameters -/

/-- An optional common parameter of a `Partial<Concrete>` waveform:
`None` / `Some(None)` / `Some(Some(x))`.  A `Concrete` waveform never has `unknown`. -/
inductive Param (K : Type) where
  | absent
  | unknown
  | known (x : K)
  deriving Repr

/-- `evaluate_or(field, default)` (builtin.rs:280-281): `field.map(T::eval_real).unwrap_or(Ok(default))`;
`none` = `Err(is_partial)`. -/
def Param.evalOr {K : Type} : Param K → K → Option K
  | .absent, d => some d
  | .unknown, _ => none
  | .known x, _ => some x

def Param.isUnknown {K : Type} : Param K → Bool
  | .unknown => true
  | _ => false

/-- `CommonBuiltinParameters<T>` -/
structure Common (K : Type) where
  duration : Dy
  scale : Param K
  phase : Param K
  detuning : Param K

/-- `ExplicitCommonBuiltinParameters` -/
structure Explicit (K : Type) where
  count : Nat
  scale : K
  phase : K
  detuning : K

/-- `Result<partiality::Value<T, u32, Explicit>, SamplingError>` -/
inductive Resolved (K : Type) where
  | err (e : SamplingErr)
  | part (count : Nat)
  | total (e : Explicit K)

/-- `raw_resolve_with_sample_rate` (builtin.rs:245-298). -/
def rawResolve {K : Type} [Scalar K] (fmul : Dy → Dy → Dy) (c : Common K) (rate : Dy) : Resolved K :=
  match resolveCount fmul c.duration rate with
  | .error e => .err e
  | .ok n =>
    match c.scale.evalOr one, c.phase.evalOr zero, c.detuning.evalOr zero with
    | some s, some p, some d => .total ⟨n, s, p, d⟩
    | _, _, _ => .part n

/-- `common.scale.is_some_and(|scale| T::eval_real(scale) == Ok(0.0))` -/
def scaleIsZero {K : Type} [Scalar K] (c : Common K) : Bool :=
  match c.scale with
  | .known x => isZero x
  | _ => false

/-- `common.detuning.is_none_or(|detuning| T::eval_real(detuning) == Ok(0.0))` (builtin.rs:1112-1114) -/
def detuningNoneOrZero {K : Type} [Scalar K] (c : Common K) : Bool :=
  match c.detuning with
  | .absent => true
  | .known x => isZero x
  | .unknown => false

/-! ## Sample sequences -/

/-- `IqSamples<T>` -/
inductive Iq (T : Type) where
  | flat (iq : T) (n : Nat)
  | vec (l : List T)
  deriving Repr

/-- `IqSamples::sample_count` -/
def Iq.count {T : Type} : Iq T → Nat
  | .flat _ n => n
  | .vec l => l.length

/-- `IqSamples::get` -/
def Iq.get? {T : Type} : Iq T → Nat → Option T
  | .flat iq n, k => if k < n then some iq else none
  | .vec l, k => l[k]?

/-- What sampling can do: a `SamplingError`, a panic (usize overflow when adding the paddings,
`overflow-checks` on), a placeholder (`IqSamplesOrPlaceholder::Placeholder`) or samples. -/
inductive Out (K : Type) where
  | err (e : SamplingErr)
  | crash
  | placeholder (p : Iq Unit)
  | samples (s : Iq K)

def Out.count? {K : Type} : Out K → Option Nat
  | .placeholder p => some p.count
  | .samples s => some s.count
  | _ => none

/-- the sample at index `k`, if the outcome is concrete samples -/
def Out.get? {K : Type} : Out K → Nat → Option K
  | .samples s, k => s.get? k
  | _, _ => none

/-! ## Phase and detuning -/

/-- `apply_phase` (builtin.rs:1360): `iq * cis(2π·phase)` -/
def applyPhase {K : Type} [Scalar K] (v phase : K) : K := mul v (turn phase)

/-- `apply_phase_and_detuning_at_index` (builtin.rs:1345):
`apply_phase(iq, Cycles(detuning * index / sample_rate + phase))` -/
def applyPD {K : Type} [Scalar K] (v phase det rate : K) (idx : Nat) : K :=
  applyPhase v (add (div (mul det (ofNat idx)) rate) phase)

/-! ## Flat and BoxcarKernel (`resolve_for_flat_unless_detuned`, builtin.rs:1100-1143) -/

/-- the `placeholder` closure of `resolve_for_flat_unless_detuned` -/
def flatPlaceholder {K : Type} [Scalar K] (c : Common K) (n : Nat) : Out K :=
  .placeholder (if detuningNoneOrZero c then .flat () n else .vec (List.replicate n ()))

/-- `Flat::raw_iq_values_at_sample_rate` (builtin.rs:722-767).
`iq? = none` models `Flat<Partial<Concrete>> { iq: None }` (concretize fails). -/
def sampleFlat {K : Type} [Scalar K] (fmul : Dy → Dy → Dy) (iq? : Option K) (c : Common K)
    (rate : Dy) : Out K :=
  match rawResolve fmul c rate with
  | .err e => .err e
  | .part n => flatPlaceholder c n
  | .total ex =>
    match iq? with
    | none => flatPlaceholder c ex.count
    | some iq =>
      let scaled := mul ex.scale iq
      if isZero ex.detuning then
        .samples (.flat (applyPhase scaled ex.phase) ex.count)
      else
        .samples (.vec ((List.range ex.count).map fun k =>
          applyPD scaled ex.phase ex.detuning (ofDy rate) k))

/-- `BoxcarKernel::raw_iq_values_at_sample_rate` (builtin.rs:1035-1080); the waveform has no
parameters of its own, so only the common parameters can be partial.
`polar_to_rectangular(r, θ) = r · cis(2πθ)`. -/
def sampleBoxcar {K : Type} [Scalar K] (fmul : Dy → Dy → Dy) (c : Common K) (rate : Dy) : Out K :=
  match rawResolve fmul c rate with
  | .err e => .err e
  | .part n => flatPlaceholder c n
  | .total ex =>
    let mag := div ex.scale (ofNat ex.count)
    if isZero ex.detuning then
      .samples (.flat (mul mag (turn ex.phase)) ex.count)
    else
      .samples (.vec ((List.range ex.count).map fun k =>
        mul mag (turn (add (div (mul ex.detuning (ofNat k)) (ofDy rate)) ex.phase))))

/-! ## Waveforms with an envelope (`concretize_and_resolve` + `build_samples_and_adjust_…`) -/

/-- envelope with `left`/`right` zero samples around `n` envelope samples
(`left_padding.chain(waveform).chain(right_padding)`, builtin.rs:889-892, 1023-1026) -/
def paddedEnv {K : Type} [Scalar K] (env : Nat → K) (left n : Nat) (j : Nat) : K :=
  if j < left then zero else if j < left + n then env (j - left) else zero

/-- Gaussian / DragGaussian / HermiteGaussian (`left = right = 0`, no usize addition) and
ErfSquare / RaisedCosine (`padded = true`).  `wfKnown` = `waveform.concretize()` succeeds. -/
def sampleEnv {K : Type} [Scalar K] (fmul : Dy → Dy → Dy) (padded : Bool) (padL padR : Dy)
    (wfKnown : Bool) (env : Nat → K) (c : Common K) (rate : Dy) : Out K :=
  let left := if padded then padSamples fmul padL rate else 0
  let right := if padded then padSamples fmul padR rate else 0
  let zeroOrPlaceholder (n : Nat) : Out K :=
    let total := left + n + right
    if total > usizeMax then .crash
    else if scaleIsZero c then .samples (.flat zero total)
    else .placeholder (.vec (List.replicate total ()))
  match rawResolve fmul c rate with
  | .err e => .err e
  | .part n => zeroOrPlaceholder n
  | .total ex =>
    if !wfKnown then zeroOrPlaceholder ex.count
    else if scaleIsZero c then zeroOrPlaceholder ex.count
    else
      let total := left + ex.count + right
      if total > usizeMax then .crash
      else
        .samples (.vec ((List.range total).map fun j =>
          applyPD (mul ex.scale (paddedEnv env left ex.count j)) ex.phase ex.detuning (ofDy rate) j))

/-! ## All seven kinds -/

inductive Kind where
  | flat | gaussian | dragGaussian | erfSquare | hermiteGaussian | boxcarKernel | raisedCosine
  deriving Repr, DecidableEq

def Kind.padded : Kind → Bool
  | .erfSquare | .raisedCosine => true
  | _ => false

/-- One sampling request.  `wfKnown`: every `Real`/`Complex` field of the waveform itself is present
(for `flat` that field is `iq`; `boxcarKernel` has none, the flag is ignored). -/
structure Request (K : Type) where
  kind : Kind
  common : Common K
  rate : Dy
  padL : Dy := ⟨0, 0⟩
  padR : Dy := ⟨0, 0⟩
  wfKnown : Bool := true
  iq : K
  env : Nat → K

/-- `BuiltinWaveform::partial_iq_values_at_sample_rate` / `iq_values_at_sample_rate`
(builtin.rs:687-720): dispatch on the kind. -/
def sample {K : Type} [Scalar K] (fmul : Dy → Dy → Dy) (r : Request K) : Out K :=
  match r.kind with
  | .flat => sampleFlat fmul (if r.wfKnown then some r.iq else none) r.common r.rate
  | .boxcarKernel => sampleBoxcar fmul r.common r.rate
  | .gaussian | .dragGaussian | .hermiteGaussian =>
    sampleEnv fmul false r.padL r.padR r.wfKnown r.env r.common r.rate
  | .erfSquare | .raisedCosine =>
    sampleEnv fmul true r.padL r.padR r.wfKnown r.env r.common r.rate

/-! ## Concretising a partial request ("once known") -/

/-- replace an unknown parameter by a value -/
def Param.fill {K : Type} : Param K → K → Param K
  | .unknown, v => .known v
  | p, _ => p

/-- fill every unknown parameter of the request (common ones by `s p d`, the waveform's own by
setting `wfKnown`; the values of the waveform's own fields are part of `iq`/`env`). -/
def Request.fill {K : Type} (r : Request K) (s p d : K) : Request K :=
  { r with
    common := { r.common with scale := r.common.scale.fill s, phase := r.common.phase.fill p,
                              detuning := r.common.detuning.fill d },
    wfKnown := true }

/-- some parameter of the request is specified but unknown -/
def Request.isPartial {K : Type} (r : Request K) : Bool :=
  r.common.scale.isUnknown || r.common.phase.isUnknown || r.common.detuning.isUnknown ||
    (!r.wfKnown && r.kind != .boxcarKernel)

end QV.C32
