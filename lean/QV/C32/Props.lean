import QV.C32.Lemmas
import Mathlib.Analysis.SpecialFunctions.Trigonometric.Basic
/-
C32 — Built-in waveforms sample to the right length and respond linearly.

"For every built-in waveform with a duration that aligns with the sample rate, the number of IQ
samples is the rounded product of duration and sample rate.  Padded waveforms add the rounded-up
padding on each side.  Scaling multiplies every sample by the scale, a phase of p cycles multiplies
every sample by exp(2πip), and zero scale gives all-zero samples; partially known parameters give
placeholders of the same length and, once known, the same samples."

All theorems quantify over every request (every kind, every dyadic duration / rate / padding, every
parameter pattern, every envelope function) and, where sample values are concerned, over every scalar
type satisfying `Laws`.  `fmul` is the product used for duration·rate and pad·rate: `Dy.mul` (exact)
or the f64-rounded product of the driver — the theorems hold for any.
Declared partial: IEEE rounding of the sample values (floats do not satisfy `Laws`).
-/
namespace QV.C32
open Scalar
variable {K : Type} [Scalar K]

/-! ### 1. The sample count is the rounded product; errors exactly when out of range / misaligned -/

/-- the model's rounding is round-half-away-from-zero, for every rational `m/p` -/
theorem C32_round_spec (m : Int) (p : Nat) (hp : 0 < p) : IsRoundHA m p (roundHA m p) :=
  roundHA_spec m p hp

/-- …and that specification has exactly one solution (so the spec pins the count down) -/
theorem C32_round_unique (m : Int) (p : Nat) (hp : 0 < p) (n n' : Int)
    (h : IsRoundHA m p n) (h' : IsRoundHA m p n') : n = n' :=
  isRoundHA_unique m p hp n n' h h'

/-- **Sample count.** `resolveCount` returns `ok k` iff `k` is the rounding of duration·rate, lies
in `[0, u32::MAX)` and the duration aligns; `outOfRange` iff the rounding is outside that range;
`misaligned` iff it is in range and `|x - round x| ≥ 1/(100·rate)`. -/
theorem C32_count (fmul : Dy → Dy → Dy) (d r : Dy) :
    CountSpec (fmul d r) r (resolveCount fmul d r) :=
  resolveCount_spec fmul d r

/-- the same with the exact product named (`x = d·r` as rationals) -/
theorem C32_count_exact (d r : Dy) : CountSpec (d.mul r) r (resolveCount Dy.mul d r) :=
  resolveCount_spec Dy.mul d r

/-- the count specification determines the outcome: no other result satisfies it -/
theorem C32_count_functional (x r : Dy) (a b : Except SamplingErr Nat)
    (ha : CountSpec x r a) (hb : CountSpec x r b) : a = b :=
  countSpec_functional x r a b ha hb

/-- the Bool checker the driver evaluates on the implementation's counts is the specification -/
theorem C32_count_checker (x r : Dy) (res : Except SamplingErr Nat) :
    countSpecB x r res = true ↔ CountSpec x r res :=
  countSpecB_iff x r res

/-- the form evaluated on the implementation's outputs leaves open WHICH error is reported when the
rounded count is out of range and the duration is misaligned at once; the model's outcome satisfies it,
and its Bool checker is the specification -/
theorem C32_count_loose (fmul : Dy → Dy → Dy) (d r : Dy) :
    CountSpecLoose (fmul d r) r (resolveCount fmul d r) :=
  countSpec_loose _ _ _ (resolveCount_spec fmul d r)

theorem C32_count_loose_checker (x r : Dy) (res : Except SamplingErr Nat) :
    countSpecLooseB x r res = true ↔ CountSpecLoose x r res :=
  countSpecLooseB_iff x r res

example : resolveCount Dy.mul ⟨88, 0⟩ ⟨1, 0⟩ = .ok 88 := by rfl
example : resolveCount Dy.mul ⟨5, 1⟩ ⟨1, 0⟩ = .error .misaligned := by rfl        -- 2.5 samples
example : resolveCount Dy.mul ⟨3082, 10⟩ ⟨1, 0⟩ = .ok 3 := by rfl               -- 3 + 10/1024 < 3.01
example : resolveCount Dy.mul ⟨3083, 10⟩ ⟨1, 0⟩ = .error .misaligned := by rfl  -- 3 + 11/1024 > 3.01
example : resolveCount Dy.mul ⟨-1, 1⟩ ⟨1, 0⟩ = .error .outOfRange := by rfl      -- round(-0.5) = -1
example : resolveCount Dy.mul ⟨-1, 2⟩ ⟨1, 0⟩ = .error .misaligned := by rfl      -- round(-0.25) = -0
example : resolveCount Dy.mul ⟨4294967295, 0⟩ ⟨1, 0⟩ = .error .outOfRange := by rfl
example : resolveCount Dy.mul ⟨4294967294, 0⟩ ⟨1, 0⟩ = .ok 4294967294 := by rfl
example : CountSpec ⟨5, 1⟩ ⟨1, 0⟩ (.error .misaligned) := (C32_count_checker _ _ _).1 (by decide)

/-! ### 2. Padding is the rounded-up product -/

/-- **Padding.** the number of padding samples is `⌈pad·rate⌉` clamped to `[0, usize::MAX]` -/
theorem C32_pad (fmul : Dy → Dy → Dy) (pad rate : Dy) :
    PadSpec (fmul pad rate) (padSamples fmul pad rate) :=
  padSamples_spec fmul pad rate

theorem C32_ceil_unique (m : Int) (p : Nat) (hp : 0 < p) (c c' : Int)
    (h : IsCeil m p c) (h' : IsCeil m p c') : c = c' :=
  isCeil_unique m p hp c c' h h'

theorem C32_pad_checker (x : Dy) (k : Nat) : padSpecB x k = true ↔ PadSpec x k :=
  padSpecB_iff x k

example : padSamples Dy.mul ⟨5, 1⟩ ⟨1, 0⟩ = 3 := by rfl     -- ⌈2.5⌉
example : padSamples Dy.mul ⟨-5, 1⟩ ⟨1, 0⟩ = 0 := by rfl    -- negative padding clamps to 0
example : padSamples Dy.mul ⟨1, 10⟩ ⟨1, 0⟩ = 1 := by rfl    -- ⌈1/1024⌉

/-! ### 3. Length and error of every kind of waveform -/

/-- **Errors.** sampling fails with a `SamplingError` exactly when the count does, with the same
error — for every kind, partial or not -/
theorem C32_error_iff (fmul : Dy → Dy → Dy) (r : Request K) (e : SamplingErr) :
    sample fmul r = .err e ↔ resolveCount fmul r.common.duration r.rate = .error e := by
  constructor
  · intro h
    cases hc : resolveCount fmul r.common.duration r.rate with
    | error e' =>
      have := sample_err fmul r e' hc
      rw [h] at this
      cases this; rfl
    | ok k =>
      rcases sample_ok fmul r k hc with ⟨_, e1⟩ | ⟨_, e1⟩
      · rw [h] at e1; cases e1
      · rw [h] at e1; cases e1
  · exact sample_err fmul r e

/-- **Length.** if the duration resolves to `k` samples, the result (samples *or placeholder*) has
exactly `⌈padL·rate⌉ + k + ⌈padR·rate⌉` entries (paddings only for ErfSquare / RaisedCosine) -/
theorem C32_length (fmul : Dy → Dy → Dy) (r : Request K) (k : Nat)
    (h : resolveCount fmul r.common.duration r.rate = .ok k)
    (hfit : totalCount fmul r k ≤ usizeMax) :
    (sample fmul r).count? = some (totalCount fmul r k) := by
  rcases sample_ok fmul r k h with ⟨h1, _⟩ | ⟨_, e⟩
  · omega
  · exact e

/-- the only panic of the pipeline: the padded total does not fit a `usize` -/
theorem C32_crash_iff (fmul : Dy → Dy → Dy) (r : Request K) :
    sample fmul r = .crash ↔
      ∃ k, resolveCount fmul r.common.duration r.rate = .ok k ∧ totalCount fmul r k > usizeMax := by
  constructor
  · intro h
    cases hc : resolveCount fmul r.common.duration r.rate with
    | error e' => rw [sample_err fmul r e' hc] at h; cases h
    | ok k =>
      rcases sample_ok fmul r k hc with ⟨h1, _⟩ | ⟨_, e1⟩
      · exact ⟨k, rfl, h1⟩
      · rw [h] at e1; cases e1
  · rintro ⟨k, hc, hgt⟩
    rcases sample_ok fmul r k hc with ⟨_, e1⟩ | ⟨h1, _⟩
    · exact e1
    · omega

/-- with paddings below 2^63 samples each, sampling never panics -/
theorem C32_no_crash (fmul : Dy → Dy → Dy) (r : Request K)
    (hl : padLeft fmul r < 2 ^ 63) (hr : padRight fmul r < 2 ^ 62) : sample fmul r ≠ .crash := by
  intro h
  obtain ⟨k, hc, hgt⟩ := (C32_crash_iff fmul r).1 h
  have := resolveCount_lt fmul _ _ k hc
  unfold totalCount usizeMax at hgt
  unfold u32Max at this
  omega

/-! ### 4. Partially known parameters: placeholders of the same length; once known, the same samples -/

/-- **Placeholder.** a request with an unknown parameter yields a placeholder of the full length —
except that the enveloped kinds answer a *known zero scale* with all-zero samples of that length
("if the scale is zero it doesn't matter what the parameters are") -/
theorem C32_partial_placeholder (fmul : Dy → Dy → Dy) (r : Request K) (k : Nat)
    (hp : r.isPartial = true)
    (h : resolveCount fmul r.common.duration r.rate = .ok k)
    (hfit : totalCount fmul r k ≤ usizeMax) :
    (∃ p : Iq Unit, sample fmul r = .placeholder p ∧ p.count = totalCount fmul r k) ∨
    (scaleIsZero r.common = true ∧ sample fmul r = .samples (.flat zero (totalCount fmul r k))) :=
  sample_partial fmul r k hp h hfit

/-- a request without unknown parameters yields concrete samples of the full length, never a placeholder -/
theorem C32_total_samples (fmul : Dy → Dy → Dy) (r : Request K) (k : Nat)
    (hp : r.isPartial = false)
    (h : resolveCount fmul r.common.duration r.rate = .ok k)
    (hfit : totalCount fmul r k ≤ usizeMax) :
    ∃ s : Iq K, sample fmul r = .samples s ∧ s.count = totalCount fmul r k :=
  sample_total fmul r k hp h hfit

/-- filling in every unknown makes the request total … -/
theorem C32_fill_total (r : Request K) (s p d : K) : (r.fill s p d).isPartial = false :=
  fill_isPartial r s p d

/-- … **of the same length**: the filled request has the same length, the same error and the same
panic as the partial one, whatever values are filled in -/
theorem C32_fill_same_length (fmul : Dy → Dy → Dy) (r : Request K) (s p d : K) :
    (sample fmul (r.fill s p d)).count? = (sample fmul r).count? ∧
    (∀ e, sample fmul (r.fill s p d) = .err e ↔ sample fmul r = .err e) ∧
    (sample fmul (r.fill s p d) = .crash ↔ sample fmul r = .crash) :=
  sample_shape_congr fmul r (r.fill s p d) rfl rfl (fun _ => rfl)

/-- … and filling a request that has no unknowns changes nothing: **once known, the same samples** -/
theorem C32_fill_known (fmul : Dy → Dy → Dy) (r : Request K) (s p d : K)
    (hp : r.isPartial = false) : sample fmul (r.fill s p d) = sample fmul r :=
  fill_sample_of_total fmul r s p d hp

/-! ### 5. Linearity in the scale, phase as a rotation, zero scale (any `K` with `Laws`) -/

/-- **Closed form without detuning.** sample `j` is `scale · cis(2π·phase) · base j`, where `base`
is the envelope (zero in the paddings), `iq` for Flat and `1/count` for BoxcarKernel; absent scale
counts as 1, absent phase as 0 -/
theorem C32_closed_form (L : Laws K) (fmul : Dy → Dy → Dy) (r : Request K) (k : Nat) (S P D : K)
    (hp : r.isPartial = false)
    (h : resolveCount fmul r.common.duration r.rate = .ok k)
    (hfit : totalCount fmul r k ≤ usizeMax)
    (hS : r.common.scale.evalOr one = some S) (hP : r.common.phase.evalOr zero = some P)
    (hD : r.common.detuning.evalOr zero = some D) (hD0 : isZero D = true)
    (j : Nat) (hj : j < totalCount fmul r k) :
    (sample fmul r).get? j = some (mul (mul S (turn P)) (baseAt fmul r k j)) := by
  rw [sample_get fmul r k S P D hp h hfit hS hP hD, if_pos hj]
  have : D = zero := (L.isZero_iff _).1 hD0
  subst this
  rw [valueAt_closed L fmul r k S P j (scaleIsZero_resolved L r.common S hS)]

/-- **Scaling multiplies every sample by the scale** (with or without detuning): replacing the
scale `S` by `a·S` multiplies every sample by `a` -/
theorem C32_scale_linear (L : Laws K) (fmul : Dy → Dy → Dy) (r : Request K) (a S : K)
    (hp : r.isPartial = false) (hS : r.common.scale.evalOr one = some S) (j : Nat) :
    (sample fmul (r.withScale (mul a S))).get? j = ((sample fmul r).get? j).map (mul a) := by
  obtain ⟨S₀, P, D, hS₀, hP, hD⟩ := resolved_params r hp
  rw [hS] at hS₀; cases hS₀
  refine get_transfer fmul r (r.withScale (mul a S)) (mul a) hp (withScale_isPartial r _ hp)
    rfl rfl (fun _ => rfl) S P D (mul a S) P D hS hP hD rfl hP hD (fun k j => ?_) j
  refine valueAt_scale L fmul r _ k a S P D j rfl rfl rfl rfl rfl
    (scaleIsZero_resolved L r.common S hS) rfl

/-- **A phase of `q` cycles multiplies every sample by `cis(2πq)`** (with or without detuning):
advancing the phase `P` to `P + q` multiplies every sample by `turn q` -/
theorem C32_phase_rotation (L : Laws K) (fmul : Dy → Dy → Dy) (r : Request K) (q P : K)
    (hp : r.isPartial = false) (hP : r.common.phase.evalOr zero = some P) (j : Nat) :
    (sample fmul (r.withPhase (add P q))).get? j = ((sample fmul r).get? j).map (mul (turn q)) := by
  obtain ⟨S, P₀, D, hS, hP₀, hD⟩ := resolved_params r hp
  rw [hP] at hP₀; cases hP₀
  refine get_transfer fmul r (r.withPhase (add P q)) (mul (turn q)) hp (withPhase_isPartial r _ hp)
    rfl rfl (fun _ => rfl) S P D S (add P q) D hS hP hD hS rfl hD (fun k j => ?_) j
  exact valueAt_phase L fmul r _ k q S P D j rfl rfl rfl rfl rfl rfl

/-- **Zero scale gives all-zero samples**: whatever else the request says (any kind, padding,
phase, detuning, known or unknown parameters), every sample that exists is zero -/
theorem C32_zero_scale (L : Laws K) (fmul : Dy → Dy → Dy) (r : Request K) (z : K)
    (hsc : r.common.scale = .known z) (hz : isZero z = true) (j : Nat) (v : K)
    (hv : (sample fmul r).get? j = some v) : v = zero := by
  have hz0 : z = zero := (L.isZero_iff _).1 hz
  cases hc : resolveCount fmul r.common.duration r.rate with
  | error e => rw [sample_err fmul r e hc] at hv; cases hv
  | ok k =>
    rcases sample_ok fmul r k hc with ⟨_, e1⟩ | ⟨hfit, _⟩
    · rw [e1] at hv; cases hv
    · cases hp : r.isPartial
      · obtain ⟨S, P, D, hS, hP, hD⟩ := resolved_params r hp
        have : S = zero := by
          rw [hsc] at hS; simp only [Param.evalOr, Option.some.injEq] at hS; rw [← hS]; exact hz0
        subst this
        rw [sample_get fmul r k zero P D hp hc hfit hS hP hD] at hv
        split at hv
        · rw [valueAt_zero L] at hv; cases hv; rfl
        · cases hv
      · rcases sample_partial fmul r k hp hc hfit with ⟨p, e1, _⟩ | ⟨_, e1⟩
        · rw [e1] at hv; cases hv
        · rw [e1] at hv
          simp only [Out.get?, Iq.get?] at hv
          split at hv
          · cases hv; rfl
          · cases hv

/-- the padding samples are zero, whatever the scale, phase and detuning -/
theorem C32_padding_zero (L : Laws K) (fmul : Dy → Dy → Dy) (r : Request K) (k : Nat) (S P D : K)
    (hp : r.isPartial = false) (hkind : r.kind.padded = true)
    (h : resolveCount fmul r.common.duration r.rate = .ok k)
    (hfit : totalCount fmul r k ≤ usizeMax)
    (hS : r.common.scale.evalOr one = some S) (hP : r.common.phase.evalOr zero = some P)
    (hD : r.common.detuning.evalOr zero = some D)
    (j : Nat) (hj : j < totalCount fmul r k) (hpad : j < padLeft fmul r ∨ padLeft fmul r + k ≤ j) :
    (sample fmul r).get? j = some zero := by
  rw [sample_get fmul r k S P D hp h hfit hS hP hD, if_pos hj]
  congr 1
  unfold valueAt
  have hpe : paddedEnv r.env (padLeft fmul r) k j = (zero : K) := by
    unfold paddedEnv
    rcases hpad with h1 | h1
    · rw [if_pos h1]
    · rw [if_neg (by omega), if_neg (by omega)]
  have hval : ∀ (kd : Kind), kd.padded = true →
      (match kd with
        | Kind.flat =>
          if isZero D = true then applyPhase (mul S r.iq) P else applyPD (mul S r.iq) P D (ofDy r.rate) j
        | Kind.boxcarKernel =>
          if isZero D = true then mul (div S (ofNat k)) (turn P)
          else mul (div S (ofNat k)) (turn (add (div (mul D (ofNat j)) (ofDy r.rate)) P))
        | _ =>
          if scaleIsZero r.common = true then zero
          else applyPD (mul S (paddedEnv r.env (padLeft fmul r) k j)) P D (ofDy r.rate) j) = (zero : K) := by
    intro kd hkd
    cases kd <;> simp only [Kind.padded] at hkd <;> first | (exact Bool.noConfusion hkd) | skip
    all_goals
      simp only []
      split
      · rfl
      · rw [hpe]; simp only [applyPD, applyPhase, Laws.mul_zero L, L.zero_mul]
  exact hval r.kind hkind

/-! ### 5b. The count in ℚ with Mathlib's `round` -/

/-- the count, stated with Mathlib's `round` on ℚ: for an accepted duration the number of samples is
`round (duration · rate)` -/
theorem C32_count_rat (d r : Dy) (k : Nat) (h : resolveCount Dy.mul d r = .ok k) :
    (k : ℤ) = round (((d.m : ℚ) / 2 ^ d.s) * ((r.m : ℚ) / 2 ^ r.s)) := by
  have hs := C32_count_exact d r
  rw [h] at hs
  obtain ⟨n, hr, hk, _, _⟩ := hs
  subst hk
  unfold IsRoundHA at hr
  obtain ⟨h1, h2⟩ := hr
  simp only [Dy.mul, Dy.den] at h1 h2
  have hp : (0 : ℤ) < ((2 ^ (d.s + r.s) : ℕ) : ℤ) := by positivity
  generalize hP : ((2 ^ (d.s + r.s) : ℕ) : ℤ) = P at *
  generalize hM : d.m * r.m = M at *
  -- integer facts
  have hA : 2 * (k : ℤ) * P ≤ 2 * M + P := by
    have : (k : ℤ) * P * 2 - M * 2 ≤ P := by
      have := h1
      omega
    nlinarith
  have hB : 2 * M + P < 2 * (k : ℤ) * P + 2 * P := by
    have hk0 : (0 : ℤ) ≤ (k : ℤ) * P := by positivity
    have : 2 * (M - (k : ℤ) * P) < P := by
      rcases Nat.lt_or_ge (2 * (M - (k : ℤ) * P).natAbs) (2 ^ (d.s + r.s)) with hlt | hge
      · omega
      · have heq : 2 * (M - (k : ℤ) * P).natAbs = 2 ^ (d.s + r.s) := by omega
        have := h2 heq
        omega
    nlinarith
  -- the rational value
  have hx : ((d.m : ℚ) / 2 ^ d.s) * ((r.m : ℚ) / 2 ^ r.s) = (M : ℚ) / (P : ℚ) := by
    rw [← hM, ← hP]
    push_cast
    rw [pow_add]
    field_simp
  rw [hx, round_eq]
  symm
  rw [Int.floor_eq_iff]
  have hPq : (0 : ℚ) < (P : ℚ) := by exact_mod_cast hp
  have hA' : 2 * ((k : ℤ) : ℚ) * (P : ℚ) ≤ 2 * (M : ℚ) + (P : ℚ) := by exact_mod_cast hA
  have hB' : 2 * (M : ℚ) + (P : ℚ) < 2 * ((k : ℤ) : ℚ) * (P : ℚ) + 2 * (P : ℚ) := by exact_mod_cast hB
  constructor
  · rw [div_add_div _ _ (ne_of_gt hPq) two_ne_zero, le_div_iff₀ (by positivity)]
    linarith
  · rw [div_add_div _ _ (ne_of_gt hPq) two_ne_zero, div_lt_iff₀ (by positivity)]
    linarith

/-! ### 6. Non-vacuity: the laws are satisfiable, the hypotheses are met by concrete requests -/

/-- ℂ with `turn x = exp(2πi·x)`: the intended reading of the scalar operations -/
@[reducible] noncomputable def complexScalar : Scalar ℂ where
  zero := 0
  one := 1
  add := (· + ·)
  mul := (· * ·)
  div := (· / ·)
  ofNat n := (n : ℂ)
  ofDy d := (d.m : ℂ) / (2 : ℂ) ^ d.s
  turn x := Complex.exp (2 * Real.pi * Complex.I * x)
  isZero x := by classical exact decide (x = 0)

/-- **the laws hold in ℂ** with `turn x = exp(2πi·x)`, so every value theorem above is a statement
about complex numbers -/
theorem C32_laws_complex : @Laws ℂ complexScalar :=
  @Laws.mk ℂ complexScalar mul_assoc mul_comm zero_mul one_mul zero_add add_assoc zero_div
    (fun a b => by show a / b = a * (1 / b); rw [mul_one_div])
    (by show Complex.exp (2 * Real.pi * Complex.I * 0) = 1; simp)
    (fun a b => by
      show Complex.exp (2 * Real.pi * Complex.I * (a + b)) =
        Complex.exp (2 * Real.pi * Complex.I * a) * Complex.exp (2 * Real.pi * Complex.I * b)
      rw [mul_add, Complex.exp_add])
    (fun a => by show (by classical exact decide (a = 0)) = true ↔ a = 0; simp)

/-- a whole cycle is the identity, half a cycle is `-1` (what "phase in cycles" means) -/
theorem C32_turn_cycle : complexScalar.turn 1 = 1 ∧ complexScalar.turn (1 / 2) = -1 := by
  constructor
  · show Complex.exp (2 * Real.pi * Complex.I * 1) = 1
    rw [mul_one]; exact Complex.exp_two_pi_mul_I
  · show Complex.exp (2 * Real.pi * Complex.I * (1 / 2)) = -1
    have : (2 * Real.pi * Complex.I * (1 / 2) : ℂ) = Real.pi * Complex.I := by ring
    rw [this]; exact Complex.exp_pi_mul_I

/-- a small computable scalar type for evaluating the model inside Lean: ℤ with a degenerate
division and `turn = 1` (it satisfies the laws too) -/
@[reducible] def intScalar : Scalar Int where
  zero := 0
  one := 1
  add := (· + ·)
  mul := (· * ·)
  div _ _ := 0
  ofNat n := (n : Int)
  ofDy d := d.m
  turn _ := 1
  isZero x := decide (x = 0)

theorem C32_laws_int : @Laws Int intScalar :=
  @Laws.mk Int intScalar Int.mul_assoc Int.mul_comm Int.zero_mul Int.one_mul Int.zero_add
    Int.add_assoc (fun _ => rfl) (fun a b => by show (0 : Int) = a * 0; simp) rfl (fun _ _ => rfl)
    (fun a => by show decide (a = 0) = true ↔ a = 0; simp)

section examples
attribute [local instance] intScalar

/-- ErfSquare, 16 s at 1 Hz, paddings 2.5 s and 0.25 s -/
private def exReqWith (kind : Kind) (dur : Dy) (scale phase : Param Int) (wf : Bool) (padL : Dy) : Request Int :=
  { kind := kind, common := ⟨dur, scale, phase, .absent⟩, rate := ⟨1, 0⟩,
    padL := padL, padR := ⟨1, 2⟩, wfKnown := wf, iq := 7, env := fun k => (k : Int) + 1 }
private def exReq : Request Int := exReqWith .erfSquare ⟨16, 0⟩ (.known 3) .absent true ⟨5, 1⟩

example : (sample Dy.mul exReq).count? = some (3 + 16 + 1) := by rfl
example : (sample Dy.mul exReq).get? 2 = some 0 ∧ (sample Dy.mul exReq).get? 3 = some 3 ∧
    (sample Dy.mul exReq).get? 18 = some 48 ∧ (sample Dy.mul exReq).get? 19 = some 0 ∧
    (sample Dy.mul exReq).get? 20 = none := by
  refine ⟨by rfl, by rfl, by rfl, by rfl, by rfl⟩
/-- an unknown phase: placeholder of the same 20 entries; filling it: 20 samples -/
example : sample Dy.mul (exReqWith .erfSquare ⟨16, 0⟩ (.known 3) .unknown true ⟨5, 1⟩) =
    .placeholder (.vec (List.replicate 20 ())) := by rfl
example : (exReqWith .erfSquare ⟨16, 0⟩ (.known 3) .unknown true ⟨5, 1⟩).isPartial = true := by rfl
example : (sample Dy.mul ((exReqWith .erfSquare ⟨16, 0⟩ (.known 3) .unknown true ⟨5, 1⟩).fill 1 0 0)).count?
    = some 20 := by rfl
/-- zero scale with a missing waveform parameter: twenty zeros, not a placeholder -/
example : sample Dy.mul (exReqWith .erfSquare ⟨16, 0⟩ (.known 0) .absent false ⟨5, 1⟩) =
    .samples (.flat 0 20) := by rfl
/-- Flat with a missing `iq` and zero scale: a placeholder (Flat has no zero-scale shortcut) -/
example : sample Dy.mul (exReqWith .flat ⟨16, 0⟩ (.known 0) .absent false ⟨5, 1⟩) =
    .placeholder (.flat () 16) := by rfl
/-- misaligned duration 2.5 s at 1 Hz: an error -/
example : sample Dy.mul (exReqWith .erfSquare ⟨5, 1⟩ (.known 3) .absent true ⟨5, 1⟩) =
    .err .misaligned := by rfl
/-- the hypotheses of the value theorems are met by `exReq` -/
example : ((sample Dy.mul (exReq.withScale (2 * 3))).get? 5) = ((sample Dy.mul exReq).get? 5).map (2 * ·) :=
  C32_scale_linear C32_laws_int Dy.mul exReq 2 3 (by rfl) (by rfl) 5
/-- usize overflow: a padding of 2^70 samples panics -/
example : sample Dy.mul (exReqWith .erfSquare ⟨16, 0⟩ (.known 3) .absent true ⟨2 ^ 70, 0⟩) = .crash := by rfl
end examples

end QV.C32
