import QV.C16.Spec
/-! Helper lemmas for C16 (core Lean only). -/
namespace QV.C16

theorem qubitMatch_iff (cq gq : Qubit) : qubitMatch cq gq = true ↔ QubitOk cq gq := by
  cases cq <;> cases gq <;> simp [qubitMatch, QubitOk] <;> exact eq_comm

theorem qubitOkB_iff (cq gq : Qubit) : qubitOkB cq gq = true ↔ QubitOk cq gq := by
  cases cq <;> cases gq <;> simp [qubitOkB, QubitOk]

theorem paramMatch_iff (cp gp : Param) : paramMatch cp gp = true ↔ ParamOk cp gp := by
  unfold paramMatch ParamOk
  cases h : cp.simp <;> simp

theorem paramOkB_iff (cp gp : Param) : paramOkB cp gp = true ↔ ParamOk cp gp := by
  simp [paramOkB, ParamOk]

/-- `allZip` on lists of equal length is the pointwise statement. -/
theorem allZip_iff {α β : Type} (f : α → β → Bool) (xs : List α) (ys : List β)
    (h : xs.length = ys.length) :
    allZip f xs ys = true ↔ ∀ (i : Nat) a b, xs[i]? = some a → ys[i]? = some b → f a b = true := by
  induction xs generalizing ys with
  | nil => cases ys <;> simp [allZip]
  | cons x xs ih =>
    cases ys with
    | nil => simp at h
    | cons y ys =>
      simp only [List.length_cons, Nat.add_right_cancel_iff] at h
      simp only [allZip, Bool.and_eq_true, ih ys h]
      constructor
      · rintro ⟨h0, hr⟩ i a b ha hb
        cases i with
        | zero => simp at ha hb; subst ha hb; exact h0
        | succ i => simp at ha hb; exact hr i a b ha hb
      · intro hall
        refine ⟨hall 0 x y (by simp) (by simp), fun i a b ha hb => hall (i+1) a b (by simpa using ha) (by simpa using hb)⟩

theorem range_all_iff (n : Nat) (p : Nat → Bool) :
    (List.range n).all p = true ↔ ∀ i, i < n → p i = true := by
  simp [List.all_eq_true]

theorem fixedCount_eq_nFixed (c : Cal) : fixedCount c = nFixed c := by
  unfold fixedCount nFixed
  rw [List.countP_eq_length_filter]
  congr 1

end QV.C16
