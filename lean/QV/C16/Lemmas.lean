import QV.C16.Spec
/-! Helper lemmas for C16 (core Lean only). -/
namespace QV.C16

theorem qubitMatch_iff (cq gq : Qubit) : qubitMatch cq gq = true ↔ QubitOk cq gq := by
  cases cq <;> cases gq <;> simp [qubitMatch, QubitOk] <;> exact eq_comm

theorem qubitOkB_iff (cq gq : Qubit) : qubitOkB cq gq = true ↔ QubitOk cq gq := by
  cases cq <;> cases gq <;> simp [qubitOkB, QubitOk]

theorem paramMatch_iff (cp gp : Param) : paramMatch cp gp = true ↔ ParamOk cp gp := by
  unfold paramMatch ParamOk
  cases h : cp.simp <;> simp

theorem paramOkB_iff (cp gp : Param) : paramOkB cp gp = true ↔ ParamOk cp gp := by
  simp [paramOkB, ParamOk]

/-- `allZip` on lists of equal length is the pointwise statement. -/
theorem allZip_iff {α β : Type} (f : α → β → Bool) (xs : List α) (ys : List β)
    (h : xs.length = ys.length) :
    allZip f xs ys = true ↔ ∀ (i : Nat) a b, xs[i]? = some a → ys[i]? = some b → f a b = true := by
  induction xs generalizing ys with
  | nil => cases ys <;> simp [allZip]
  | cons x xs ih =>
    cases ys with
    | nil => simp at h
    | cons y ys =>
      simp only [List.length_cons, Nat.add_right_cancel_iff] at h
      simp only [allZip, Bool.and_eq_true, ih ys h]
      constructor
      · rintro ⟨h0, hr⟩ i a b ha hb
        cases i with
        | zero => simp at ha hb; subst ha hb; exact h0
        | succ i => simp at ha hb; exact hr i a b ha hb
      · intro hall
        refine ⟨hall 0 x y (by simp) (by simp), fun i a b ha hb => hall (i+1) a b (by simpa using ha) (by simpa using hb)⟩

theorem range_all_iff (n : Nat) (p : Nat → Bool) :
    (List.range n).all p = true ↔ ∀ i, i < n → p i = true := by
  simp [List.all_eq_true]

theorem fixedCount_eq_nFixed (c : Cal) : fixedCount c = nFixed c := by
  unfold fixedCount nFixed
  rw [List.countP_eq_length_filter]
  congr 1

/-! ### Measurement scan -/

theorem measClass_iff (m : Meas) (c : MCal) (b : Bool) :
    measClass m c = some b ↔ MeasMatches c m ∧ exactRank c = (if b then 1 else 0) := by
  unfold measClass MeasMatches exactRank
  by_cases h1 : m.name = c.name <;> by_cases h2 : m.target.isSome = c.target.isSome <;>
    cases hq : c.qubit <;> cases b <;> simp [h1, h2] <;> grind

def fi (m : Meas) (b : Bool) (l : List (MCal × Nat)) : Option Nat :=
  (l.find? (fun p => measClass m p.1 == some b)).map (·.2)

theorem measScan_eq (m : Meas) (l : List (MCal × Nat)) (ex wc : Option Nat) :
    measScan m l (ex, wc) = (ex.or (fi m true l), wc.or (fi m false l)) := by
  induction l generalizing ex wc with
  | nil => simp [measScan, fi]
  | cons p l ih =>
    obtain ⟨c, i⟩ := p
    unfold measScan
    cases hc : measClass m c with
    | none => simp [ih, fi, hc]
    | some b =>
      cases b <;> cases ex <;> cases wc <;> simp [ih, fi, hc, firstExtend]

theorem zipIdx_snoc_reverse (cs : List MCal) (c : MCal) :
    (cs ++ [c]).zipIdx.reverse = (c, cs.length) :: cs.zipIdx.reverse := by
  simp [List.zipIdx_append]

/-- the last position of class `b` -/
def LastOf (m : Meas) (b : Bool) (cs : List MCal) : Option Nat → Prop
  | some i => ∃ c, cs[i]? = some c ∧ measClass m c = some b ∧
      ∀ (j : Nat) d, cs[j]? = some d → measClass m d = some b → j ≤ i
  | none => ∀ (j : Nat) d, cs[j]? = some d → measClass m d ≠ some b

theorem fi_lastOf_snoc (m : Meas) (b : Bool) (cs : List MCal) (c : MCal)
    (ih : LastOf m b cs (fi m b cs.zipIdx.reverse)) :
    LastOf m b (cs ++ [c]) (fi m b (cs ++ [c]).zipIdx.reverse) := by
    rw [zipIdx_snoc_reverse]
    have split : ∀ (j : Nat) d, (cs ++ [c])[j]? = some d → cs[j]? = some d ∨ (j = cs.length ∧ d = c) := by
      intro j d hj
      by_cases hlt : j < cs.length
      · left; simpa [List.getElem?_append_left hlt] using hj
      · have : j = cs.length ∨ cs.length < j := by omega
        rcases this with rfl | hgt
        · right; simp at hj; exact ⟨rfl, hj.symm⟩
        · rw [List.getElem?_eq_none (by simp; omega)] at hj; cases hj
    by_cases hc : measClass m c = some b
    · have : fi m b ((c, cs.length) :: cs.zipIdx.reverse) = some cs.length := by simp [fi, hc]
      rw [this]
      refine ⟨c, by simp, hc, ?_⟩
      intro j d hj _
      rcases split j d hj with hp | ⟨rfl, _⟩
      · exact Nat.le_of_lt (List.getElem?_eq_some_iff.mp hp).1
      · exact Nat.le_refl _
    · have : fi m b ((c, cs.length) :: cs.zipIdx.reverse) = fi m b cs.zipIdx.reverse := by
        simp [fi, hc]
      rw [this]
      generalize fi m b cs.zipIdx.reverse = o at ih
      match o, ih with
      | none, ih =>
        intro j d hj
        rcases split j d hj with hp | ⟨_, rfl⟩
        · exact ih j d hp
        · exact hc
      | some i, ⟨w, hw, hcw, hb⟩ =>
        have hi : i < cs.length := (List.getElem?_eq_some_iff.mp hw).1
        refine ⟨w, by simpa [List.getElem?_append_left hi] using hw, hcw, ?_⟩
        intro j d hj hd
        rcases split j d hj with hp | ⟨_, rfl⟩
        · exact hb j d hp hd
        · exact absurd hd hc

theorem fi_lastOf (m : Meas) (b : Bool) (cs : List MCal) :
    LastOf m b cs (fi m b cs.zipIdx.reverse) := by
  have aux : ∀ r : List MCal, LastOf m b r.reverse (fi m b r.reverse.zipIdx.reverse) := by
    intro r
    induction r with
    | nil => simp [fi, LastOf]
    | cons c r ih => rw [List.reverse_cons]; exact fi_lastOf_snoc m b _ c ih
  simpa using aux cs.reverse

/-! ### CalibrationSet -/

section Set
variable {α σ : Type} [DecidableEq σ] (sig : α → σ)

theorem sigPos_none_iff (s : σ) (cs : List α) : sigPos sig s cs = none ↔ ∀ c ∈ cs, sig c ≠ s := by
  induction cs with
  | nil => simp [sigPos]
  | cons c cs ih =>
    unfold sigPos
    by_cases h : sig c = s <;> simp [h, ih]

theorem sigPos_some (s : σ) (cs : List α) (i : Nat) (h : sigPos sig s cs = some i) :
    ∃ c, cs[i]? = some c ∧ sig c = s ∧ ∀ (j : Nat) d, j < i → cs[j]? = some d → sig d ≠ s := by
  induction cs generalizing i with
  | nil => simp [sigPos] at h
  | cons c cs ih =>
    unfold sigPos at h
    by_cases hc : sig c = s
    · simp [hc] at h; subst h
      exact ⟨c, by simp, hc, by intro j d hj; omega⟩
    · simp only [hc, if_false, Option.map_eq_some_iff] at h
      obtain ⟨k, hk, rfl⟩ := h
      obtain ⟨w, hw, hs, hfirst⟩ := ih k hk
      refine ⟨w, by simpa using hw, hs, ?_⟩
      intro j d hj hd
      cases j with
      | zero => simp at hd; subst hd; exact hc
      | succ j => exact hfirst j d (by omega) (by simpa using hd)

/-- the pointwise update that an in-place replacement amounts to -/
def upd (v : α) (c : α) : α := if sig c = sig v then v else c

theorem sig_upd (v c : α) : sig (upd sig v c) = sig c := by
  unfold upd; by_cases h : sig c = sig v <;> simp [h]

theorem map_upd_of_not_mem (v : α) (cs : List α) (h : ∀ c ∈ cs, sig c ≠ sig v) :
    cs.map (upd sig v) = cs := by
  induction cs with
  | nil => rfl
  | cons c cs ih =>
    have hc : sig c ≠ sig v := h c (by simp)
    simp only [List.map_cons, upd, hc, if_false]
    rw [show cs.map (upd sig v) = cs from ih (fun d hd => h d (by simp [hd]))]

theorem set_eq_map_upd (v : α) (cs : List α) (i : Nat) (hnd : NoDupSig sig cs)
    (h : sigPos sig (sig v) cs = some i) : cs.set i v = cs.map (upd sig v) := by
  induction cs generalizing i with
  | nil => simp [sigPos] at h
  | cons c cs ih =>
    unfold NoDupSig at hnd
    rw [List.pairwise_cons] at hnd
    unfold sigPos at h
    by_cases hc : sig c = sig v
    · simp [hc] at h; subst h
      have : cs.map (upd sig v) = cs := map_upd_of_not_mem sig v cs (fun d hd => by
        have := hnd.1 d hd; rw [hc] at this; exact fun e => this e.symm)
      simp [upd, hc, this]
    · simp only [hc, if_false, Option.map_eq_some_iff] at h
      obtain ⟨k, hk, rfl⟩ := h
      simp [upd, hc, ih k hnd.2 hk]

theorem noDupSig_map_upd (v : α) (cs : List α) (h : NoDupSig sig cs) :
    NoDupSig sig (cs.map (upd sig v)) := by
  unfold NoDupSig at *
  rw [List.pairwise_map]
  simpa [sig_upd] using h

end Set
end QV.C16
