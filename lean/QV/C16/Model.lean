/-
C16 model: calibration lookup and calibration-set insertion.

  * `CalibrationIdentifier::matches`            quil-rs/src/instruction/calibration.rs:135-190
  * `MatchedCalibration::new` (fixed count)     quil-rs/src/program/calibration.rs:125-140
  * `Calibrations::get_match_for_gate`          quil-rs/src/program/calibration.rs:628-648
  * `Calibrations::get_match_for_measurement`   quil-rs/src/program/calibration.rs:563-616
  * `CalibrationSet::{signature_position, replace, remove, extend, from}`
                                                quil-rs/src/program/calibration_set.rs:41-134
  * `CalibrationIdentifier::signature`, `MeasureCalibrationIdentifier::signature`
                                                quil-rs/src/instruction/calibration.rs:193-214, 312-330

Projection (done by the harness, see meta/C16.json): an `Expression` parameter is represented by two
class numbers: `raw` = its equivalence class under `Expression::eq` (what signatures compare) and `simp` =
the class of `expr.clone().into_simplified()` (what `matches` compares), where `SimpClass.variable` stands
for "the simplified expression is `Expression::Variable(_)`".  A calibration body is represented by a
number identifying the definition (so that a replaced definition can be told from the one replacing it).
-/
namespace QV.C16

inductive Modifier where
  | controlled | dagger | forked
  deriving DecidableEq, Repr

/-- `Qubit` (instruction/qubit.rs:21); a placeholder is identified by a number (pointer identity). -/
inductive Qubit where
  | fixed (n : Nat)
  | variable (name : String)
  | placeholder (id : Nat)
  deriving DecidableEq, Repr

/-- What `into_simplified()` of a parameter looks like, up to `Expression::eq`. -/
inductive SimpClass where
  | variable
  | other (cls : Nat)
  deriving DecidableEq, Repr

structure Param where
  raw : Nat
  simp : SimpClass
  deriving DecidableEq, Repr

/-- `CalibrationDefinition` = identifier + body (`body` identifies the definition). -/
structure Cal where
  name : String
  mods : List Modifier
  params : List Param
  qubits : List Qubit
  body : Nat
  deriving DecidableEq, Repr

/-- `Gate` (instruction/gate.rs:43). -/
structure Gate where
  name : String
  mods : List Modifier
  params : List Param
  qubits : List Qubit
  deriving DecidableEq, Repr

/-- The `match` inside `fixed_qubits_match` (instruction/calibration.rs:151-165), same arm order. -/
def qubitMatch (cq gq : Qubit) : Bool :=
  match cq, gq with
  | .placeholder _, _ => false
  | _, .placeholder _ => false
  | .fixed a, .fixed b => a == b
  | .variable _, _ => true
  | .fixed _, _ => false

/-- The `match` inside `fixed_parameters_match` (instruction/calibration.rs:176-187): both sides are
simplified; a calibration parameter that simplifies to a variable matches anything, otherwise the two
simplified expressions must be equal. -/
def paramMatch (cp gp : Param) : Bool :=
  match cp.simp with
  | .variable => true
  | s => s == gp.simp

/-- `(0..len).all(|i| f(xs[i], ys[i]))` for two lists already known to have the same length. -/
def allZip {α β : Type} (f : α → β → Bool) : List α → List β → Bool
  | a :: as, b :: bs => f a b && allZip f as bs
  | _, _ => true

/-- `CalibrationIdentifier::matches`. -/
def matchesB (c : Cal) (g : Gate) : Bool :=
  if c.name != g.name || c.mods != g.mods || c.params.length != g.params.length
      || c.qubits.length != g.qubits.length then false
  else if !(allZip qubitMatch c.qubits g.qubits) then false
  else allZip paramMatch c.params g.params

def Qubit.isFixed : Qubit → Bool
  | .fixed _ => true
  | _ => false

/-- `MatchedCalibration::new(..).fixed_qubit_count`. -/
def fixedCount (c : Cal) : Nat := (c.qubits.filter Qubit.isFixed).length

/-- One iteration of the `for` loop of `get_match_for_gate` for a calibration that passed the
`.filter(matches)`: state = (index of the current best, its fixed-qubit count). -/
def gateStep (acc : Option (Nat × Nat)) (i : Nat) (c : Cal) : Option (Nat × Nat) :=
  match acc with
  | none => some (i, fixedCount c)
  | some (j, k) => if fixedCount c ≥ k then some (i, fixedCount c) else some (j, k)

/-- The loop of `get_match_for_gate` over the remaining calibrations, `i` = index of the next one. -/
def gateLoop (g : Gate) : List Cal → Nat → Option (Nat × Nat) → Option (Nat × Nat)
  | [], _, acc => acc
  | c :: cs, i, acc =>
    if matchesB c g then gateLoop g cs (i + 1) (gateStep acc i c)
    else gateLoop g cs (i + 1) acc

/-- `Calibrations::get_match_for_gate`: the position of the returned definition in the set. -/
def getMatchForGate (cs : List Cal) (g : Gate) : Option Nat :=
  (gateLoop g cs 0 none).map (·.1)

/-! ### Measurements -/

/-- `MeasureCalibrationDefinition` = identifier (name, qubit, target) + body. -/
structure MCal where
  name : Option String
  qubit : Qubit
  target : Option String
  body : Nat
  deriving DecidableEq, Repr

/-- `Measurement`; the target memory reference is `(region, index)`. -/
structure Meas where
  name : Option String
  qubit : Qubit
  target : Option (String × Nat)
  deriving DecidableEq, Repr

/-- The `filter_map` closure of `get_match_for_measurement` (program/calibration.rs:593-605):
`none` = filtered out, `some true` = exact qubit match, `some false` = wildcard. -/
def measClass (m : Meas) (c : MCal) : Option Bool :=
  if !(m.name == c.name && m.target.isSome == c.target.isSome) then none
  else match c.qubit with
    | .fixed n => if m.qubit == .fixed n then some true else none
    | .variable _ => some false
    | .placeholder _ => none

/-- `First::extend`: keep the first value. -/
def firstExtend (cur : Option Nat) (i : Nat) : Option Nat :=
  match cur with
  | none => some i
  | some j => some j

/-- `partition_map` into `(First, First)` over the (already reversed) iterator. -/
def measScan (m : Meas) : List (MCal × Nat) → Option Nat × Option Nat → Option Nat × Option Nat
  | [], acc => acc
  | (c, i) :: rest, (ex, wc) =>
    match measClass m c with
    | none => measScan m rest (ex, wc)
    | some true => measScan m rest (firstExtend ex i, wc)
    | some false => measScan m rest (ex, firstExtend wc i)

/-- `Calibrations::get_match_for_measurement`: `.rev()` scan, then `exact.or(wildcard)`. -/
def getMatchForMeasurement (cs : List MCal) (m : Meas) : Option Nat :=
  let r := measScan m cs.zipIdx.reverse (none, none)
  match r.1 with
  | some i => some i
  | none => r.2

/-! ### `CalibrationSet<T>`: generic over the element type and its signature -/

section Set
variable {α σ : Type} [DecidableEq σ] (sig : α → σ)

/-- `signature_position`: first index whose element `has_signature(signature)`. -/
def sigPos (s : σ) : List α → Option Nat
  | [] => none
  | c :: cs => if sig c = s then some 0 else (sigPos s cs).map (· + 1)

/-- `CalibrationSet::replace`: new contents and the replaced element. -/
def replace (cs : List α) (v : α) : List α × Option α :=
  match sigPos sig (sig v) cs with
  | some i => (cs.set i v, cs[i]?)
  | none => (cs ++ [v], none)

/-- `CalibrationSet::remove`. -/
def remove (cs : List α) (s : σ) : List α × Bool :=
  match sigPos sig s cs with
  | some i => (cs.eraseIdx i, true)
  | none => (cs, false)

/-- `Extend::extend` / `From<Vec<T>>`: `replace` each element in turn. -/
def extend (cs : List α) : List α → List α
  | [] => cs
  | v :: vs => extend (replace sig cs v).1 vs

/-- A history of mutations of one `CalibrationSet`. -/
inductive Op (α σ : Type) where
  | insert (v : α)
  | remove (s : σ)
  | extend (vs : List α)

def applyOp (cs : List α) : Op α σ → List α
  | .insert v => (replace sig cs v).1
  | .remove s => (remove sig cs s).1
  | .extend vs => extend sig cs vs

def run (cs : List α) : List (Op α σ) → List α
  | [] => cs
  | o :: os => run (applyOp sig cs o) os

end Set

/-- `CalibrationIdentifier::signature` = (modifiers, name, parameters, qubits) compared with `==`;
parameters are compared as raw expressions. -/
def Cal.sig (c : Cal) : List Modifier × String × List Nat × List Qubit :=
  (c.mods, c.name, c.params.map (·.raw), c.qubits)

/-- `MeasureCalibrationIdentifier::signature` = (name, qubit, target). -/
def MCal.sig (c : MCal) : Option String × Qubit × Option String := (c.name, c.qubit, c.target)

end QV.C16
