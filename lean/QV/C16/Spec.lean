import QV.C16.Model
/-
C16 specification, written from the property text and independent of the lookup loops:

  "A gate matches only calibrations with its name, modifiers, parameter and qubit counts whose fixed
   qubits and non-variable parameters equal its own; the match with the most fixed qubits wins, ties
   going to the later definition.  A measurement matches only calibrations with its name and
   record/effect kind; an exact fixed-qubit match beats a variable one, and the later definition wins.
   Redefining a calibration with an identical signature replaces it in place."
-/
namespace QV.C16

/-- A calibration qubit accepts a gate qubit: a fixed one only the same fixed qubit, a variable one
anything that is not a placeholder, a placeholder nothing. -/
def QubitOk (cq gq : Qubit) : Prop :=
  (∃ n, cq = .fixed n ∧ gq = .fixed n) ∨ (∃ v, cq = .variable v ∧ ∀ p, gq ≠ .placeholder p)

/-- A calibration parameter accepts a gate parameter: a variable (after simplification) accepts anything,
anything else only a parameter with the same simplified form. -/
def ParamOk (cp gp : Param) : Prop := cp.simp = .variable ∨ cp.simp = gp.simp

/-- "A gate matches only calibrations with its name, modifiers, parameter and qubit counts whose fixed
qubits and non-variable parameters equal its own." -/
def GateMatches (c : Cal) (g : Gate) : Prop :=
  c.name = g.name ∧ c.mods = g.mods ∧ c.params.length = g.params.length ∧
  c.qubits.length = g.qubits.length ∧
  (∀ (i : Nat) cq gq, c.qubits[i]? = some cq → g.qubits[i]? = some gq → QubitOk cq gq) ∧
  (∀ (i : Nat) cp gp, c.params[i]? = some cp → g.params[i]? = some gp → ParamOk cp gp)

/-- number of fixed qubits of a definition -/
def nFixed (c : Cal) : Nat := c.qubits.countP (fun q => match q with | .fixed _ => true | _ => false)

/-- "the match with the most fixed qubits wins, ties going to the later definition": position `i` holds a
matching definition and every matching definition has fewer fixed qubits, or as many and is not later. -/
def IsGateWinner (cs : List Cal) (g : Gate) (i : Nat) : Prop :=
  ∃ c, cs[i]? = some c ∧ GateMatches c g ∧
    ∀ (j : Nat) d, cs[j]? = some d → GateMatches d g →
      nFixed d < nFixed c ∨ (nFixed d = nFixed c ∧ j ≤ i)

/-- The full lookup specification: the answer is the winner, or there is no answer and nothing matches. -/
def GateLookupSpec (cs : List Cal) (g : Gate) : Option Nat → Prop
  | some i => IsGateWinner cs g i
  | none => ∀ (j : Nat) d, cs[j]? = some d → ¬ GateMatches d g

/-! Measurements -/

/-- "A measurement matches only calibrations with its name and record/effect kind" whose qubit is the
measured fixed qubit or a variable. -/
def MeasMatches (c : MCal) (m : Meas) : Prop :=
  c.name = m.name ∧ (c.target.isSome = m.target.isSome) ∧
  ((∃ n, c.qubit = .fixed n ∧ m.qubit = .fixed n) ∨ (∃ v, c.qubit = .variable v))

/-- rank of a definition: 1 for a fixed-qubit (exact) definition, 0 for a variable one -/
def exactRank (c : MCal) : Nat := match c.qubit with | .fixed _ => 1 | _ => 0

/-- "an exact fixed-qubit match beats a variable one, and the later definition wins" -/
def IsMeasWinner (cs : List MCal) (m : Meas) (i : Nat) : Prop :=
  ∃ c, cs[i]? = some c ∧ MeasMatches c m ∧
    ∀ (j : Nat) d, cs[j]? = some d → MeasMatches d m →
      exactRank d < exactRank c ∨ (exactRank d = exactRank c ∧ j ≤ i)

def MeasLookupSpec (cs : List MCal) (m : Meas) : Option Nat → Prop
  | some i => IsMeasWinner cs m i
  | none => ∀ (j : Nat) d, cs[j]? = some d → ¬ MeasMatches d m

/-! Bool checkers (evaluated by the driver on the implementation's answers; proved equivalent to the
Props above in `Props.lean`). They are deliberately written as brute-force quantification over all
positions, not as the scan the implementation performs. -/

def qubitOkB (cq gq : Qubit) : Bool :=
  match cq with
  | .fixed n => gq == .fixed n
  | .variable _ => match gq with | .placeholder _ => false | _ => true
  | .placeholder _ => false

def paramOkB (cp gp : Param) : Bool := cp.simp == .variable || cp.simp == gp.simp

def gateMatchesB (c : Cal) (g : Gate) : Bool :=
  c.name == g.name && c.mods == g.mods && c.params.length == g.params.length &&
  c.qubits.length == g.qubits.length &&
  (List.range c.qubits.length).all (fun i =>
    match c.qubits[i]?, g.qubits[i]? with
    | some cq, some gq => qubitOkB cq gq
    | _, _ => true) &&
  (List.range c.params.length).all (fun i =>
    match c.params[i]?, g.params[i]? with
    | some cp, some gp => paramOkB cp gp
    | _, _ => true)

def gateLookupSpecB (cs : List Cal) (g : Gate) : Option Nat → Bool
  | some i =>
    match cs[i]? with
    | none => false
    | some c => gateMatchesB c g &&
      (List.range cs.length).all (fun j =>
        match cs[j]? with
        | none => true
        | some d => !gateMatchesB d g || decide (nFixed d < nFixed c) ||
            (nFixed d == nFixed c && decide (j ≤ i)))
  | none => (List.range cs.length).all (fun j =>
      match cs[j]? with
      | none => true
      | some d => !gateMatchesB d g)

def measMatchesB (c : MCal) (m : Meas) : Bool :=
  c.name == m.name && (c.target.isSome == m.target.isSome) &&
  (match c.qubit with
   | .fixed n => m.qubit == .fixed n
   | .variable _ => true
   | .placeholder _ => false)

def measLookupSpecB (cs : List MCal) (m : Meas) : Option Nat → Bool
  | some i =>
    match cs[i]? with
    | none => false
    | some c => measMatchesB c m &&
      (List.range cs.length).all (fun j =>
        match cs[j]? with
        | none => true
        | some d => !measMatchesB d m || decide (exactRank d < exactRank c) ||
            (exactRank d == exactRank c && decide (j ≤ i)))
  | none => (List.range cs.length).all (fun j =>
      match cs[j]? with
      | none => true
      | some d => !measMatchesB d m)

/-! Insertion: "Redefining a calibration with an identical signature replaces it in place." -/

section Set
variable {α σ : Type} [DecidableEq σ] (sig : α → σ)

/-- no two elements of the set have the same signature -/
def NoDupSig (cs : List α) : Prop := cs.Pairwise (fun a b => sig a ≠ sig b)

/-- What `insert v` must do to `cs`, stated pointwise: if some element has `v`'s signature, the result has
the same length, `v` sits at every position that held that signature and all other positions are
unchanged; otherwise the result is `cs` with `v` appended. -/
def InsertSpec (cs : List α) (v : α) (res : List α) : Prop :=
  ((∃ c ∈ cs, sig c = sig v) →
      res.length = cs.length ∧
      ∀ (j : Nat) c, cs[j]? = some c → res[j]? = some (if sig c = sig v then v else c)) ∧
  ((∀ c ∈ cs, sig c ≠ sig v) → res = cs ++ [v])

def insertSpecB (cs : List α) (v : α) (res : List α) [BEq α] : Bool :=
  if cs.any (fun c => sig c = sig v) then
    res.length == cs.length &&
    (List.range cs.length).all (fun j =>
      match cs[j]?, res[j]? with
      | some c, some r => r == (if sig c = sig v then v else c)
      | _, _ => false)
  else res == cs ++ [v]

/-- decided directly from the definition (quadratic in the size of the set, no indexing) -/
def noDupSigB (cs : List α) : Bool := decide (cs.Pairwise (fun a b => sig a ≠ sig b))

end Set

end QV.C16
