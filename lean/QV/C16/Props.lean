import QV.C16.Lemmas
/-
C16 — Calibration lookup follows the documented precedence rules.
Property theorems (all quantify over arbitrary calibration lists / histories; no size bound).
-/
namespace QV.C16

/-! ## Matching -/

/-- **C16 (match)**: `CalibrationIdentifier::matches` decides exactly the declarative matching relation:
same name, same modifiers, same parameter and qubit counts, every fixed calibration qubit equal to the
gate's, every non-variable calibration parameter equal (after simplification) to the gate's. -/
theorem matchesB_iff (c : Cal) (g : Gate) : matchesB c g = true ↔ GateMatches c g := by
  unfold matchesB GateMatches
  by_cases h1 : c.name = g.name <;> by_cases h2 : c.mods = g.mods <;>
    by_cases h3 : c.params.length = g.params.length <;>
    by_cases h4 : c.qubits.length = g.qubits.length <;> simp [h1, h2, h3, h4]
  rw [allZip_iff _ _ _ h4, allZip_iff _ _ _ h3]
  simp only [qubitMatch_iff, paramMatch_iff]

/-- the brute-force checker used by the driver decides the same relation -/
theorem gateMatchesB_iff (c : Cal) (g : Gate) : gateMatchesB c g = true ↔ GateMatches c g := by
  unfold gateMatchesB GateMatches
  simp only [Bool.and_eq_true, beq_iff_eq, range_all_iff]
  constructor
  · rintro ⟨⟨⟨⟨⟨h1, h2⟩, h3⟩, h4⟩, hq⟩, hp⟩
    refine ⟨h1, h2, h3, h4, ?_, ?_⟩
    · intro i cq gq hc hg
      have hi : i < c.qubits.length := by
        have := List.getElem?_eq_some_iff.mp hc; exact this.1
      have := hq i hi
      simp [hc, hg] at this
      exact (qubitOkB_iff _ _).mp this
    · intro i cp gp hc hg
      have hi : i < c.params.length := by
        have := List.getElem?_eq_some_iff.mp hc; exact this.1
      have := hp i hi
      simp [hc, hg] at this
      exact (paramOkB_iff _ _).mp this
  · rintro ⟨h1, h2, h3, h4, hq, hp⟩
    refine ⟨⟨⟨⟨⟨h1, h2⟩, h3⟩, h4⟩, ?_⟩, ?_⟩
    · intro i hi
      have hi' : i < g.qubits.length := h4 ▸ hi
      simp only [List.getElem?_eq_getElem hi, List.getElem?_eq_getElem hi']
      exact (qubitOkB_iff _ _).mpr (hq i _ _ (List.getElem?_eq_getElem hi) (List.getElem?_eq_getElem hi'))
    · intro i hi
      have hi' : i < g.params.length := h3 ▸ hi
      simp only [List.getElem?_eq_getElem hi, List.getElem?_eq_getElem hi']
      exact (paramOkB_iff _ _).mpr (hp i _ _ (List.getElem?_eq_getElem hi) (List.getElem?_eq_getElem hi'))

example : GateMatches ⟨"RX", [.dagger], [⟨0, .variable⟩], [.fixed 0, .variable "q"], 7⟩
    ⟨"RX", [.dagger], [⟨3, .other 1⟩], [.fixed 0, .fixed 5]⟩ := by
  rw [← matchesB_iff]; decide

/-! ## Gate lookup -/

/-- loop invariant of `get_match_for_gate`: the accumulator describes the winner among the calibrations
seen so far -/
private def AccOk (pre : List Cal) (g : Gate) : Option (Nat × Nat) → Prop
  | none => ∀ (j : Nat) d, pre[j]? = some d → ¬ GateMatches d g
  | some (i, k) => IsGateWinner pre g i ∧ ∃ c, pre[i]? = some c ∧ k = nFixed c

private theorem accOk_snoc_nomatch (pre : List Cal) (g : Gate) (c : Cal) (acc : Option (Nat × Nat))
    (h : AccOk pre g acc) (hc : ¬ GateMatches c g) : AccOk (pre ++ [c]) g acc := by
  have key : ∀ (j : Nat) d, (pre ++ [c])[j]? = some d → GateMatches d g → pre[j]? = some d := by
    intro j d hj hd
    by_cases hlt : j < pre.length
    · simpa [List.getElem?_append_left hlt] using hj
    · have : j = pre.length ∨ pre.length < j := by omega
      rcases this with rfl | hgt
      · simp at hj; subst hj; exact absurd hd hc
      · rw [List.getElem?_eq_none (by simp; omega)] at hj; cases hj
  match acc, h with
  | none, h => exact fun j d hj hd => h j d (key j d hj hd) hd
  | some (i, k), ⟨⟨w, hw, hm, hbest⟩, hk⟩ =>
    have hi : i < pre.length := (List.getElem?_eq_some_iff.mp hw).1
    refine ⟨⟨w, by simpa [List.getElem?_append_left hi] using hw, hm, ?_⟩, ?_⟩
    · exact fun j d hj hd => hbest j d (key j d hj hd) hd
    · obtain ⟨c', hc', hk'⟩ := hk
      exact ⟨c', by simpa [List.getElem?_append_left hi] using hc', hk'⟩

private theorem accOk_snoc_match (pre : List Cal) (g : Gate) (c : Cal) (acc : Option (Nat × Nat))
    (h : AccOk pre g acc) (hc : GateMatches c g) :
    AccOk (pre ++ [c]) g (gateStep acc pre.length c) := by
  have split : ∀ (j : Nat) d, (pre ++ [c])[j]? = some d → pre[j]? = some d ∨ (j = pre.length ∧ d = c) := by
    intro j d hj
    by_cases hlt : j < pre.length
    · left; simpa [List.getElem?_append_left hlt] using hj
    · have : j = pre.length ∨ pre.length < j := by omega
      rcases this with rfl | hgt
      · right; simp at hj; exact ⟨rfl, hj.symm⟩
      · rw [List.getElem?_eq_none (by simp; omega)] at hj; cases hj
  have hlast : (pre ++ [c])[pre.length]? = some c := by simp
  match acc, h with
  | none, h =>
    simp only [gateStep, fixedCount_eq_nFixed]
    refine ⟨⟨c, hlast, hc, ?_⟩, c, hlast, rfl⟩
    intro j d hj hd
    rcases split j d hj with hp | ⟨rfl, rfl⟩
    · exact absurd hd (h j d hp)
    · right; exact ⟨rfl, Nat.le_refl _⟩
  | some (i, k), ⟨⟨w, hw, hm, hbest⟩, c', hc', hk⟩ =>
    have hi : i < pre.length := (List.getElem?_eq_some_iff.mp hw).1
    have hwc : w = c' := by rw [hw] at hc'; exact Option.some.inj hc'
    subst hwc
    simp only [gateStep, fixedCount_eq_nFixed]
    by_cases hge : nFixed c ≥ k
    · simp only [hge, if_true]
      refine ⟨⟨c, hlast, hc, ?_⟩, c, hlast, rfl⟩
      intro j d hj hd
      rcases split j d hj with hp | ⟨rfl, rfl⟩
      · have hlt : j < pre.length := (List.getElem?_eq_some_iff.mp hp).1
        rcases hbest j d hp hd with hlt' | ⟨heq, _⟩
        · by_cases he : nFixed d = nFixed c
          · right; exact ⟨he, Nat.le_of_lt hlt⟩
          · left; omega
        · by_cases he : nFixed d = nFixed c
          · right; exact ⟨he, Nat.le_of_lt hlt⟩
          · left; omega
      · right; exact ⟨rfl, Nat.le_refl _⟩
    · simp only [hge, if_false]
      refine ⟨⟨w, by simpa [List.getElem?_append_left hi] using hw, hm, ?_⟩,
        w, by simpa [List.getElem?_append_left hi] using hw, hk⟩
      intro j d hj hd
      rcases split j d hj with hp | ⟨rfl, rfl⟩
      · exact hbest j d hp hd
      · left; omega

private theorem gateLoop_inv (g : Gate) (rest pre : List Cal) (acc : Option (Nat × Nat))
    (h : AccOk pre g acc) : AccOk (pre ++ rest) g (gateLoop g rest pre.length acc) := by
  induction rest generalizing pre acc with
  | nil => simpa [gateLoop] using h
  | cons c cs ih =>
    have e : pre ++ c :: cs = (pre ++ [c]) ++ cs := by simp
    have l : pre.length + 1 = (pre ++ [c]).length := by simp
    unfold gateLoop
    by_cases hm : matchesB c g = true
    · simp only [hm, if_true]
      rw [e, l]
      exact ih _ _ (accOk_snoc_match pre g c acc h ((matchesB_iff c g).mp hm))
    · simp only [hm]
      rw [e, l]
      exact ih _ _ (accOk_snoc_nomatch pre g c acc h (fun hc => hm ((matchesB_iff c g).mpr hc)))

/-- **C16 (gate lookup)**: for every calibration list and every gate, `get_match_for_gate` returns the
position singled out by the declarative rule — a matching definition such that every other matching
definition has strictly fewer fixed qubits, or equally many and an earlier-or-equal position — and
returns nothing exactly when no definition matches. -/
theorem getMatchForGate_spec (cs : List Cal) (g : Gate) :
    GateLookupSpec cs g (getMatchForGate cs g) := by
  have h := gateLoop_inv g cs [] none (by intro j d hj; simp at hj)
  simp only [List.nil_append, List.length_nil] at h
  unfold getMatchForGate
  match hr : gateLoop g cs 0 none, h with
  | none, h => exact h
  | some (i, k), h => exact h.1

/-- the rule determines the answer: two winners coincide -/
theorem gateWinner_unique (cs : List Cal) (g : Gate) (i j : Nat)
    (hi : IsGateWinner cs g i) (hj : IsGateWinner cs g j) : i = j := by
  obtain ⟨c, hc, hmc, hbc⟩ := hi
  obtain ⟨d, hd, hmd, hbd⟩ := hj
  have h1 := hbc j d hd hmd
  have h2 := hbd i c hc hmc
  omega

/-- **C16 (gate lookup, as an equivalence)**: an answer satisfies the specification iff it is the one
`get_match_for_gate` returns. -/
theorem getMatchForGate_iff (cs : List Cal) (g : Gate) (o : Option Nat) :
    GateLookupSpec cs g o ↔ getMatchForGate cs g = o := by
  have hs := getMatchForGate_spec cs g
  constructor
  · intro ho
    match o, hm : getMatchForGate cs g, ho, hs with
    | some i, some j, ho, hs => rw [gateWinner_unique cs g i j ho hs]
    | none, none, _, _ => rfl
    | some i, none, ho, hs =>
      obtain ⟨c, hc, hmc, _⟩ := ho
      exact absurd hmc (hs i c hc)
    | none, some j, ho, hs =>
      obtain ⟨c, hc, hmc, _⟩ := hs
      exact absurd hmc (ho j c hc)
  · intro h; rw [← h]; exact hs

/-- `get_match_for_gate` returns nothing iff no calibration matches -/
theorem getMatchForGate_none_iff (cs : List Cal) (g : Gate) :
    getMatchForGate cs g = none ↔ ∀ c ∈ cs, ¬ GateMatches c g := by
  rw [← getMatchForGate_iff]
  simp only [GateLookupSpec]
  constructor
  · intro h c hc
    obtain ⟨j, hj, rfl⟩ := List.getElem_of_mem hc
    exact h j _ (List.getElem?_eq_getElem hj)
  · intro h j d hj
    exact h d (List.mem_of_getElem? hj)

/-- the Bool checker evaluated by the driver on the implementation's answer is the specification -/
theorem gateLookupSpecB_iff (cs : List Cal) (g : Gate) (o : Option Nat) :
    gateLookupSpecB cs g o = true ↔ GateLookupSpec cs g o := by
  have hget : ∀ (j : Nat) d, cs[j]? = some d → j < cs.length :=
    fun j d h => (List.getElem?_eq_some_iff.mp h).1
  cases o with
  | none =>
    simp only [gateLookupSpecB, GateLookupSpec, range_all_iff]
    constructor
    · intro h j d hj
      have := h j (hget j d hj)
      simp only [hj, Bool.not_eq_true', Bool.not_eq_eq_eq_not, Bool.not_true] at this
      intro hm; rw [(gateMatchesB_iff d g).mpr hm] at this; cases this
    · intro h j hj
      simp only [List.getElem?_eq_getElem hj]
      have := h j _ (List.getElem?_eq_getElem hj)
      simpa [← gateMatchesB_iff] using this
  | some i =>
    simp only [gateLookupSpecB, GateLookupSpec, IsGateWinner]
    cases hc : cs[i]? with
    | none => simp
    | some c =>
      simp only [Bool.and_eq_true, range_all_iff, gateMatchesB_iff]
      constructor
      · rintro ⟨hm, hall⟩
        refine ⟨c, rfl, hm, ?_⟩
        intro j d hj hd
        have := hall j (hget j d hj)
        simp only [hj, (gateMatchesB_iff d g).mpr hd, Bool.not_true, Bool.false_or, Bool.or_eq_true,
          decide_eq_true_eq, Bool.and_eq_true, beq_iff_eq] at this
        exact this
      · rintro ⟨c', hc', hm, hall⟩
        cases hc'
        refine ⟨hm, ?_⟩
        intro j hj
        simp only [List.getElem?_eq_getElem hj]
        by_cases hd : GateMatches cs[j] g
        · have := hall j _ (List.getElem?_eq_getElem hj) hd
          simp only [(gateMatchesB_iff _ g).mpr hd, Bool.not_true, Bool.false_or, Bool.or_eq_true,
            decide_eq_true_eq, Bool.and_eq_true, beq_iff_eq]
          exact this
        · have : gateMatchesB cs[j] g = false := by
            cases hb : gateMatchesB cs[j] g with
            | false => rfl
            | true => exact absurd ((gateMatchesB_iff _ g).mp hb) hd
          simp [this]

/-- non-vacuity: three matching definitions `RX(%t) q`, `RX(%t) 0`, `RX(pi/2) 0` and a non-matching one;
the later of the two definitions with one fixed qubit wins -/
example : getMatchForGate
    [⟨"RX", [], [⟨0, .variable⟩], [.variable "q"], 0⟩,
     ⟨"RX", [], [⟨0, .variable⟩], [.fixed 0], 1⟩,
     ⟨"RX", [], [⟨1, .other 0⟩], [.fixed 0], 2⟩,
     ⟨"RX", [], [⟨2, .other 1⟩], [.fixed 0], 3⟩]
    ⟨"RX", [], [⟨3, .other 0⟩], [.fixed 0]⟩ = some 2 := by decide

end QV.C16
