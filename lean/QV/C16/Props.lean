import QV.C16.Lemmas
/-
C16 — Calibration lookup follows the documented precedence rules.
Property theorems (all quantify over arbitrary calibration lists / histories; no size bound).
-/
namespace QV.C16

/-! ## Matching -/

/-- **C16 (match)**: `CalibrationIdentifier::matches` decides exactly the declarative matching relation:
same name, same modifiers, same parameter and qubit counts, every fixed calibration qubit equal to the
gate's, every non-variable calibration parameter equal (after simplification) to the gate's. -/
theorem matchesB_iff (c : Cal) (g : Gate) : matchesB c g = true ↔ GateMatches c g := by
  unfold matchesB GateMatches
  by_cases h1 : c.name = g.name <;> by_cases h2 : c.mods = g.mods <;>
    by_cases h3 : c.params.length = g.params.length <;>
    by_cases h4 : c.qubits.length = g.qubits.length <;> simp [h1, h2, h3, h4]
  rw [allZip_iff _ _ _ h4, allZip_iff _ _ _ h3]
  simp only [qubitMatch_iff, paramMatch_iff]

/-- the brute-force checker used by the driver decides the same relation -/
theorem gateMatchesB_iff (c : Cal) (g : Gate) : gateMatchesB c g = true ↔ GateMatches c g := by
  unfold gateMatchesB GateMatches
  simp only [Bool.and_eq_true, beq_iff_eq, range_all_iff]
  constructor
  · rintro ⟨⟨⟨⟨⟨h1, h2⟩, h3⟩, h4⟩, hq⟩, hp⟩
    refine ⟨h1, h2, h3, h4, ?_, ?_⟩
    · intro i cq gq hc hg
      have hi : i < c.qubits.length := by
        have := List.getElem?_eq_some_iff.mp hc; exact this.1
      have := hq i hi
      simp [hc, hg] at this
      exact (qubitOkB_iff _ _).mp this
    · intro i cp gp hc hg
      have hi : i < c.params.length := by
        have := List.getElem?_eq_some_iff.mp hc; exact this.1
      have := hp i hi
      simp [hc, hg] at this
      exact (paramOkB_iff _ _).mp this
  · rintro ⟨h1, h2, h3, h4, hq, hp⟩
    refine ⟨⟨⟨⟨⟨h1, h2⟩, h3⟩, h4⟩, ?_⟩, ?_⟩
    · intro i hi
      have hi' : i < g.qubits.length := h4 ▸ hi
      simp only [List.getElem?_eq_getElem hi, List.getElem?_eq_getElem hi']
      exact (qubitOkB_iff _ _).mpr (hq i _ _ (List.getElem?_eq_getElem hi) (List.getElem?_eq_getElem hi'))
    · intro i hi
      have hi' : i < g.params.length := h3 ▸ hi
      simp only [List.getElem?_eq_getElem hi, List.getElem?_eq_getElem hi']
      exact (paramOkB_iff _ _).mpr (hp i _ _ (List.getElem?_eq_getElem hi) (List.getElem?_eq_getElem hi'))

example : GateMatches ⟨"RX", [.dagger], [⟨0, .variable⟩], [.fixed 0, .variable "q"], 7⟩
    ⟨"RX", [.dagger], [⟨3, .other 1⟩], [.fixed 0, .fixed 5]⟩ := by
  rw [← matchesB_iff]; decide

/-! ## Gate lookup -/

/-- loop invariant of `get_match_for_gate`: the accumulator describes the winner among the calibrations
seen so far -/
private def AccOk (pre : List Cal) (g : Gate) : Option (Nat × Nat) → Prop
  | none => ∀ (j : Nat) d, pre[j]? = some d → ¬ GateMatches d g
  | some (i, k) => IsGateWinner pre g i ∧ ∃ c, pre[i]? = some c ∧ k = nFixed c

private theorem accOk_snoc_nomatch (pre : List Cal) (g : Gate) (c : Cal) (acc : Option (Nat × Nat))
    (h : AccOk pre g acc) (hc : ¬ GateMatches c g) : AccOk (pre ++ [c]) g acc := by
  have key : ∀ (j : Nat) d, (pre ++ [c])[j]? = some d → GateMatches d g → pre[j]? = some d := by
    intro j d hj hd
    by_cases hlt : j < pre.length
    · simpa [List.getElem?_append_left hlt] using hj
    · have : j = pre.length ∨ pre.length < j := by omega
      rcases this with rfl | hgt
      · simp at hj; subst hj; exact absurd hd hc
      · rw [List.getElem?_eq_none (by simp; omega)] at hj; cases hj
  match acc, h with
  | none, h => exact fun j d hj hd => h j d (key j d hj hd) hd
  | some (i, k), ⟨⟨w, hw, hm, hbest⟩, hk⟩ =>
    have hi : i < pre.length := (List.getElem?_eq_some_iff.mp hw).1
    refine ⟨⟨w, by simpa [List.getElem?_append_left hi] using hw, hm, ?_⟩, ?_⟩
    · exact fun j d hj hd => hbest j d (key j d hj hd) hd
    · obtain ⟨c', hc', hk'⟩ := hk
      exact ⟨c', by simpa [List.getElem?_append_left hi] using hc', hk'⟩

private theorem accOk_snoc_match (pre : List Cal) (g : Gate) (c : Cal) (acc : Option (Nat × Nat))
    (h : AccOk pre g acc) (hc : GateMatches c g) :
    AccOk (pre ++ [c]) g (gateStep acc pre.length c) := by
  have split : ∀ (j : Nat) d, (pre ++ [c])[j]? = some d → pre[j]? = some d ∨ (j = pre.length ∧ d = c) := by
    intro j d hj
    by_cases hlt : j < pre.length
    · left; simpa [List.getElem?_append_left hlt] using hj
    · have : j = pre.length ∨ pre.length < j := by omega
      rcases this with rfl | hgt
      · right; simp at hj; exact ⟨rfl, hj.symm⟩
      · rw [List.getElem?_eq_none (by simp; omega)] at hj; cases hj
  have hlast : (pre ++ [c])[pre.length]? = some c := by simp
  match acc, h with
  | none, h =>
    simp only [gateStep, fixedCount_eq_nFixed]
    refine ⟨⟨c, hlast, hc, ?_⟩, c, hlast, rfl⟩
    intro j d hj hd
    rcases split j d hj with hp | ⟨rfl, rfl⟩
    · exact absurd hd (h j d hp)
    · right; exact ⟨rfl, Nat.le_refl _⟩
  | some (i, k), ⟨⟨w, hw, hm, hbest⟩, c', hc', hk⟩ =>
    have hi : i < pre.length := (List.getElem?_eq_some_iff.mp hw).1
    have hwc : w = c' := by rw [hw] at hc'; exact Option.some.inj hc'
    subst hwc
    simp only [gateStep, fixedCount_eq_nFixed]
    by_cases hge : nFixed c ≥ k
    · simp only [hge, if_true]
      refine ⟨⟨c, hlast, hc, ?_⟩, c, hlast, rfl⟩
      intro j d hj hd
      rcases split j d hj with hp | ⟨rfl, rfl⟩
      · have hlt : j < pre.length := (List.getElem?_eq_some_iff.mp hp).1
        rcases hbest j d hp hd with hlt' | ⟨heq, _⟩
        · by_cases he : nFixed d = nFixed c
          · right; exact ⟨he, Nat.le_of_lt hlt⟩
          · left; omega
        · by_cases he : nFixed d = nFixed c
          · right; exact ⟨he, Nat.le_of_lt hlt⟩
          · left; omega
      · right; exact ⟨rfl, Nat.le_refl _⟩
    · simp only [hge, if_false]
      refine ⟨⟨w, by simpa [List.getElem?_append_left hi] using hw, hm, ?_⟩,
        w, by simpa [List.getElem?_append_left hi] using hw, hk⟩
      intro j d hj hd
      rcases split j d hj with hp | ⟨rfl, rfl⟩
      · exact hbest j d hp hd
      · left; omega

private theorem gateLoop_inv (g : Gate) (rest pre : List Cal) (acc : Option (Nat × Nat))
    (h : AccOk pre g acc) : AccOk (pre ++ rest) g (gateLoop g rest pre.length acc) := by
  induction rest generalizing pre acc with
  | nil => simpa [gateLoop] using h
  | cons c cs ih =>
    have e : pre ++ c :: cs = (pre ++ [c]) ++ cs := by simp
    have l : pre.length + 1 = (pre ++ [c]).length := by simp
    unfold gateLoop
    by_cases hm : matchesB c g = true
    · simp only [hm, if_true]
      rw [e, l]
      exact ih _ _ (accOk_snoc_match pre g c acc h ((matchesB_iff c g).mp hm))
    · simp only [hm]
      rw [e, l]
      exact ih _ _ (accOk_snoc_nomatch pre g c acc h (fun hc => hm ((matchesB_iff c g).mpr hc)))

/-- **C16 (gate lookup)**: for every calibration list and every gate, `get_match_for_gate` returns the
position singled out by the declarative rule — a matching definition such that every other matching
definition has strictly fewer fixed qubits, or equally many and an earlier-or-equal position — and
returns nothing exactly when no definition matches. -/
theorem getMatchForGate_spec (cs : List Cal) (g : Gate) :
    GateLookupSpec cs g (getMatchForGate cs g) := by
  have h := gateLoop_inv g cs [] none (by intro j d hj; simp at hj)
  simp only [List.nil_append, List.length_nil] at h
  unfold getMatchForGate
  match hr : gateLoop g cs 0 none, h with
  | none, h => exact h
  | some (i, k), h => exact h.1

/-- the rule determines the answer: two winners coincide -/
theorem gateWinner_unique (cs : List Cal) (g : Gate) (i j : Nat)
    (hi : IsGateWinner cs g i) (hj : IsGateWinner cs g j) : i = j := by
  obtain ⟨c, hc, hmc, hbc⟩ := hi
  obtain ⟨d, hd, hmd, hbd⟩ := hj
  have h1 := hbc j d hd hmd
  have h2 := hbd i c hc hmc
  omega

/-- **C16 (gate lookup, as an equivalence)**: an answer satisfies the specification iff it is the one
`get_match_for_gate` returns. -/
theorem getMatchForGate_iff (cs : List Cal) (g : Gate) (o : Option Nat) :
    GateLookupSpec cs g o ↔ getMatchForGate cs g = o := by
  have hs := getMatchForGate_spec cs g
  constructor
  · intro ho
    match o, hm : getMatchForGate cs g, ho, hs with
    | some i, some j, ho, hs => rw [gateWinner_unique cs g i j ho hs]
    | none, none, _, _ => rfl
    | some i, none, ho, hs =>
      obtain ⟨c, hc, hmc, _⟩ := ho
      exact absurd hmc (hs i c hc)
    | none, some j, ho, hs =>
      obtain ⟨c, hc, hmc, _⟩ := hs
      exact absurd hmc (ho j c hc)
  · intro h; rw [← h]; exact hs

/-- `get_match_for_gate` returns nothing iff no calibration matches -/
theorem getMatchForGate_none_iff (cs : List Cal) (g : Gate) :
    getMatchForGate cs g = none ↔ ∀ c ∈ cs, ¬ GateMatches c g := by
  rw [← getMatchForGate_iff]
  simp only [GateLookupSpec]
  constructor
  · intro h c hc
    obtain ⟨j, hj, rfl⟩ := List.getElem_of_mem hc
    exact h j _ (List.getElem?_eq_getElem hj)
  · intro h j d hj
    exact h d (List.mem_of_getElem? hj)

/-- the Bool checker evaluated by the driver on the implementation's answer is the specification -/
theorem gateLookupSpecB_iff (cs : List Cal) (g : Gate) (o : Option Nat) :
    gateLookupSpecB cs g o = true ↔ GateLookupSpec cs g o := by
  have hget : ∀ (j : Nat) d, cs[j]? = some d → j < cs.length :=
    fun j d h => (List.getElem?_eq_some_iff.mp h).1
  cases o with
  | none =>
    simp only [gateLookupSpecB, GateLookupSpec, range_all_iff]
    constructor
    · intro h j d hj
      have := h j (hget j d hj)
      simp only [hj, Bool.not_eq_true', Bool.not_eq_eq_eq_not, Bool.not_true] at this
      intro hm; rw [(gateMatchesB_iff d g).mpr hm] at this; cases this
    · intro h j hj
      simp only [List.getElem?_eq_getElem hj]
      have := h j _ (List.getElem?_eq_getElem hj)
      simpa [← gateMatchesB_iff] using this
  | some i =>
    simp only [gateLookupSpecB, GateLookupSpec, IsGateWinner]
    cases hc : cs[i]? with
    | none => simp
    | some c =>
      simp only [Bool.and_eq_true, range_all_iff, gateMatchesB_iff]
      constructor
      · rintro ⟨hm, hall⟩
        refine ⟨c, rfl, hm, ?_⟩
        intro j d hj hd
        have := hall j (hget j d hj)
        simp only [hj, (gateMatchesB_iff d g).mpr hd, Bool.not_true, Bool.false_or, Bool.or_eq_true,
          decide_eq_true_eq, Bool.and_eq_true, beq_iff_eq] at this
        exact this
      · rintro ⟨c', hc', hm, hall⟩
        cases hc'
        refine ⟨hm, ?_⟩
        intro j hj
        simp only [List.getElem?_eq_getElem hj]
        by_cases hd : GateMatches cs[j] g
        · have := hall j _ (List.getElem?_eq_getElem hj) hd
          simp only [(gateMatchesB_iff _ g).mpr hd, Bool.not_true, Bool.false_or, Bool.or_eq_true,
            decide_eq_true_eq, Bool.and_eq_true, beq_iff_eq]
          exact this
        · have : gateMatchesB cs[j] g = false := by
            cases hb : gateMatchesB cs[j] g with
            | false => rfl
            | true => exact absurd ((gateMatchesB_iff _ g).mp hb) hd
          simp [this]

/-- non-vacuity: three matching definitions `RX(%t) q`, `RX(%t) 0`, `RX(pi/2) 0` and a non-matching one;
the later of the two definitions with one fixed qubit wins -/
example : getMatchForGate
    [⟨"RX", [], [⟨0, .variable⟩], [.variable "q"], 0⟩,
     ⟨"RX", [], [⟨0, .variable⟩], [.fixed 0], 1⟩,
     ⟨"RX", [], [⟨1, .other 0⟩], [.fixed 0], 2⟩,
     ⟨"RX", [], [⟨2, .other 1⟩], [.fixed 0], 3⟩]
    ⟨"RX", [], [⟨3, .other 0⟩], [.fixed 0]⟩ = some 2 := by decide

/-! ## Measurement lookup -/

/-- the brute-force checker decides the declarative measurement-matching relation -/
theorem measMatchesB_iff (c : MCal) (m : Meas) : measMatchesB c m = true ↔ MeasMatches c m := by
  unfold measMatchesB MeasMatches
  cases hq : c.qubit <;> simp <;> grind

/-- **C16 (measurement lookup)**: for every list of measurement calibrations and every measurement,
`get_match_for_measurement` returns the position singled out by the rule "name and record/effect kind
agree; an exact fixed-qubit definition beats a variable one; among equals the later wins", and nothing
exactly when no definition matches. -/
theorem getMatchForMeasurement_spec (cs : List MCal) (m : Meas) :
    MeasLookupSpec cs m (getMatchForMeasurement cs m) := by
  unfold getMatchForMeasurement
  simp only [measScan_eq, Option.none_or]
  have hE := fi_lastOf m true cs
  have hW := fi_lastOf m false cs
  generalize fi m true cs.zipIdx.reverse = e at hE
  generalize fi m false cs.zipIdx.reverse = w at hW
  have classOf : ∀ d, MeasMatches d m → measClass m d = some true ∨ measClass m d = some false := by
    intro d hd
    by_cases h : exactRank d = 1
    · left; exact (measClass_iff m d true).mpr ⟨hd, by simpa using h⟩
    · right; refine (measClass_iff m d false).mpr ⟨hd, ?_⟩
      have : exactRank d = 0 ∨ exactRank d = 1 := by unfold exactRank; cases d.qubit <;> simp
      simpa using this.resolve_right h
  match e, hE with
  | some i, ⟨c, hc, hcl, hlast⟩ =>
    obtain ⟨hm, hr⟩ := (measClass_iff m c true).mp hcl
    refine ⟨c, hc, hm, ?_⟩
    intro j d hj hd
    rcases classOf d hd with h | h
    · right; exact ⟨by rw [((measClass_iff m d true).mp h).2, hr], hlast j d hj h⟩
    · left; rw [((measClass_iff m d false).mp h).2, hr]; simp
  | none, hE =>
    match w, hW with
    | some i, ⟨c, hc, hcl, hlast⟩ =>
      obtain ⟨hm, hr⟩ := (measClass_iff m c false).mp hcl
      refine ⟨c, hc, hm, ?_⟩
      intro j d hj hd
      rcases classOf d hd with h | h
      · exact absurd h (hE j d hj)
      · right; exact ⟨by rw [((measClass_iff m d false).mp h).2, hr], hlast j d hj h⟩
    | none, hW =>
      intro j d hj hd
      rcases classOf d hd with h | h
      · exact hE j d hj h
      · exact hW j d hj h

theorem measWinner_unique (cs : List MCal) (m : Meas) (i j : Nat)
    (hi : IsMeasWinner cs m i) (hj : IsMeasWinner cs m j) : i = j := by
  obtain ⟨c, hc, hmc, hbc⟩ := hi
  obtain ⟨d, hd, hmd, hbd⟩ := hj
  have h1 := hbc j d hd hmd
  have h2 := hbd i c hc hmc
  omega

/-- **C16 (measurement lookup, as an equivalence)** -/
theorem getMatchForMeasurement_iff (cs : List MCal) (m : Meas) (o : Option Nat) :
    MeasLookupSpec cs m o ↔ getMatchForMeasurement cs m = o := by
  have hs := getMatchForMeasurement_spec cs m
  constructor
  · intro ho
    match o, hm : getMatchForMeasurement cs m, ho, hs with
    | some i, some j, ho, hs => rw [measWinner_unique cs m i j ho hs]
    | none, none, _, _ => rfl
    | some i, none, ho, hs =>
      obtain ⟨c, hc, hmc, _⟩ := ho
      exact absurd hmc (hs i c hc)
    | none, some j, ho, hs =>
      obtain ⟨c, hc, hmc, _⟩ := hs
      exact absurd hmc (ho j c hc)
  · intro h; rw [← h]; exact hs

theorem getMatchForMeasurement_none_iff (cs : List MCal) (m : Meas) :
    getMatchForMeasurement cs m = none ↔ ∀ c ∈ cs, ¬ MeasMatches c m := by
  rw [← getMatchForMeasurement_iff]
  simp only [MeasLookupSpec]
  constructor
  · intro h c hc
    obtain ⟨j, hj, rfl⟩ := List.getElem_of_mem hc
    exact h j _ (List.getElem?_eq_getElem hj)
  · intro h j d hj
    exact h d (List.mem_of_getElem? hj)

theorem measLookupSpecB_iff (cs : List MCal) (m : Meas) (o : Option Nat) :
    measLookupSpecB cs m o = true ↔ MeasLookupSpec cs m o := by
  have hget : ∀ (j : Nat) d, cs[j]? = some d → j < cs.length :=
    fun j d h => (List.getElem?_eq_some_iff.mp h).1
  cases o with
  | none =>
    simp only [measLookupSpecB, MeasLookupSpec, range_all_iff]
    constructor
    · intro h j d hj
      have := h j (hget j d hj)
      simp only [hj, Bool.not_eq_eq_eq_not, Bool.not_true] at this
      intro hm; rw [(measMatchesB_iff d m).mpr hm] at this; cases this
    · intro h j hj
      simp only [List.getElem?_eq_getElem hj]
      have := h j _ (List.getElem?_eq_getElem hj)
      simpa [← measMatchesB_iff] using this
  | some i =>
    simp only [measLookupSpecB, MeasLookupSpec, IsMeasWinner]
    cases hc : cs[i]? with
    | none => simp
    | some c =>
      simp only [Bool.and_eq_true, range_all_iff, measMatchesB_iff]
      constructor
      · rintro ⟨hm, hall⟩
        refine ⟨c, rfl, hm, ?_⟩
        intro j d hj hd
        have := hall j (hget j d hj)
        simp only [hj, (measMatchesB_iff d m).mpr hd, Bool.not_true, Bool.false_or, Bool.or_eq_true,
          decide_eq_true_eq, Bool.and_eq_true, beq_iff_eq] at this
        exact this
      · rintro ⟨c', hc', hm, hall⟩
        cases hc'
        refine ⟨hm, ?_⟩
        intro j hj
        simp only [List.getElem?_eq_getElem hj]
        by_cases hd : MeasMatches cs[j] m
        · have := hall j _ (List.getElem?_eq_getElem hj) hd
          simp only [(measMatchesB_iff _ m).mpr hd, Bool.not_true, Bool.false_or, Bool.or_eq_true,
            decide_eq_true_eq, Bool.and_eq_true, beq_iff_eq]
          exact this
        · have : measMatchesB cs[j] m = false := by
            cases hb : measMatchesB cs[j] m with
            | false => rfl
            | true => exact absurd ((measMatchesB_iff _ m).mp hb) hd
          simp [this]

/-- non-vacuity (the "Precedence-Fixed-Match" snapshot of the test-suite): the later `DEFCAL MEASURE 0 addr`
wins over the earlier one, over the variable-qubit definition that follows it, over the wrong-qubit one
and over the measure-for-effect one -/
example : getMatchForMeasurement
    [⟨none, .variable "q", none, 0⟩, ⟨none, .variable "b", some "addr", 1⟩,
     ⟨none, .fixed 0, some "addr", 2⟩, ⟨none, .fixed 0, some "other", 3⟩,
     ⟨none, .variable "q", some "addr", 4⟩, ⟨none, .fixed 1, some "addr", 5⟩]
    ⟨none, .fixed 0, some ("ro", 0)⟩ = some 3 := by decide

/-! ## Insertion into a `CalibrationSet`

`sig` is the signature function (`Cal.sig` / `MCal.sig` below; the theorems hold for any). -/

section Set
variable {α σ : Type} [DecidableEq σ] (sig : α → σ)

/-- **C16 (redefinition)**: when the set already holds a definition with `v`'s signature, `replace` stores
`v` at the position of the first such definition (under `NoDupSig`: the only one), returns the old one and
changes nothing else (`List.set`): length and all other positions are kept. -/
theorem replace_in_place (cs : List α) (v : α) (h : ∃ c ∈ cs, sig c = sig v) :
    ∃ i old, cs[i]? = some old ∧ sig old = sig v ∧
      (∀ (j : Nat) d, j < i → cs[j]? = some d → sig d ≠ sig v) ∧
      replace sig cs v = (cs.set i v, some old) := by
  cases hp : sigPos sig (sig v) cs with
  | none =>
    obtain ⟨c, hc, hs⟩ := h
    exact absurd hs ((sigPos_none_iff sig _ cs).mp hp c hc)
  | some i =>
    obtain ⟨old, ho, hs, hf⟩ := sigPos_some sig _ cs i hp
    exact ⟨i, old, ho, hs, hf, by simp [replace, hp, ho]⟩

/-- when no definition has `v`'s signature, `replace` appends `v` -/
theorem replace_append (cs : List α) (v : α) (h : ∀ c ∈ cs, sig c ≠ sig v) :
    replace sig cs v = (cs ++ [v], none) := by
  simp [replace, (sigPos_none_iff sig _ cs).mpr h]

theorem replace_eq_map (cs : List α) (v : α) (hnd : NoDupSig sig cs) (h : ∃ c ∈ cs, sig c = sig v) :
    (replace sig cs v).1 = cs.map (upd sig v) := by
  cases hp : sigPos sig (sig v) cs with
  | none =>
    obtain ⟨c, hc, hs⟩ := h
    exact absurd hs ((sigPos_none_iff sig _ cs).mp hp c hc)
  | some i => simp [replace, hp, set_eq_map_upd sig v cs i hnd hp]

/-- **C16 (redefinition, declaratively)**: on a duplicate-free set, `replace` satisfies the pointwise
insertion specification -/
theorem replace_insertSpec (cs : List α) (v : α) (hnd : NoDupSig sig cs) :
    InsertSpec sig cs v (replace sig cs v).1 := by
  constructor
  · intro h
    rw [replace_eq_map sig cs v hnd h]
    refine ⟨by simp, ?_⟩
    intro j c hj
    simp [hj, upd]
  · intro h; rw [replace_append sig cs v h]

theorem replace_noDupSig (cs : List α) (v : α) (hnd : NoDupSig sig cs) :
    NoDupSig sig (replace sig cs v).1 := by
  by_cases h : ∃ c ∈ cs, sig c = sig v
  · rw [replace_eq_map sig cs v hnd h]; exact noDupSig_map_upd sig v cs hnd
  · have h' : ∀ c ∈ cs, sig c ≠ sig v := fun c hc hs => h ⟨c, hc, hs⟩
    rw [replace_append sig cs v h']
    unfold NoDupSig at *
    rw [List.pairwise_append]
    refine ⟨hnd, by simp, ?_⟩
    intro a ha b hb
    simp at hb; subst hb
    exact h' a ha

theorem remove_noDupSig (cs : List α) (s : σ) (hnd : NoDupSig sig cs) :
    NoDupSig sig (remove sig cs s).1 := by
  unfold remove
  cases sigPos sig s cs with
  | none => exact hnd
  | some i => exact List.Pairwise.sublist (List.eraseIdx_sublist cs i) hnd

theorem extend_noDupSig (cs vs : List α) (hnd : NoDupSig sig cs) :
    NoDupSig sig (extend sig cs vs) := by
  induction vs generalizing cs with
  | nil => exact hnd
  | cons v vs ih => exact ih _ (replace_noDupSig sig cs v hnd)

theorem run_noDupSig (cs : List α) (ops : List (Op α σ)) (hnd : NoDupSig sig cs) :
    NoDupSig sig (run sig cs ops) := by
  induction ops generalizing cs with
  | nil => exact hnd
  | cons o os ih =>
    apply ih
    cases o with
    | insert v => exact replace_noDupSig sig cs v hnd
    | remove s => exact remove_noDupSig sig cs s hnd
    | extend vs => exact extend_noDupSig sig cs vs hnd

/-- **C16 (invariant)**: whatever sequence of `insert` / `remove` / `extend` built a set from the empty set,
no two of its elements have the same signature -/
theorem history_noDupSig (ops : List (Op α σ)) : NoDupSig sig (run sig [] ops) :=
  run_noDupSig sig [] ops List.Pairwise.nil

theorem noDupSigB_iff (cs : List α) : noDupSigB sig cs = true ↔ NoDupSig sig cs := by
  simp [noDupSigB, NoDupSig]

theorem insertSpecB_iff [DecidableEq α] (cs : List α) (v : α) (res : List α) :
    insertSpecB sig cs v res = true ↔ InsertSpec sig cs v res := by
  unfold insertSpecB InsertSpec
  by_cases h : ∃ c ∈ cs, sig c = sig v
  · have hany : cs.any (fun c => decide (sig c = sig v)) = true := by simpa using h
    have hno : ¬ ∀ c ∈ cs, sig c ≠ sig v := by
      obtain ⟨c, hc, hs⟩ := h; exact fun q => q c hc hs
    simp only [hany, if_true, Bool.and_eq_true, beq_iff_eq, range_all_iff, h, true_implies, hno,
      false_implies, and_true]
    constructor
    · rintro ⟨hl, hall⟩
      refine ⟨hl, ?_⟩
      intro j c hj
      have hjl : j < cs.length := (List.getElem?_eq_some_iff.mp hj).1
      have := hall j hjl
      rw [hj, List.getElem?_eq_getElem (hl ▸ hjl)] at this
      simp only [beq_iff_eq] at this
      rw [List.getElem?_eq_getElem (hl ▸ hjl), this]
    · rintro ⟨hl, hall⟩
      refine ⟨hl, ?_⟩
      intro j hjl
      have := hall j _ (List.getElem?_eq_getElem hjl)
      rw [List.getElem?_eq_getElem hjl, this]
      simp
  · have h' : ∀ c ∈ cs, sig c ≠ sig v := fun c hc hs => h ⟨c, hc, hs⟩
    have hany : cs.any (fun c => decide (sig c = sig v)) = false := by
      simpa using h'
    simp [hany, h]
    exact Or.inl h'

end Set

/-! ## Redefinition and lookup together -/

private theorem allZip_paramMatch_congr (ps qs : List Param) (gs : List Param)
    (h : ps.map (·.simp) = qs.map (·.simp)) : allZip paramMatch ps gs = allZip paramMatch qs gs := by
  induction ps generalizing qs gs with
  | nil => cases qs with
    | nil => rfl
    | cons q qs => simp at h
  | cons p ps ih =>
    cases qs with
    | nil => simp at h
    | cons q qs =>
      simp only [List.map_cons, List.cons.injEq] at h
      cases gs with
      | nil => simp [allZip]
      | cons g gs =>
        simp only [allZip, ih qs gs h.2]
        congr 1
        simp [paramMatch, h.1]

private theorem gateLoop_map (g : Gate) (u : Cal → Cal) (cs : List Cal) (i : Nat) (acc : Option (Nat × Nat))
    (h : ∀ c ∈ cs, matchesB (u c) g = matchesB c g ∧ fixedCount (u c) = fixedCount c) :
    gateLoop g (cs.map u) i acc = gateLoop g cs i acc := by
  induction cs generalizing i acc with
  | nil => rfl
  | cons c cs ih =>
    have hc := h c (by simp)
    simp only [List.map_cons, gateLoop, hc.1]
    have e : gateStep acc i (u c) = gateStep acc i c := by
      cases acc with
      | none => simp [gateStep, hc.2]
      | some a => obtain ⟨j, k⟩ := a; simp [gateStep, hc.2]
    rw [e, ih _ _ (fun d hd => h d (by simp [hd])), ih _ _ (fun d hd => h d (by simp [hd]))]

/-- **C16 (redefinition does not disturb precedence)**: redefining a calibration whose signature is already
in the set leaves every gate lookup at the same position.  `hf`: the simplified class of a parameter is a
function of its raw class (simplification is deterministic). -/
theorem lookup_stable_under_redefinition (cs : List Cal) (v : Cal) (g : Gate)
    (hnd : NoDupSig Cal.sig cs) (hex : ∃ c ∈ cs, Cal.sig c = Cal.sig v)
    (f : Nat → SimpClass) (hf : ∀ c ∈ v :: cs, ∀ p ∈ c.params, p.simp = f p.raw) :
    getMatchForGate (replace Cal.sig cs v).1 g = getMatchForGate cs g := by
  rw [replace_eq_map Cal.sig cs v hnd hex]
  unfold getMatchForGate
  rw [gateLoop_map]
  intro c hc
  unfold upd
  by_cases hs : Cal.sig c = Cal.sig v
  · simp only [hs, if_true]
    simp only [Cal.sig, Prod.mk.injEq] at hs
    obtain ⟨hm, hn, hp, hq⟩ := hs
    have hsimp : ∀ d ∈ v :: cs, d.params.map (·.simp) = (d.params.map (·.raw)).map f := by
      intro d hd
      rw [List.map_map]
      apply List.map_congr_left
      intro p hp; exact hf d hd p hp
    have hps : v.params.map (·.simp) = c.params.map (·.simp) := by
      rw [hsimp v (by simp), hsimp c (by simp [hc]), hp]
    have hlen : v.params.length = c.params.length := by
      have := congrArg List.length hp; simpa using this.symm
    refine ⟨?_, by simp [fixedCount, hq]⟩
    unfold matchesB
    rw [hm, hn, hq, hlen, allZip_paramMatch_congr _ _ _ hps]
  · simp [hs]

/-- the same for measurement calibrations (no assumption needed: lookup only reads the signature) -/
theorem meas_lookup_stable_under_redefinition (cs : List MCal) (v : MCal) (m : Meas)
    (hnd : NoDupSig MCal.sig cs) (hex : ∃ c ∈ cs, MCal.sig c = MCal.sig v) :
    getMatchForMeasurement (replace MCal.sig cs v).1 m = getMatchForMeasurement cs m := by
  rw [replace_eq_map MCal.sig cs v hnd hex]
  have hcl : ∀ c, measClass m (upd MCal.sig v c) = measClass m c := by
    intro c
    unfold upd
    by_cases hs : MCal.sig c = MCal.sig v
    · simp only [hs, if_true]
      simp only [MCal.sig, Prod.mk.injEq] at hs
      obtain ⟨hn, hq, ht⟩ := hs
      simp [measClass, hn, hq, ht]
    · simp [hs]
  have hfi : ∀ b, fi m b (cs.map (upd MCal.sig v)).zipIdx.reverse = fi m b cs.zipIdx.reverse := by
    intro b
    unfold fi
    rw [List.zipIdx_map, ← List.map_reverse, List.find?_map]
    simp only [Option.map_map]
    have : ((fun p : MCal × Nat => measClass m p.1 == some b) ∘ Prod.map (upd MCal.sig v) id)
        = (fun p : MCal × Nat => measClass m p.1 == some b) := by
      funext p; simp [hcl]
    rw [this]
    cases List.find? (fun p : MCal × Nat => measClass m p.1 == some b) cs.zipIdx.reverse <;> simp
  unfold getMatchForMeasurement
  simp only [measScan_eq, Option.none_or, hfi]

/-- the invariant and the insertion specification for the two concrete sets of `Calibrations` -/
theorem calibrations_history (ops : List (Op Cal _)) (mops : List (Op MCal _)) :
    NoDupSig Cal.sig (run Cal.sig [] ops) ∧ NoDupSig MCal.sig (run MCal.sig [] mops) :=
  ⟨history_noDupSig _ ops, history_noDupSig _ mops⟩

theorem calibrations_insert (ops : List (Op Cal _)) (v : Cal) :
    InsertSpec Cal.sig (run Cal.sig [] ops) v (replace Cal.sig (run Cal.sig [] ops) v).1 :=
  replace_insertSpec _ _ v (history_noDupSig _ ops)

/-- non-vacuity: redefining `RX(%t) 0` (body 1 → body 9) keeps position 1 of 3 -/
example : (replace Cal.sig
    [⟨"RX", [], [⟨0, .variable⟩], [.variable "q"], 0⟩, ⟨"RX", [], [⟨0, .variable⟩], [.fixed 0], 1⟩,
     ⟨"RX", [], [⟨1, .other 0⟩], [.fixed 0], 2⟩]
    ⟨"RX", [], [⟨0, .variable⟩], [.fixed 0], 9⟩).1 =
    [⟨"RX", [], [⟨0, .variable⟩], [.variable "q"], 0⟩, ⟨"RX", [], [⟨0, .variable⟩], [.fixed 0], 9⟩,
     ⟨"RX", [], [⟨1, .other 0⟩], [.fixed 0], 2⟩] := by decide

end QV.C16
