import QV.Wire
import QV.C16.Model
import QV.C16.Spec
/-! Driver side of the C16 correspondence check. -/
namespace QV.C16
open QV

def decQubit : Sexp → Option Qubit
  | .list [.atom "f", n] => n.asNat?.map Qubit.fixed
  | .list [.atom "v", .str s] => some (.variable s)
  | .list [.atom "ph", n] => n.asNat?.map Qubit.placeholder
  | _ => none

def decParam : Sexp → Option Param
  | .list [.atom "p", r, .atom "v"] => r.asNat?.map fun r => ⟨r, .variable⟩
  | .list [.atom "p", r, s] => do some ⟨← r.asNat?, .other (← s.asNat?)⟩
  | _ => none

def decMod : Sexp → Option Modifier
  | .atom "c" => some .controlled
  | .atom "d" => some .dagger
  | .atom "f" => some .forked
  | _ => none

def decCal : Sexp → Option Cal
  | .list [.atom "cal", .str name, .list mods, .list ps, .list qs, body] => do
    some ⟨name, ← mods.mapM decMod, ← ps.mapM decParam, ← qs.mapM decQubit, ← body.asNat?⟩
  | _ => none

def decGate : Sexp → Option Gate
  | .list [.atom "g", .str name, .list mods, .list ps, .list qs] => do
    some ⟨name, ← mods.mapM decMod, ← ps.mapM decParam, ← qs.mapM decQubit⟩
  | _ => none

def decOptStr : Sexp → Option (Option String)
  | .atom "none" => some none
  | .list [.atom "some", .str s] => some (some s)
  | _ => none

def decMCal : Sexp → Option MCal
  | .list [.atom "mcal", name, q, target, body] => do
    some ⟨← decOptStr name, ← decQubit q, ← decOptStr target, ← body.asNat?⟩
  | _ => none

def decMeas : Sexp → Option Meas
  | .list [.atom "m", name, q, .atom "none"] => do some ⟨← decOptStr name, ← decQubit q, none⟩
  | .list [.atom "m", name, q, .list [.atom "some", .str r, i]] => do
    some ⟨← decOptStr name, ← decQubit q, some (r, ← i.asNat?)⟩
  | _ => none

/-- a mutation of a set; `rem` carries a whole definition whose signature is the one removed -/
inductive HOp (α : Type) where
  | ins (v : α) | rem (v : α) | ext (vs : List α)
  /-- `Calibrations::extend(other)` / `Program + Program`: `other` is itself a set built from `vs` -/
  | extFrom (vs : List α)

def decOp {α : Type} (dec : Sexp → Option α) : Sexp → Option (HOp α)
  | .list [.atom "ins", c] => (dec c).map .ins
  | .list [.atom "rem", c] => (dec c).map .rem
  | .list (.atom "ext" :: cs) => (cs.mapM dec).map .ext
  | .list (.atom "extfrom" :: cs) => (cs.mapM dec).map .extFrom
  | _ => none

def decHist {α : Type} (dec : Sexp → Option α) : Sexp → Option (List (HOp α))
  | .list (.atom "hist" :: ops) => ops.mapM (decOp dec)
  | _ => none

/-- value returned by one mutation -/
inductive Ret where
  | none | body (n : Nat) | flag (b : Bool)
  deriving DecidableEq, Repr

def decRet : Sexp → Option Ret
  | .atom "none" => some .none
  | .atom "true" => some (.flag true)
  | .atom "false" => some (.flag false)
  | s => s.asNat?.map .body

def decSteps {α : Type} (dec : Sexp → Option α) : Sexp → Option (List (Ret × List α))
  | .list (.atom "steps" :: ss) => ss.mapM fun
    | .list [.atom "step", r, .list cs] => do some (← decRet r, ← cs.mapM dec)
    | _ => none
  | _ => none

def decAns : Sexp → Option (List (Option Nat))
  | .list (.atom "ans" :: as) => as.mapM fun
    | .atom "none" => some none
    | a => a.asNat?.map some
  | _ => none

section Generic
variable {α σ : Type} [DecidableEq σ] [DecidableEq α] (sig : α → σ) (bodyOf : α → Nat)

/-- the model's trace of a history: (returned value, set) after every mutation -/
def modelSteps (cs : List α) : List (HOp α) → List (Ret × List α)
  | [] => []
  | op :: ops =>
    let (ret, next) : Ret × List α := match op with
      | .ins v => let r := replace sig cs v; ((match r.2 with | some o => .body (bodyOf o) | none => .none), r.1)
      | .rem v => let r := remove sig cs (sig v); (.flag r.2, r.1)
      | .ext vs => (.none, extend sig cs vs)
      | .extFrom vs => (.none, extend sig cs (extend sig [] vs))
    (ret, next) :: modelSteps next ops

/-- the specification evaluated on the implementation's trace: every `insert` satisfies the insertion
specification relative to the implementation's own previous set, and every set is duplicate-free -/
def stepsSpecB (prev : List α) : List (HOp α) → List (Ret × List α) → Bool
  | [], [] => true
  | op :: ops, (_, next) :: rest =>
    (match op with
      | .ins v => insertSpecB sig prev v next
      | _ => true) && noDupSigB sig next && stepsSpecB next ops rest
  | _, _ => false

end Generic

/-- what `CalibrationSet::get(signature of c)` returns on the final set, for the definitions named in the history -/
def expectedGets {α σ : Type} [DecidableEq σ] (sig : α → σ) (bodyOf : α → Nat) (final : List α) (ops : List (HOp α)) : List Sexp :=
  let one (c : α) : Sexp := match final.find? (fun d => sig d = sig c) with
    | some d => .atom (toString (bodyOf d))
    | none => .atom "none"
  ops.flatMap fun
    | .ins c => [one c]
    | .rem c => [one c]
    | .ext cs => (cs.take 4).map one
    | .extFrom cs => (cs.take 4).map one

/-- `Calibrations::expand` and `expand_with_detail` must both expand to the body of the definition that
`get_match_for_*` returns, and the detail must name that definition as its source -/
def expectedExp {α : Type} (bodyOf : α → Nat) (set : List α) (ans : List (Option Nat)) : List Sexp :=
  ans.map fun a => match a.bind (set[·]?) with
    | some c => .list [.atom "e", .atom (toString (bodyOf c)), .atom (toString (bodyOf c)), .atom "true"]
    | none => .list [.atom "e", .atom "none", .atom "none", .atom "true"]

def lastSet {α : Type} (steps : List (Ret × List α)) : List α :=
  match steps.getLast? with
  | some (_, s) => s
  | none => []

private def opTags {α : Type} (ops : List (HOp α)) (steps : List (Ret × List α)) : List String :=
  (if ops.any (fun | .rem _ => true | _ => false) then ["op-remove"] else []) ++
  (if ops.any (fun | .ext _ => true | _ => false) then ["op-extend"] else []) ++
  (if ops.any (fun | .extFrom _ => true | _ => false) then ["op-extend-from-set"] else []) ++
  (if steps.any (fun s => match s.1 with | .body _ => true | _ => false) then ["replaced-in-place"] else []) ++
  [s!"ops{min ops.length 9}", s!"set{min (lastSet steps).length 9}"]

def handle (inp out : Sexp) : CaseResult :=
  match inp with
  | .list [.atom "sanity", _] =>
    { agree := out == .list [.atom "bad"], specOk := out == .list [.atom "bad"], nontrivial := false, tags := ["sanity"],
      detail := s!"Expression::eq disagrees with the structural key on {out}" }
  | .list [.atom route, hist, .list (.atom "queries" :: qs)] =>
   if route == "gate" || route == "gatep" then
    match decHist decCal hist, qs.mapM decGate, out with
    | some ops, some queries, .list [.atom "out", stepsS, ansS, .list (.atom "exp" :: expS), .list (.atom "gets" :: getsS)] =>
      match decSteps decCal stepsS, decAns ansS with
      | some steps, some ans =>
        let mSteps := modelSteps Cal.sig Cal.body [] ops
        let mSet := lastSet mSteps
        let mAns := queries.map (getMatchForGate mSet)
        let iSet := lastSet steps
        let specOk := stepsSpecB Cal.sig [] ops steps && ans.length == queries.length &&
          (queries.zip ans).all (fun (g, a) => gateLookupSpecB iSet g a) &&
          -- every lookup route agrees with `get_match_for_gate` on the implementation's own set
          expS == expectedExp Cal.body iSet ans && getsS == expectedGets Cal.sig Cal.body iSet ops
        let nMatch (g : Gate) := (iSet.filter (fun c => gateMatchesB c g)).length
        let tie (g : Gate) := let ms := iSet.filter (fun c => gateMatchesB c g)
          ms.any (fun c => (ms.filter (fun d => nFixed d == nFixed c)).length ≥ 2)
        let mixed (g : Gate) := let ms := iSet.filter (fun c => gateMatchesB c g)
          ms.any (fun c => ms.any (fun d => nFixed d != nFixed c))
        let paramMatch (g : Gate) := g.params.length > 0 && nMatch g > 0
        let tags := [route] ++ opTags ops steps ++
          (if queries.any (nMatch · == 0) then ["q-nomatch"] else []) ++
          (if queries.any (nMatch · == 1) then ["q-unique"] else []) ++
          (if queries.any (nMatch · ≥ 2) then ["q-multi"] else []) ++
          (if queries.any tie then ["q-tie-later-wins"] else []) ++
          (if queries.any mixed then ["q-more-fixed-wins"] else []) ++
          (if queries.any paramMatch then ["q-param-match"] else []) ++
          (if iSet.length ≥ 64 then ["big-set"] else []) ++
          (if queries.any (nMatch · > 32) then ["q-over32-matches"] else []) ++
          (if queries.any (fun g => g.qubits.any (fun q => match q with | .placeholder _ => true | _ => false))
            then ["q-placeholder"] else [])
        { agree := decide (mSteps = steps) && decide (mAns = ans) && expS == expectedExp Cal.body mSet mAns &&
            getsS == expectedGets Cal.sig Cal.body mSet ops, specOk := specOk,
          nontrivial := queries.any (nMatch · ≥ 2) || steps.any (fun s => match s.1 with | .body _ => true | _ => false),
          tags := tags,
          detail := s!"model steps={repr mSteps} ans={mAns}; impl steps={repr steps} ans={ans}" }
      | _, _ => .bad s!"undecodable output {out}"
    | _, _, _ => .bad s!"undecodable gate case {inp} / {out}"
   else if route == "meas" || route == "measp" then
    match decHist decMCal hist, qs.mapM decMeas, out with
    | some ops, some queries, .list [.atom "out", stepsS, ansS, .list (.atom "exp" :: expS), .list (.atom "gets" :: getsS)] =>
      match decSteps decMCal stepsS, decAns ansS with
      | some steps, some ans =>
        let mSteps := modelSteps MCal.sig MCal.body [] ops
        let mSet := lastSet mSteps
        let mAns := queries.map (getMatchForMeasurement mSet)
        let iSet := lastSet steps
        let specOk := stepsSpecB MCal.sig [] ops steps && ans.length == queries.length &&
          (queries.zip ans).all (fun (m, a) => measLookupSpecB iSet m a) &&
          expS == expectedExp MCal.body iSet ans && getsS == expectedGets MCal.sig MCal.body iSet ops
        let ms (m : Meas) := iSet.filter (fun c => measMatchesB c m)
        let tags := [route] ++ opTags ops steps ++
          (if queries.any (fun m => (ms m).length == 0) then ["m-nomatch"] else []) ++
          (if queries.any (fun m => (ms m).length == 1) then ["m-unique"] else []) ++
          (if queries.any (fun m => (ms m).length ≥ 2) then ["m-multi"] else []) ++
          (if iSet.length ≥ 64 then ["big-set"] else []) ++
          (if queries.any (fun m => (ms m).length > 32) then ["m-over32-matches"] else []) ++
          (if queries.any (fun m => (ms m).any (fun c => exactRank c == 1) && (ms m).any (fun c => exactRank c == 0))
            then ["m-exact-beats-variable"] else []) ++
          (if queries.any (fun m => ((ms m).filter (fun c => exactRank c == 1)).length ≥ 2) then ["m-tie-later-wins"] else [])
        { agree := decide (mSteps = steps) && decide (mAns = ans) && expS == expectedExp MCal.body mSet mAns &&
            getsS == expectedGets MCal.sig MCal.body mSet ops, specOk := specOk,
          nontrivial := queries.any (fun m => (ms m).length ≥ 2) || steps.any (fun s => match s.1 with | .body _ => true | _ => false),
          tags := tags,
          detail := s!"model steps={repr mSteps} ans={mAns}; impl steps={repr steps} ans={ans}" }
      | _, _ => .bad s!"undecodable output {out}"
    | _, _, _ => .bad s!"undecodable meas case {inp} / {out}"
   else .bad s!"undecodable input {inp}"
  | .list [.atom "proggate", hist, g] =>
    match decHist decCal hist, decGate g with
    | some ops, some gate =>
      let set := lastSet (modelSteps Cal.sig Cal.body [] ops)
      let a := getMatchForGate set gate
      let mOut : Sexp := match a.bind (set[·]?) with
        | some c => .list [.atom "body", .atom (toString c.body)]
        | none => .list [.atom "unexpanded"]
      -- spec on the implementation's answer: the body it expanded to is the body of the winner
      let specOk := match out with
        | .list [.atom "body", k] =>
          (List.range set.length).any (fun i => (set[i]?.map (·.body)) == k.asNat? && gateLookupSpecB set gate (some i))
        | .list [.atom "unexpanded"] => gateLookupSpecB set gate none
        | _ => false
      { agree := mOut == out, specOk := specOk,
        nontrivial := (set.filter (fun c => gateMatchesB c gate)).length ≥ 2,
        tags := ["prog-gate", if a.isSome then "prog-expanded" else "prog-unexpanded"] ++
          (if (set.filter (fun c => gateMatchesB c gate)).length > 32 then ["prog-over32-matches"] else []),
        detail := s!"model={mOut} impl={out}" }
    | _, _ => .bad s!"undecodable proggate case {inp}"
  | .list [.atom "progmeas", hist, m] =>
    match decHist decMCal hist, decMeas m with
    | some ops, some meas =>
      let set := lastSet (modelSteps MCal.sig MCal.body [] ops)
      let a := getMatchForMeasurement set meas
      let mOut : Sexp := match a.bind (set[·]?) with
        | some c => .list [.atom "body", .atom (toString c.body)]
        | none => .list [.atom "unexpanded"]
      let specOk := match out with
        | .list [.atom "body", k] =>
          (List.range set.length).any (fun i => (set[i]?.map (·.body)) == k.asNat? && measLookupSpecB set meas (some i))
        | .list [.atom "unexpanded"] => measLookupSpecB set meas none
        | _ => false
      { agree := mOut == out, specOk := specOk,
        nontrivial := (set.filter (fun c => measMatchesB c meas)).length ≥ 2,
        tags := ["prog-meas", if a.isSome then "prog-expanded" else "prog-unexpanded"] ++
          (if (set.filter (fun c => measMatchesB c meas)).length > 32 then ["prog-over32-matches"] else []),
        detail := s!"model={mOut} impl={out}" }
    | _, _ => .bad s!"undecodable progmeas case {inp}"
  | _ => .bad s!"undecodable input {inp}"

end QV.C16

def main : IO UInt32 := QV.runMain QV.C16.handle
