import QV.C35.Model
/-
C35 — the property as a declarative `Prop` and a `Bool` checker.

"Simplifying a program yields the calibration-expanded body and no calibrations. It keeps exactly the
frames used by that body, the waveforms it invokes and the extern pragmas it calls, and leaves
declarations, gate definitions and circuits unchanged."  (The schedule clause is in Props: per-instruction
matched frames, over the C26 matching specification.)

`Simplified e s`: `s` is the simplification of the expanded program `e`. "Keeps exactly" is read as: the
kept definitions are a sub-list of the expanded program's (same order, same values), and a definition is
kept iff some body instruction uses it.
-/
namespace QV.C35
variable {F : Type}

structure Simplified (e s : Prog F) : Prop where
  body : s.body = e.body
  noCalibrations : s.calibrations = []
  frames_sub : s.frames.Sublist e.frames
  frames_iff : ∀ f, f ∈ s.frames ↔ f ∈ e.frames ∧ ∃ i ∈ e.body, f.1 ∈ i.used
  waveforms_sub : s.waveforms.Sublist e.waveforms
  waveforms_iff : ∀ w, w ∈ s.waveforms ↔ w ∈ e.waveforms ∧ ∃ i ∈ e.body, i.waveform = some w.1
  externs_sub : s.externs.Sublist e.externs
  externs_iff : ∀ x, x ∈ s.externs ↔ x ∈ e.externs ∧ ∃ n, x.1 = some n ∧ ∃ i ∈ e.body, i.call = some n
  regions : s.regions = e.regions
  gates : s.gates = e.gates
  circuits : s.circuits = e.circuits

/-- `a` is `b` with exactly the elements satisfying `keep` retained, in order (Bool) -/
def keptB {α : Type} [DecidableEq α] (a b : List α) (keep : α → Bool) : Bool :=
  decide (a = b.filter keep)

def keepFrameB [DecidableEq F] (body : List (BInstr F)) (f : F × String) : Bool :=
  body.any (fun i => i.used.contains f.1)
def keepWaveformB (body : List (BInstr F)) (w : String × String) : Bool :=
  body.any (fun i => i.waveform == some w.1)
def keepExternB (body : List (BInstr F)) (x : Option String × String) : Bool :=
  match x.1 with
  | some n => body.any (fun i => i.call == some n)
  | none => false

/-- **Bool checker** (`simplifiedB_iff` in Props, for key-duplicate-free expanded programs). -/
def simplifiedB [DecidableEq F] (e s : Prog F) : Bool :=
  decide (s.body = e.body) && s.calibrations.isEmpty &&
  keptB s.frames e.frames (keepFrameB e.body) &&
  keptB s.waveforms e.waveforms (keepWaveformB e.body) &&
  keptB s.externs e.externs (keepExternB e.body) &&
  decide (s.regions = e.regions) && decide (s.gates = e.gates) && decide (s.circuits = e.circuits)

end QV.C35
