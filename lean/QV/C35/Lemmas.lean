import QV.Shared.Sched
/-!
Helper lemmas for C35's schedule clause, over the shared scheduling model `QV.Sched` (C22–C25), core Lean only.

* `SubB a b`: edge list `a` is `b` with some *boundary* edges (out of the block start / into the block end)
  deleted.
* `buildBlock_dropBlocked(L)`: removing never-USED frames from every blocked set changes the built dependency
  graph only by deleting boundary edges (same error otherwise).
* `scheduleLoop_subB`: `as_schedule` does not see boundary edges.
-/
namespace QV.C35
open QV.Sched

def Boundary (e : Edge) : Prop := e.src = .start ∨ e.dst = .stop
inductive SubB : List Edge → List Edge → Prop
  | nil : SubB [] []
  | keep (e : Edge) {a b : List Edge} : SubB a b → SubB (e :: a) (e :: b)
  | drop (e : Edge) {a b : List Edge} : Boundary e → SubB a b → SubB a (e :: b)
theorem SubB.refl : ∀ a : List Edge, SubB a a
  | [] => .nil
  | e :: a => .keep e (SubB.refl a)
theorem SubB.append {a b c d : List Edge} (h1 : SubB a b) (h2 : SubB c d) : SubB (a ++ c) (b ++ d) := by
  induction h1 with
  | nil => simpa using h2
  | keep e _ ih => exact .keep e ih
  | drop e hb _ ih => exact .drop e hb ih
theorem SubB.nil_of_all {b : List Edge} (h : ∀ e ∈ b, Boundary e) : SubB [] b := by
  induction b with
  | nil => exact .nil
  | cons e r ih => exact .drop e (h e (by simp)) (ih (fun x hx => h x (by simp [hx])))
theorem SubB.trans_append_right {a b : List Edge} (h : SubB a b) {c : List Edge} (hc : ∀ e ∈ c, Boundary e) :
    SubB a (b ++ c) := by
  have := SubB.append h (SubB.nil_of_all hc)
  simpa using this


/-! ### dropping a never-used frame from the blocked sets -/

/-- remove frame `f` from the blocked set an instruction reports -/
def dropBlockedI (f : Nat) (ins : Instr) : Instr :=
  { ins with frames := ins.frames.map fun fr => (fr.1, fr.2.filter (· ≠ f)) }

def dropBlocked (f : Nat) (b : Block) : Block :=
  ⟨b.instrs.map (dropBlockedI f), b.term.map (dropBlockedI f)⟩

/-- no instruction USES frame `f` -/
def NeverUsedI (f : Nat) (ins : Instr) : Prop := ∀ fr, ins.frames = some fr → f ∉ fr.1

/-- the frame queues of the two runs: equal away from `f`; `f` untouched on the left; on the right `f` has
only ever been read (blocked), so its writer is still the block start -/
structure QRel (f : Nat) (q' q : QMap) : Prop where
  get : ∀ g, g ≠ f → q'.get g = q.get g
  keys : q'.keys = q.keys.filter (· ≠ f)
  write : (q.get f).write = some ⟨.write, .start⟩

theorem QRel.init (f : Nat) : QRel f (QMap.empty Queue.frameInit) (QMap.empty Queue.frameInit) :=
  ⟨fun _ _ => rfl, rfl, rfl⟩

/-- recording an access of another frame: same dependencies, relation kept -/
theorem QRel.record_other {f : Nat} {q' q : QMap} (h : QRel f q' q) (g : Nat) (hg : g ≠ f) (n : Node) (k : Kind) :
    (q'.record g n k).2 = (q.record g n k).2 ∧ QRel f (q'.record g n k).1 (q.record g n k).1 := by
  have e := h.get g hg
  refine ⟨by simp [QMap.record, e], ?_, ?_, ?_⟩
  · intro x hx
    simp only [QMap.record, QMap.set, e]
    split
    · rfl
    · exact h.get x hx
  · simp only [QMap.record, QMap.set, h.keys]
    have hm : g ∈ q.keys.filter (· ≠ f) ↔ g ∈ q.keys := by simp [hg]
    by_cases hk : g ∈ q.keys
    · rw [if_pos hk, if_pos (hm.2 hk)]
    · rw [if_neg hk, if_neg (fun x => hk (hm.1 x)), List.filter_append]
      simp [hg]
  · simp only [QMap.record, QMap.set]
    rw [if_neg (fun x => hg x.symm)]
    exact h.write

/-- a blocking access of `f` on the right only: the dependency is the block start, relation kept -/
theorem QRel.read_f {f : Nat} {q' q : QMap} (h : QRel f q' q) (n : Node) :
    (q.record f n .read).2 = [⟨.write, .start⟩] ∧ QRel f q' (q.record f n .read).1 := by
  refine ⟨by simp [QMap.record, Queue.record, h.write], ?_, ?_, ?_⟩
  · intro x hx
    simp only [QMap.record, QMap.set]
    rw [if_neg hx]; exact h.get x hx
  · simp only [QMap.record, QMap.set, h.keys]
    by_cases hk : f ∈ q.keys
    · rw [if_pos hk]
    · rw [if_neg hk, List.filter_append]; simp
  · simp [QMap.record, QMap.set, Queue.record, h.write]

/-- the states of the two runs -/
structure StRel (f : Nat) (s' s : St) : Prop where
  edges : SubB s'.edges s.edges
  trailing : s'.trailing = s.trailing
  mem : s'.mem = s.mem
  ord : QRel f s'.ord s.ord
  timed : QRel f s'.timed s.timed

theorem frameLoop_cons (sched : Bool) (n : Node) (k : Kind) (g : Nat) (fs : List Nat) (st : St) :
    frameLoop sched n k (g :: fs) st =
      frameLoop sched n k fs
        (let st1 : St := if sched then
            { st with timed := (st.timed.record g n k).1,
                      edges := st.edges ++ (st.timed.record g n k).2.map fun d => ⟨d.node, n, .scheduled⟩ }
          else st
         { st1 with ord := (st1.ord.record g n k).1,
                    edges := st1.edges ++ (st1.ord.record g n k).2.map fun d => ⟨d.node, n, .stable⟩ }) := rfl

/-- one step of `frameLoop` on a frame other than `f`, on both sides -/
theorem step_other {f : Nat} {s' s : St} (h : StRel f s' s) (sched : Bool) (n : Node) (k : Kind) (g : Nat)
    (hg : g ≠ f) :
    StRel f
      (let st1 : St := if sched then
          { s' with timed := (s'.timed.record g n k).1,
                    edges := s'.edges ++ (s'.timed.record g n k).2.map fun d => ⟨d.node, n, .scheduled⟩ }
        else s'
       { st1 with ord := (st1.ord.record g n k).1,
                  edges := st1.edges ++ (st1.ord.record g n k).2.map fun d => ⟨d.node, n, .stable⟩ })
      (let st1 : St := if sched then
          { s with timed := (s.timed.record g n k).1,
                   edges := s.edges ++ (s.timed.record g n k).2.map fun d => ⟨d.node, n, .scheduled⟩ }
        else s
       { st1 with ord := (st1.ord.record g n k).1,
                  edges := st1.edges ++ (st1.ord.record g n k).2.map fun d => ⟨d.node, n, .stable⟩ }) := by
  obtain ⟨t1, t2⟩ := h.timed.record_other g hg n k
  obtain ⟨o1, o2⟩ := h.ord.record_other g hg n k
  cases sched with
  | true =>
    simp only [if_true]
    refine ⟨?_, h.trailing, h.mem, o2, t2⟩
    simp only [t1, o1]
    exact SubB.append (SubB.append h.edges (SubB.refl _)) (SubB.refl _)
  | false =>
    simp only [Bool.false_eq_true, if_false]
    refine ⟨?_, h.trailing, h.mem, o2, h.timed⟩
    simp only [o1]
    exact SubB.append h.edges (SubB.refl _)

/-- one blocking step on `f` on the right only -/
theorem step_f {f : Nat} {s' s : St} (h : StRel f s' s) (sched : Bool) (n : Node) :
    StRel f s'
      (let st1 : St := if sched then
          { s with timed := (s.timed.record f n .read).1,
                   edges := s.edges ++ (s.timed.record f n .read).2.map fun d => ⟨d.node, n, .scheduled⟩ }
        else s
       { st1 with ord := (st1.ord.record f n .read).1,
                  edges := st1.edges ++ (st1.ord.record f n .read).2.map fun d => ⟨d.node, n, .stable⟩ }) := by
  obtain ⟨t1, t2⟩ := h.timed.read_f n
  obtain ⟨o1, o2⟩ := h.ord.read_f n
  cases sched with
  | true =>
    simp only [if_true]
    refine ⟨?_, h.trailing, h.mem, o2, t2⟩
    simp only [t1, o1, List.map_cons, List.map_nil]
    exact SubB.trans_append_right (SubB.trans_append_right h.edges (by simp [Boundary])) (by simp [Boundary])
  | false =>
    simp only [Bool.false_eq_true, if_false]
    refine ⟨?_, h.trailing, h.mem, o2, h.timed⟩
    simp only [o1, List.map_cons, List.map_nil]
    exact SubB.trans_append_right h.edges (by simp [Boundary])

theorem frameLoop_used {f : Nat} (sched : Bool) (n : Node) (fs : List Nat) (hf : f ∉ fs) :
    ∀ {s' s : St}, StRel f s' s → StRel f (frameLoop sched n .write fs s') (frameLoop sched n .write fs s) := by
  induction fs with
  | nil => intro s' s h; simpa [frameLoop] using h
  | cons g r ih =>
    intro s' s h
    rw [frameLoop_cons, frameLoop_cons]
    exact ih (fun x => hf (by simp [x])) (step_other h sched n .write g (fun x => hf (by simp [x])))

theorem frameLoop_blocked {f : Nat} (sched : Bool) (n : Node) (fs : List Nat) :
    ∀ {s' s : St}, StRel f s' s →
      StRel f (frameLoop sched n .read (fs.filter (· ≠ f)) s') (frameLoop sched n .read fs s) := by
  induction fs with
  | nil => intro s' s h; simpa [frameLoop] using h
  | cons g r ih =>
    intro s' s h
    by_cases hg : g = f
    · subst hg
      rw [frameLoop_cons]
      have : (g :: r).filter (· ≠ g) = r.filter (· ≠ g) := by simp
      rw [this]
      exact ih (step_f h sched n)
    · have : (g :: r).filter (· ≠ f) = g :: r.filter (· ≠ f) := by simp [hg]
      rw [this, frameLoop_cons, frameLoop_cons]
      exact ih (step_other h sched n .read g hg)

theorem memStep_rel {f : Nat} {s' s : St} (h : StRel f s' s) (n : Node) (ins : Instr) :
    StRel f (memStep n (dropBlockedI f ins) s').1 (memStep n ins s).1 ∧
      (memStep n (dropBlockedI f ins) s').2 = (memStep n ins s).2 := by
  have hm : memAccesses (dropBlockedI f ins) = memAccesses ins := rfl
  simp only [memStep, hm, h.mem, h.trailing]
  exact ⟨⟨SubB.append h.edges (SubB.refl _), rfl, rfl, h.ord, h.timed⟩, trivial⟩

/-- outcome relation of one step / of the whole run -/
def OutRel (f : Nat) : Except SchedErr St → Except SchedErr St → Prop
  | .ok t', .ok t => StRel f t' t
  | .error e', .error e => e' = e
  | _, _ => False

theorem stepInstr_rel {f : Nat} {s' s : St} (h : StRel f s' s) (n : Node) (ins : Instr)
    (hu : NeverUsedI f ins) : OutRel f (stepInstr n (dropBlockedI f ins) s') (stepInstr n ins s) := by
  obtain ⟨hst, hlead⟩ := memStep_rel h n ins
  unfold stepInstr
  have e1 : (dropBlockedI f ins).memErr = ins.memErr := rfl
  have e2 : (dropBlockedI f ins).role = ins.role := rfl
  have e3 : (dropBlockedI f ins).scheduled = ins.scheduled := rfl
  rw [e1]
  by_cases hme : ins.memErr = true
  · simp only [hme, if_true]; exact rfl
  · simp only [hme, Bool.false_eq_true, if_false, e2, e3, hlead]
    cases hr : ins.role with
    | classical =>
      simp only
      refine ⟨SubB.append hst.edges (SubB.refl _), ?_, hst.mem, hst.ord, hst.timed⟩
      simp only [hst.trailing]
    | rf =>
      simp only
      cases hf : ins.frames with
      | none =>
        have : (dropBlockedI f ins).frames = none := by simp [dropBlockedI, hf]
        simp only [this]; exact hst
      | some fr =>
        have : (dropBlockedI f ins).frames = some (fr.1, fr.2.filter (· ≠ f)) := by simp [dropBlockedI, hf]
        simp only [this]
        exact frameLoop_blocked _ n fr.2 (frameLoop_used _ n fr.1 (hu fr hf) hst)
    | controlFlow =>
      simp only
      split
      · exact hst
      · exact rfl
    | composition => exact rfl

theorem runItems_rel {f : Nat} (items : List (Node × Instr)) (hu : ∀ p ∈ items, NeverUsedI f p.2) :
    ∀ {s' s : St}, StRel f s' s →
      OutRel f (runItems (items.map fun p => (p.1, dropBlockedI f p.2)) s') (runItems items s) := by
  induction items with
  | nil => intro s' s h; exact h
  | cons p rest ih =>
    intro s' s h
    obtain ⟨n, ins⟩ := p
    have hs := stepInstr_rel h n ins (hu (n, ins) (by simp))
    simp only [List.map_cons, runItems]
    match h1 : stepInstr n (dropBlockedI f ins) s', h2 : stepInstr n ins s, hs with
    | .ok t', .ok t, hs => exact ih (fun q hq => hu q (by simp [hq])) hs
    | .error e', .error e, hs => exact hs

theorem enumFrom_map (f : Nat) : ∀ (is : List Instr) (k : Nat),
    enumFrom k (is.map (dropBlockedI f)) = (enumFrom k is).map fun p => (p.1, dropBlockedI f p.2)
  | [], _ => rfl
  | i :: is, k => by simp [enumFrom, enumFrom_map f is (k + 1)]

theorem items_dropBlocked (f : Nat) (b : Block) :
    (dropBlocked f b).items = b.items.map fun p => (p.1, dropBlockedI f p.2) := by
  simp only [Block.items, dropBlocked, enumFrom_map, List.map_append]
  cases b.term <;> simp

theorem pending_boundary (q : QMap) (l : Label) : ∀ e ∈ q.pendingAll.map (fun d => (⟨d.node, .stop, l⟩ : Edge)),
    Boundary e := by
  intro e he
  simp only [List.mem_map] at he
  obtain ⟨d, _, rfl⟩ := he
  exact Or.inr rfl

theorem pendingAll_subB {f : Nat} {q' q : QMap} (h : QRel f q' q) (l : Label) :
    SubB (q'.pendingAll.map (fun d => (⟨d.node, .stop, l⟩ : Edge)))
      (q.pendingAll.map (fun d => (⟨d.node, .stop, l⟩ : Edge))) := by
  simp only [QMap.pendingAll, h.keys]
  generalize q.keys = ks
  induction ks with
  | nil => exact .nil
  | cons g r ih =>
    by_cases hg : g = f
    · subst hg
      simp only [List.filter_cons, ne_eq, not_true_eq_false, decide_false, Bool.false_eq_true, if_false,
        List.flatMap_cons, List.map_append]
      have := SubB.append (SubB.nil_of_all (b := (q.get g).pending.map (fun d => (⟨d.node, .stop, l⟩ : Edge)))
        (by intro e he; simp only [List.mem_map] at he; obtain ⟨d, _, rfl⟩ := he; exact Or.inr rfl)) ih
      simpa using this
    · simp only [List.filter_cons, ne_eq, hg, not_false_eq_true, decide_true, if_true, List.flatMap_cons,
        List.map_append, h.get g hg]
      exact SubB.append (SubB.refl _) ih

theorem finish_rel {f : Nat} (b : Block) {s' s : St} (h : StRel f s' s) :
    SubB (finish (dropBlocked f b) s') (finish b s) := by
  simp only [finish, h.trailing]
  have he : (dropBlocked f b).instrs.isEmpty = b.instrs.isEmpty := by simp [dropBlocked]
  rw [he]
  exact SubB.append (SubB.append (SubB.append (SubB.append h.edges (SubB.refl _))
    (pendingAll_subB h.timed _)) (pendingAll_subB h.ord _)) (SubB.refl _)

theorem StRel.init (f : Nat) : StRel f St.init St.init :=
  ⟨SubB.refl _, rfl, rfl, QRel.init f, QRel.init f⟩

/-- **Dependency graphs.** If no instruction of the block USES frame `f`, removing `f` from every blocked
set gives the same build error, or a graph that differs only by deleted edges out of the block start /
into the block end (in the same order otherwise). -/
theorem buildBlock_dropBlocked (f : Nat) (b : Block) (hu : ∀ p ∈ b.items, NeverUsedI f p.2) :
    match buildBlock (dropBlocked f b), buildBlock b with
    | .ok es', .ok es => SubB es' es
    | .error e', .error e => e' = e
    | _, _ => False := by
  have hr := runItems_rel (f := f) b.items hu (StRel.init f)
  simp only [buildBlock, items_dropBlocked]
  cases h1 : runItems (b.items.map fun p => (p.1, dropBlockedI f p.2)) St.init with
  | ok t' =>
    cases h2 : runItems b.items St.init with
    | ok t => rw [h1, h2] at hr; exact finish_rel b hr
    | error e => rw [h1, h2] at hr; exact hr.elim
  | error e' =>
    cases h2 : runItems b.items St.init with
    | ok t => rw [h1, h2] at hr; exact hr.elim
    | error e => rw [h1, h2] at hr; exact hr


/-! ### the schedule does not see boundary edges -/

theorem maxFrom_cons (z t : Int) (xs : List Int) :
    maxFrom z (t :: xs) = maxFrom (if t > z then t else z) xs := by
  simp [maxFrom]

/-- the end-time lists of two edge lists are interchangeable for `maxFrom` from any start `≥ 0` -/
def PredRel : Option (Option (List Int)) → Option (Option (List Int)) → Prop
  | none, none => True
  | some none, some none => True
  | some (some xs), some (some ys) => ∀ z : Int, 0 ≤ z → maxFrom z xs = maxFrom z ys
  | _, _ => False

theorem PredRel.refl : ∀ r, PredRel r r
  | none => trivial
  | some none => trivial
  | some (some _) => fun _ _ => rfl

theorem PredRel.cons (t : Int) {r r' : Option (Option (List Int))} (ht : 0 ≤ t) (h : PredRel r r') :
    PredRel (r.map (·.map (t :: ·))) (r'.map (·.map (t :: ·))) := by
  match r, r', h with
  | none, none, _ => trivial
  | some none, some none, _ => trivial
  | some (some xs), some (some ys), h =>
    intro z hz
    simp only [Option.map_some, maxFrom_cons]
    apply h
    split <;> omega

theorem PredRel.zero_right {r r' : Option (Option (List Int))} (h : PredRel r r') :
    PredRel r (r'.map (·.map (0 :: ·))) := by
  match r, r', h with
  | none, none, _ => trivial
  | some none, some none, _ => trivial
  | some (some xs), some (some ys), h =>
    intro z hz
    simp only [Option.map_some, maxFrom_cons]
    have : (if (0 : Int) > z then 0 else z) = z := by split <;> omega
    rw [this]; exact h z hz

/-- all recorded end times are non-negative -/
def EndsNonneg (ends : List (Nat × Int)) : Prop := ∀ p ∈ ends, 0 ≤ p.2

theorem lookup_nonneg {ends : List (Nat × Int)} (h : EndsNonneg ends) {p : Nat} {t : Int}
    (hl : ends.lookup p = some t) : 0 ≤ t := by
  induction ends with
  | nil => simp at hl
  | cons x r ih =>
    obtain ⟨a, b⟩ := x
    simp only [List.lookup_cons] at hl
    split at hl
    · cases hl; exact h (a, t) (by simp)
    · exact ih (fun q hq => h q (by simp [hq])) hl

theorem predEnds_subB (x y : List Edge) (ends : List (Nat × Int)) (hn : EndsNonneg ends) (i : Nat)
    {a b : List Edge} (h : SubB a b) :
    PredRel (predEnds x ends (.instr i) a) (predEnds y ends (.instr i) b) := by
  induction h with
  | nil => simp only [predEnds]; exact fun _ _ => rfl
  | keep e _ ih =>
    simp only [predEnds]
    split
    · cases hs : e.src with
      | start => simp only; exact PredRel.cons 0 (Int.le_refl 0) ih
      | instr p =>
        simp only
        cases hl : ends.lookup p with
        | none => trivial
        | some t => simp only; exact PredRel.cons t (lookup_nonneg hn hl) ih
      | stop => trivial
    · exact ih
  | drop e hb _ ih =>
    simp only [predEnds]
    split
    · rename_i hc
      rcases hb with hb | hb
      · rw [hb]; simp only; exact PredRel.zero_right ih
      · rw [hb] at hc; exact absurd hc.1 (by simp)
    · exact ih

theorem maxFrom_nonneg (z : Int) (hz : 0 ≤ z) (xs : List Int) : 0 ≤ maxFrom z xs := by
  induction xs generalizing z with
  | nil => simpa [maxFrom] using hz
  | cons t r ih => rw [maxFrom_cons]; apply ih; split <;> omega

/-- **The schedule does not depend on boundary edges**: for any visiting order, durations `≥ 0`. -/
theorem scheduleLoop_subB (L : Nat) {es' es : List Edge} (h : SubB es' es) (dur : Nat → Option Int)
    (hd : ∀ i d, dur i = some d → 0 ≤ d) (order : List Node) :
    ∀ (ends : List (Nat × Int)) (items : List SItem) (D : Int), EndsNonneg ends →
      scheduleLoop L es' dur order ends items D = scheduleLoop L es dur order ends items D := by
  induction order with
  | nil => intro ends items D _; simp [scheduleLoop]
  | cons v rest ih =>
    intro ends items D hn
    cases v with
    | start => simp only [scheduleLoop]; exact ih ends items D hn
    | stop => simp only [scheduleLoop]; exact ih ends items D hn
    | instr i =>
      simp only [scheduleLoop]
      split
      · rfl
      · cases hdur : dur i with
        | none => rfl
        | some d =>
          simp only
          have hp := predEnds_subB es' es ends hn i h
          match h1 : predEnds es' ends (.instr i) es', h2 : predEnds es ends (.instr i) es, hp with
          | none, none, _ => rfl
          | some none, some none, _ => rfl
          | some (some xs), some (some ys), hp =>
            simp only
            have e : maxFrom 0 xs = maxFrom 0 ys := hp 0 (Int.le_refl 0)
            rw [e]
            apply ih
            intro p hp'
            simp only [List.mem_cons] at hp'
            rcases hp' with rfl | hp'
            · have := maxFrom_nonneg 0 (Int.le_refl 0) ys
              have := hd i d hdur
              simp only; omega
            · exact hn p hp'


theorem SubB.trans {a b c : List Edge} (h1 : SubB a b) (h2 : SubB b c) : SubB a c := by
  induction h2 generalizing a with
  | nil => exact h1
  | keep e _ ih =>
    cases h1 with
    | keep _ h => exact .keep e (ih h)
    | drop _ hb h => exact .drop e hb (ih h)
  | drop e hb _ ih => exact .drop e hb (ih h1)

/-- a dropped edge is a boundary edge; a kept one is an edge of the larger graph -/
theorem SubB.mem {a b : List Edge} (h : SubB a b) : ∀ e ∈ a, e ∈ b := by
  induction h with
  | nil => simp
  | keep e _ ih => intro x hx; simp only [List.mem_cons] at hx ⊢; exact hx.imp id (ih x)
  | drop e _ _ ih => intro x hx; exact List.mem_cons_of_mem _ (ih x hx)

/-- remove every frame of `D` from the blocked sets -/
def dropBlockedL (D : List Nat) (b : Block) : Block := D.foldr dropBlocked b

theorem neverUsed_dropBlocked (f g : Nat) (b : Block) (h : ∀ p ∈ b.items, NeverUsedI g p.2) :
    ∀ p ∈ (dropBlocked f b).items, NeverUsedI g p.2 := by
  rw [items_dropBlocked]
  intro p hp
  simp only [List.mem_map] at hp
  obtain ⟨q, hq, rfl⟩ := hp
  intro fr hfr
  simp only [dropBlockedI, Option.map_eq_some_iff] at hfr
  obtain ⟨fr0, h0, rfl⟩ := hfr
  exact h q hq fr0 h0

theorem neverUsed_dropBlockedL (D : List Nat) (g : Nat) (b : Block) (h : ∀ p ∈ b.items, NeverUsedI g p.2) :
    ∀ p ∈ (dropBlockedL D b).items, NeverUsedI g p.2 := by
  induction D with
  | nil => exact h
  | cons f r ih => exact neverUsed_dropBlocked f g _ ih

/-- outcome relation of two graph builds -/
def BuildRel : Except SchedErr (List Edge) → Except SchedErr (List Edge) → Prop
  | .ok es', .ok es => SubB es' es
  | .error e', .error e => e' = e
  | _, _ => False

theorem BuildRel.trans {x y z : Except SchedErr (List Edge)} (h1 : BuildRel x y) (h2 : BuildRel y z) :
    BuildRel x z := by
  cases x <;> cases y <;> cases z <;> simp only [BuildRel] at * 
  · exact h1.trans h2
  · exact SubB.trans h1 h2

/-- **Dependency graphs, any set of never-used frames.** -/
theorem buildBlock_dropBlockedL (D : List Nat) (b : Block)
    (hu : ∀ f ∈ D, ∀ p ∈ b.items, NeverUsedI f p.2) :
    BuildRel (buildBlock (dropBlockedL D b)) (buildBlock b) := by
  induction D with
  | nil =>
    simp only [dropBlockedL, List.foldr_nil]
    cases buildBlock b <;> simp only [BuildRel]
    exact SubB.refl _
  | cons f r ih =>
    have h1 := buildBlock_dropBlocked f (dropBlockedL r b)
      (neverUsed_dropBlockedL r f b (hu f (by simp)))
    have h2 := ih (fun g hg => hu g (by simp [hg]))
    have h1' : BuildRel (buildBlock (dropBlocked f (dropBlockedL r b))) (buildBlock (dropBlockedL r b)) := by
      revert h1
      cases buildBlock (dropBlocked f (dropBlockedL r b)) <;> cases buildBlock (dropBlockedL r b) <;>
        simp only [BuildRel] <;> exact id
    exact BuildRel.trans h1' h2


end QV.C35
