/-
C35 model: `Program::simplify` (quil-rs/src/program/mod.rs:874-914).

`simplify` = `expand_calibrations` (C17's business: the expanded program is an INPUT here), then
  * `calibrations = Calibrations::default()` (and the used-qubit cache is rebuilt, C10's business),
  * one pass over the body collecting `handler.matching_frames(&expanded_program, instruction).used`
    (C26's business: the handler's answer per instruction is an INPUT here), the name of the waveform a
    PULSE / CAPTURE invokes (`get_waveform_invocation`), the name a `CALL` calls,
  * `frames = expanded_program.frames.intersection(&frames_used)` (the expanded program's frame set since
    `fix:` commit 768d37f; before, the ORIGINAL program's, which differs when an API-built calibration
    body holds a DEFFRAME),
  * `waveforms.retain(name used)`, `extern_pragma_map.retain(key is Some(name) with name called)`.

`IndexMap`s are association lists in insertion order; `F`, `A`, … are abstract identities (the driver
uses Quil texts).
-/
namespace QV.C35

/-- what `simplify` looks at in one body instruction of the expanded program -/
structure BInstr (F : Type) where
  /-- identity of the instruction (its Quil text) -/
  text : String
  /-- `handler.matching_frames(&expanded_program, instruction).map(|m| m.used)`, `[]` for `None` -/
  used : List F
  /-- `instruction.get_waveform_invocation().map(|w| w.name)` -/
  waveform : Option String
  /-- `Some(name)` for `Instruction::Call(Call { name, .. })` -/
  call : Option String
  deriving DecidableEq, Repr

/-- a `Program`, as far as `simplify` is concerned; every definition is (key, identity of the value) -/
structure Prog (F : Type) where
  calibrations : List String
  externs : List (Option String × String)
  frames : List (F × String)
  regions : List (String × String)
  waveforms : List (String × String)
  gates : List (String × String)
  circuits : List (String × String)
  body : List (BInstr F)
  deriving DecidableEq, Repr

variable {F : Type} [DecidableEq F]

/-- the `for instruction in &expanded_program.instructions` loop (mod.rs:887-899): the three sets -/
def framesUsed (body : List (BInstr F)) : List F := body.flatMap (·.used)
def waveformsUsed (body : List (BInstr F)) : List String := body.filterMap (·.waveform)
def externsUsed (body : List (BInstr F)) : List String := body.filterMap (·.call)

/-- `Program::simplify` after the expansion: `e` = the expanded program. -/
def simplify (e : Prog F) : Prog F :=
  { e with
    calibrations := []
    -- `FrameSet::intersection` (frame.rs:109-122): iterates the frames in order, keeps the identifiers
    -- contained in the set
    frames := e.frames.filter (fun f => (framesUsed e.body).contains f.1)
    waveforms := e.waveforms.filter (fun w => (waveformsUsed e.body).contains w.1)
    externs := e.externs.filter (fun x => match x.1 with
      | some n => (externsUsed e.body).contains n
      | none => false) }

end QV.C35
