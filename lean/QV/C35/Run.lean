import QV.Wire
import QV.C35.Model
import QV.C35.Spec
/-! Driver side of the C35 correspondence check. -/
namespace QV.C35
open QV

def decodeAll {α : Type} (f : Sexp → Option α) : List Sexp → Option (List α)
  | [] => some []
  | x :: xs => match f x, decodeAll f xs with
    | some a, some as => some (a :: as)
    | _, _ => none

def optStr : Sexp → Option (Option String)
  | .atom "none" => some none
  | .list [.atom "some", .str s] => some (some s)
  | _ => none

def pair : Sexp → Option (String × String)
  | .list [.str a, .str b] => some (a, b)
  | _ => none

def externEntry : Sexp → Option (Option String × String)
  | .list [k, .str v] => (optStr k).map (·, v)
  | _ => none

def strList : Sexp → Option (List String)
  | .list xs => decodeAll Sexp.asStr? xs
  | _ => none

def bodyEntry : Sexp → Option (BInstr String)
  | .list [.str t, used, wf, call] =>
    match strList used, optStr wf, optStr call with
    | some u, some w, some c => some ⟨t, u, w, c⟩
    | _, _, _ => none
  | .list [.str t] => some ⟨t, [], none, none⟩
  | _ => none

def decodeProg : Sexp → Option (Prog String)
  | .list [.atom "prog", .list cals, .list externs, .list frames, .list regions, .list waveforms, .list gates,
      .list circuits, .list body] =>
    match decodeAll Sexp.asStr? cals, decodeAll externEntry externs, decodeAll pair frames,
      decodeAll pair regions, decodeAll pair waveforms, decodeAll pair gates, decodeAll pair circuits,
      decodeAll bodyEntry body with
    | some c, some x, some f, some r, some w, some g, some ci, some b =>
      some { calibrations := c, externs := x, frames := f, regions := r, waveforms := w, gates := g,
             circuits := ci, body := b }
    | _, _, _, _, _, _, _, _ => none
  | _ => none

/-- `(m (used…) (blocked…))` or `none` -/
def decodeMatched : Sexp → Option (Option (List String × List String))
  | .atom "none" => some none
  | .list [.atom "m", u, b] =>
    match strList u, strList b with
    | some u, some b => some (some (u, b))
    | _, _ => none
  | _ => none

structure PerInstr where
  exp : Option (List String × List String)
  inter : Option (List String × List String)
  simp : Option (List String × List String)
  bareReset : Bool

def decodePer : Sexp → Option PerInstr
  | .list [e, i, s, .atom r] =>
    match decodeMatched e, decodeMatched i, decodeMatched s with
    | some e, some i, some s => some ⟨e, i, s, r == "true"⟩
    | _, _, _ => none
  | _ => none

/-- the implementation's body comes back as texts: attach the input's per-instruction data position-wise -/
def rebody (e : List (BInstr String)) (s : List (BInstr String)) : List (BInstr String) :=
  match e, s with
  | x :: es, y :: ss => (if x.text == y.text then x else y) :: rebody es ss
  | _, ss => ss

def sameSet (a b : List String) : Bool := a.all b.contains && b.all a.contains

/-- the per-instruction clause of `C35_simplified_matching` / `C35_matching_monotone`, on the answers of
the real handler: same frames used; blocked = blocked before, restricted to the kept frames -/
def matchingOk (kept : List String) (sameAvail : Bool) (p : PerInstr) : Bool :=
  let rel (a b : Option (List String × List String)) : Bool :=
    match a, b with
    | none, none => true
    | some (u, bl), some (u', bl') => sameSet u' u && sameSet bl' (bl.filter kept.contains)
    | _, _ => false
  rel p.inter p.simp && (if sameAvail || !p.bareReset then rel p.exp p.simp else p.exp.isSome == p.simp.isSome)

/-- error payloads are not compared: `(err unknown-duration "<instruction>")` ↦ `(err unknown-duration)`
(which instruction is met first depends on the topological order, which the statement does not fix) -/
partial def normSched : Sexp → Sexp
  | .list [.atom "err", .atom "unknown-duration", _] => .list [.atom "err", .atom "unknown-duration"]
  | .list xs => .list (xs.map normSched)
  | x => x

def handle (inp out : Sexp) : CaseResult :=
  match inp with
  | .list [.atom "expand-error"] =>
    let ok := out == Sexp.list [.atom "err"]
    { agree := ok, specOk := ok, nontrivial := false, tags := ["expand-error"], detail := s!"impl={out}" }
  | .list [.atom "simp", .atom handlerName, .list selfFrames, eS] =>
    match decodeAll pair selfFrames, decodeProg eS with
    | some selfFrames, some e =>
      match out with
      | .list [.atom "ok", sS, .atom sameAvail, .atom interAvail, .list per, schedE, schedS, .atom rawSame,
          .atom idem] =>
        match decodeProg sS, decodeAll decodePer per with
        | some s0, some per =>
          let s := { s0 with body := rebody e.body s0.body }
          let m := simplify e
          let sameAvail := sameAvail == "true"
          let kept := s.frames.map (·.1)
          let nodup := decide (e.frames.map (·.1)).Nodup && decide (e.waveforms.map (·.1)).Nodup &&
            decide (e.externs.map (·.1)).Nodup
          let defsOk := simplifiedB e s
          let matchOk := per.length == s.body.length && per.all (matchingOk kept sameAvail) &&
            interAvail == "true"
          -- an invalid PRAGMA EXTERN (no name / unparsable signature) that nothing calls makes the EXPANDED
          -- program unschedulable (`ScheduleErrorVariant::Extern`); simplify removes it. No schedule is
          -- computed for the expanded program then, so there is nothing to compare.
          let expandedInvalidExtern := match schedE with
            | .list [.list (.atom "builderr" :: .atom "extern" :: _), _] => true
            | _ => false
          let schedOk := normSched schedE == normSched schedS || expandedInvalidExtern
          -- idempotent, equal to the program rebuilt from its own listing (used-qubit cache included), and
          -- the same on a second call
          let idem := idem == "true"
          -- names that occur as keys of two different definition kinds (a change that confuses the name
          -- spaces shows only then)
          let names := fun (l : List (String × String)) => l.map (·.1)
          let frameNames := e.frames.map (fun f => (f.1.splitOn "\"").getD 1 "")
          let kinds : List (List String) :=
            [names e.waveforms, e.externs.filterMap (·.1), names e.gates, names e.circuits, names e.regions, frameNames]
          let usedNames := e.body.filterMap (·.waveform) ++ e.body.filterMap (·.call)
          let sharedUsed := usedNames.any fun n => (kinds.filter (·.contains n)).length ≥ 2
          let definedWfWithDuration := e.body.any fun i => match i.waveform with
            | some w => (names e.waveforms).contains w && (i.text.splitOn "duration:").length > 1
            | none => false
          let definedWfInvoked := e.body.any fun i => match i.waveform with
            | some w => (names e.waveforms).contains w
            | none => false
          let removedF := e.frames.length - s.frames.length
          let removedW := e.waveforms.length - s.waveforms.length
          let removedX := e.externs.length - s.externs.length
          let blockedOnlyDropped := per.any fun p => match p.inter with
            | some (_, bl) => bl.any (fun f => !kept.contains f)
            | none => false
          let schedKind : String := match schedS with
            | .list [.list (.atom "builderr" :: _), _] => "sched-builderr"
            | .list [.list (.atom "blocks" :: bs), _] =>
              if bs.any (fun b => match b with | .list (.atom "err" :: _) => true | _ => false)
              then "sched-err" else "sched-ok"
            | _ => "sched-?"
          let nblocks : Nat := match schedS with
            | .list [.list (.atom "blocks" :: bs), _] => bs.length
            | _ => 0
          let tags :=
            ["ok", s!"handler-{handlerName}", schedKind, s!"blocks{min nblocks 4}", s!"body{min e.body.length 8}",
             s!"frames-removed{min removedF 4}", s!"frames-kept{min s.frames.length 4}",
             s!"waveforms-removed{min removedW 3}", s!"externs-removed{min removedX 3}",
             s!"cals{min e.calibrations.length 4}"] ++
            (if blockedOnlyDropped then ["blocked-only-frame-dropped"] else []) ++
            (if sharedUsed then ["used-name-shared-across-kinds"] else []) ++
            (if definedWfWithDuration then ["defined-waveform-with-duration-arg"] else []) ++
            (if definedWfWithDuration && schedKind == "sched-ok" then ["sched-ok-defined-waveform-with-duration-arg"] else []) ++
            (if definedWfInvoked && schedKind == "sched-ok" then ["sched-ok-duration-from-kept-waveform"] else []) ++
            (if e.externs.any (fun x => (((x.2.splitOn "\"").headD "").splitOn " ").length > 4) then ["multi-arg-extern"] else []) ++
            (if expandedInvalidExtern then ["expanded-invalid-extern"] else []) ++
            (if e.externs.any (fun x => x.1.isNone) then ["nameless-extern"] else []) ++
            (if !sameAvail then ["avail-differs"] else []) ++
            (if per.any (·.bareReset) then ["bare-reset"] else []) ++
            (if !sameAvail && per.any (·.bareReset) then ["bare-reset-avail-differs"] else []) ++
            (if rawSame == "true" then [] else ["schedule-order-differs"]) ++
            (if schedE == schedS then [] else ["schedule-error-instruction-differs"]) ++
            (if decide (selfFrames = e.frames) then [] else ["self-frames-differ"]) ++
            (if nodup then [] else ["dup-keys"]) ++
            (if e.body.any (fun i => i.call.isSome) then ["call"] else []) ++
            (if e.body.any (fun i => i.waveform.isSome) then ["waveform-invoked"] else [])
          { agree := decide (m = s),
            specOk := defsOk && matchOk && schedOk && idem,
            nontrivial := !e.body.isEmpty &&
              (removedF + removedW + removedX > 0 || !e.calibrations.isEmpty),
            tags := tags,
            detail := s!"defsOk={defsOk} matchOk={matchOk} schedOk={schedOk} idem={idem} model={repr m} impl={out}" }
        | _, _ => .bad s!"undecodable output {out}"
      | _ =>
        { agree := false, specOk := false, nontrivial := false, tags := ["impl-error-or-crash"],
          detail := s!"impl={out}" }
    | _, _ => .bad s!"undecodable input {inp}"
  | _ => .bad s!"undecodable input {inp}"

end QV.C35

def main : IO UInt32 := QV.runMain QV.C35.handle
