import QV.C35.Spec
import QV.C35.Lemmas
import QV.C26.Props
import QV.C25.Props
/-
C35 — Dead-code removal keeps execution and removes exactly unused definitions.

Part 1: `simplify` (model of `Program::simplify` on top of the expanded program) satisfies the declarative
specification `Simplified`, the Bool checker decides it, and the specification determines the result.
Part 2 (schedule clause): over the C26 matching specification, the frames an instruction is matched with
are monotone under removing frames, so that after removing only frames no body instruction uses, every
body instruction uses exactly the same frames and blocks the same frames except never-used ones.
-/
namespace QV.C35
variable {F : Type} [DecidableEq F]

/-! ### Part 1 -/

private theorem sublist_filter_eq {α : Type} {a b : List α} (keep : α → Bool) (hs : a.Sublist b)
    (hn : b.Nodup) (hm : ∀ x, x ∈ a ↔ x ∈ b ∧ keep x = true) : a = b.filter keep := by
  induction hs with
  | slnil => simp
  | @cons a' b' y hs ih =>
    -- y not in a'
    simp only [List.nodup_cons] at hn
    have hy : y ∉ a' := fun h => hn.1 (hs.subset h)
    have hk : keep y = false := by
      cases hky : keep y with
      | false => rfl
      | true => exact absurd ((hm y).2 ⟨by simp, hky⟩) hy
    rw [List.filter_cons, hk]
    simp only [Bool.false_eq_true, if_false]
    apply ih hn.2
    intro x
    constructor
    · intro hx
      have := (hm x).1 hx
      simp only [List.mem_cons] at this
      rcases this with ⟨rfl | h1, h2⟩
      · exact absurd hx hy
      · exact ⟨h1, h2⟩
    · rintro ⟨h1, h2⟩
      exact (hm x).2 ⟨by simp [h1], h2⟩
  | @cons_cons a' b' y hs ih =>
    simp only [List.nodup_cons] at hn
    have hk : keep y = true := ((hm y).1 (by simp)).2
    rw [List.filter_cons, hk]
    simp only [if_true]
    congr 1
    apply ih hn.2
    intro x
    constructor
    · intro hx
      have := (hm x).1 (by simp [hx])
      simp only [List.mem_cons] at this
      rcases this with ⟨rfl | h1, h2⟩
      · exact absurd (hs.subset hx) hn.1
      · exact ⟨h1, h2⟩
    · rintro ⟨h1, h2⟩
      have := (hm x).2 ⟨by simp [h1], h2⟩
      simp only [List.mem_cons] at this
      rcases this with rfl | h
      · exact absurd h1 hn.1
      · exact h

private theorem filter_spec {α : Type} (b : List α) (keep : α → Bool) :
    (b.filter keep).Sublist b ∧ ∀ x, x ∈ b.filter keep ↔ x ∈ b ∧ keep x = true :=
  ⟨List.filter_sublist, fun x => by simp⟩

private theorem keepFrame_iff (body : List (BInstr F)) (f : F × String) :
    keepFrameB body f = true ↔ ∃ i ∈ body, f.1 ∈ i.used := by
  simp [keepFrameB]

private theorem keepWaveform_iff (body : List (BInstr F)) (w : String × String) :
    keepWaveformB body w = true ↔ ∃ i ∈ body, i.waveform = some w.1 := by
  simp [keepWaveformB]

private theorem keepExtern_iff (body : List (BInstr F)) (x : Option String × String) :
    keepExternB body x = true ↔ ∃ n, x.1 = some n ∧ ∃ i ∈ body, i.call = some n := by
  unfold keepExternB
  cases x.1 <;> simp

private theorem framesUsed_contains (body : List (BInstr F)) (f : F) :
    (framesUsed body).contains f = body.any (fun i => i.used.contains f) := by
  apply Bool.eq_iff_iff.mpr
  simp [framesUsed]

private theorem waveformsUsed_contains (body : List (BInstr F)) (w : String) :
    (waveformsUsed body).contains w = body.any (fun i => i.waveform == some w) := by
  apply Bool.eq_iff_iff.mpr
  simp [waveformsUsed]

private theorem externsUsed_contains (body : List (BInstr F)) (n : String) :
    (externsUsed body).contains n = body.any (fun i => i.call == some n) := by
  apply Bool.eq_iff_iff.mpr
  simp [externsUsed]

/-- the model, written with the same predicates as the checker -/
theorem simplify_eq (e : Prog F) :
    simplify e =
      { e with
        calibrations := []
        frames := e.frames.filter (keepFrameB e.body)
        waveforms := e.waveforms.filter (keepWaveformB e.body)
        externs := e.externs.filter (keepExternB e.body) } := by
  simp only [simplify]
  congr 1
  · apply List.filter_congr
    intro x _
    unfold keepExternB
    cases x.1 <;> simp only [externsUsed_contains]
  · apply List.filter_congr
    intro x _
    simp only [keepFrameB, framesUsed_contains]
  · apply List.filter_congr
    intro x _
    simp only [keepWaveformB, waveformsUsed_contains]

/-- **C35 (definitions and body), all programs**: `simplify` returns the expanded body, no calibrations,
exactly the frames some body instruction uses, exactly the waveforms invoked, exactly the extern pragmas
called, and the declarations, gate definitions and circuits unchanged. -/
theorem C35_simplify_spec (e : Prog F) : Simplified e (simplify e) := by
  rw [simplify_eq]
  refine ⟨rfl, rfl, List.filter_sublist, ?_, List.filter_sublist, ?_, List.filter_sublist, ?_, rfl, rfl, rfl⟩
  · intro f; simp [keepFrame_iff]
  · intro w; simp [keepWaveform_iff]
  · intro x; simp [keepExtern_iff]

/-- **The Bool checker decides the specification** for expanded programs whose definition lists have no
repeated entries (they come from `IndexMap`s: keys are unique). -/
theorem C35_simplifiedB_iff (e s : Prog F) (hf : e.frames.Nodup) (hw : e.waveforms.Nodup)
    (hx : e.externs.Nodup) : simplifiedB e s = true ↔ Simplified e s := by
  simp only [simplifiedB, keptB, Bool.and_eq_true, decide_eq_true_eq, List.isEmpty_iff]
  constructor
  · rintro ⟨⟨⟨⟨⟨⟨⟨h1, h2⟩, h3⟩, h4⟩, h5⟩, h6⟩, h7⟩, h8⟩
    refine ⟨h1, h2, h3 ▸ List.filter_sublist, ?_, h4 ▸ List.filter_sublist, ?_, h5 ▸ List.filter_sublist, ?_,
      h6, h7, h8⟩
    · intro f; rw [h3]; simp [keepFrame_iff]
    · intro w; rw [h4]; simp [keepWaveform_iff]
    · intro x; rw [h5]; simp [keepExtern_iff]
  · intro h
    refine ⟨⟨⟨⟨⟨⟨⟨h.body, h.noCalibrations⟩, ?_⟩, ?_⟩, ?_⟩, h.regions⟩, h.gates⟩, h.circuits⟩
    · exact sublist_filter_eq _ h.frames_sub hf (fun f => by rw [h.frames_iff, keepFrame_iff])
    · exact sublist_filter_eq _ h.waveforms_sub hw (fun w => by rw [h.waveforms_iff, keepWaveform_iff])
    · exact sublist_filter_eq _ h.externs_sub hx (fun x => by rw [h.externs_iff, keepExtern_iff])

/-- **The specification determines the result** (it is not looser than the model): any program
satisfying `Simplified e` is the model's output. -/
theorem C35_spec_unique (e s : Prog F) (hf : e.frames.Nodup) (hw : e.waveforms.Nodup) (hx : e.externs.Nodup)
    (h : Simplified e s) : s = simplify e := by
  have hb := (C35_simplifiedB_iff e s hf hw hx).2 h
  simp only [simplifiedB, keptB, Bool.and_eq_true, decide_eq_true_eq, List.isEmpty_iff] at hb
  obtain ⟨⟨⟨⟨⟨⟨⟨h1, h2⟩, h3⟩, h4⟩, h5⟩, h6⟩, h7⟩, h8⟩ := hb
  rw [simplify_eq]
  cases s
  simp_all

/-- non-vacuity: an unused frame, an unused waveform, an unused and a nameless extern are removed; used ones,
the declaration and the gate definition stay -/
example :
    simplify
      ({ calibrations := ["DEFCAL X 0"], externs := [(some "f", "f"), (some "g", "g"), (none, "h")],
         frames := [(0, "a"), (1, "b")], regions := [("ro", "BIT")], waveforms := [("w", "1"), ("v", "2")],
         gates := [("G", "m")], circuits := [],
         body := [⟨"PULSE 0 \"a\" w", [0], some "w", none⟩, ⟨"CALL f ro", [], none, some "f"⟩] } : Prog Nat)
      = { calibrations := [], externs := [(some "f", "f")], frames := [(0, "a")], regions := [("ro", "BIT")],
          waveforms := [("w", "1")], gates := [("G", "m")], circuits := [],
          body := [⟨"PULSE 0 \"a\" w", [0], some "w", none⟩, ⟨"CALL f ro", [], none, some "f"⟩] } := by
  decide

/-! ### Part 2: the schedule clause, per instruction, over the C26 matching specification -/

open QV.C26 in
/-- which frames an instruction uses / blocks depends on the program's used qubits only for `RESET`
without a qubit -/
private theorem usedBy_congr (a a' : List Qubit) (i : Instr) (f : Frame)
    (h : (∀ q, q ∈ a ↔ q ∈ a') ∨ i ≠ .reset none) :
    (UsedBy a i f ↔ UsedBy a' i f) ∧ (BlockedBy a i f ↔ BlockedBy a' i f) := by
  cases i with
  | reset q =>
    cases q with
    | some q => simp [UsedBy, BlockedBy]
    | none =>
      rcases h with h | h
      · simp [UsedBy, BlockedBy, OnExactly, Touches, h]
      · exact absurd rfl h
  | fence qs => cases qs <;> simp [UsedBy, BlockedBy]
  | delay ns qs => cases ns <;> simp [UsedBy, BlockedBy]
  | pulse b fr => cases b <;> simp [UsedBy, BlockedBy]
  | capture b fr => cases b <;> simp [UsedBy, BlockedBy]
  | rawCapture b fr => cases b <;> simp [UsedBy, BlockedBy]
  | _ => simp [UsedBy, BlockedBy]

open QV.C26 in
/-- **Monotonicity of frame matching under removing frames.** If `p'` defines a subset of the frames of
`p` and has the same used qubits (or the instruction is not a bare `RESET`), then the frames `i` uses /
blocks in `p'` are exactly those it uses / blocks in `p` that `p'` still defines; and a result is
reported for `p'` iff it is for `p`. -/
theorem C35_matching_monotone (p p' : C26.Prog) (i : Instr)
    (hsub : ∀ f, f ∈ p'.frames → f ∈ p.frames)
    (havail : (∀ q, q ∈ usedQubits p ↔ q ∈ usedQubits p') ∨ i ≠ .reset none) :
    ((matchingFrames p' i).isSome = (matchingFrames p i).isSome) ∧
    ∀ m m', matchingFrames p i = some m → matchingFrames p' i = some m' →
      (∀ f, f ∈ m'.used ↔ f ∈ m.used ∧ f ∈ p'.frames) ∧
      (∀ f, f ∈ m'.blocked ↔ f ∈ m.blocked ∧ f ∈ p'.frames) := by
  have c := C26_matchingFrames_correct p i
  have c' := C26_matchingFrames_correct p' i
  constructor
  · have a := c.some_iff
    have b := c'.some_iff
    cases h1 : (matchingFrames p i).isSome <;> cases h2 : (matchingFrames p' i).isSome <;> simp_all
  · intro m m' hm hm'
    constructor
    · intro f
      rw [c'.used m' hm' f, c.used m hm f, (usedBy_congr _ _ i f havail).1]
      constructor
      · rintro ⟨h1, h2⟩; exact ⟨⟨hsub f h1, h2⟩, h1⟩
      · rintro ⟨⟨_, h2⟩, h1⟩; exact ⟨h1, h2⟩
    · intro f
      rw [c'.blocked m' hm' f, c.blocked m hm f, (usedBy_congr _ _ i f havail).2]
      constructor
      · rintro ⟨h1, h2⟩; exact ⟨⟨hsub f h1, h2⟩, h1⟩
      · rintro ⟨⟨_, h2⟩, h1⟩; exact ⟨h1, h2⟩

open QV.C26 in
/-- **Schedule clause, per instruction.** Let `p'` keep exactly the frames of `p` that some instruction of
`body` uses (what `simplify` does), with the same used qubits. Then every instruction of `body` uses
EXACTLY the same frames in `p'` as in `p`, and blocks the same frames except those no instruction of
`body` uses (a frame that is only ever blocked orders nothing: blocking accesses do not conflict with each
other, C24). Hence each block's dependency graph restricted to used frames, the per-frame sample rates
and therefore `as_schedule_seconds` see the same data. -/
theorem C35_simplified_matching (p p' : C26.Prog) (body : List Instr)
    (hframes : ∀ f, f ∈ p'.frames ↔
      f ∈ p.frames ∧ ∃ j ∈ body, ∃ mj, matchingFrames p j = some mj ∧ f ∈ mj.used)
    (havail : ∀ q, q ∈ usedQubits p ↔ q ∈ usedQubits p')
    (i : Instr) (hi : i ∈ body) (m m' : Matched)
    (hm : matchingFrames p i = some m) (hm' : matchingFrames p' i = some m') :
    (∀ f, f ∈ m'.used ↔ f ∈ m.used) ∧
    (∀ f, f ∈ m'.blocked ↔
      f ∈ m.blocked ∧ ∃ j ∈ body, ∃ mj, matchingFrames p j = some mj ∧ f ∈ mj.used) := by
  obtain ⟨_, hmono⟩ := C35_matching_monotone p p' i (fun f hf => ((hframes f).1 hf).1) (Or.inl havail)
  obtain ⟨hu, hb⟩ := hmono m m' hm hm'
  constructor
  · intro f
    rw [hu f]
    constructor
    · exact fun h => h.1
    · intro h
      refine ⟨h, (hframes f).2 ⟨?_, i, hi, m, hm, h⟩⟩
      exact C26_reported_frames_defined p i m hm f (Or.inl h)
  · intro f
    rw [hb f, hframes f]
    constructor
    · rintro ⟨h1, _, h3⟩; exact ⟨h1, h3⟩
    · rintro ⟨h1, h3⟩
      exact ⟨h1, C26_reported_frames_defined p i m hm f (Or.inr h1), h3⟩

section FrameLevel
open QV.C26

/-- the hypothesis of the schedule clause: `p'` keeps exactly the frames of `p` that some instruction of
`body` uses, and has the same used qubits (what `simplify` does to the intermediate program) -/
structure KeepsUsedFrames (p p' : C26.Prog) (body : List Instr) : Prop where
  frames : ∀ f, f ∈ p'.frames ↔
    f ∈ p.frames ∧ ∃ j ∈ body, ∃ mj, matchingFrames p j = some mj ∧ f ∈ mj.used
  avail : ∀ q, q ∈ usedQubits p ↔ q ∈ usedQubits p'

/-- **(a)** every body instruction uses exactly the same frames after simplification -/
theorem C35_used_eq {p p' : C26.Prog} {body : List Instr} (h : KeepsUsedFrames p p' body)
    {i : Instr} (hi : i ∈ body) {m m' : Matched}
    (hm : matchingFrames p i = some m) (hm' : matchingFrames p' i = some m') (f : Frame) :
    f ∈ m'.used ↔ f ∈ m.used :=
  (C35_simplified_matching p p' body h.frames h.avail i hi m m' hm hm').1 f

/-- **(b)** its blocked frames are the old ones restricted to the kept frames (a frame that is only ever
blocked is dropped, and with it the blocking) -/
theorem C35_blocked_restrict {p p' : C26.Prog} {body : List Instr} (h : KeepsUsedFrames p p' body)
    {i : Instr} (hi : i ∈ body) {m m' : Matched}
    (hm : matchingFrames p i = some m) (hm' : matchingFrames p' i = some m') (f : Frame) :
    f ∈ m'.blocked ↔ f ∈ m.blocked ∧ f ∈ p'.frames := by
  have := (C35_simplified_matching p p' body h.frames h.avail i hi m m' hm hm').2 f
  rw [this, h.frames f]
  constructor
  · rintro ⟨h1, h2⟩
    exact ⟨h1, C26_reported_frames_defined p i m hm f (Or.inr h1), h2⟩
  · rintro ⟨h1, _, h2⟩; exact ⟨h1, h2⟩

/-- a result is reported after simplification iff it was before -/
theorem C35_reported_iff {p p' : C26.Prog} {body : List Instr} (h : KeepsUsedFrames p p' body) (i : Instr) :
    (matchingFrames p' i).isSome = (matchingFrames p i).isSome :=
  (C35_matching_monotone p p' i (fun f hf => ((h.frames f).1 hf).1) (Or.inl h.avail)).1

/-- two instructions conflict on a frame when one of them USES it and the other uses or blocks it (the
only situation in which the dependency queues of C23/C24 order them: blocking accesses do not conflict
with each other) -/
def FrameConflict (m1 m2 : Matched) (f : Frame) : Prop :=
  (f ∈ m1.used ∧ (f ∈ m2.used ∨ f ∈ m2.blocked)) ∨ (f ∈ m1.blocked ∧ f ∈ m2.used)

/-- **(c)** the frame-conflict relation between body instructions is unchanged: a dropped frame is used by
nobody, so it never made two instructions conflict -/
theorem C35_conflicts_eq {p p' : C26.Prog} {body : List Instr} (h : KeepsUsedFrames p p' body)
    {i j : Instr} (hi : i ∈ body) (hj : j ∈ body) {mi mi' mj mj' : Matched}
    (hmi : matchingFrames p i = some mi) (hmi' : matchingFrames p' i = some mi')
    (hmj : matchingFrames p j = some mj) (hmj' : matchingFrames p' j = some mj') (f : Frame) :
    FrameConflict mi' mj' f ↔ FrameConflict mi mj f := by
  have ui := C35_used_eq h hi hmi hmi' f
  have uj := C35_used_eq h hj hmj hmj' f
  have bi := C35_blocked_restrict h hi hmi hmi' f
  have bj := C35_blocked_restrict h hj hmj hmj' f
  have kept_i : f ∈ mi.used → f ∈ p'.frames := fun hu =>
    (h.frames f).2 ⟨C26_reported_frames_defined p i mi hmi f (Or.inl hu), i, hi, mi, hmi, hu⟩
  have kept_j : f ∈ mj.used → f ∈ p'.frames := fun hu =>
    (h.frames f).2 ⟨C26_reported_frames_defined p j mj hmj f (Or.inl hu), j, hj, mj, hmj, hu⟩
  unfold FrameConflict
  rw [ui, uj, bi, bj]
  constructor
  · rintro (⟨h1, h2 | ⟨h2, _⟩⟩ | ⟨⟨h1, _⟩, h2⟩)
    · exact Or.inl ⟨h1, Or.inl h2⟩
    · exact Or.inl ⟨h1, Or.inr h2⟩
    · exact Or.inr ⟨h1, h2⟩
  · rintro (⟨h1, h2 | h2⟩ | ⟨h1, h2⟩)
    · exact Or.inl ⟨h1, Or.inl h2⟩
    · exact Or.inl ⟨h1, Or.inr ⟨h2, kept_i h1⟩⟩
    · exact Or.inr ⟨⟨h1, kept_j h2⟩, h2⟩


/-- non-vacuity of (a)–(c) with a dropped-but-blocked frame: frames `0 "a"`, `0 "b"`, body = one blocking
`PULSE 0 "a"`: it uses `a` and BLOCKS `b`; nobody uses `b`, so simplification drops it, and afterwards the pulse
uses `a` and blocks nothing. -/
def exA : Frame := ⟨"a", [.fixed 0]⟩
def exB : Frame := ⟨"b", [.fixed 0]⟩
def exP : C26.Prog := ⟨[exA, exB], [.pulse true exA]⟩
def exP' : C26.Prog := ⟨[exA], [.pulse true exA]⟩

private theorem exP_matching : matchingFrames exP (.pulse true exA) = some ⟨[exA], [exB]⟩ := by
  simp [matchingFrames, defaultFrameMatchCondition, QV.C26.filter, getMatching, exP, exA, exB]

private theorem exP'_matching : matchingFrames exP' (.pulse true exA) = some ⟨[exA], []⟩ := by
  simp [matchingFrames, defaultFrameMatchCondition, QV.C26.filter, getMatching, exP', exA]

example : KeepsUsedFrames exP exP' [.pulse true exA] ∧ exB ∈ exP.frames ∧ exB ∉ exP'.frames := by
  refine ⟨⟨?_, fun q => Iff.rfl⟩, by simp [exP], by simp [exP', exA, exB]⟩
  intro f
  simp only [List.mem_singleton, exists_eq_left, exP_matching, Option.some.injEq, exists_eq_left']
  simp only [exP, exP', List.mem_cons, List.mem_singleton, List.not_mem_nil, or_false]
  constructor
  · intro h; exact ⟨Or.inl h, h⟩
  · intro h; exact h.2

end FrameLevel

/-- In the model of `simplify`: a frame of the expanded program that is dropped is used by no body
instruction (so the hypothesis of the graph theorems below holds for the dropped frames). -/
theorem C35_dropped_never_used (e : Prog F) (f : F × String) (hf : f ∈ e.frames)
    (hd : f ∉ (simplify e).frames) : ∀ i ∈ e.body, f.1 ∉ i.used := by
  intro i hi hu
  exact hd (((C35_simplify_spec e).frames_iff f).2 ⟨hf, i, hi, hu⟩)

/-! ### Part 3: dependency graphs and schedules (over the C22–C25 model `QV.Sched`) -/

open QV.Sched in
/-- what `dropBlockedL D` does to one instruction: the blocked set loses the frames of `D`, nothing else
changes -/
def restrictI (D : List Nat) (ins : Sched.Instr) : Sched.Instr :=
  { ins with frames := ins.frames.map fun fr => (fr.1, fr.2.filter (fun x => !D.contains x)) }

open QV.Sched in
theorem C35_dropBlockedL_instrs (D : List Nat) (b : Block) :
    (dropBlockedL D b).instrs = b.instrs.map (restrictI D) ∧
      (dropBlockedL D b).term = b.term.map (restrictI D) := by
  have hI : ∀ (f : Nat) (r : List Nat) (ins : Sched.Instr),
      dropBlockedI f (restrictI r ins) = restrictI (f :: r) ins := by
    intro f r ins
    cases ins with
    | mk a b c d e g fr =>
      cases fr with
      | none => rfl
      | some v =>
        simp only [dropBlockedI, restrictI, Option.map_some, List.filter_filter]
        congr 3
        apply List.filter_congr
        intro x _
        by_cases hx : x = f <;> simp [hx]
  induction D with
  | nil =>
    have : restrictI ([] : List Nat) = id := by
      funext ins
      cases ins with
      | mk a b c d e g fr =>
        cases fr with
        | none => rfl
        | some v =>
          have : List.filter (fun _ => true) v.2 = v.2 := List.filter_eq_self.2 (fun _ _ => rfl)
          simp [restrictI, this]
    simp [dropBlockedL, this]
  | cons f r ih =>
    have e : dropBlockedL (f :: r) b = dropBlocked f (dropBlockedL r b) := rfl
    rw [e]
    simp only [dropBlocked, ih.1, ih.2, List.map_map, Option.map_map]
    constructor
    · apply List.map_congr_left; intro ins _; exact hI f r ins
    · cases b.term <;> simp [hI]

open QV.Sched in
/-- **Dependency graphs.** For every block and every set `D` of frames that no instruction USES: the graph
built after removing `D` from all blocked sets (what simplification does to the handler's answers, by
`C35_used_eq` / `C35_blocked_restrict`) fails with the same error, or is the original graph with some edges
out of the block start / into the block end deleted — every edge between two instructions, with its label,
is kept, in the same order. A frame nobody uses never creates an edge between two instructions. -/
theorem C35_graph_eq (D : List Nat) (b : Block) (hu : ∀ f ∈ D, ∀ p ∈ b.items, NeverUsedI f p.2) :
    BuildRel (buildBlock (dropBlockedL D b)) (buildBlock b) :=
  buildBlock_dropBlockedL D b hu

open QV.Sched in
/-- the deleted edges are boundary edges, the others are edges of the original graph, and every edge between
two instructions of the original graph survives -/
theorem C35_graph_edges {es' es : List Edge} (h : SubB es' es) :
    (∀ e ∈ es', e ∈ es) ∧ (∀ e ∈ es, e ∈ es' ∨ e.src = .start ∨ e.dst = .stop) := by
  refine ⟨h.mem, ?_⟩
  induction h with
  | nil => simp
  | keep e _ ih =>
    intro x hx
    simp only [List.mem_cons] at hx ⊢
    rcases hx with rfl | hx
    · exact Or.inl (Or.inl rfl)
    · exact (ih x hx).imp (fun h => Or.inr h) id
  | drop e hb _ ih =>
    intro x hx
    simp only [List.mem_cons] at hx
    rcases hx with rfl | hx
    · exact Or.inr hb
    · exact ih x hx

open QV.Sched in
/-- **Schedules, same visiting order.** With the same (non-negative) durations, `as_schedule` gives the
IDENTICAL outcome (items, total duration, or the same error) on both graphs. -/
theorem C35_schedule_eq (D : List Nat) (b : Block) (hu : ∀ f ∈ D, ∀ p ∈ b.items, NeverUsedI f p.2)
    (es' es : List Edge) (h' : buildBlock (dropBlockedL D b) = .ok es') (h : buildBlock b = .ok es)
    (L : Nat) (order : List Node) (dur : Nat → Option Int) (hd : ∀ i d, dur i = some d → 0 ≤ d) :
    asSchedule L order es' dur = asSchedule L order es dur := by
  have hr := C35_graph_eq D b hu
  rw [h', h] at hr
  exact scheduleLoop_subB L hr dur hd order [] [] 0 (by intro p hp; simp at hp)

open QV.Sched in
/-- **Schedule clause (partial: over the scheduling model, durations given).** Whatever orders petgraph's
`Topo` visits the two graphs in (duplicate-free, containing every instruction; the original graph's
`Scheduled` edges point forward — `C22_forward`), every instruction gets the same start time and duration
in the simplified and in the expanded program.
MISSING for the end-to-end statement (checked by the correspondence on every case, not proved): (1) that
the duration function is the same for both programs — it is, because `instruction_duration_seconds` reads
only the invoked waveform's definition and the SAMPLE-RATEs of the frames the instruction USES, all of which
`simplify` keeps with their values (`C35_simplify_spec`, `C35_used_eq`); (2) that the harness's numbering of
frames turns the simplified program's handler answers into `dropBlockedL D` of the expanded program's
(`C35_used_eq`, `C35_blocked_restrict` are that statement before numbering). -/
theorem C35_block_schedule_same_partial (D : List Nat) (b : Block)
    (hu : ∀ f ∈ D, ∀ p ∈ b.items, NeverUsedI f p.2)
    (es' es : List Edge) (h' : buildBlock (dropBlockedL D b) = .ok es') (h : buildBlock b = .ok es)
    (L : Nat) (dur : Nat → Option Int) (hd : ∀ i d, dur i = some d → 0 ≤ d)
    (hfwd : ∀ e ∈ es, e.label = .scheduled → e.src.pos L < e.dst.pos L)
    (order' order : List Node) (hnd' : order'.Nodup) (hnd : order.Nodup)
    (hall' : ∀ i, i < L → Node.instr i ∈ order') (hall : ∀ i, i < L → Node.instr i ∈ order)
    (items' items : List SItem) (T' T : Int)
    (hs' : asSchedule L order' es' dur = .ok items' T') (hs : asSchedule L order es dur = .ok items T) :
    ∀ x ∈ items', ∀ y ∈ items, x.index = y.index → x.start = y.start ∧ x.dur = y.dur := by
  rw [C35_schedule_eq D b hu es' es h' h L order' dur hd] at hs'
  have a1 := C25.C25_asap L order' es dur items' T' hnd' hall' hs'
  have a2 := C25.C25_asap L order es dur items T hnd hall hs
  intro x hx y hy hxy
  exact C25.C25_asap_unique L es dur hfwd items' items T' T a1 a2 (x.index + 1) x hx y hy hxy (by omega)

/-- non-vacuity, with a dropped-but-blocked frame: two blocking pulses on frame 0 that both BLOCK frame 1,
which nobody uses. Frame 1 satisfies the hypothesis, it does occur in blocked sets, removing it deletes 10
boundary edges of 16, and the schedule (1 s each, back to back) is the same. -/
def exampleBlock : Sched.Block :=
  ⟨[⟨.rf, true, false, [], [], [], some ([0], [1])⟩, ⟨.rf, true, false, [], [], [], some ([0], [1])⟩], none⟩

example : (∀ p ∈ exampleBlock.items, NeverUsedI 1 p.2) ∧
    (∃ ins ∈ exampleBlock.instrs, ∃ fr, ins.frames = some fr ∧ 1 ∈ fr.2) := by
  constructor
  · intro p hp
    simp [exampleBlock, Sched.Block.items, Sched.enumFrom] at hp
    rcases hp with rfl | rfl <;> intro fr hfr <;> simp at hfr <;> subst hfr <;> simp
  · exact ⟨_, List.mem_cons_self, ([0], [1]), rfl, by simp⟩

/-- the edges of a block's graph (empty on error) -/
def edgesOf (b : Sched.Block) : List Sched.Edge :=
  match Sched.buildBlock b with
  | .ok es => es
  | .error _ => []

example :
    (edgesOf exampleBlock).length = 16 ∧ (edgesOf (dropBlockedL [1] exampleBlock)).length = 6 ∧
      Sched.asSchedule 2 [.start, .instr 0, .instr 1, .stop] (edgesOf exampleBlock) (fun _ => some 1024) =
        .ok [⟨0, 0, 1024⟩, ⟨1, 1024, 1024⟩] 2048 ∧
      Sched.asSchedule 2 [.start, .instr 1, .instr 0, .stop] (edgesOf (dropBlockedL [1] exampleBlock))
          (fun _ => some 1024) =
        Sched.asSchedule 2 [.start, .instr 1, .instr 0, .stop] (edgesOf exampleBlock) (fun _ => some 1024) := by
  decide

end QV.C35
