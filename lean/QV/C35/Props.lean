import QV.C35.Spec
import QV.C26.Props
/-
C35 — Dead-code removal keeps execution and removes exactly unused definitions.

Part 1: `simplify` (model of `Program::simplify` on top of the expanded program) satisfies the declarative
specification `Simplified`, the Bool checker decides it, and the specification determines the result.
Part 2 (schedule clause): over the C26 matching specification, the frames an instruction is matched with
are monotone under removing frames, so that after removing only frames no body instruction uses, every
body instruction uses exactly the same frames and blocks the same frames except never-used ones.
-/
namespace QV.C35
variable {F : Type} [DecidableEq F]

/-! ### Part 1 -/

private theorem sublist_filter_eq {α : Type} {a b : List α} (keep : α → Bool) (hs : a.Sublist b)
    (hn : b.Nodup) (hm : ∀ x, x ∈ a ↔ x ∈ b ∧ keep x = true) : a = b.filter keep := by
  induction hs with
  | slnil => simp
  | @cons a' b' y hs ih =>
    -- y not in a'
    simp only [List.nodup_cons] at hn
    have hy : y ∉ a' := fun h => hn.1 (hs.subset h)
    have hk : keep y = false := by
      cases hky : keep y with
      | false => rfl
      | true => exact absurd ((hm y).2 ⟨by simp, hky⟩) hy
    rw [List.filter_cons, hk]
    simp only [Bool.false_eq_true, if_false]
    apply ih hn.2
    intro x
    constructor
    · intro hx
      have := (hm x).1 hx
      simp only [List.mem_cons] at this
      rcases this with ⟨rfl | h1, h2⟩
      · exact absurd hx hy
      · exact ⟨h1, h2⟩
    · rintro ⟨h1, h2⟩
      exact (hm x).2 ⟨by simp [h1], h2⟩
  | @cons_cons a' b' y hs ih =>
    simp only [List.nodup_cons] at hn
    have hk : keep y = true := ((hm y).1 (by simp)).2
    rw [List.filter_cons, hk]
    simp only [if_true]
    congr 1
    apply ih hn.2
    intro x
    constructor
    · intro hx
      have := (hm x).1 (by simp [hx])
      simp only [List.mem_cons] at this
      rcases this with ⟨rfl | h1, h2⟩
      · exact absurd (hs.subset hx) hn.1
      · exact ⟨h1, h2⟩
    · rintro ⟨h1, h2⟩
      have := (hm x).2 ⟨by simp [h1], h2⟩
      simp only [List.mem_cons] at this
      rcases this with rfl | h
      · exact absurd h1 hn.1
      · exact h

private theorem filter_spec {α : Type} (b : List α) (keep : α → Bool) :
    (b.filter keep).Sublist b ∧ ∀ x, x ∈ b.filter keep ↔ x ∈ b ∧ keep x = true :=
  ⟨List.filter_sublist, fun x => by simp⟩

private theorem keepFrame_iff (body : List (BInstr F)) (f : F × String) :
    keepFrameB body f = true ↔ ∃ i ∈ body, f.1 ∈ i.used := by
  simp [keepFrameB]

private theorem keepWaveform_iff (body : List (BInstr F)) (w : String × String) :
    keepWaveformB body w = true ↔ ∃ i ∈ body, i.waveform = some w.1 := by
  simp [keepWaveformB]

private theorem keepExtern_iff (body : List (BInstr F)) (x : Option String × String) :
    keepExternB body x = true ↔ ∃ n, x.1 = some n ∧ ∃ i ∈ body, i.call = some n := by
  unfold keepExternB
  cases x.1 <;> simp

private theorem framesUsed_contains (body : List (BInstr F)) (f : F) :
    (framesUsed body).contains f = body.any (fun i => i.used.contains f) := by
  apply Bool.eq_iff_iff.mpr
  simp [framesUsed]

private theorem waveformsUsed_contains (body : List (BInstr F)) (w : String) :
    (waveformsUsed body).contains w = body.any (fun i => i.waveform == some w) := by
  apply Bool.eq_iff_iff.mpr
  simp [waveformsUsed]

private theorem externsUsed_contains (body : List (BInstr F)) (n : String) :
    (externsUsed body).contains n = body.any (fun i => i.call == some n) := by
  apply Bool.eq_iff_iff.mpr
  simp [externsUsed]

/-- the model, written with the same predicates as the checker -/
theorem simplify_eq (e : Prog F) :
    simplify e =
      { e with
        calibrations := []
        frames := e.frames.filter (keepFrameB e.body)
        waveforms := e.waveforms.filter (keepWaveformB e.body)
        externs := e.externs.filter (keepExternB e.body) } := by
  simp only [simplify]
  congr 1
  · apply List.filter_congr
    intro x _
    unfold keepExternB
    cases x.1 <;> simp only [externsUsed_contains]
  · apply List.filter_congr
    intro x _
    simp only [keepFrameB, framesUsed_contains]
  · apply List.filter_congr
    intro x _
    simp only [keepWaveformB, waveformsUsed_contains]

/-- **C35 (definitions and body), all programs**: `simplify` returns the expanded body, no calibrations,
exactly the frames some body instruction uses, exactly the waveforms invoked, exactly the extern pragmas
called, and the declarations, gate definitions and circuits unchanged. -/
theorem C35_simplify_spec (e : Prog F) : Simplified e (simplify e) := by
  rw [simplify_eq]
  refine ⟨rfl, rfl, List.filter_sublist, ?_, List.filter_sublist, ?_, List.filter_sublist, ?_, rfl, rfl, rfl⟩
  · intro f; simp [keepFrame_iff]
  · intro w; simp [keepWaveform_iff]
  · intro x; simp [keepExtern_iff]

/-- **The Bool checker decides the specification** for expanded programs whose definition lists have no
repeated entries (they come from `IndexMap`s: keys are unique). -/
theorem C35_simplifiedB_iff (e s : Prog F) (hf : e.frames.Nodup) (hw : e.waveforms.Nodup)
    (hx : e.externs.Nodup) : simplifiedB e s = true ↔ Simplified e s := by
  simp only [simplifiedB, keptB, Bool.and_eq_true, decide_eq_true_eq, List.isEmpty_iff]
  constructor
  · rintro ⟨⟨⟨⟨⟨⟨⟨h1, h2⟩, h3⟩, h4⟩, h5⟩, h6⟩, h7⟩, h8⟩
    refine ⟨h1, h2, h3 ▸ List.filter_sublist, ?_, h4 ▸ List.filter_sublist, ?_, h5 ▸ List.filter_sublist, ?_,
      h6, h7, h8⟩
    · intro f; rw [h3]; simp [keepFrame_iff]
    · intro w; rw [h4]; simp [keepWaveform_iff]
    · intro x; rw [h5]; simp [keepExtern_iff]
  · intro h
    refine ⟨⟨⟨⟨⟨⟨⟨h.body, h.noCalibrations⟩, ?_⟩, ?_⟩, ?_⟩, h.regions⟩, h.gates⟩, h.circuits⟩
    · exact sublist_filter_eq _ h.frames_sub hf (fun f => by rw [h.frames_iff, keepFrame_iff])
    · exact sublist_filter_eq _ h.waveforms_sub hw (fun w => by rw [h.waveforms_iff, keepWaveform_iff])
    · exact sublist_filter_eq _ h.externs_sub hx (fun x => by rw [h.externs_iff, keepExtern_iff])

/-- **The specification determines the result** (it is not looser than the model): any program
satisfying `Simplified e` is the model's output. -/
theorem C35_spec_unique (e s : Prog F) (hf : e.frames.Nodup) (hw : e.waveforms.Nodup) (hx : e.externs.Nodup)
    (h : Simplified e s) : s = simplify e := by
  have hb := (C35_simplifiedB_iff e s hf hw hx).2 h
  simp only [simplifiedB, keptB, Bool.and_eq_true, decide_eq_true_eq, List.isEmpty_iff] at hb
  obtain ⟨⟨⟨⟨⟨⟨⟨h1, h2⟩, h3⟩, h4⟩, h5⟩, h6⟩, h7⟩, h8⟩ := hb
  rw [simplify_eq]
  cases s
  simp_all

/-- non-vacuity: an unused frame, an unused waveform, an unused and a nameless extern are removed; used ones,
the declaration and the gate definition stay -/
example :
    simplify
      ({ calibrations := ["DEFCAL X 0"], externs := [(some "f", "f"), (some "g", "g"), (none, "h")],
         frames := [(0, "a"), (1, "b")], regions := [("ro", "BIT")], waveforms := [("w", "1"), ("v", "2")],
         gates := [("G", "m")], circuits := [],
         body := [⟨"PULSE 0 \"a\" w", [0], some "w", none⟩, ⟨"CALL f ro", [], none, some "f"⟩] } : Prog Nat)
      = { calibrations := [], externs := [(some "f", "f")], frames := [(0, "a")], regions := [("ro", "BIT")],
          waveforms := [("w", "1")], gates := [("G", "m")], circuits := [],
          body := [⟨"PULSE 0 \"a\" w", [0], some "w", none⟩, ⟨"CALL f ro", [], none, some "f"⟩] } := by
  decide

/-! ### Part 2: the schedule clause, per instruction, over the C26 matching specification -/

open QV.C26 in
/-- which frames an instruction uses / blocks depends on the program's used qubits only for `RESET`
without a qubit -/
private theorem usedBy_congr (a a' : List Qubit) (i : Instr) (f : Frame)
    (h : (∀ q, q ∈ a ↔ q ∈ a') ∨ i ≠ .reset none) :
    (UsedBy a i f ↔ UsedBy a' i f) ∧ (BlockedBy a i f ↔ BlockedBy a' i f) := by
  cases i with
  | reset q =>
    cases q with
    | some q => simp [UsedBy, BlockedBy]
    | none =>
      rcases h with h | h
      · simp [UsedBy, BlockedBy, OnExactly, Touches, h]
      · exact absurd rfl h
  | fence qs => cases qs <;> simp [UsedBy, BlockedBy]
  | delay ns qs => cases ns <;> simp [UsedBy, BlockedBy]
  | pulse b fr => cases b <;> simp [UsedBy, BlockedBy]
  | capture b fr => cases b <;> simp [UsedBy, BlockedBy]
  | rawCapture b fr => cases b <;> simp [UsedBy, BlockedBy]
  | _ => simp [UsedBy, BlockedBy]

open QV.C26 in
/-- **Monotonicity of frame matching under removing frames.** If `p'` defines a subset of the frames of
`p` and has the same used qubits (or the instruction is not a bare `RESET`), then the frames `i` uses /
blocks in `p'` are exactly those it uses / blocks in `p` that `p'` still defines; and a result is
reported for `p'` iff it is for `p`. -/
theorem C35_matching_monotone (p p' : C26.Prog) (i : Instr)
    (hsub : ∀ f, f ∈ p'.frames → f ∈ p.frames)
    (havail : (∀ q, q ∈ usedQubits p ↔ q ∈ usedQubits p') ∨ i ≠ .reset none) :
    ((matchingFrames p' i).isSome = (matchingFrames p i).isSome) ∧
    ∀ m m', matchingFrames p i = some m → matchingFrames p' i = some m' →
      (∀ f, f ∈ m'.used ↔ f ∈ m.used ∧ f ∈ p'.frames) ∧
      (∀ f, f ∈ m'.blocked ↔ f ∈ m.blocked ∧ f ∈ p'.frames) := by
  have c := C26_matchingFrames_correct p i
  have c' := C26_matchingFrames_correct p' i
  constructor
  · have a := c.some_iff
    have b := c'.some_iff
    cases h1 : (matchingFrames p i).isSome <;> cases h2 : (matchingFrames p' i).isSome <;> simp_all
  · intro m m' hm hm'
    constructor
    · intro f
      rw [c'.used m' hm' f, c.used m hm f, (usedBy_congr _ _ i f havail).1]
      constructor
      · rintro ⟨h1, h2⟩; exact ⟨⟨hsub f h1, h2⟩, h1⟩
      · rintro ⟨⟨_, h2⟩, h1⟩; exact ⟨h1, h2⟩
    · intro f
      rw [c'.blocked m' hm' f, c.blocked m hm f, (usedBy_congr _ _ i f havail).2]
      constructor
      · rintro ⟨h1, h2⟩; exact ⟨⟨hsub f h1, h2⟩, h1⟩
      · rintro ⟨⟨_, h2⟩, h1⟩; exact ⟨h1, h2⟩

open QV.C26 in
/-- **Schedule clause, per instruction.** Let `p'` keep exactly the frames of `p` that some instruction of
`body` uses (what `simplify` does), with the same used qubits. Then every instruction of `body` uses
EXACTLY the same frames in `p'` as in `p`, and blocks the same frames except those no instruction of
`body` uses (a frame that is only ever blocked orders nothing: blocking accesses do not conflict with each
other, C24). Hence each block's dependency graph restricted to used frames, the per-frame sample rates
and therefore `as_schedule_seconds` see the same data. -/
theorem C35_simplified_matching (p p' : C26.Prog) (body : List Instr)
    (hframes : ∀ f, f ∈ p'.frames ↔
      f ∈ p.frames ∧ ∃ j ∈ body, ∃ mj, matchingFrames p j = some mj ∧ f ∈ mj.used)
    (havail : ∀ q, q ∈ usedQubits p ↔ q ∈ usedQubits p')
    (i : Instr) (hi : i ∈ body) (m m' : Matched)
    (hm : matchingFrames p i = some m) (hm' : matchingFrames p' i = some m') :
    (∀ f, f ∈ m'.used ↔ f ∈ m.used) ∧
    (∀ f, f ∈ m'.blocked ↔
      f ∈ m.blocked ∧ ∃ j ∈ body, ∃ mj, matchingFrames p j = some mj ∧ f ∈ mj.used) := by
  obtain ⟨_, hmono⟩ := C35_matching_monotone p p' i (fun f hf => ((hframes f).1 hf).1) (Or.inl havail)
  obtain ⟨hu, hb⟩ := hmono m m' hm hm'
  constructor
  · intro f
    rw [hu f]
    constructor
    · exact fun h => h.1
    · intro h
      refine ⟨h, (hframes f).2 ⟨?_, i, hi, m, hm, h⟩⟩
      exact C26_reported_frames_defined p i m hm f (Or.inl h)
  · intro f
    rw [hb f, hframes f]
    constructor
    · rintro ⟨h1, _, h3⟩; exact ⟨h1, h3⟩
    · rintro ⟨h1, h3⟩
      exact ⟨h1, C26_reported_frames_defined p i m hm f (Or.inr h1), h3⟩

end QV.C35
