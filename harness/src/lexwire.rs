//! Shared: wire encoding of quil-rs lexer tokens (must match lean/QV/Shared/LexWire.lean) and the
//! `(lex "text")` case emitter used by the lexer correspondence streams (C05, C06, and C01–C03).
use crate::{atom, f64bits, list, st, tagged, Ctx, Sexp};
use quil_rs::verif_hooks::{self, Token};

pub fn token_sexp(t: &Token) -> Sexp {
    match t {
        Token::As => atom("As"),
        Token::Bang => atom("Bang"),
        Token::Colon => atom("Colon"),
        Token::Comma => atom("Comma"),
        Token::Command(c) => tagged("Command", vec![st(c.to_string())]),
        Token::Comment(s) => tagged("Comment", vec![st(s.clone())]),
        Token::DataType(d) => tagged("DataType", vec![st(d.to_string())]),
        Token::Float(f) => tagged("Float", vec![f64bits(*f)]),
        Token::Identifier(s) => tagged("Identifier", vec![st(s.clone())]),
        Token::Indentation => atom("Indentation"),
        Token::Integer(n) => tagged("Integer", vec![atom(n.to_string())]),
        Token::Target(s) => tagged("Target", vec![st(s.clone())]),
        Token::LBracket => atom("LBracket"),
        Token::LParenthesis => atom("LParenthesis"),
        Token::NonBlocking => atom("NonBlocking"),
        Token::Matrix => atom("Matrix"),
        Token::Modifier(m) => tagged("Modifier", vec![st(m.to_string())]),
        Token::Mutable => atom("Mutable"),
        Token::NewLine => atom("NewLine"),
        Token::Operator(o) => tagged("Operator", vec![st(o.to_string())]),
        Token::Offset => atom("Offset"),
        Token::PauliSum => atom("PauliSum"),
        Token::Permutation => atom("Permutation"),
        Token::RBracket => atom("RBracket"),
        Token::RParenthesis => atom("RParenthesis"),
        Token::Semicolon => atom("Semicolon"),
        Token::Sequence => atom("Sequence"),
        Token::Sharing => atom("Sharing"),
        Token::String(s) => tagged("String", vec![st(s.clone())]),
        Token::Variable(s) => tagged("Variable", vec![st(s.clone())]),
    }
}

/// `(ok tok…)` or `(err)` for the real lexer on `text`.
pub fn lex_out(text: &str) -> Sexp {
    match verif_hooks::lex_tokens(text) {
        Ok(tokens) => {
            let mut v = vec![atom("ok")];
            v.extend(tokens.iter().map(token_sexp));
            list(v)
        }
        Err(_) => tagged("err", vec![]),
    }
}

/// Emit one `(lex "text")` case.
pub fn lex_case(ctx: &mut Ctx, text: &str) {
    let t = text.to_string();
    ctx.case(tagged("lex", vec![st(text)]), move || lex_out(&t));
}

/// All strings over `alphabet` of length exactly `len`, in lexicographic index order.
pub fn all_strings(alphabet: &[char], len: usize, f: &mut impl FnMut(&str)) {
    let mut idx = vec![0usize; len];
    let mut s = String::new();
    loop {
        s.clear();
        s.extend(idx.iter().map(|&i| alphabet[i]));
        f(&s);
        let mut k = len;
        loop {
            if k == 0 {
                return;
            }
            k -= 1;
            idx[k] += 1;
            if idx[k] < alphabet.len() {
                break;
            }
            idx[k] = 0;
        }
    }
}

// ---------------------------------------------------------------------------------------------
// Rust mirror of `QV.Render.render` (lean/QV/Shared/Render.lean): canonical layout of a token list — a
// space exactly between the `mustSep` pairs, tab indentation, floats via `{:?}`.  Used to check, on the REAL
// lexer, that lexing the canonical layout gives the token list back (the driver also compares this text
// with the Lean definition, character for character).

fn word_spelling(t: &Token) -> Option<String> {
    Some(match t {
        Token::As | Token::Matrix | Token::Mutable | Token::NonBlocking | Token::Offset | Token::PauliSum
        | Token::Permutation | Token::Sequence | Token::Sharing => t.to_string(),
        Token::Command(c) => c.to_string(),
        Token::DataType(d) => d.to_string(),
        Token::Modifier(m) => m.to_string(),
        _ => return None,
    })
}

pub fn render_token(t: &Token) -> String {
    if let Some(w) = word_spelling(t) {
        return w;
    }
    match t {
        Token::Bang => "!".into(),
        Token::Colon => ":".into(),
        Token::Comma => ",".into(),
        Token::Comment(s) => format!("#{s}"),
        Token::Float(f) => format!("{f:?}"),
        Token::Identifier(s) => s.clone(),
        Token::Indentation => "\t".into(),
        Token::Integer(n) => n.to_string(),
        Token::Target(s) => format!("@{s}"),
        Token::LBracket => "[".into(),
        Token::LParenthesis => "(".into(),
        Token::NewLine => "\n".into(),
        Token::Operator(o) => o.to_string(),
        Token::RBracket => "]".into(),
        Token::RParenthesis => ")".into(),
        Token::Semicolon => ";".into(),
        Token::String(s) => verif_hooks::quoted_string(s),
        Token::Variable(s) => format!("%{s}"),
        _ => unreachable!(),
    }
}

fn is_word_like(t: &Token) -> bool {
    matches!(t, Token::Identifier(_) | Token::Target(_) | Token::Variable(_)) || word_spelling(t).is_some()
}
fn starts_word_or_number(t: &Token) -> bool {
    matches!(t, Token::Identifier(_) | Token::Integer(_) | Token::Float(_)) || word_spelling(t).is_some()
}
pub fn must_sep(a: &Token, b: &Token) -> bool {
    match (a, b) {
        (_, Token::Indentation) | (Token::Indentation, _) => false,
        (Token::NewLine, Token::NewLine) => true,
        (Token::Integer(_) | Token::Float(_), b) => starts_word_or_number(b),
        (a, Token::Operator(o)) if o.to_string() == "-" => is_word_like(a),
        (a, b) => is_word_like(a) && starts_word_or_number(b),
    }
}
pub fn render_tokens(ts: &[Token]) -> String {
    let mut out = String::new();
    for (i, t) in ts.iter().enumerate() {
        if i > 0 && must_sep(&ts[i - 1], t) {
            out.push(' ');
        }
        out.push_str(&render_token(t));
    }
    out
}

/// `(rerender "text")` -> `(rendered "canonical text" <real lexer on the canonical text>)` / `(err)`.
pub fn rerender_case(ctx: &mut Ctx, text: &str) {
    let t = text.to_string();
    ctx.case(tagged("rerender", vec![st(text)]), move || match verif_hooks::lex_tokens(&t) {
        Ok(tokens) => {
            let r = render_tokens(&tokens);
            let back = lex_out(&r);
            tagged("rendered", vec![st(r), back])
        }
        Err(_) => tagged("err", vec![]),
    });
}
