//! Shared: wire encoding of quil-rs lexer tokens (must match lean/QV/Shared/LexWire.lean) and the
//! `(lex "text")` case emitter used by the lexer correspondence streams (C05, C06, and C01–C03).
use crate::{atom, f64bits, list, st, tagged, Ctx, Sexp};
use quil_rs::verif_hooks::{self, Token};

pub fn token_sexp(t: &Token) -> Sexp {
    match t {
        Token::As => atom("As"),
        Token::Bang => atom("Bang"),
        Token::Colon => atom("Colon"),
        Token::Comma => atom("Comma"),
        Token::Command(c) => tagged("Command", vec![st(c.to_string())]),
        Token::Comment(s) => tagged("Comment", vec![st(s.clone())]),
        Token::DataType(d) => tagged("DataType", vec![st(d.to_string())]),
        Token::Float(f) => tagged("Float", vec![f64bits(*f)]),
        Token::Identifier(s) => tagged("Identifier", vec![st(s.clone())]),
        Token::Indentation => atom("Indentation"),
        Token::Integer(n) => tagged("Integer", vec![atom(n.to_string())]),
        Token::Target(s) => tagged("Target", vec![st(s.clone())]),
        Token::LBracket => atom("LBracket"),
        Token::LParenthesis => atom("LParenthesis"),
        Token::NonBlocking => atom("NonBlocking"),
        Token::Matrix => atom("Matrix"),
        Token::Modifier(m) => tagged("Modifier", vec![st(m.to_string())]),
        Token::Mutable => atom("Mutable"),
        Token::NewLine => atom("NewLine"),
        Token::Operator(o) => tagged("Operator", vec![st(o.to_string())]),
        Token::Offset => atom("Offset"),
        Token::PauliSum => atom("PauliSum"),
        Token::Permutation => atom("Permutation"),
        Token::RBracket => atom("RBracket"),
        Token::RParenthesis => atom("RParenthesis"),
        Token::Semicolon => atom("Semicolon"),
        Token::Sequence => atom("Sequence"),
        Token::Sharing => atom("Sharing"),
        Token::String(s) => tagged("String", vec![st(s.clone())]),
        Token::Variable(s) => tagged("Variable", vec![st(s.clone())]),
    }
}

/// `(ok tok…)` or `(err)` for the real lexer on `text`.
pub fn lex_out(text: &str) -> Sexp {
    match verif_hooks::lex_tokens(text) {
        Ok(tokens) => {
            let mut v = vec![atom("ok")];
            v.extend(tokens.iter().map(token_sexp));
            list(v)
        }
        Err(_) => tagged("err", vec![]),
    }
}

/// Emit one `(lex "text")` case.
pub fn lex_case(ctx: &mut Ctx, text: &str) {
    let t = text.to_string();
    ctx.case(tagged("lex", vec![st(text)]), move || lex_out(&t));
}

/// All strings over `alphabet` of length exactly `len`, in lexicographic index order.
pub fn all_strings(alphabet: &[char], len: usize, f: &mut impl FnMut(&str)) {
    let mut idx = vec![0usize; len];
    let mut s = String::new();
    loop {
        s.clear();
        s.extend(idx.iter().map(|&i| alphabet[i]));
        f(&s);
        let mut k = len;
        loop {
            if k == 0 {
                return;
            }
            k -= 1;
            idx[k] += 1;
            if idx[k] < alphabet.len() {
                break;
            }
            idx[k] = 0;
        }
    }
}
