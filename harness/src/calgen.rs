//! Shared by C17 / C18: calibration alphabets as Quil text (parsed by the real parser, one definition or
//! body instruction at a time) and seeded random calibration sets / programs over them.
//!
//! Two groups of gate names keep the C17 generator from ever producing a calibration set whose expansion
//! grows without repeating an instruction (that input — property C18's known finding — overflows the stack
//! of the process it runs in, so only C18's child-process harness may generate it):
//!
//! * group A = `RX`, `RY`, `U2`, `U3` (ranks 0, 1, 2, 3): a calibration for a group-A name may use ARITHMETIC on its
//!   parameter variables (`%t+1`, `2*%t`, …) but only invokes group-A gates of strictly higher rank, or
//!   group-B gates;
//! * group B = `X`, `Y`, `CZ`, `RZ`, `MEASURE`: calibrations for these may invoke any group-B gate (so
//!   self- and mutual recursion occur) but pass parameters on only as a bare variable or a literal.
//!
//! Every cycle of the "invokes" graph therefore lies inside group B, where no new parameter expression is
//! ever built: the set of reachable instructions is finite and a cycle is reported as `RecursiveCalibration`.
use crate::rng::Rng;
use quil_rs::instruction::Instruction;
use quil_rs::Program;
use std::str::FromStr;

/// (name, number of parameters, number of qubits, group-A rank or None for group B)
pub const GATES: [(&str, usize, usize, Option<u32>); 8] = [
    ("RX", 1, 1, Some(0)),
    ("RY", 1, 1, Some(1)),
    ("U2", 2, 1, Some(2)),
    // three parameters: every order of literal and variable parameters occurs (`U3(0, %u, 1)`, `U3(%t, 2, %v)` …)
    ("U3", 3, 1, Some(3)),
    ("X", 0, 1, None),
    ("Y", 0, 1, None),
    ("CZ", 0, 2, None),
    ("RZ", 1, 1, None),
];

pub const LITERALS: [&str; 8] = ["0", "1", "2", "0.5", "pi", "pi/2", "1.5707963267948966", "3"];
pub const QVARS: [&str; 3] = ["q", "r", "s"];
pub const PVARS: [&str; 3] = ["t", "u", "v"];

/// Parse a Quil text with the real parser into the instruction list of the resulting program. A text that
/// does not parse is a bug of the generator: say so loudly (the harness silences panics) and stop.
pub fn parse_all(text: &str) -> Vec<Instruction> {
    match Program::from_str(text) {
        Ok(p) => p.to_instructions(),
        Err(e) => {
            eprintln!("calgen: generated text does not parse: {text:?}: {e}");
            std::process::exit(3);
        }
    }
}

/// Parse a text holding exactly one instruction (a whole DEFCAL counts as one).
pub fn one(text: &str) -> Instruction {
    let v = parse_all(text);
    if v.len() != 1 {
        eprintln!("calgen: not exactly one instruction: {text:?}");
        std::process::exit(3);
    }
    v.into_iter().next().unwrap()
}

#[derive(Clone, Copy, PartialEq)]
pub enum Mode {
    /// C17: only sets whose reachable instruction set is finite (see the module comment)
    Safe,
    /// C18: anything, including arithmetic in self-invocations
    Wild,
}

/// The identifier of a generated calibration, kept so that bodies and programs can invoke it on purpose.
#[derive(Clone)]
pub struct Header {
    /// `None`: a DEFCAL MEASURE
    pub gate: Option<(&'static str, Option<u32>)>,
    /// measurement name suffix ("" or "!alt")
    pub mname: &'static str,
    pub modifier: &'static str,
    /// parameter texts (`%t` or a literal)
    pub params: Vec<String>,
    /// qubit texts (a variable name or a number)
    pub qubits: Vec<String>,
    pub formal: Option<&'static str>,
}

pub struct Ctx<'a> {
    /// the calibrations of the program under construction
    pub headers: &'a [Header],
    /// qubit variables in scope
    pub qvars: Vec<&'a str>,
    /// parameter variables in scope
    pub pvars: Vec<&'a str>,
    /// the formal target of the enclosing DEFCAL MEASURE
    pub formal: Option<&'a str>,
    /// rank of the enclosing group-A calibration; None: group B / top level
    pub rank: Option<u32>,
    pub top_level: bool,
    pub mode: Mode,
}

fn qubit(rng: &mut Rng, cx: &Ctx) -> String {
    if !cx.qvars.is_empty() && rng.chance(2, 3) {
        format!("{}", rng.pick(&cx.qvars))
    } else if !cx.top_level && rng.chance(1, 25) {
        // a variable that is NOT bound by the enclosing calibration stays as written
        "w".to_string()
    } else {
        format!("{}", rng.below(3))
    }
}

/// an expression for a non-gate position (pulse parameter, phase, duration): arithmetic is always harmless
fn expr(rng: &mut Rng, cx: &Ctx) -> String {
    let v = if cx.pvars.is_empty() { None } else { Some(*rng.pick(&cx.pvars)) };
    match (v, rng.below(8)) {
        (Some(v), 0) => format!("%{v}"),
        (Some(v), 1) => format!("%{v}+1"),
        (Some(v), 2) => format!("2*%{v}"),
        (Some(v), 3) => format!("%{v}/2"),
        (Some(v), 4) => format!("-%{v}"),
        (Some(v), 5) => format!("cos(%{v})*theta[0]"),
        (_, 6) => "theta[0]".to_string(),
        _ => rng.pick(&LITERALS).to_string(),
    }
}

/// a gate parameter: arithmetic on variables only when `arith`
fn gate_param(rng: &mut Rng, cx: &Ctx, arith: bool) -> String {
    let v = if cx.pvars.is_empty() { None } else { Some(*rng.pick(&cx.pvars)) };
    match (v, rng.below(7)) {
        (Some(v), 0) | (Some(v), 1) => format!("%{v}"),
        (Some(v), 2) if arith => format!("%{v}+1"),
        (Some(v), 3) if arith => format!("2*%{v}"),
        (Some(v), 4) if arith => format!("%{v}-1"),
        (None, 2) if cx.top_level => "1+1".to_string(),
        (None, 3) if cx.top_level => "2*0.5".to_string(),
        (_, 5) if rng.chance(1, 4) => "theta[0]".to_string(),
        _ => rng.pick(&LITERALS).to_string(),
    }
}

fn is_number(t: &str) -> bool {
    t.chars().all(|c| c.is_ascii_digit())
}

/// may a body in context `cx` invoke a gate of group/rank `g`?  (module comment; anything goes at top level
/// and in `Mode::Wild`)
fn may_invoke(cx: &Ctx, g: Option<u32>) -> bool {
    match (cx.mode, cx.top_level, cx.rank, g) {
        (Mode::Wild, _, _, _) | (_, true, _, _) => true,
        (_, _, Some(r), Some(gr)) => gr > r,
        (_, _, Some(_), None) => true,
        (_, _, None, Some(_)) => false,
        (_, _, None, None) => true,
    }
}

/// An instruction built to match calibration `h` (most of the time): fixed qubits and literal parameters are
/// copied, variables are instantiated from the context.
fn invoke(rng: &mut Rng, cx: &Ctx, h: &Header) -> String {
    let qubits: Vec<String> = h
        .qubits
        .iter()
        .map(|q| if is_number(q) && rng.chance(5, 6) { q.clone() } else { qubit(rng, cx) })
        .collect();
    match h.gate {
        Some((name, grp)) => {
            let arith = cx.mode == Mode::Wild || cx.top_level || (cx.rank.is_some() && grp.is_some());
            let params: Vec<String> = h
                .params
                .iter()
                .map(|p| if !p.starts_with('%') && rng.chance(5, 6) { p.clone() } else { gate_param(rng, cx, arith) })
                .collect();
            let modifier = if rng.chance(11, 12) { h.modifier } else { "DAGGER " };
            if params.is_empty() {
                format!("{modifier}{name} {}", qubits.join(" "))
            } else {
                format!("{modifier}{name}({}) {}", params.join(", "), qubits.join(" "))
            }
        }
        None => {
            // mostly the calibration's own name; sometimes another one (a named calibration delegating to the
            // unnamed measurement and vice versa: equal up to the name only)
            let name = if rng.chance(5, 6) { h.mname } else { *rng.pick(&MNAMES) };
            if h.formal.is_some() && rng.chance(9, 10) {
                format!("MEASURE{name} {} {}", qubits[0], target(rng, cx))
            } else {
                format!("MEASURE{name} {}", qubits[0])
            }
        }
    }
}

/// a gate or measurement aimed at one of the program's calibrations, if the discipline allows any
fn invoke_some(rng: &mut Rng, cx: &Ctx) -> Option<String> {
    let allowed: Vec<&Header> = cx
        .headers
        .iter()
        .filter(|h| match h.gate {
            Some((_, grp)) => may_invoke(cx, grp),
            None => may_invoke(cx, None),
        })
        .collect();
    if allowed.is_empty() {
        return None;
    }
    let h = *rng.pick(&allowed);
    Some(invoke(rng, cx, h))
}

pub fn gate(rng: &mut Rng, cx: &Ctx) -> String {
    // which names may be invoked here
    let allowed: Vec<&(&str, usize, usize, Option<u32>)> = GATES
        .iter()
        .filter(|g| match (cx.mode, cx.top_level, cx.rank, g.3) {
            (Mode::Wild, _, _, _) | (_, true, _, _) => true,
            (_, _, Some(r), Some(gr)) => gr > r,
            (_, _, Some(_), None) => true,
            (_, _, None, Some(_)) => false,
            (_, _, None, None) => true,
        })
        .collect();
    let g = **rng.pick(&allowed);
    // arithmetic allowed when invoking a group-A gate from group A (rank strictly increases) or anywhere in Wild
    let arith = cx.mode == Mode::Wild || cx.top_level || (cx.rank.is_some() && g.3.is_some());
    let params: Vec<String> = (0..g.1).map(|_| gate_param(rng, cx, arith)).collect();
    let qubits: Vec<String> = (0..g.2).map(|_| qubit(rng, cx)).collect();
    let modifier = if rng.chance(1, 12) { "DAGGER " } else { "" };
    if params.is_empty() {
        format!("{modifier}{} {}", g.0, qubits.join(" "))
    } else {
        format!("{modifier}{}({}) {}", g.0, params.join(", "), qubits.join(" "))
    }
}

fn target(rng: &mut Rng, cx: &Ctx) -> String {
    match cx.formal {
        Some(f) if rng.chance(3, 5) => format!("{f}[{}]", rng.below(2)),
        _ => {
            if rng.chance(1, 2) {
                format!("ro[{}]", rng.below(3))
            } else {
                format!("other[{}]", rng.below(2))
            }
        }
    }
}

/// measurement names: mostly unnamed, sometimes `MEASURE!alt` / `MEASURE!fast`
pub const MNAMES: [&str; 8] = ["", "", "", "", "", "!alt", "!alt", "!fast"];

pub fn measure(rng: &mut Rng, cx: &Ctx) -> String {
    let name = *rng.pick(&MNAMES);
    if rng.chance(3, 4) {
        format!("MEASURE{name} {} {}", qubit(rng, cx), target(rng, cx))
    } else {
        format!("MEASURE{name} {}", qubit(rng, cx))
    }
}

/// One body instruction (of a calibration, or of the program when `cx.top_level`).
pub fn body_instruction(rng: &mut Rng, cx: &Ctx) -> String {
    if rng.chance(if cx.top_level { 3 } else { 2 }, 5) {
        if let Some(t) = invoke_some(rng, cx) {
            return t;
        }
    }
    let k = rng.below(TEMPLATES);
    body_template(rng, cx, k)
}

/// number of instruction templates of `body_template`
pub const TEMPLATES: u64 = 40;

/// The `k`-th instruction template instantiated in context `cx` (qubits, expressions and targets drawn from
/// the context): every instruction kind the substitution touches, every kind `add_instruction` hoists that the
/// parser accepts inside a calibration body, and classical / control instructions.
pub fn body_template(rng: &mut Rng, cx: &Ctx, k: u64) -> String {
    let q = qubit(rng, cx);
    match k {
        0..=11 => gate(rng, cx),
        12 | 13 | 14 => measure(rng, cx),
        15 => format!("PULSE {q} \"xy\" gaussian(duration: {}, fwhm: 2, t0: 3)", expr(rng, cx)),
        16 => format!("NONBLOCKING PULSE {q} {} \"cz\" flat(duration: 1, iq: {})", qubit(rng, cx), expr(rng, cx)),
        17 => format!("SHIFT-PHASE {q} \"xy\" {}", expr(rng, cx)),
        18 => format!("SET-PHASE {q} \"xy\" {}", expr(rng, cx)),
        19 => format!("SET-FREQUENCY {q} \"xy\" {}", expr(rng, cx)),
        20 => format!("SET-SCALE {q} \"xy\" {}", expr(rng, cx)),
        21 => format!("SHIFT-FREQUENCY {q} \"xy\" {}", expr(rng, cx)),
        22 => format!("SWAP-PHASES {q} \"xy\" {} \"xy\"", qubit(rng, cx)),
        23 => format!("DELAY {q} {}", expr(rng, cx)),
        24 => format!("DELAY {q} \"xy\" {}", expr(rng, cx)),
        25 => format!("FENCE {q} {}", qubit(rng, cx)),
        26 => "FENCE".to_string(),
        27 | 28 => format!("CAPTURE {q} \"ro_rx\" flat(duration: {}, iq: 1) {}", expr(rng, cx), target(rng, cx)),
        29 => format!("RAW-CAPTURE {q} \"ro_rx\" {} {}", expr(rng, cx), target(rng, cx)),
        30 => format!("RESET {q}"),
        31 => "RESET".to_string(),
        32 => rng
            .pick(&[
                "DECLARE a BIT[2]",
                "DECLARE b REAL[1]",
                "DECLARE ro BIT[2]",
                "DECLARE a INTEGER[1]",
                "DECLARE c BIT[2] SHARING ro OFFSET 1 BIT",
            ])
            .to_string(),
        33 => rng.pick(&["NOP", "WAIT", "HALT", "JUMP @end", "LABEL @end"]).to_string(),
        34 => match cx.formal {
            Some(f) if rng.chance(1, 2) => match rng.below(4) {
                // only the exact name LOAD-MEMORY with exactly the formal name as data is rewritten
                0 => format!("PRAGMA load-memory \"{f}\""),
                1 => format!("PRAGMA LOAD-MEMORY x 1 \"{f}\""),
                2 => format!("PRAGMA LOAD-MEMORY \"{f}[0]\""),
                _ => format!("PRAGMA LOAD-MEMORY \"{f}\""),
            },
            _ => rng.pick(&["PRAGMA LOAD-MEMORY \"other\"", "PRAGMA FOO bar 1", "PRAGMA LOAD-MEMORY"]).to_string(),
        },
        35 => rng
            .pick(&[
                "PRAGMA EXTERN f \"INTEGER (x : INTEGER)\"",
                "PRAGMA EXTERN g \"REAL (y : REAL)\"",
                "PRAGMA EXTERN f \"REAL (x : REAL)\"",
                "PRAGMA EXTERN f g \"INTEGER (x : INTEGER)\"",
                "PRAGMA EXTERN",
            ])
            .to_string(),
        36 => format!("MOVE ro[{}] 1", rng.below(2)),
        37 => "ADD theta[0] 1.5".to_string(),
        38 => format!("DELAY {q} 1"),
        _ => gate(rng, cx),
    }
}

/// A use of the formal target name outside CAPTURE / RAW-CAPTURE / MEASURE / PRAGMA LOAD-MEMORY
/// (known finding C17/formal-target-in-other-instructions).
pub fn formal_elsewhere(rng: &mut Rng, formal: &str, q: &str) -> String {
    match rng.below(6) {
        0 => format!("MOVE {formal}[0] 1"),
        1 => format!("SHIFT-PHASE {q} \"xy\" {formal}[0]*2"),
        2 => format!("EXCHANGE {formal}[0] other[0]"),
        3 => format!("JUMP-WHEN @end {formal}[0]"),
        4 => format!("PULSE {q} \"xy\" flat(duration: {formal}[1], iq: 1)"),
        _ => format!("NOT {formal}[0]"),
    }
}

fn defcal_text(header: String, body: Vec<String>) -> String {
    let mut s = header;
    for b in body {
        s.push_str("\n\t");
        s.push_str(&b);
    }
    s
}

/// A random gate-calibration identifier for one of the names of `GATES`.
pub fn random_header(rng: &mut Rng) -> Header {
    let g = *rng.pick(&GATES);
    let params: Vec<String> = (0..g.1)
        .map(|k| {
            if rng.chance(3, 5) {
                // the same variable twice (U2(%t, %t)) is allowed: the later binding wins
                let v = if rng.chance(1, 6) { PVARS[0] } else { PVARS[k % 3] };
                format!("%{v}")
            } else {
                rng.pick(&LITERALS).to_string()
            }
        })
        .collect();
    let qubits: Vec<String> = (0..g.2)
        .map(|k| {
            if rng.chance(1, 2) {
                (if rng.chance(1, 6) { QVARS[0] } else { QVARS[k % 3] }).to_string()
            } else {
                format!("{}", rng.below(3))
            }
        })
        .collect();
    let modifier = if rng.chance(1, 12) { "DAGGER " } else { "" };
    Header { gate: Some((g.0, g.3)), mname: "", modifier, params, qubits, formal: None }
}

/// A random measurement-calibration identifier.
pub fn random_measure_header(rng: &mut Rng) -> Header {
    let mname = *rng.pick(&MNAMES);
    let q = if rng.chance(3, 5) { "q".to_string() } else { format!("{}", rng.below(3)) };
    // the formal target is usually `addr`, sometimes the name of a region the program really declares
    let formal = match rng.below(5) {
        0 => None,
        1 => Some("ro"),
        _ => Some("addr"),
    };
    Header { gate: None, mname, modifier: "", params: vec![], qubits: vec![q], formal }
}

/// The DEFCAL / DEFCAL MEASURE text for `h` with a random body; `elsewhere`: a measurement calibration also
/// uses its formal target in a position the code does not rewrite (known finding).
pub fn defcal_for(rng: &mut Rng, mode: Mode, headers: &[Header], h: &Header, max_body: u64, elsewhere: bool) -> String {
    let qvars: Vec<&str> = h.qubits.iter().filter(|q| !is_number(q)).map(|q| q.as_str()).collect();
    let pvars: Vec<&str> = h.params.iter().filter(|p| p.starts_with('%')).map(|p| &p[1..]).collect();
    let header = match h.gate {
        Some((name, _)) if h.params.is_empty() => format!("DEFCAL {}{name} {}:", h.modifier, h.qubits.join(" ")),
        Some((name, _)) => format!("DEFCAL {}{name}({}) {}:", h.modifier, h.params.join(", "), h.qubits.join(" ")),
        None => match h.formal {
            Some(f) => format!("DEFCAL MEASURE{} {} {f}:", h.mname, h.qubits[0]),
            None => format!("DEFCAL MEASURE{} {}:", h.mname, h.qubits[0]),
        },
    };
    let rank = h.gate.and_then(|g| g.1);
    let cx = Ctx { headers, qvars, pvars, formal: h.formal, rank, top_level: false, mode };
    let n = 1 + rng.below(max_body);
    let mut body: Vec<String> = (0..n).map(|_| body_instruction(rng, &cx)).collect();
    if let (true, Some(f)) = (elsewhere, h.formal) {
        let at = rng.below(body.len() as u64 + 1) as usize;
        body.insert(at, formal_elsewhere(rng, f, &h.qubits[0]));
    }
    defcal_text(header, body)
}

/// A random program as Quil text pieces (each piece parses on its own): declarations, `ncal` calibrations
/// (gate and measurement), `nbody` body instructions.
pub fn random_program_texts(rng: &mut Rng, mode: Mode, ncal: u64, nbody: u64, elsewhere: bool) -> Vec<String> {
    let mut out = vec![];
    for d in ["DECLARE ro BIT[4]", "DECLARE other REAL[2]", "DECLARE theta REAL[1]"] {
        if rng.chance(4, 5) {
            out.push(d.to_string());
        }
    }
    let headers: Vec<Header> =
        (0..ncal).map(|_| if rng.chance(7, 10) { random_header(rng) } else { random_measure_header(rng) }).collect();
    for h in &headers {
        out.push(defcal_for(rng, mode, &headers, h, 3, elsewhere));
    }
    let cx = Ctx { headers: &headers, qvars: vec![], pvars: vec![], formal: None, rank: None, top_level: true, mode };
    for _ in 0..nbody {
        out.push(body_instruction(rng, &cx));
    }
    out
}

/// The instruction list of the pieces, in order: what is handed to `Program::from_instructions`
/// (definitions may repeat a signature: the later one replaces the earlier in place).
pub fn parse_pieces(pieces: &[String]) -> Vec<Instruction> {
    pieces.iter().flat_map(|t| parse_all(t)).collect()
}

/// A random program as an instruction list (see `random_program_texts`).
pub fn random_program(rng: &mut Rng, mode: Mode, ncal: u64, nbody: u64, elsewhere: bool) -> Vec<Instruction> {
    parse_pieces(&random_program_texts(rng, mode, ncal, nbody, elsewhere))
}

/// Kind sweep: ONE calibration whose body is the `k`-th instruction template (with qubit variables `q`, `r`,
/// parameter variables `%t`, `%u` — or, for `measure`, qubit variable `q` and formal target `addr` — in scope),
/// invoked once with distinct fixed qubits / parameters / target.  Run for every `k`, it guarantees that each
/// instruction kind meets each substitution at least once per run, independently of the random streams.
pub fn sweep_case(rng: &mut Rng, k: u64, measure: bool) -> Vec<String> {
    let mut out: Vec<String> =
        ["DECLARE ro BIT[4]", "DECLARE other REAL[2]", "DECLARE theta REAL[1]"].iter().map(|s| s.to_string()).collect();
    let headers: Vec<Header> = vec![];
    if measure {
        let cx = Ctx { headers: &headers, qvars: vec!["q"], pvars: vec![], formal: Some("addr"), rank: None, top_level: false, mode: Mode::Safe };
        let body = vec![body_template(rng, &cx, k), "NOP".to_string()];
        out.push(defcal_text("DEFCAL MEASURE q addr:".to_string(), body));
        out.push("MEASURE 2 other[1]".to_string());
    } else {
        // rank 100: no group-A gate may be invoked from the body, so nothing can grow
        let cx = Ctx { headers: &headers, qvars: vec!["q", "r"], pvars: vec!["t", "u"], formal: None, rank: Some(100), top_level: false, mode: Mode::Safe };
        let body = vec![body_template(rng, &cx, k), "NOP".to_string()];
        out.push(defcal_text("DEFCAL SW(1, %t, %u) q 0 r:".to_string(), body));
        out.push("SW(1, 0.5, theta[0]+1) 2 0 1".to_string());
    }
    out
}

/// Every template once at the top level of a program whose only calibrations match none of them: all are kept,
/// in order (the definitions among them are hoisted).
pub fn sweep_unmatched(rng: &mut Rng) -> Vec<String> {
    let mut out: Vec<String> = vec!["DECLARE ro BIT[4]".to_string(), "DEFCAL SW 7:\n\tNOP".to_string(), "DEFCAL MEASURE 7:\n\tNOP".to_string()];
    let headers: Vec<Header> = vec![];
    let cx = Ctx { headers: &headers, qvars: vec![], pvars: vec![], formal: None, rank: None, top_level: true, mode: Mode::Safe };
    for k in 0..TEMPLATES {
        out.push(body_template(rng, &cx, k));
    }
    out
}
