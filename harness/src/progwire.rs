//! Projection of `quil_rs::Program` and `Instruction` for the program-container properties
//! (C08, C09, C10) — the Rust side of `lean/QV/Shared/Program.lean`.
//!
//! An instruction crosses the wire as `(i <kind> "<key>" <pid> "<text>" (<qubits>))`:
//! * kind  — which arm of `Program::add_instruction` takes it (`ext decl frame wave cal mcal gate circ body`);
//! * key   — the container key, computed INDEPENDENTLY of the implementation's key comparison: region /
//!           waveform / gate / circuit name; for frame identifiers and calibration signatures the printed
//!           identifier plus the Debug rendering of its AST fields (modifiers, name, parameters, qubits /
//!           name, qubit, target); extern name (`S:<name>`) or none (`N`). Every time an identifier is
//!           projected it is also compared with all identifiers seen so far using the implementation's own
//!           `has_signature` / `==`; a disagreement with key equality is counted in `key_mismatches` and
//!           reported as `(keymm n)` — a failure of its own;
//! * pid   — identity of the whole instruction under the real `Instruction: PartialEq`;
//! * text  — `to_quil_or_debug()` (placeholder addresses replaced by their interned number);
//! * qubits — exactly what `Instruction::get_qubits()` returns, in order.
//! One `Proj` (interning tables) is used per case, so ids are small and deterministic.
use crate::wire::*;
use quil_rs::instruction::{
    CalibrationIdentifier, CalibrationSignature, FrameIdentifier, Instruction, MeasureCalibrationIdentifier,
    PragmaArgument, Qubit, QubitPlaceholder, RESERVED_PRAGMA_EXTERN,
};
use quil_rs::quil::Quil;
use quil_rs::Program;
use std::collections::HashSet;

#[derive(Default)]
pub struct Proj {
    instrs: Vec<Instruction>,
    frames: Vec<(String, FrameIdentifier)>,
    cals: Vec<(String, CalibrationIdentifier)>,
    mcals: Vec<(String, MeasureCalibrationIdentifier)>,
    placeholders: Vec<QubitPlaceholder>,
    /// pids whose full projection has already been put on the wire
    sent: Vec<bool>,
    /// full projections of instructions first met while rendering a pid list
    pending: Vec<Sexp>,
    /// calibration definitions whose `get_qubits()` is not identifier qubits ++ body instructions' qubits
    pub cal_qubit_mismatches: u64,
    /// pairs (new identifier, stored identifier) on which the independent key (from the AST fields /
    /// printed identifier) and the implementation's own key equality (`has_signature`, `==`) disagree
    pub key_mismatches: u64,
}

/// Intern `x` by the INDEPENDENT key `ikey`; count every stored element on which the implementation's
/// equality `real_eq` gives a different verdict than key equality. Returns the number of mismatches.
fn intern_checked<T: Clone>(table: &mut Vec<(String, T)>, x: &T, ikey: &str, real_eq: impl Fn(&T, &T) -> bool) -> u64 {
    let mut mism = 0;
    let mut found = false;
    for (k, y) in table.iter() {
        let same_key = k == ikey;
        if same_key != real_eq(y, x) || same_key != real_eq(x, y) {
            mism += 1;
        }
        found |= same_key && real_eq(y, x);
    }
    if !found {
        table.push((ikey.to_string(), x.clone()));
    }
    mism
}

fn intern<T: Clone>(table: &mut Vec<T>, x: &T, eq: impl Fn(&T, &T) -> bool) -> usize {
    if let Some(k) = table.iter().position(|y| eq(y, x)) {
        k
    } else {
        table.push(x.clone());
        table.len() - 1
    }
}

impl Proj {
    pub fn new() -> Self {
        Self::default()
    }

    pub fn qubit(&mut self, q: &Qubit) -> Sexp {
        match q {
            Qubit::Fixed(n) => tagged("f", vec![nat(*n)]),
            Qubit::Variable(s) => tagged("v", vec![st(s.clone())]),
            Qubit::Placeholder(p) => {
                let k = intern(&mut self.placeholders, p, |a, b| a == b);
                tagged("p", vec![nat(k as u64)])
            }
        }
    }

    /// Sorted, duplicate-free rendering of a qubit set (HashSet iteration order never crosses the wire).
    pub fn qubit_set(&mut self, set: &HashSet<Qubit>) -> Sexp {
        let mut v: Vec<(u8, u64, String)> = set
            .iter()
            .map(|q| match q {
                Qubit::Fixed(n) => (0u8, *n, String::new()),
                Qubit::Variable(s) => (1, 0, s.clone()),
                Qubit::Placeholder(p) => (2, intern(&mut self.placeholders, p, |a, b| a == b) as u64, String::new()),
            })
            .collect();
        v.sort();
        list(
            v.into_iter()
                .map(|(t, n, s)| match t {
                    0 => tagged("f", vec![nat(n)]),
                    1 => tagged("v", vec![st(s)]),
                    _ => tagged("p", vec![nat(n)]),
                })
                .collect(),
        )
    }

    fn scrub(&self, mut text: String) -> String {
        for (k, p) in self.placeholders.iter().enumerate() {
            text = text.replace(&format!("{p:?}"), &format!("{{q{k}}}"));
        }
        text
    }

    /// (kind, key) by the same case analysis as `Program::add_instruction` / `ExternPragmaMap::insert`.
    pub fn kind_key(&mut self, i: &Instruction) -> (&'static str, String) {
        match i {
            Instruction::CalibrationDefinition(c) => {
                // independent key: the identifier's AST fields (modifiers, name, parameters, qubits)
                let id = &c.identifier;
                let key = self.scrub(format!(
                    "{} ## {:?} {:?} {:?} {:?}",
                    id.to_quil_or_debug(),
                    id.modifiers,
                    id.name,
                    id.parameters,
                    id.qubits
                ));
                self.key_mismatches += intern_checked(&mut self.cals, id, &key, |a, b| a.has_signature(&b.signature()));
                ("cal", key)
            }
            Instruction::CircuitDefinition(c) => ("circ", c.name.clone()),
            Instruction::FrameDefinition(f) => {
                let id = &f.identifier;
                let key = self.scrub(format!("{} ## {:?} {:?}", id.to_quil_or_debug(), id.name, id.qubits));
                self.key_mismatches += intern_checked(&mut self.frames, id, &key, |a, b| a == b);
                ("frame", key)
            }
            Instruction::Declaration(d) => ("decl", d.name.clone()),
            Instruction::GateDefinition(g) => ("gate", g.name.clone()),
            Instruction::MeasureCalibrationDefinition(c) => {
                let id = &c.identifier;
                let key =
                    self.scrub(format!("{} ## {:?} {:?} {:?}", id.to_quil_or_debug(), id.name, id.qubit, id.target));
                self.key_mismatches += intern_checked(&mut self.mcals, id, &key, |a, b| a.has_signature(&b.signature()));
                ("mcal", key)
            }
            Instruction::WaveformDefinition(w) => ("wave", w.name.clone()),
            Instruction::Pragma(p) if p.name == RESERVED_PRAGMA_EXTERN => (
                "ext",
                match p.arguments.first() {
                    Some(PragmaArgument::Identifier(name)) => format!("S:{name}"),
                    _ => "N".to_string(),
                },
            ),
            _ => ("body", String::new()),
        }
    }

    pub fn instr(&mut self, i: &Instruction) -> Sexp {
        let (pid, full) = self.instr_full(i);
        self.mark_sent(pid);
        full
    }

    fn mark_sent(&mut self, pid: usize) {
        if self.sent.len() <= pid {
            self.sent.resize(pid + 1, false);
        }
        self.sent[pid] = true;
    }

    /// A listing as a list of pids; instructions not yet sent in full are queued for `take_new`.
    pub fn pids(&mut self, is: &[Instruction]) -> Sexp {
        let mut out = Vec::with_capacity(is.len());
        for i in is {
            let (pid, full) = self.instr_full(i);
            if !self.sent.get(pid).copied().unwrap_or(false) {
                self.mark_sent(pid);
                self.pending.push(full);
            }
            out.push(nat(pid as u64));
        }
        list(out)
    }

    /// `(keymm <n>)`: how often the independent key and the implementation's key equality disagreed
    pub fn key_report(&self) -> Sexp {
        tagged("keymm", vec![nat(self.key_mismatches)])
    }

    /// `(new <full projections queued by pids()>)`
    pub fn take_new(&mut self) -> Sexp {
        tagged("new", std::mem::take(&mut self.pending))
    }

    fn instr_full(&mut self, i: &Instruction) -> (usize, Sexp) {
        // structural clause of "the qubits an instruction mentions": a calibration definition mentions
        // its identifier's qubits and everything its body instructions mention
        let expected: Option<Vec<&Qubit>> = match i {
            Instruction::CalibrationDefinition(c) => {
                Some(c.identifier.qubits.iter().chain(c.instructions.iter().flat_map(|b| b.get_qubits())).collect())
            }
            Instruction::MeasureCalibrationDefinition(c) => Some(
                std::iter::once(&c.identifier.qubit).chain(c.instructions.iter().flat_map(|b| b.get_qubits())).collect(),
            ),
            _ => None,
        };
        if let Some(e) = expected {
            if e != i.get_qubits() {
                self.cal_qubit_mismatches += 1;
            }
        }
        let qubits: Vec<Sexp> = i.get_qubits().into_iter().map(|q| self.qubit(q)).collect();
        let (kind, key) = self.kind_key(i);
        let pid = intern(&mut self.instrs, i, |a, b| a == b);
        let text = self.scrub(i.to_quil_or_debug());
        (pid, tagged("i", vec![atom(kind), st(key), nat(pid as u64), st(text), list(qubits)]))
    }

    pub fn instrs(&mut self, is: &[Instruction]) -> Sexp {
        list(is.iter().map(|i| self.instr(i)).collect())
    }

    /// Cross-check the keys the program's keyed maps ACTUALLY use (the extern pragma map's iterator and
    /// the pub `IndexMap` fields expose them) against the independent key of the stored value; every
    /// disagreement is a `key-mismatch`.
    pub fn check_map_keys(&mut self, p: &Program) {
        for (k, pragma) in p.extern_pragma_map.clone() {
            let real = match k {
                Some(name) => format!("S:{name}"),
                None => "N".to_string(),
            };
            if self.kind_key(&Instruction::Pragma(pragma)) != ("ext", real) {
                self.key_mismatches += 1;
            }
        }
        for (k, g) in &p.gate_definitions {
            if *k != g.name {
                self.key_mismatches += 1;
            }
        }
        for (k, c) in &p.circuits {
            if *k != c.name {
                self.key_mismatches += 1;
            }
        }
    }

    /// The observable state of a program: copying listing (as pids) and the used-qubit cache.
    pub fn state(&mut self, p: &Program) -> Sexp {
        self.check_map_keys(p);
        let l = p.to_instructions();
        let listing = self.pids(&l);
        let used = self.qubit_set(p.get_used_qubits());
        tagged("state", vec![listing, used])
    }

    /// Program text with placeholder addresses scrubbed.
    pub fn text(&self, p: &Program) -> String {
        self.scrub(p.to_quil_or_debug())
    }
}

// ---------------------------------------------------------------------------------------------
// Instruction pools shared by c08 / c09 / c10
// ---------------------------------------------------------------------------------------------

use crate::progs::{BODY_POOL, DEF_POOL};
use crate::rng::Rng;
use quil_rs::instruction::{Gate, Measurement, Pragma};
use std::str::FromStr;

/// Further single instructions (as Quil text) on top of `progs::DEF_POOL` / `BODY_POOL`: extern pragmas
/// in every key shape, calibrations whose bodies mention qubits the identifier does not (so that the
/// used-qubit cache has something to lose), redefinitions with different qubits, variable qubits,
/// control flow, CALL.
pub const EXTRA_POOL: &[&str] = &[
    "PRAGMA EXTERN",
    "PRAGMA EXTERN foo",
    "PRAGMA EXTERN bar \"INTEGER (y : INTEGER)\"",
    "PRAGMA EXTERN baz \"(z : mut REAL[3])\"",
    "PRAGMA EXTERN \"REAL\"",
    "PRAGMA EXTERNAL foo",
    "PRAGMA extern foo",
    "DEFCAL X 0:\n\tY 7",
    "DEFCAL X 0:\n\tY 13",
    "DEFCAL X 5:\n\tNOP",
    "DEFCAL X 0:\n\tNOP",
    "DEFCAL Y q:\n\tX q\n\tZ 9",
    "DEFCAL Y q:\n\tX q",
    "DEFCAL MEASURE 2 addr:\n\tX 11",
    "DEFCAL MEASURE 2 addr:\n\tX 2",
    "DEFCAL MEASURE 2:\n\tFENCE 2 3",
    // PRAGMA EXTERN in every shape: 0-3 arguments, first argument identifier / integer / none, with and
    // without data string, one name across arities, different names with equal tails (the key is the
    // FIRST argument when it is an identifier, else none)
    "PRAGMA EXTERN foo legacy \"(c : REAL)\"",
    "PRAGMA EXTERN foo 1 \"INTEGER (x : INTEGER)\"",
    "PRAGMA EXTERN bar legacy \"(c : REAL)\"",
    "PRAGMA EXTERN foo legacy",
    "PRAGMA EXTERN foo a b \"(d : BIT)\"",
    "PRAGMA EXTERN foo a b",
    "PRAGMA EXTERN baz 1 2",
    "PRAGMA EXTERN baz legacy \"(c : REAL)\"",
    "PRAGMA EXTERN 1",
    "PRAGMA EXTERN 1 \"INTEGER\"",
    "PRAGMA EXTERN 1 foo \"(c : REAL)\"",
    "PRAGMA EXTERN 1 2 3",
    "PRAGMA EXTERN 2 foo bar \"x\"",
    // one key, values of different shape, in every other keyed container
    "DEFGATE FOO(%t):\n\tcos(%t), 0\n\t0, sin(%t)",
    "DEFGATE FOO AS PERMUTATION:\n\t1, 0",
    "DEFGATE FOO a AS SEQUENCE:\n\tX a",
    "DEFGATE FOO(%t) p q AS PAULI-SUM:\n\tZZ(-%t/4) p q\n\tY(%t/4) p",
    "DEFGATE FOO:\n\t1, 0, 0, 0\n\t0, 1, 0, 0\n\t0, 0, 0, 1\n\t0, 0, 1, 0",
    "DEFWAVEFORM wf(%a, %b):\n\t%a, %b",
    "DEFWAVEFORM wf:\n\t1",
    "DECLARE ro REAL[1]",
    "DECLARE ro INTEGER",
    "DECLARE ro BIT[8] SHARING oct OFFSET 1 BIT",
    "DECLARE ro BIT[8] SHARING oct OFFSET 1 BIT 2 REAL",
    "DEFFRAME 0 \"rf\":\n\tDIRECTION: \"tx\"\n\tINITIAL-FREQUENCY: 1\n\tHARDWARE-OBJECT: \"h\"\n\tSAMPLE-RATE: 2",
    "DEFFRAME 0 \"rf\":\n\tCENTER-FREQUENCY: 3",
    "DEFCIRCUIT BELL:\n\tX 0",
    "DEFCIRCUIT BELL(%a) q:\n\tRX(%a) q",
    "DEFCIRCUIT BELL(%a, %b) a b c:\n\tRX(%a) a\n\tRZ(%b) b\n\tCCNOT a b c",
    // calibrations that a sloppy signature comparison could confuse: identical up to modifiers …
    "DEFCAL X 0 1:\n\tX 22",
    "DEFCAL DAGGER X 0 1:\n\tX 23",
    "DEFCAL CONTROLLED X 0 1:\n\tX 24",
    "DEFCAL DAGGER DAGGER X 0 1:\n\tX 25",
    "DEFCAL DAGGER CONTROLLED X 0 1:\n\tX 26",
    "DEFCAL CONTROLLED DAGGER X 0 1:\n\tX 27",
    "DEFCAL FORKED X 0 1:\n\tX 28",
    "DEFCAL DAGGER X 0:\n\tY 14",
    "DEFCAL CONTROLLED X 0:\n\tY 15",
    "DEFCAL RX(pi) 0:\n\tX 30",
    "DEFCAL DAGGER RX(pi) 0:\n\tX 31",
    // … up to parameters (equal only after simplification / evaluation, not syntactically) …
    "DEFCAL RX(1.5707963267948966) 0:\n\tX 32",
    "DEFCAL RX(2*pi/4) 0:\n\tX 33",
    "DEFCAL RX(0.5*pi) 0:\n\tX 34",
    "DEFCAL RX(%u) 0:\n\tX 35",
    "DEFCAL RX(pi, pi) 0:\n\tX 36",
    "DEFCAL RX 0:\n\tX 37",
    // … up to qubits fixed / variable / order / count …
    "DEFCAL X r:\n\tX r",
    "DEFCAL X 0 q:\n\tX 38",
    "DEFCAL X q 0:\n\tX 39",
    "DEFCAL X q r:\n\tX 40",
    "DEFCAL X 1 0:\n\tX 41",
    "DEFCAL RX(pi) q:\n\tX 42",
    // … measure calibrations: named / unnamed, with / without target, target names, fixed / variable
    "DEFCAL MEASURE 0:\n\tX 43",
    "DEFCAL MEASURE 0 dest:\n\tX 44",
    "DEFCAL MEASURE q:\n\tX 45",
    "DEFCAL MEASURE r addr:\n\tX 46",
    "DEFCAL MEASURE!mid 0 addr:\n\tX 47",
    "DEFCAL MEASURE!mid 0:\n\tX 48",
    "DEFCAL MEASURE!end 0 addr:\n\tX 49",
    // … frames: qubit order and count
    "DEFFRAME 1 0 \"cz\":\n\tDIRECTION: \"tx\"",
    "DEFFRAME 0 \"cz\":\n\tDIRECTION: \"tx\"",
    "DEFFRAME 0 1 \"rf\":\n\tDIRECTION: \"tx\"",
    "X 0 1",
    "DAGGER X 0 1",
    "CONTROLLED X 0 1",
    "RX(pi) 0",
    "DAGGER RX(pi) 0",
    "MEASURE!mid 0 ro[0]",
    "DEFCAL I 6:\n\tI 6",
    "I 6",
    "DEFCAL Z 3:\n\tDECLARE tmp BIT[1]\n\tPULSE 3 \"rf\" wf\n\tH 4",
    "DEFFRAME 5 \"rf\":\n\tDIRECTION: \"tx\"",
    "DEFFRAME 5 \"rf\":\n\tDIRECTION: \"rx\"",
    "DEFGATE SEQ a b AS SEQUENCE:\n\tH a\n\tCNOT a b",
    "DEFGATE SEQ2 a AS SEQUENCE:\n\tX a\n\tSEQ3 a",
    "DEFGATE SEQ3 a AS SEQUENCE:\n\tZ a",
    // sequence definitions that refer to each other in a cycle: expansion is an error
    "DEFGATE CYC a AS SEQUENCE:\n\tCYD a",
    "DEFGATE CYD a AS SEQUENCE:\n\tCYC a",
    "CYC 2",
    "X q",
    "Y 7",
    "Z 3",
    "X 5",
    "Y r",
    "SEQ 0 1",
    "SEQ 4 6",
    "SEQ2 8",
    "MEASURE 2 ro[0]",
    "MEASURE 2",
    "MEASURE q ro[1]",
    "RESET 7",
    "PULSE 5 \"rf\" wf",
    "CAPTURE 5 \"rf\" wf ro[0]",
    "RAW-CAPTURE 0 \"ro_rx\" 1 ro[0]",
    "DELAY 0 \"rf\" 1",
    "SHIFT-PHASE 0 \"rf\" 1",
    "SWAP-PHASES 0 \"rf\" 1 \"rf\"",
    "CALL foo acc[0]",
    "CALL bar acc[1]",
    "LABEL @top",
    "JUMP @top",
    "JUMP-WHEN @top ro[0]",
    "JUMP-UNLESS @top ro[1]",
    "HALT",
];

/// Parse a text holding exactly one instruction WITHOUT depending on any single listing function (the
/// listing functions are what C08-C10 test: a broken one must show up as failing cases, not as an
/// unbuildable pool): copying listing, else consuming listing, else the containers' own views.
pub fn parse_one(text: &str) -> Instruction {
    let p = Program::from_str(text).unwrap_or_else(|e| panic!("pool text does not parse: {text:?}: {e}"));
    let mut candidates: Vec<Vec<Instruction>> = vec![p.to_instructions(), p.clone().into_instructions()];
    let mut parts: Vec<Instruction> = p.extern_pragma_map.to_instructions();
    parts.extend(p.memory_regions.iter().map(|(name, d)| {
        Instruction::Declaration(quil_rs::instruction::Declaration {
            name: name.clone(),
            size: d.size.clone(),
            sharing: d.sharing.clone(),
        })
    }));
    parts.extend(p.frames.to_instructions());
    parts.extend(p.waveforms.iter().map(|(name, definition)| {
        Instruction::WaveformDefinition(quil_rs::instruction::WaveformDefinition {
            name: name.clone(),
            definition: definition.clone(),
        })
    }));
    parts.extend(p.calibrations.iter_calibrations().cloned().map(Instruction::CalibrationDefinition));
    parts.extend(p.calibrations.iter_measure_calibrations().cloned().map(Instruction::MeasureCalibrationDefinition));
    parts.extend(p.gate_definitions.values().cloned().map(Instruction::GateDefinition));
    parts.extend(p.circuits.values().cloned().map(Instruction::CircuitDefinition));
    parts.extend(p.body_instructions().cloned());
    candidates.push(parts);
    candidates
        .into_iter()
        .find(|v| v.len() == 1)
        .unwrap_or_else(|| panic!("pool entry is not one instruction: {text:?}"))
        .pop()
        .unwrap()
}

pub struct Pool {
    pub defs: Vec<Instruction>,
    pub body: Vec<Instruction>,
    /// instructions that cannot be written as Quil text (placeholders) or are built through the API
    pub api: Vec<Instruction>,
}

impl Pool {
    pub fn new() -> Self {
        let mut defs: Vec<Instruction> = DEF_POOL.iter().map(|t| parse_one(t)).collect();
        let mut body: Vec<Instruction> = BODY_POOL.iter().map(|t| parse_one(t)).collect();
        for t in EXTRA_POOL {
            let i = parse_one(t);
            let mut pr = Proj::new();
            if pr.kind_key(&i).0 == "body" {
                body.push(i)
            } else {
                defs.push(i)
            }
        }
        let ph = |k: usize, all: &Vec<QubitPlaceholder>| Qubit::Placeholder(all[k].clone());
        let phs: Vec<QubitPlaceholder> = (0..3).map(|_| QubitPlaceholder::default()).collect();
        // a calibration whose body holds definitions (hoisted into the containers on expansion)
        let mut nested = match parse_one("DEFCAL W 3:\n\tH 4") {
            Instruction::CalibrationDefinition(c) => c,
            _ => unreachable!(),
        };
        nested.instructions.push(parse_one("DEFFRAME 3 \"aux\":\n\tDIRECTION: \"tx\""));
        nested.instructions.push(parse_one("DEFCAL X 0:\n\tY 21"));
        nested.instructions.push(parse_one("DECLARE ro BIT[9]"));
        nested.instructions.push(parse_one("PRAGMA EXTERN foo \"OCTET (x : OCTET)\""));
        defs.push(Instruction::CalibrationDefinition(nested));
        body.push(parse_one("W 3"));
        let api = vec![
            Instruction::Pragma(Pragma::new("EXTERN".into(), vec![PragmaArgument::Integer(3)], Some("INTEGER".into()))),
            Instruction::Pragma(Pragma::new(
                "EXTERN".into(),
                vec![PragmaArgument::Integer(4), PragmaArgument::Identifier("foo".into())],
                None,
            )),
            Instruction::Pragma(Pragma::new(
                "EXTERN".into(),
                vec![PragmaArgument::Identifier("foo".into()), PragmaArgument::Identifier("bar".into())],
                Some("(x : INTEGER)".into()),
            )),
            Instruction::Gate(Gate::new("X", vec![], vec![ph(0, &phs)], vec![]).unwrap()),
            Instruction::Gate(Gate::new("CNOT", vec![], vec![ph(0, &phs), ph(1, &phs)], vec![]).unwrap()),
            Instruction::Gate(Gate::new("H", vec![], vec![ph(2, &phs)], vec![]).unwrap()),
            Instruction::Gate(Gate::new("CZ", vec![], vec![ph(1, &phs), Qubit::Fixed(1)], vec![]).unwrap()),
            Instruction::Measurement(Measurement { name: None, qubit: ph(2, &phs), target: None }),
            // calibrations mentioning the SAME placeholders as the body gates above (API-only shape):
            // resolve_placeholders rewrites the body only, the calibrations keep their placeholders
            {
                let mut c = match parse_one("DEFCAL X 0:\n\tZ 50") {
                    Instruction::CalibrationDefinition(c) => c,
                    _ => unreachable!(),
                };
                c.identifier.qubits = vec![ph(0, &phs)];
                c.instructions.push(Instruction::Gate(Gate::new("Y", vec![], vec![ph(0, &phs)], vec![]).unwrap()));
                Instruction::CalibrationDefinition(c)
            },
            {
                let mut c = match parse_one("DEFCAL H 0:\n\tZ 51") {
                    Instruction::CalibrationDefinition(c) => c,
                    _ => unreachable!(),
                };
                c.instructions.push(Instruction::Gate(Gate::new("Y", vec![], vec![ph(1, &phs)], vec![]).unwrap()));
                Instruction::CalibrationDefinition(c)
            },
            {
                let mut c = match parse_one("DEFCAL MEASURE 0 addr:\n\tZ 52") {
                    Instruction::MeasureCalibrationDefinition(c) => c,
                    _ => unreachable!(),
                };
                c.identifier.qubit = ph(2, &phs);
                c.instructions.push(Instruction::Gate(Gate::new("Y", vec![], vec![ph(2, &phs)], vec![]).unwrap()));
                Instruction::MeasureCalibrationDefinition(c)
            },
        ];
        Pool { defs, body, api }
    }

    /// A random history: `n` instructions, definitions with probability `def_pct` %, drawn with
    /// repetition so that keys repeat; API-built instructions (placeholders) only if `with_api`.
    pub fn history(&self, rng: &mut Rng, n: u64, def_pct: u64, with_api: bool) -> Vec<Instruction> {
        // a per-history sub-pool of definitions makes repeated keys likely
        let sub: Vec<&Instruction> = (0..(2 + rng.below(10))).map(|_| rng.pick(&self.defs)).collect();
        (0..n)
            .map(|_| {
                if with_api && rng.chance(1, 10) {
                    rng.pick(&self.api).clone()
                } else if rng.chance(def_pct, 100) {
                    if rng.chance(2, 3) {
                        (*rng.pick(&sub)).clone()
                    } else {
                        rng.pick(&self.defs).clone()
                    }
                } else {
                    rng.pick(&self.body).clone()
                }
            })
            .collect()
    }
}

/// `Pool::new()` with the panic message printed (the harness installs a silent panic hook).
pub fn pool_or_exit() -> Pool {
    match std::panic::catch_unwind(Pool::new) {
        Ok(p) => p,
        Err(e) => {
            let msg = e.downcast_ref::<String>().cloned().or_else(|| e.downcast_ref::<&str>().map(|s| s.to_string()));
            eprintln!("instruction pool could not be built: {}", msg.unwrap_or_else(|| "panic".into()));
            std::process::exit(3);
        }
    }
}

impl Pool {
    /// A long history (64-300 instructions) over few keys: many redefinitions per key.
    pub fn long_history(&self, rng: &mut Rng) -> Vec<Instruction> {
        let n = 64 + rng.below(237);
        let sub: Vec<&Instruction> = (0..(6 + rng.below(20))).map(|_| rng.pick(&self.defs)).collect();
        (0..n)
            .map(|_| if rng.chance(4, 5) { (*rng.pick(&sub)).clone() } else { rng.pick(&self.body).clone() })
            .collect()
    }
}

impl Default for Pool {
    fn default() -> Self {
        Self::new()
    }
}
