use crate::Ctx;

pub mod c07;

pub fn run(prop: &str, ctx: &mut Ctx) -> bool {
    match prop {
        "C07" => c07::run(ctx),
        _ => return false,
    }
    true
}
