//! Canonical s-expression wire format (see /verif/lean/QV/Wire.lean).
use std::fmt;

#[derive(Clone, Debug, PartialEq)]
pub enum Sexp {
    Atom(String),
    Str(String),
    List(Vec<Sexp>),
}

pub fn atom(s: impl Into<String>) -> Sexp {
    Sexp::Atom(s.into())
}
pub fn st(s: impl Into<String>) -> Sexp {
    Sexp::Str(s.into())
}
pub fn list(v: Vec<Sexp>) -> Sexp {
    Sexp::List(v)
}
/// `(tag a b c)`
pub fn tagged(tag: &str, mut rest: Vec<Sexp>) -> Sexp {
    let mut v = vec![atom(tag)];
    v.append(&mut rest);
    Sexp::List(v)
}
pub fn nat(n: u64) -> Sexp {
    atom(n.to_string())
}
pub fn int(n: i64) -> Sexp {
    atom(n.to_string())
}
/// f64 as the 16 hex digits of its IEEE-754 bits.
pub fn f64bits(x: f64) -> Sexp {
    atom(format!("x{:016x}", x.to_bits()))
}
pub fn boolean(b: bool) -> Sexp {
    atom(if b { "true" } else { "false" })
}

impl fmt::Display for Sexp {
    fn fmt(&self, f: &mut fmt::Formatter<'_>) -> fmt::Result {
        match self {
            Sexp::Atom(a) => {
                debug_assert!(!a.is_empty() && !a.contains([' ', '(', ')', '"', '\n', '\t', '\r']));
                write!(f, "{a}")
            }
            Sexp::Str(s) => {
                write!(f, "\"")?;
                for c in s.chars() {
                    match c {
                        '\\' => write!(f, "\\\\")?,
                        '"' => write!(f, "\\\"")?,
                        '\n' => write!(f, "\\n")?,
                        '\r' => write!(f, "\\r")?,
                        '\t' => write!(f, "\\t")?,
                        c if (c as u32) < 32 || c as u32 == 127 => write!(f, "\\u{{{:x}}}", c as u32)?,
                        c => write!(f, "{c}")?,
                    }
                }
                write!(f, "\"")
            }
            Sexp::List(xs) => {
                write!(f, "(")?;
                for (i, x) in xs.iter().enumerate() {
                    if i > 0 {
                        write!(f, " ")?;
                    }
                    write!(f, "{x}")?;
                }
                write!(f, ")")
            }
        }
    }
}
