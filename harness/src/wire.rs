//! Canonical s-expression wire format (see /verif/lean/QV/Wire.lean).
use std::fmt;

#[derive(Clone, Debug, PartialEq)]
pub enum Sexp {
    Atom(String),
    Str(String),
    List(Vec<Sexp>),
}

pub fn atom(s: impl Into<String>) -> Sexp {
    Sexp::Atom(s.into())
}
pub fn st(s: impl Into<String>) -> Sexp {
    Sexp::Str(s.into())
}
pub fn list(v: Vec<Sexp>) -> Sexp {
    Sexp::List(v)
}
/// `(tag a b c)`
pub fn tagged(tag: &str, mut rest: Vec<Sexp>) -> Sexp {
    let mut v = vec![atom(tag)];
    v.append(&mut rest);
    Sexp::List(v)
}
pub fn nat(n: u64) -> Sexp {
    atom(n.to_string())
}
pub fn int(n: i64) -> Sexp {
    atom(n.to_string())
}
/// f64 as the 16 hex digits of its IEEE-754 bits.
pub fn f64bits(x: f64) -> Sexp {
    atom(format!("x{:016x}", x.to_bits()))
}
pub fn boolean(b: bool) -> Sexp {
    atom(if b { "true" } else { "false" })
}

impl fmt::Display for Sexp {
    fn fmt(&self, f: &mut fmt::Formatter<'_>) -> fmt::Result {
        match self {
            Sexp::Atom(a) => {
                debug_assert!(!a.is_empty() && !a.contains([' ', '(', ')', '"', '\n', '\t', '\r']));
                write!(f, "{a}")
            }
            Sexp::Str(s) => {
                write!(f, "\"")?;
                for c in s.chars() {
                    match c {
                        '\\' => write!(f, "\\\\")?,
                        '"' => write!(f, "\\\"")?,
                        '\n' => write!(f, "\\n")?,
                        '\r' => write!(f, "\\r")?,
                        '\t' => write!(f, "\\t")?,
                        c if (c as u32) < 32 || c as u32 == 127 => write!(f, "\\u{{{:x}}}", c as u32)?,
                        c => write!(f, "{c}")?,
                    }
                }
                write!(f, "\"")
            }
            Sexp::List(xs) => {
                write!(f, "(")?;
                for (i, x) in xs.iter().enumerate() {
                    if i > 0 {
                        write!(f, " ")?;
                    }
                    write!(f, "{x}")?;
                }
                write!(f, ")")
            }
        }
    }
}

/// Parse one s-expression (the inverse of `Display`). Returns None on malformed input.
pub fn parse_sexp(s: &str) -> Option<Sexp> {
    let cs: Vec<char> = s.chars().collect();
    let mut i = 0;
    let r = parse_one(&cs, &mut i)?;
    Some(r)
}

fn skip_ws(cs: &[char], i: &mut usize) {
    while *i < cs.len() && matches!(cs[*i], ' ' | '\t' | '\n' | '\r') {
        *i += 1;
    }
}

fn parse_one(cs: &[char], i: &mut usize) -> Option<Sexp> {
    skip_ws(cs, i);
    if *i >= cs.len() {
        return None;
    }
    match cs[*i] {
        '(' => {
            *i += 1;
            let mut xs = Vec::new();
            loop {
                skip_ws(cs, i);
                if *i >= cs.len() {
                    return None;
                }
                if cs[*i] == ')' {
                    *i += 1;
                    return Some(Sexp::List(xs));
                }
                xs.push(parse_one(cs, i)?);
            }
        }
        ')' => None,
        '"' => {
            *i += 1;
            let mut out = String::new();
            loop {
                if *i >= cs.len() {
                    return None;
                }
                let c = cs[*i];
                *i += 1;
                match c {
                    '"' => return Some(Sexp::Str(out)),
                    '\\' => {
                        let d = *cs.get(*i)?;
                        *i += 1;
                        match d {
                            'n' => out.push('\n'),
                            'r' => out.push('\r'),
                            't' => out.push('\t'),
                            '\\' => out.push('\\'),
                            '"' => out.push('"'),
                            'u' => {
                                if *cs.get(*i)? != '{' {
                                    return None;
                                }
                                *i += 1;
                                let mut v = 0u32;
                                loop {
                                    let h = *cs.get(*i)?;
                                    *i += 1;
                                    if h == '}' {
                                        break;
                                    }
                                    v = v * 16 + h.to_digit(16)?;
                                }
                                out.push(char::from_u32(v)?);
                            }
                            _ => return None,
                        }
                    }
                    c => out.push(c),
                }
            }
        }
        _ => {
            let start = *i;
            while *i < cs.len() && !matches!(cs[*i], ' ' | '(' | ')' | '"' | '\n' | '\t' | '\r') {
                *i += 1;
            }
            Some(Sexp::Atom(cs[start..*i].iter().collect()))
        }
    }
}
