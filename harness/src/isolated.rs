//! Child-process isolation for properties that are *about* crashes (C01, C18): stack overflows and
//! aborts cannot be caught by `catch_unwind`, so the real code runs in a persistent child process
//! (the same binary re-executed with `--child`). The parent sends one payload s-expression per
//! line and reads one output line back; if the child dies or times out, the outcome of that input
//! is `(abort "<status>")` / `(timeout)` and a fresh child is started for the next input.
use crate::wire::{parse_sexp, st, tagged, Sexp};
use std::io::{BufRead, BufReader, Write};
use std::process::{Child, ChildStdin, Command, Stdio};
use std::sync::mpsc::{channel, Receiver};
use std::time::Duration;

pub struct Isolated {
    child: Option<(Child, ChildStdin, Receiver<String>)>,
    timeout: Duration,
    pub respawns: u64,
}

impl Isolated {
    pub fn new(timeout: Duration) -> Self {
        Isolated { child: None, timeout, respawns: 0 }
    }

    fn spawn(&mut self) {
        let exe = std::env::current_exe().expect("current_exe");
        let mut child = Command::new(exe)
            .arg("--child")
            .stdin(Stdio::piped())
            .stdout(Stdio::piped())
            .stderr(Stdio::null())
            .spawn()
            .expect("spawn child");
        let stdin = child.stdin.take().unwrap();
        let stdout = child.stdout.take().unwrap();
        let (tx, rx) = channel();
        std::thread::spawn(move || {
            for line in BufReader::new(stdout).lines() {
                match line {
                    Ok(l) => {
                        if tx.send(l).is_err() {
                            break;
                        }
                    }
                    Err(_) => break,
                }
            }
        });
        self.child = Some((child, stdin, rx));
        self.respawns += 1;
    }

    /// Run the child handler on `payload`; never panics, never hangs longer than the timeout.
    pub fn call(&mut self, payload: &Sexp) -> Sexp {
        if self.child.is_none() {
            self.spawn();
        }
        let (child, stdin, rx) = self.child.as_mut().unwrap();
        let sent = writeln!(stdin, "{payload}").and_then(|_| stdin.flush());
        let result = if sent.is_err() { Err(false) } else { rx.recv_timeout(self.timeout).map_err(|e| e == std::sync::mpsc::RecvTimeoutError::Timeout) };
        match result {
            Ok(line) => parse_sexp(&line).unwrap_or_else(|| tagged("garbled", vec![st(line)])),
            Err(timed_out) => {
                if timed_out {
                    let _ = child.kill();
                }
                let status = child.wait().map(|s| format!("{s}")).unwrap_or_else(|e| format!("{e}"));
                self.child = None;
                if timed_out {
                    tagged("timeout", vec![])
                } else {
                    tagged("abort", vec![st(status)])
                }
            }
        }
    }
}

impl Drop for Isolated {
    fn drop(&mut self) {
        if let Some((mut child, stdin, _)) = self.child.take() {
            drop(stdin);
            let _ = child.kill();
            let _ = child.wait();
        }
    }
}

/// Child side: read payload lines on stdin, answer one line each. A panic is an outcome too.
pub fn child_loop(handler: impl Fn(&Sexp) -> Sexp) {
    std::panic::set_hook(Box::new(|_| {}));
    let stdin = std::io::stdin();
    let stdout = std::io::stdout();
    for line in stdin.lock().lines() {
        let Ok(line) = line else { break };
        let out = match parse_sexp(&line) {
            Some(p) => match std::panic::catch_unwind(std::panic::AssertUnwindSafe(|| handler(&p))) {
                Ok(s) => s,
                Err(e) => {
                    let msg = if let Some(s) = e.downcast_ref::<&str>() {
                        s.to_string()
                    } else if let Some(s) = e.downcast_ref::<String>() {
                        s.clone()
                    } else {
                        "panic".to_string()
                    };
                    tagged("crash", vec![st(msg)])
                }
            },
            None => tagged("garbled-payload", vec![]),
        };
        let mut o = stdout.lock();
        let _ = writeln!(o, "{out}");
        let _ = o.flush();
    }
}
