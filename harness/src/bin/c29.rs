//! C29 — gate depth equals the longest chain of qualifying gates.
//!
//! Each case builds a block from quil-rs's own instruction types, constructs the REAL
//! `QubitGraph` (`QubitGraph::try_from_basic_block`), and prints its node count and edge list (hook
//! `verif_hooks::c29::edges`), `gate_depth(k)` for k = 0..4, and the raw `path_fold` results (hook
//! `verif_hooks::c29::path_counts`).
use quil_rs::expression::Expression;
use quil_rs::instruction::{
    DefaultHandler, Delay, Fence, Gate, Instruction, Measurement, MemoryReference, Move, ArithmeticOperand, Pragma,
    Qubit, Reset,
};
use quil_rs::program::analysis::{BasicBlock, QubitGraph};
use quil_rs::verif_hooks::c29 as hook;
use quil_rs::Program;
use qvh::*;

/// projection-level description of an instruction
#[derive(Clone, Debug, PartialEq)]
enum I {
    /// gate on the listed qubits (repeats allowed)
    G(Vec<u64>),
    /// MEASURE q
    M(u64),
    /// classical instruction: 0 = NOP, 1 = MOVE ro[0] 1, 2 = unnamed-target MEASURE-less DECLARE-free ADD
    C(u8),
    /// unsupported: 0 = PRAGMA, 1 = DELAY q, 2 = FENCE q, 3 = RESET q
    U(u8, u64),
}

fn qubit(q: u64) -> Qubit {
    Qubit::Fixed(q)
}

fn build(i: &I) -> Instruction {
    match i {
        I::G(qs) => {
            let name = match qs.len() {
                1 => "X",
                2 => "CNOT",
                3 => "CCNOT",
                _ => "BIG",
            };
            Instruction::Gate(Gate::new(name, vec![], qs.iter().map(|q| qubit(*q)).collect(), vec![]).expect("gate"))
        }
        I::M(q) => Instruction::Measurement(Measurement::new(None, qubit(*q), Some(MemoryReference::new("ro".to_string(), 0)))),
        I::C(0) => Instruction::Nop(),
        I::C(_) => Instruction::Move(Move::new(
            MemoryReference::new("ro".to_string(), 0),
            ArithmeticOperand::LiteralInteger(1),
        )),
        I::U(0, _) => Instruction::Pragma(Pragma::new("NAME".to_string(), vec![], None)),
        I::U(1, q) => Instruction::Delay(Delay::new(
            Expression::Number(num_complex::Complex64::new(1.0, 0.0)),
            vec![],
            vec![qubit(*q)],
        )),
        I::U(2, q) => Instruction::Fence(Fence::new(vec![qubit(*q)])),
        I::U(_, q) => Instruction::Reset(Reset::new(Some(qubit(*q)))),
    }
}

fn sexp(i: &I) -> Sexp {
    match i {
        I::G(qs) => tagged("g", qs.iter().map(|q| nat(*q)).collect()),
        I::M(q) => tagged("m", vec![nat(*q)]),
        I::C(_) => tagged("c", vec![]),
        I::U(0, _) => tagged("u", vec![]),
        I::U(_, q) => tagged("u", vec![nat(*q)]),
    }
}

const KS: [usize; 5] = [0, 1, 2, 3, 4];

fn run_case(ctx: &mut Ctx, prog: &[I]) {
    let input = tagged("prog", prog.iter().map(sexp).collect());
    ctx.case(input, || {
        let instructions: Vec<Instruction> = prog.iter().map(build).collect();
        // An empty program has no basic block to convert; `QubitGraph::new` is crate-private, so the
        // empty block is built through the (empty) block of an empty control-flow graph when present.
        let program = Program::from_instructions(instructions);
        let block: BasicBlock = match (&program).try_into() {
            Ok(b) => b,
            Err(_) => return tagged("noblock", vec![]),
        };
        assert_eq!(block.instructions().len(), prog.len());
        let graph = match QubitGraph::try_from_basic_block(&block, &DefaultHandler) {
            Ok(g) => g,
            Err(_) => return tagged("err", vec![]),
        };
        let (n, edges) = hook::edges(&graph);
        let depths: Vec<Sexp> = KS.iter().map(|k| nat(graph.gate_depth(*k) as u64)).collect();
        let paths: Vec<Sexp> = KS
            .iter()
            .map(|k| {
                let mut p = hook::path_counts(&graph, *k);
                if p.len() <= 64 {
                    p.sort();
                    tagged("p", p.into_iter().map(|x| nat(x as u64)).collect())
                } else {
                    tagged("many", vec![nat(p.len() as u64)])
                }
            })
            .collect();
        tagged(
            "ok",
            vec![
                tagged("n", vec![nat(n as u64)]),
                tagged("edges", edges.into_iter().map(|(a, b)| list(vec![nat(a as u64), nat(b as u64)])).collect()),
                tagged("depth", depths),
                tagged("paths", paths),
            ],
        )
    });
}

/// alphabet of the exhaustive stream on `nq` qubits: X q, CNOT a b (a < b), MEASURE q, NOP
fn alphabet(nq: u64) -> Vec<I> {
    let mut v = vec![];
    for q in 0..nq {
        v.push(I::G(vec![q]));
    }
    for a in 0..nq {
        for b in (a + 1)..nq {
            v.push(I::G(vec![a, b]));
        }
    }
    for q in 0..nq {
        v.push(I::M(q));
    }
    v.push(I::C(0));
    v
}

fn all_sequences(ctx: &mut Ctx, alpha: &[I], len: usize) {
    let mut idx = vec![0usize; len];
    loop {
        let prog: Vec<I> = idx.iter().map(|&i| alpha[i].clone()).collect();
        run_case(ctx, &prog);
        let mut k = len;
        loop {
            if k == 0 {
                return;
            }
            k -= 1;
            idx[k] += 1;
            if idx[k] < alpha.len() {
                break;
            }
            idx[k] = 0;
        }
    }
}

fn random_instr(rng: &mut Rng, unsupported: bool) -> I {
    let q = |rng: &mut Rng| if rng.chance(1, 30) { 17 + rng.below(3) } else { rng.below(4) };
    match rng.below(if unsupported { 34 } else { 32 }) {
        0..=8 => I::G(vec![q(rng)]),
        9..=18 => {
            // ordered pair, possibly the same qubit twice
            let a = q(rng);
            let b = if rng.chance(1, 8) { a } else { q(rng) };
            I::G(vec![a, b])
        }
        19..=22 => {
            let a = q(rng);
            let b = if rng.chance(1, 6) { a } else { q(rng) };
            let c = if rng.chance(1, 6) { b } else { q(rng) };
            I::G(vec![a, b, c])
        }
        23 => I::G((0..4 + rng.below(2)).map(|_| rng.below(4)).collect()),
        24..=28 => I::M(q(rng)),
        29..=31 => I::C(rng.below(2) as u8),
        _ => I::U(rng.below(4) as u8, q(rng)),
    }
}

fn main() {
    main_with(run)
}

fn run(ctx: &mut Ctx) {
    let x = |q: u64| I::G(vec![q]);
    let cn = |a: u64, b: u64| I::G(vec![a, b]);
    // 1. corpus: the doc-comment/test programs, repeated qubits, parallel edges, unsupported, empty
    let corpus: Vec<Vec<I>> = vec![
        vec![],
        vec![I::C(0)],
        vec![x(0)],
        vec![cn(0, 1), x(0), x(1)],                      // tree
        vec![x(0), x(1), cn(0, 1)],                      // inverse tree
        vec![x(0), x(0), x(0), x(0)],                    // linear
        vec![cn(0, 1), x(0), x(1), cn(1, 0)],            // diamond
        vec![cn(0, 1), x(0), x(0), x(1), cn(1, 0), x(0)],
        vec![cn(0, 0)],                                  // was a self-loop before fix b174871
        vec![cn(0, 0), x(0)],
        vec![x(0), cn(0, 0), x(0)],                      // did not terminate before fix b174871
        vec![I::G(vec![1, 0, 1]), cn(0, 1), x(1)],
        vec![cn(0, 1), cn(1, 0), cn(0, 1), cn(0, 1)],    // parallel edges
        vec![I::G(vec![0, 1, 2]), I::G(vec![2, 1, 0]), I::G(vec![0, 1, 2])],
        vec![x(0), I::M(0), x(0), I::C(1), I::M(1)],
        vec![x(0), I::U(0, 0)],
        vec![x(0), I::U(1, 0), x(0)],
        vec![I::U(2, 1)],
        vec![x(2), I::U(3, 2)],
        vec![x(17), cn(17, 3), x(3)],
    ];
    for p in &corpus {
        run_case(ctx, p);
    }
    // 2. exhaustive: every sequence over {X q, CNOT a b, MEASURE q, NOP} on four qubits
    let a4 = alphabet(4);
    let a3 = alphabet(3);
    let max4 = if ctx.quick() { 3 } else { 5 };
    for len in 1..=max4 {
        all_sequences(ctx, &a4, len);
    }
    if ctx.quick() {
        // length 4 on three qubits (10 symbols)
        all_sequences(ctx, &a3, 4);
    } else {
        all_sequences(ctx, &a3, 6);
    }
    // 3. seeded random: longer sequences, ordered pairs, repeated qubits, 3+-qubit gates, classical
    //    MOVE, far-away qubits; a fifth of them with an unsupported instruction somewhere
    let n_random = if ctx.quick() { 20_000 } else { 400_000 };
    let mut rng = ctx.rng(29);
    for i in 0..n_random {
        let len = 1 + rng.below(8) as usize;
        let unsupported = i % 5 == 4;
        let prog: Vec<I> = (0..len).map(|_| random_instr(&mut rng, unsupported)).collect();
        run_case(ctx, &prog);
    }
}
