//! C29 — gate depth equals the longest chain of qualifying gates.
//!
//! Each case builds a block from quil-rs's own instruction types, constructs the REAL
//! `QubitGraph` (`QubitGraph::try_from_basic_block`), and prints
//!   * node count and edge list (hook `verif_hooks::c29::edges`), read before AND after all the
//!     `gate_depth` calls,
//!   * `gate_depth(k)` on ONE graph in ascending order k = 0..4, then in descending order, then in a
//!     mixed order with repeats (memoised state on the graph would show), then on a fresh graph per k,
//!   * the raw `path_fold` results (hook `verif_hooks::c29::path_counts`).
//! Routes: single block through `BasicBlock::try_from(&Program)`, blocks of a multi-block program
//! through `ControlFlowGraph::from(&program).into_blocks()`, and three `InstructionHandler`s
//! (default, permissive, strict).  Returned errors are formatted (`{}`, `{:?}`).
use quil_rs::expression::Expression;
use quil_rs::instruction::{
    Arithmetic, ArithmeticOperand, ArithmeticOperator, BinaryLogic, BinaryOperand, BinaryOperator, Comparison,
    ComparisonOperand, ComparisonOperator, Convert, DefaultHandler, Delay, Exchange, Fence, FrameIdentifier, Gate,
    GateModifier, Instruction, InstructionHandler, InstructionRole, Label, Load, Measurement, MemoryReference, Move,
    Pragma, Pulse, Qubit, QubitPlaceholder, Reset, SetPhase, ShiftFrequency, Store, SwapPhases, Target, UnaryLogic,
    UnaryOperator, WaveformInvocation,
};
use quil_rs::program::analysis::{BasicBlock, ControlFlowGraph, QubitGraph};
use quil_rs::verif_hooks::c29 as hook;
use quil_rs::Program;
use qvh::*;

/// a qubit of the harness: fixed index, variable `v<i>`, or the i-th placeholder of the case's pool.
/// Its model key is computed here, never through quil-rs's own `Qubit` equality.
#[derive(Clone, Copy, Debug, PartialEq)]
enum Q {
    F(u64),
    V(u8),
    P(u8),
}
impl Q {
    fn key(self) -> u64 {
        match self {
            Q::F(n) => n,
            Q::V(i) => 1000 + i as u64,
            Q::P(i) => 2000 + i as u64,
        }
    }
}

/// projection-level description of an instruction
#[derive(Clone, Debug, PartialEq)]
enum I {
    /// gate on the listed qubits (repeats allowed); style: 0 plain, 1 DAGGER, 2 CONTROLLED, 3 FORKED with
    /// parameters, 4 parameterised
    G(Vec<Q>, u8),
    /// MEASURE q (with or without a target)
    M(Q, bool),
    /// classical / no-qubit instruction kinds 0..=11
    C(u8),
    /// rejected by the default handler: 0 PRAGMA, 1 DELAY, 2 FENCE, 3 RESET q, 4 SET-PHASE, 5 SHIFT-FREQUENCY,
    /// 6 SWAP-PHASES (two frames), 7 PULSE, 8 RESET (all qubits)
    U(u8, Q, Q),
}

#[derive(Clone, Copy, PartialEq, Debug)]
enum H {
    Default,
    /// everything is ProgramComposition: RF-control and PRAGMA are accepted as ordinary nodes
    Permissive,
    /// MEASURE is RFControl: rejected
    Strict,
}
struct Permissive;
impl InstructionHandler for Permissive {
    fn role(&self, _: &Instruction) -> InstructionRole {
        InstructionRole::ProgramComposition
    }
}
struct Strict;
impl InstructionHandler for Strict {
    fn role(&self, i: &Instruction) -> InstructionRole {
        match i {
            Instruction::Measurement(_) => InstructionRole::RFControl,
            other => DefaultHandler.role(other),
        }
    }
}

struct Pool(Vec<QubitPlaceholder>);
impl Pool {
    fn new() -> Self {
        Pool((0..4).map(|_| QubitPlaceholder::default()).collect())
    }
    fn qubit(&self, q: Q) -> Qubit {
        match q {
            Q::F(n) => Qubit::Fixed(n),
            Q::V(i) => Qubit::Variable(format!("v{i}")),
            Q::P(i) => Qubit::Placeholder(self.0[i as usize % 4].clone()),
        }
    }
}

fn mref() -> MemoryReference {
    MemoryReference::new("ro".to_string(), 0)
}
fn num(x: f64) -> Expression {
    Expression::Number(num_complex::Complex64::new(x, 0.0))
}

fn build(pool: &Pool, i: &I) -> Instruction {
    let frame = |qs: &[Q]| FrameIdentifier::new("f".to_string(), qs.iter().map(|q| pool.qubit(*q)).collect());
    match i {
        I::G(qs, style) => {
            let name = match qs.len() {
                1 => "X",
                2 => "CNOT",
                3 => "CCNOT",
                _ => "BIG",
            };
            let qubits: Vec<Qubit> = qs.iter().map(|q| pool.qubit(*q)).collect();
            let gate = match style {
                1 => Gate::new(name, vec![], qubits, vec![GateModifier::Dagger]),
                2 => Gate::new("X", vec![], qubits, vec![GateModifier::Controlled; qs.len().saturating_sub(1)]),
                3 => Gate::new("RX", vec![num(0.5), num(1.5)], qubits, vec![GateModifier::Forked]),
                4 => Gate::new("RX", vec![num(0.25)], qubits, vec![]),
                _ => Gate::new(name, vec![], qubits, vec![]),
            };
            Instruction::Gate(gate.expect("gate"))
        }
        I::M(q, target) => {
            Instruction::Measurement(Measurement::new(None, pool.qubit(*q), if *target { Some(mref()) } else { None }))
        }
        I::C(k) => match k {
            0 => Instruction::Nop(),
            1 => Instruction::Move(Move::new(mref(), ArithmeticOperand::LiteralInteger(1))),
            2 => Instruction::Arithmetic(Arithmetic::new(
                ArithmeticOperator::Add,
                mref(),
                ArithmeticOperand::LiteralInteger(2),
            )),
            3 => Instruction::Exchange(Exchange::new(mref(), MemoryReference::new("ro".to_string(), 1))),
            4 => Instruction::Convert(Convert::new(mref(), MemoryReference::new("th".to_string(), 0))),
            5 => Instruction::Comparison(Comparison::new(
                ComparisonOperator::Equal,
                mref(),
                MemoryReference::new("ro".to_string(), 1),
                ComparisonOperand::LiteralInteger(1),
            )),
            6 => Instruction::BinaryLogic(BinaryLogic::new(
                BinaryOperator::And,
                mref(),
                BinaryOperand::LiteralInteger(1),
            )),
            7 => Instruction::UnaryLogic(UnaryLogic::new(UnaryOperator::Not, mref())),
            8 => Instruction::Wait(),
            9 => Instruction::Load(Load::new(mref(), "th".to_string(), MemoryReference::new("ro".to_string(), 1))),
            10 => Instruction::Store(Store::new("th".to_string(), mref(), ArithmeticOperand::LiteralInteger(3))),
            _ => Instruction::Move(Move::new(mref(), ArithmeticOperand::LiteralReal(0.5))),
        },
        I::U(k, a, b) => match k {
            0 => Instruction::Pragma(Pragma::new("NAME".to_string(), vec![], None)),
            1 => Instruction::Delay(Delay::new(num(1.0), vec![], vec![pool.qubit(*a)])),
            2 => Instruction::Fence(Fence::new(vec![pool.qubit(*a), pool.qubit(*b)])),
            3 => Instruction::Reset(Reset::new(Some(pool.qubit(*a)))),
            4 => Instruction::SetPhase(SetPhase::new(frame(&[*a]), num(0.5))),
            5 => Instruction::ShiftFrequency(ShiftFrequency::new(frame(&[*a, *b]), num(1e6))),
            6 => Instruction::SwapPhases(SwapPhases::new(frame(&[*a]), frame(&[*b]))),
            7 => Instruction::Pulse(Pulse::new(
                true,
                frame(&[*a]),
                WaveformInvocation::new("w".to_string(), Default::default()),
            )),
            _ => Instruction::Reset(Reset::new(None)),
        },
    }
}

/// the qubits `get_qubits()` is expected to list for an unsupported-by-default instruction
fn u_qubits(k: u8, a: Q, b: Q) -> Vec<Q> {
    match k {
        0 | 8 => vec![],
        2 | 5 | 6 => vec![a, b],
        _ => vec![a],
    }
}

/// projection of `i` as seen through handler `h`
fn sexp(i: &I, h: H) -> Sexp {
    let qs = |v: &[Q]| v.iter().map(|q| nat(q.key())).collect::<Vec<_>>();
    match i {
        I::G(v, _) => tagged("g", qs(v)),
        I::M(q, _) => {
            if h == H::Strict {
                tagged("u", qs(&[*q]))
            } else {
                tagged("m", qs(&[*q]))
            }
        }
        I::C(_) => tagged("c", vec![]),
        I::U(k, a, b) => {
            if h == H::Permissive {
                tagged("c", qs(&u_qubits(*k, *a, *b)))
            } else {
                tagged("u", qs(&u_qubits(*k, *a, *b)))
            }
        }
    }
}

const KS: [usize; 5] = [0, 1, 2, 3, 4];
const MIXED: [usize; 9] = [2, 4, 1, 3, 0, 3, 1, 4, 0];

fn graph_of<'a>(block: &BasicBlock<'a>, h: H) -> Result<QubitGraph<'a>, String> {
    let r = match h {
        H::Default => QubitGraph::try_from_basic_block(block, &DefaultHandler),
        H::Permissive => QubitGraph::try_from_basic_block(block, &Permissive),
        H::Strict => QubitGraph::try_from_basic_block(block, &Strict),
    };
    // format every returned error: a panic in Display/Debug is a crash of the case
    r.map_err(|e| format!("{e} | {e:?} | {}", std::error::Error::source(&e).is_some()))
}

fn observe(block: &BasicBlock, h: H) -> Sexp {
    let graph = match graph_of(block, h) {
        Ok(g) => g,
        Err(_formatted) => return tagged("err", vec![]),
    };
    let (n, edges) = hook::edges(&graph);
    let asc: Vec<Sexp> = KS.iter().map(|k| nat(graph.gate_depth(*k) as u64)).collect();
    let desc: Vec<Sexp> = KS.iter().rev().map(|k| nat(graph.gate_depth(*k) as u64)).collect();
    let mixed: Vec<Sexp> = MIXED.iter().map(|k| nat(graph.gate_depth(*k) as u64)).collect();
    let fresh: Vec<Sexp> = KS
        .iter()
        .map(|k| nat(graph_of(block, h).expect("second construction").gate_depth(*k) as u64))
        .collect();
    // a graph used first with a LARGE threshold, then with small ones
    let g2 = graph_of(block, h).expect("third construction");
    let big_first: Vec<Sexp> = [7usize, 0, 5, 1, 2].iter().map(|k| nat(g2.gate_depth(*k) as u64)).collect();
    // the SET of values `path_fold` produced (how many paths carry a value is not constrained by the
    // property: it depends on whether parallel edges are kept)
    let paths: Vec<Sexp> = KS
        .iter()
        .map(|k| {
            let mut p = hook::path_counts(&graph, *k);
            p.sort();
            p.dedup();
            tagged("pv", p.into_iter().map(|x| nat(x as u64)).collect())
        })
        .collect();
    let (n2, edges2) = hook::edges(&graph);
    assert_eq!((n, &edges), (n2, &edges2), "the graph changed under gate_depth");
    tagged(
        "ok",
        vec![
            tagged("n", vec![nat(n as u64)]),
            tagged("edges", edges.into_iter().map(|(a, b)| list(vec![nat(a as u64), nat(b as u64)])).collect()),
            tagged("depth", asc),
            tagged("paths", paths),
            tagged("desc", desc),
            tagged("mixed", mixed),
            tagged("fresh", fresh),
            tagged("bigfirst", big_first),
        ],
    )
}

fn run_case(ctx: &mut Ctx, prog: &[I], h: H) {
    let input = tagged("prog", prog.iter().map(|i| sexp(i, h)).collect());
    ctx.case(input, || {
        let pool = Pool::new();
        let instructions: Vec<Instruction> = prog.iter().map(|i| build(&pool, i)).collect();
        let program = Program::from_instructions(instructions);
        // An empty program has no basic block (`QubitGraph::new` is crate-private).
        let block: BasicBlock = match (&program).try_into() {
            Ok(b) => b,
            Err(_) => return tagged("noblock", vec![]),
        };
        assert_eq!(block.instructions().len(), prog.len());
        observe(&block, h)
    });
}

/// `A; LABEL @l; B` — the blocks of the control-flow graph, each observed separately
fn run_multi(ctx: &mut Ctx, a: &[I], b: &[I]) {
    let h = H::Default;
    let input = tagged(
        "multi",
        vec![
            tagged("prog", a.iter().map(|i| sexp(i, h)).collect()),
            tagged("prog", b.iter().map(|i| sexp(i, h)).collect()),
        ],
    );
    ctx.case(input, || {
        let pool = Pool::new();
        let mut instructions: Vec<Instruction> = a.iter().map(|i| build(&pool, i)).collect();
        instructions.push(Instruction::Label(Label::new(Target::Fixed("l".to_string()))));
        instructions.extend(b.iter().map(|i| build(&pool, i)));
        let program = Program::from_instructions(instructions);
        let blocks = ControlFlowGraph::from(&program).into_blocks();
        tagged(
            "multi",
            blocks
                .iter()
                .map(|blk| tagged("blk", vec![nat(blk.instructions().len() as u64), observe(blk, h)]))
                .collect(),
        )
    });
}

/// alphabet of the exhaustive stream on `nq` qubits: X q, CNOT a b (a < b), MEASURE q, NOP
fn alphabet(nq: u64) -> Vec<I> {
    let mut v = vec![];
    for q in 0..nq {
        v.push(I::G(vec![Q::F(q)], 0));
    }
    for a in 0..nq {
        for b in (a + 1)..nq {
            v.push(I::G(vec![Q::F(a), Q::F(b)], 0));
        }
    }
    for q in 0..nq {
        v.push(I::M(Q::F(q), true));
    }
    v.push(I::C(0));
    v
}

fn all_sequences(ctx: &mut Ctx, alpha: &[I], len: usize) {
    let mut idx = vec![0usize; len];
    loop {
        let prog: Vec<I> = idx.iter().map(|&i| alpha[i].clone()).collect();
        run_case(ctx, &prog, H::Default);
        let mut k = len;
        loop {
            if k == 0 {
                return;
            }
            k -= 1;
            idx[k] += 1;
            if idx[k] < alpha.len() {
                break;
            }
            idx[k] = 0;
        }
    }
}

fn random_qubit(rng: &mut Rng) -> Q {
    match rng.below(40) {
        0 => Q::F(17 + rng.below(3)),
        1 | 2 => Q::V(rng.below(2) as u8),
        3 | 4 => Q::P(rng.below(3) as u8),
        5 => Q::F(u64::MAX - rng.below(2)),
        _ => Q::F(rng.below(4)),
    }
}

fn random_instr(rng: &mut Rng, unsupported: bool) -> I {
    let style = |rng: &mut Rng, arity: usize| -> u8 {
        match rng.below(8) {
            0 => 1,
            1 if arity >= 2 => 2,
            2 if arity >= 2 => 3,
            3 if arity == 1 => 4,
            _ => 0,
        }
    };
    match rng.below(if unsupported { 35 } else { 32 }) {
        0..=8 => I::G(vec![random_qubit(rng)], style(rng, 1)),
        9..=18 => {
            // ordered pair, possibly the same qubit twice
            let a = random_qubit(rng);
            let b = if rng.chance(1, 8) { a } else { random_qubit(rng) };
            I::G(vec![a, b], style(rng, 2))
        }
        19..=22 => {
            let a = random_qubit(rng);
            let b = if rng.chance(1, 5) { a } else { random_qubit(rng) };
            let c = if rng.chance(1, 5) { b } else { random_qubit(rng) };
            I::G(vec![a, b, c], style(rng, 3))
        }
        23 => I::G((0..4 + rng.below(2)).map(|_| Q::F(rng.below(4))).collect(), 0),
        24..=28 => I::M(random_qubit(rng), rng.chance(3, 4)),
        29..=31 => I::C(rng.below(12) as u8),
        _ => I::U(rng.below(9) as u8, random_qubit(rng), random_qubit(rng)),
    }
}

fn main() {
    main_with(run)
}

fn run(ctx: &mut Ctx) {
    let x = |q: u64| I::G(vec![Q::F(q)], 0);
    let cn = |a: u64, b: u64| I::G(vec![Q::F(a), Q::F(b)], 0);
    let g3 = |a: u64, b: u64, c: u64| I::G(vec![Q::F(a), Q::F(b), Q::F(c)], 0);
    let m = |q: u64| I::M(Q::F(q), true);
    let u = |k: u8, q: u64| I::U(k, Q::F(q), Q::F(q + 1));
    // 1. corpus: the doc-comment/test programs, repeated qubits, parallel edges, unsupported, empty
    let corpus: Vec<Vec<I>> = vec![
        vec![],
        vec![I::C(0)],
        vec![x(0)],
        vec![cn(0, 1), x(0), x(1)],                      // tree
        vec![x(0), x(1), cn(0, 1)],                      // inverse tree
        vec![x(0), x(0), x(0), x(0)],                    // linear
        vec![cn(0, 1), x(0), x(1), cn(1, 0)],            // diamond
        vec![cn(0, 1), x(0), x(0), x(1), cn(1, 0), x(0)],
        vec![cn(0, 0)],                                  // was a self-loop before fix b174871
        vec![cn(0, 0), x(0)],
        vec![x(0), cn(0, 0), x(0)],                      // did not terminate before fix b174871
        vec![g3(1, 0, 1), cn(0, 1), x(1)],
        vec![x(0), x(1), g3(0, 0, 1), x(1)],             // repeated qubit BEFORE another operand (seeded C29-1)
        vec![x(2), g3(1, 1, 2), x(2), g3(2, 2, 1), x(1)],
        vec![I::G(vec![Q::F(0), Q::F(0), Q::F(1), Q::F(1), Q::F(2)], 0), x(2), x(1)],
        vec![cn(0, 1), cn(1, 0), cn(0, 1), cn(0, 1)],    // parallel edges
        vec![g3(0, 1, 2), g3(2, 1, 0), g3(0, 1, 2)],
        vec![x(0), m(0), x(0), I::C(1), m(1)],
        vec![x(0), I::M(Q::F(0), false), x(0)],
        vec![x(0), u(0, 0)],
        vec![x(0), u(1, 0), x(0)],
        vec![u(2, 1)],
        vec![x(2), u(3, 2)],
        vec![x(17), cn(17, 3), x(3)],
        // only multi-qubit gates / only small gates: depth(k) = 0 for some k but not for smaller ones
        vec![g3(0, 1, 2), g3(0, 1, 2), cn(0, 1)],
        vec![x(0), x(0), x(0), cn(0, 1), g3(0, 1, 2)],
        // variables and placeholders
        vec![I::G(vec![Q::V(0)], 0), I::G(vec![Q::V(0), Q::F(0)], 0), I::G(vec![Q::V(1)], 0), x(0)],
        vec![I::G(vec![Q::P(0)], 0), I::G(vec![Q::P(1)], 0), I::G(vec![Q::P(0), Q::P(1)], 0), I::M(Q::P(1), true)],
        // modified / parameterised gates
        vec![I::G(vec![Q::F(0), Q::F(1)], 2), I::G(vec![Q::F(1)], 1), I::G(vec![Q::F(0), Q::F(1)], 3), I::G(vec![Q::F(0)], 4)],
    ];
    for p in &corpus {
        run_case(ctx, p, H::Default);
    }
    // every classical kind between two gates; every unsupported kind under each handler
    for k in 0..12u8 {
        run_case(ctx, &[x(0), I::C(k), x(0)], H::Default);
    }
    for k in 0..9u8 {
        for h in [H::Default, H::Permissive, H::Strict] {
            run_case(ctx, &[x(0), u(k, 0), cn(0, 1), m(1)], h);
            run_case(ctx, &[cn(1, 2), u(k, 1), x(2), x(1)], h);
        }
    }
    // 2. exhaustive: every sequence over {X q, CNOT a b, MEASURE q, NOP} on four qubits
    let a4 = alphabet(4);
    let a3 = alphabet(3);
    let max4 = if ctx.quick() { 3 } else { 5 };
    for len in 1..=max4 {
        all_sequences(ctx, &a4, len);
    }
    if ctx.quick() {
        all_sequences(ctx, &a3, 4);
    } else {
        all_sequences(ctx, &a3, 6);
    }
    // 3. seeded random: longer sequences, ordered pairs, repeated qubits, 3+-qubit gates, modifiers, every
    //    classical kind, variables/placeholders/far-away qubits; a fifth with unsupported kinds; handlers
    let n_random = if ctx.quick() { 20_000 } else { 400_000 };
    let mut rng = ctx.rng(29);
    for i in 0..n_random {
        let len = 1 + rng.below(8) as usize;
        let unsupported = i % 5 == 4;
        let prog: Vec<I> = (0..len).map(|_| random_instr(&mut rng, unsupported)).collect();
        let h = if unsupported {
            *rng.pick(&[H::Default, H::Permissive, H::Strict])
        } else if rng.chance(1, 10) {
            H::Strict
        } else {
            H::Default
        };
        run_case(ctx, &prog, h);
    }
    // 4. multi-block programs: `A; LABEL @l; B`
    let n_multi = if ctx.quick() { 2_000 } else { 40_000 };
    let mut rng = ctx.rng(30);
    for _ in 0..n_multi {
        let la = rng.below(5) as usize;
        let lb = rng.below(5) as usize;
        let a: Vec<I> = (0..la).map(|_| random_instr(&mut rng, false)).collect();
        let b: Vec<I> = (0..lb).map(|_| random_instr(&mut rng, false)).collect();
        run_multi(ctx, &a, &b);
    }
    // 5. long blocks (33..130 instructions): single-qubit gates, measurements and classical instructions
    //    on 6 qubits with at most 5 two-qubit gates (keeps the number of paths small)
    let n_long = if ctx.quick() { 300 } else { 5_000 };
    let mut rng = ctx.rng(31);
    for _ in 0..n_long {
        let len = 33 + rng.below(98) as usize;
        let mut twos = 0;
        let prog: Vec<I> = (0..len)
            .map(|_| match rng.below(12) {
                0 if twos < 5 => {
                    twos += 1;
                    let a = rng.below(6);
                    I::G(vec![Q::F(a), Q::F((a + 1 + rng.below(5)) % 6)], 0)
                }
                1 | 2 => I::M(Q::F(rng.below(6)), true),
                3 => I::C(rng.below(12) as u8),
                _ => I::G(vec![Q::F(rng.below(6))], 0),
            })
            .collect();
        run_case(ctx, &prog, H::Default);
    }
}
