//! C27 — reported memory accesses match each instruction's semantics.
//!
//! Every case: an `ExternSignatureMap` (built the public way: PRAGMA EXTERN instructions added to a
//! `Program`, then `try_extern_signature_map_from_pragma_map`) and one instruction, through the public
//! `InstructionHandler::memory_accesses` of `DefaultHandler`.  Printed:
//! `(ma (sigs…) instr)` ↦ `(ok (reads…) (writes…) (captures…))` (sorted) | `(err nomatch|other)`.
use qvh::expr::{self, Alphabet};
use qvh::instrgen::{self, Alpha};
use qvh::*;
use quil_rs::expression::{Expression, ExpressionFunction, InfixOperator, PrefixOperator};
use quil_rs::instruction::*;
use quil_rs::program::MemoryAccessesError;
use quil_rs::quil::Quil;
use quil_rs::Program;
use std::str::FromStr;

// ------------------------------------------------------------------ projection (trusted, see meta)

fn e_sexp(e: &Expression) -> Sexp {
    match e {
        Expression::Address(r) => tagged("a", vec![st(r.name.clone())]),
        Expression::Number(_) | Expression::PiConstant() | Expression::Variable(_) => atom("l"),
        Expression::FunctionCall(f) => tagged("u", vec![e_sexp(&f.expression)]),
        Expression::Prefix(p) => tagged("u", vec![e_sexp(&p.expression)]),
        Expression::Infix(i) => tagged("b", vec![e_sexp(&i.left), e_sexp(&i.right)]),
    }
}
fn es_sexp<'a>(es: impl Iterator<Item = &'a Expression>) -> Vec<Sexp> {
    es.map(e_sexp).collect()
}
fn r_sexp(r: &MemoryReference) -> Sexp {
    st(r.name.clone())
}
fn opt_r(r: Option<&MemoryReference>) -> Sexp {
    r.map_or(atom("lit"), r_sexp)
}
fn arith_operand(o: &ArithmeticOperand) -> Sexp {
    match o {
        ArithmeticOperand::MemoryReference(r) => r_sexp(r),
        ArithmeticOperand::LiteralInteger(_) | ArithmeticOperand::LiteralReal(_) => atom("lit"),
    }
}
fn with(tag: &str, mut head: Vec<Sexp>, rest: Vec<Sexp>) -> Sexp {
    head.extend(rest);
    tagged(tag, head)
}

fn proj(i: &Instruction) -> Sexp {
    match i {
        Instruction::Arithmetic(x) => tagged("arith", vec![r_sexp(&x.destination), arith_operand(&x.source)]),
        Instruction::BinaryLogic(x) => tagged(
            "logic",
            vec![
                r_sexp(&x.destination),
                match &x.source {
                    BinaryOperand::MemoryReference(r) => r_sexp(r),
                    BinaryOperand::LiteralInteger(_) => atom("lit"),
                },
            ],
        ),
        Instruction::CalibrationDefinition(x) => tagged(
            "defcal",
            vec![list(es_sexp(x.identifier.parameters.iter())), list(x.instructions.iter().map(proj).collect())],
        ),
        Instruction::Call(x) => with(
            "call",
            vec![st(x.name.clone())],
            x.arguments
                .iter()
                .map(|a| match a {
                    UnresolvedCallArgument::Identifier(r) => tagged("id", vec![st(r.clone())]),
                    UnresolvedCallArgument::MemoryReference(r) => tagged("mr", vec![r_sexp(r)]),
                    UnresolvedCallArgument::Immediate(_) => atom("imm"),
                })
                .collect(),
        ),
        Instruction::Capture(x) => with("capture", vec![r_sexp(&x.memory_reference)], es_sexp(x.waveform.parameters.values())),
        Instruction::CircuitDefinition(x) => tagged("defcircuit", x.instructions.iter().map(proj).collect()),
        Instruction::Convert(x) => tagged("convert", vec![r_sexp(&x.destination), r_sexp(&x.source)]),
        Instruction::Comparison(x) => tagged(
            "cmp",
            vec![
                r_sexp(&x.destination),
                r_sexp(&x.lhs),
                match &x.rhs {
                    ComparisonOperand::MemoryReference(r) => r_sexp(r),
                    _ => atom("lit"),
                },
            ],
        ),
        Instruction::Declaration(x) => {
            tagged("declare", vec![st(x.name.clone()), x.sharing.as_ref().map_or(atom("lit"), |s| st(s.name.clone()))])
        }
        Instruction::Delay(x) => tagged("delay", vec![e_sexp(&x.duration)]),
        Instruction::Exchange(x) => tagged("exchange", vec![r_sexp(&x.left), r_sexp(&x.right)]),
        Instruction::Fence(_) => tagged("fence", vec![]),
        Instruction::FrameDefinition(x) => tagged(
            "defframe",
            es_sexp(x.attributes.values().filter_map(|v| match v {
                AttributeValue::Expression(e) => Some(e),
                AttributeValue::String(_) => None,
            })),
        ),
        Instruction::Gate(x) => tagged("gate", es_sexp(x.parameters.iter())),
        Instruction::GateDefinition(x) => match &x.specification {
            GateSpecification::Matrix(rows) => {
                tagged("defgate-matrix", rows.iter().map(|row| list(es_sexp(row.iter()))).collect())
            }
            GateSpecification::Permutation(_) => tagged("defgate-perm", vec![]),
            GateSpecification::PauliSum(p) => tagged("defgate-pauli", es_sexp(p.terms.iter().map(|t| &t.expression))),
            GateSpecification::Sequence(seq) => tagged(
                "defgate-seq",
                // the type's fields are crate-private: read through the add-only cfg hook
                quil_rs::verif_hooks::c27::sequence_gates(seq)
                    .iter()
                    .map(|g| list(es_sexp(g.parameters.iter())))
                    .collect(),
            ),
        },
        Instruction::Halt() => tagged("halt", vec![]),
        Instruction::Include(_) => tagged("include", vec![]),
        Instruction::Jump(_) => tagged("jump", vec![]),
        Instruction::JumpUnless(x) => tagged("jumpunless", vec![r_sexp(&x.condition)]),
        Instruction::JumpWhen(x) => tagged("jumpwhen", vec![r_sexp(&x.condition)]),
        Instruction::Label(_) => tagged("label", vec![]),
        Instruction::Load(x) => tagged("load", vec![r_sexp(&x.destination), st(x.source.clone()), r_sexp(&x.offset)]),
        Instruction::MeasureCalibrationDefinition(x) => tagged("defcalm", x.instructions.iter().map(proj).collect()),
        Instruction::Measurement(x) => tagged("measure", vec![opt_r(x.target.as_ref())]),
        Instruction::Move(x) => tagged("move", vec![r_sexp(&x.destination), arith_operand(&x.source)]),
        Instruction::Nop() => tagged("nop", vec![]),
        Instruction::Pragma(_) => tagged("pragma", vec![]),
        Instruction::Pulse(x) => tagged("pulse", es_sexp(x.waveform.parameters.values())),
        Instruction::RawCapture(x) => tagged("rawcapture", vec![r_sexp(&x.memory_reference), e_sexp(&x.duration)]),
        Instruction::Reset(_) => tagged("reset", vec![]),
        Instruction::SetFrequency(x) => tagged("setfreq", vec![e_sexp(&x.frequency)]),
        Instruction::SetPhase(x) => tagged("setphase", vec![e_sexp(&x.phase)]),
        Instruction::SetScale(x) => tagged("setscale", vec![e_sexp(&x.scale)]),
        Instruction::ShiftFrequency(x) => tagged("shiftfreq", vec![e_sexp(&x.frequency)]),
        Instruction::ShiftPhase(x) => tagged("shiftphase", vec![e_sexp(&x.phase)]),
        Instruction::Store(x) => {
            tagged("store", vec![st(x.destination.clone()), r_sexp(&x.offset), arith_operand(&x.source)])
        }
        Instruction::SwapPhases(_) => tagged("swap", vec![]),
        Instruction::UnaryLogic(x) => tagged("unary", vec![r_sexp(&x.operand)]),
        Instruction::WaveformDefinition(x) => tagged("defwaveform", es_sexp(x.definition.matrix.iter())),
        Instruction::Wait() => tagged("wait", vec![]),
    }
}

/// Build a DEFGATE … AS SEQUENCE through the validating public constructor.
fn defgate_sequence(gate_params: Vec<Vec<Expression>>) -> Instruction {
    let gates: Vec<Gate> = gate_params
        .iter()
        .map(|ps| Gate {
            name: "RZ".to_string(),
            parameters: ps.clone(),
            qubits: vec![Qubit::Variable("p".to_string())],
            modifiers: vec![],
        })
        .collect();
    Instruction::GateDefinition(GateDefinition {
        name: "seqgate".to_string(),
        parameters: vec![],
        specification: GateSpecification::Sequence(
            DefGateSequence::try_new(vec!["p".to_string()], gates).expect("valid sequence"),
        ),
    })
}

// ------------------------------------------------------------------ signatures

#[derive(Clone, Debug)]
struct SigDesc {
    name: String,
    ret: bool,
    muts: Vec<bool>,
}

/// the real map, and what it holds (read back through `ExternSignature::from_str`, the function the map
/// itself is built with)
fn signature_map(descs: &[SigDesc]) -> (ExternSignatureMap, Sexp) {
    let mut program = Program::new();
    let mut printed = vec![];
    for (k, d) in descs.iter().enumerate() {
        let params: Vec<ExternParameter> = d
            .muts
            .iter()
            .enumerate()
            .map(|(j, m)| {
                let ty = match (k + j) % 3 {
                    0 => ExternParameterType::Scalar(ScalarType::Integer),
                    1 => ExternParameterType::VariableLengthVector(ScalarType::Real),
                    _ => ExternParameterType::FixedLengthVector(Vector { data_type: ScalarType::Bit, length: 3 }),
                };
                ExternParameter::try_new(format!("p{j}"), *m, ty).expect("parameter")
            })
            .collect();
        let signature = ExternSignature::new(if d.ret { Some(ScalarType::Integer) } else { None }, params);
        let text = signature.to_quil().expect("signature prints");
        program.add_instruction(Instruction::Pragma(Pragma::new(
            "EXTERN".to_string(),
            vec![PragmaArgument::Identifier(d.name.clone())],
            Some(text.clone()),
        )));
        // The facts sent to the model are the GENERATOR's (independent of the implementation's parser);
        // what the implementation parses back must say the same, otherwise the case is undecodable (= alarm).
        let back = ExternSignature::from_str(&text).expect("signature parses");
        let same = back.return_type().is_some() == d.ret
            && back.parameters().iter().map(|p| p.mutable()).collect::<Vec<_>>() == d.muts;
        printed.push(tagged(
            if same { "sig" } else { "sig-parse-differs" },
            vec![
                st(d.name.clone()),
                atom(if d.ret { "t" } else { "f" }),
                list(d.muts.iter().map(|m| atom(if *m { "t" } else { "f" })).collect()),
            ],
        ));
    }
    let map = program.try_extern_signature_map_from_pragma_map().expect("signature map");
    assert_eq!(map.len(), descs.len(), "signature names must be distinct");
    (map, list(printed))
}

fn sorted(set: &std::collections::HashSet<String>) -> Sexp {
    let mut v: Vec<&String> = set.iter().collect();
    v.sort();
    list(v.into_iter().map(|s| st(s.clone())).collect())
}

/// A handler that overrides nothing: the trait's default `memory_accesses` must delegate to `DefaultHandler`.
struct PlainHandler;
impl InstructionHandler for PlainHandler {}

fn result_sexp(r: Result<quil_rs::program::MemoryAccesses, MemoryAccessesError>) -> Sexp {
    match r {
        Ok(a) => tagged("ok", vec![sorted(&a.reads), sorted(&a.writes), sorted(&a.captures)]),
        Err(e) => {
            // every returned error is formatted (a panic in Display/Debug/source is a crash of the case)
            let _ = format!("{e} {e:#} {e:?} {:?}", std::error::Error::source(&e).map(|s| s.to_string()));
            match e {
                MemoryAccessesError::CallResolution(CallResolutionError::NoMatchingExternInstruction(_)) => {
                    tagged("err", vec![atom("nomatch")])
                }
                _ => tagged("err", vec![atom("other")]),
            }
        }
    }
}

fn run_case(ctx: &mut Ctx, sigs: &(ExternSignatureMap, Sexp), i: &Instruction) {
    let input = tagged("ma", vec![sigs.1.clone(), proj(i)]);
    ctx.case(input, || {
        let a = result_sexp(DefaultHandler.memory_accesses(&sigs.0, i));
        let b = result_sexp(PlainHandler.memory_accesses(&sigs.0, i));
        if a == b {
            a
        } else {
            tagged("handler-mismatch", vec![a, b])
        }
    });
}

fn acc_sexp(a: &quil_rs::program::MemoryAccesses) -> Vec<Sexp> {
    vec![sorted(&a.reads), sorted(&a.writes), sorted(&a.captures)]
}

// ------------------------------------------------------------------ building blocks

fn m(name: &str) -> MemoryReference {
    MemoryReference { name: name.to_string(), index: 0 }
}
fn m1(name: &str) -> MemoryReference {
    MemoryReference { name: name.to_string(), index: 1 }
}
fn fr() -> FrameIdentifier {
    FrameIdentifier { name: "f".to_string(), qubits: vec![Qubit::Fixed(0)] }
}
fn wfi(params: &[Expression]) -> WaveformInvocation {
    let mut parameters = WaveformParameters::new();
    for (k, e) in params.iter().enumerate() {
        parameters.insert(format!("p{k}"), e.clone());
    }
    WaveformInvocation { name: "wf".to_string(), parameters }
}
fn gate_with(params: &[Expression]) -> Instruction {
    Instruction::Gate(Gate { name: "G".to_string(), parameters: params.to_vec(), qubits: vec![Qubit::Fixed(0)], modifiers: vec![] })
}
fn defframe(attrs: &[Expression]) -> Instruction {
    let mut attributes = FrameAttributes::new();
    attributes.insert("DIRECTION".to_string(), AttributeValue::String("tx".to_string()));
    for (k, e) in attrs.iter().enumerate() {
        attributes.insert(["INITIAL-FREQUENCY", "SAMPLE-RATE", "CENTER-FREQUENCY"][k % 3].to_string() + &"X".repeat(k / 3),
            AttributeValue::Expression(e.clone()));
    }
    Instruction::FrameDefinition(FrameDefinition { identifier: fr(), attributes })
}
fn defgate_pauli(exprs: &[Expression]) -> Instruction {
    Instruction::GateDefinition(GateDefinition {
        name: "pg".to_string(),
        parameters: vec![],
        specification: GateSpecification::PauliSum(PauliSum {
            arguments: vec!["p".to_string()],
            terms: exprs
                .iter()
                .map(|e| PauliTerm { arguments: vec![(PauliGate::X, "p".to_string())], expression: e.clone() })
                .collect(),
        }),
    })
}
fn defgate_matrix(rows: Vec<Vec<Expression>>) -> Instruction {
    Instruction::GateDefinition(GateDefinition {
        name: "mg".to_string(),
        parameters: vec![],
        specification: GateSpecification::Matrix(rows),
    })
}
fn defcal(params: &[Expression], body: Vec<Instruction>) -> Instruction {
    Instruction::CalibrationDefinition(CalibrationDefinition {
        identifier: CalibrationIdentifier {
            modifiers: vec![],
            name: "G".to_string(),
            parameters: params.to_vec(),
            qubits: vec![Qubit::Fixed(0)],
        },
        instructions: body,
    })
}
fn defcalm(body: Vec<Instruction>) -> Instruction {
    Instruction::MeasureCalibrationDefinition(MeasureCalibrationDefinition {
        identifier: MeasureCalibrationIdentifier { name: None, qubit: Qubit::Fixed(0), target: Some("dest".to_string()) },
        instructions: body,
    })
}
fn defcircuit(body: Vec<Instruction>) -> Instruction {
    Instruction::CircuitDefinition(CircuitDefinition {
        name: "circ".to_string(),
        parameters: vec![],
        qubit_variables: vec!["q".to_string()],
        instructions: body,
    })
}
fn call(name: &str, args: Vec<UnresolvedCallArgument>) -> Instruction {
    Instruction::Call(Call { name: name.to_string(), arguments: args })
}

const REGIONS: [&str; 3] = ["a", "b", "c"];

fn arith_sources() -> Vec<ArithmeticOperand> {
    let mut v = vec![ArithmeticOperand::LiteralInteger(2), ArithmeticOperand::LiteralReal(0.5)];
    v.extend(REGIONS.iter().map(|r| ArithmeticOperand::MemoryReference(m1(r))));
    v
}

/// every classical / control instruction over the region alphabet, every operand form
fn classical_forms() -> Vec<Instruction> {
    let mut v = vec![];
    let aops = [ArithmeticOperator::Add, ArithmeticOperator::Subtract, ArithmeticOperator::Divide, ArithmeticOperator::Multiply];
    let bops = [BinaryOperator::And, BinaryOperator::Ior, BinaryOperator::Xor, BinaryOperator::Shl, BinaryOperator::Shr, BinaryOperator::Ashr];
    let cops = [
        ComparisonOperator::Equal,
        ComparisonOperator::GreaterThanOrEqual,
        ComparisonOperator::GreaterThan,
        ComparisonOperator::LessThanOrEqual,
        ComparisonOperator::LessThan,
    ];
    let mut k = 0usize;
    for d in REGIONS {
        for s in arith_sources() {
            k += 1;
            v.push(Instruction::Arithmetic(Arithmetic { operator: aops[k % 4], destination: m(d), source: s.clone() }));
            v.push(Instruction::Move(Move { destination: m(d), source: s.clone() }));
            for o in REGIONS {
                v.push(Instruction::Store(Store { destination: d.to_string(), offset: m(o), source: s.clone() }));
            }
        }
        let mut bsrc = vec![BinaryOperand::LiteralInteger(1)];
        bsrc.extend(REGIONS.iter().map(|r| BinaryOperand::MemoryReference(m(r))));
        for s in bsrc {
            k += 1;
            v.push(Instruction::BinaryLogic(BinaryLogic { operator: bops[k % 6], destination: m(d), source: s }));
        }
        for s in REGIONS {
            v.push(Instruction::Convert(Convert { destination: m(d), source: m(s) }));
            v.push(Instruction::Exchange(Exchange { left: m(d), right: m1(s) }));
            let mut csrc = vec![ComparisonOperand::LiteralInteger(1), ComparisonOperand::LiteralReal(1.5)];
            csrc.extend(REGIONS.iter().map(|r| ComparisonOperand::MemoryReference(m(r))));
            for r in csrc {
                k += 1;
                v.push(Instruction::Comparison(Comparison { operator: cops[k % 5], destination: m(d), lhs: m(s), rhs: r }));
            }
            for o in REGIONS {
                v.push(Instruction::Load(Load { destination: m(d), source: s.to_string(), offset: m(o) }));
            }
        }
        v.push(Instruction::UnaryLogic(UnaryLogic { operator: UnaryOperator::Neg, operand: m(d) }));
        v.push(Instruction::UnaryLogic(UnaryLogic { operator: UnaryOperator::Not, operand: m1(d) }));
        v.push(Instruction::JumpWhen(JumpWhen { target: Target::Fixed("l".to_string()), condition: m(d) }));
        v.push(Instruction::JumpUnless(JumpUnless { target: Target::Fixed("l".to_string()), condition: m(d) }));
        v.push(Instruction::Measurement(Measurement { name: None, qubit: Qubit::Fixed(0), target: Some(m(d)) }));
        v.push(Instruction::Declaration(Declaration {
            name: d.to_string(),
            size: Vector { data_type: ScalarType::Bit, length: 2 },
            sharing: None,
        }));
        for s in REGIONS {
            v.push(Instruction::Declaration(Declaration {
                name: d.to_string(),
                size: Vector { data_type: ScalarType::Bit, length: 2 },
                sharing: Some(Sharing { name: s.to_string(), offsets: vec![] }),
            }));
        }
    }
    v.push(Instruction::Measurement(Measurement { name: None, qubit: Qubit::Fixed(0), target: None }));
    // the kinds without any memory-relevant field
    v.push(Instruction::Fence(Fence { qubits: vec![Qubit::Fixed(0)] }));
    v.push(Instruction::Halt());
    v.push(Instruction::Wait());
    v.push(Instruction::Nop());
    v.push(Instruction::Include(Include { filename: "a".to_string() }));
    v.push(Instruction::Jump(Jump { target: Target::Fixed("a".to_string()) }));
    v.push(Instruction::Label(Label { target: Target::Fixed("a".to_string()) }));
    v.push(Instruction::Pragma(Pragma::new("a".to_string(), vec![PragmaArgument::Identifier("b".to_string())], Some("c[0]".to_string()))));
    v.push(Instruction::Reset(Reset { qubit: None }));
    v.push(Instruction::Reset(Reset { qubit: Some(Qubit::Fixed(0)) }));
    v.push(Instruction::SwapPhases(SwapPhases { frame_1: fr(), frame_2: fr() }));
    v
}

/// every single-expression instruction kind around `e`
fn single_expr_forms(e: &Expression) -> Vec<Instruction> {
    vec![
        Instruction::Delay(Delay { duration: e.clone(), frame_names: vec![], qubits: vec![Qubit::Fixed(0)] }),
        Instruction::SetFrequency(SetFrequency { frame: fr(), frequency: e.clone() }),
        Instruction::SetPhase(SetPhase { frame: fr(), phase: e.clone() }),
        Instruction::SetScale(SetScale { frame: fr(), scale: e.clone() }),
        Instruction::ShiftFrequency(ShiftFrequency { frame: fr(), frequency: e.clone() }),
        Instruction::ShiftPhase(ShiftPhase { frame: fr(), phase: e.clone() }),
        Instruction::RawCapture(RawCapture { blocking: true, frame: fr(), duration: e.clone(), memory_reference: m("c") }),
        Instruction::RawCapture(RawCapture { blocking: false, frame: fr(), duration: e.clone(), memory_reference: m("a") }),
    ]
}

/// every expression-list instruction kind around `es`
fn expr_list_forms(es: &[Expression]) -> Vec<Instruction> {
    let mut v = vec![
        Instruction::Pulse(Pulse { blocking: true, frame: fr(), waveform: wfi(es) }),
        Instruction::Capture(Capture { blocking: true, frame: fr(), memory_reference: m("b"), waveform: wfi(es) }),
        Instruction::Capture(Capture { blocking: false, frame: fr(), memory_reference: m("c"), waveform: wfi(es) }),
        gate_with(es),
        Instruction::WaveformDefinition(WaveformDefinition {
            name: "w".to_string(),
            definition: Waveform { matrix: es.to_vec(), parameters: vec![] },
        }),
        defframe(es),
        defgate_pauli(es),
        defcal(es, vec![]),
        defgate_matrix(vec![es.to_vec()]),
        defgate_matrix(es.iter().map(|e| vec![e.clone()]).collect()),
    ];
    if !es.is_empty() {
        v.push(defgate_sequence(vec![es.to_vec()]));
        v.push(defgate_sequence(es.iter().map(|e| vec![e.clone()]).collect()));
    }
    v
}

fn call_args_alphabet() -> Vec<UnresolvedCallArgument> {
    vec![
        UnresolvedCallArgument::Identifier("a".to_string()),
        UnresolvedCallArgument::MemoryReference(m1("a")),
        UnresolvedCallArgument::MemoryReference(m("b")),
        UnresolvedCallArgument::Immediate(num_complex::Complex64::new(2.0, 0.0)),
    ]
}

fn lists<T: Clone>(xs: &[T], hi: usize) -> Vec<Vec<T>> {
    let mut out = vec![];
    let mut cur: Vec<Vec<T>> = vec![vec![]];
    for _ in 0..=hi {
        out.extend(cur.iter().cloned());
        let mut next = vec![];
        for l in &cur {
            for x in xs {
                let mut l2 = l.clone();
                l2.push(x.clone());
                next.push(l2);
            }
        }
        cur = next;
    }
    out
}

/// every signature shape with ≤ `max_params` parameters (a signature needs a return type or a parameter)
fn signature_shapes(max_params: usize) -> Vec<(bool, Vec<bool>)> {
    let mut v = vec![];
    for ret in [false, true] {
        for muts in lists(&[false, true], max_params) {
            if ret || !muts.is_empty() {
                v.push((ret, muts));
            }
        }
    }
    v
}

/// a pool of body instructions, one or two per interesting access pattern
fn body_pool() -> Vec<Instruction> {
    vec![
        Instruction::Move(Move { destination: m("a"), source: ArithmeticOperand::MemoryReference(m("b")) }),
        Instruction::Arithmetic(Arithmetic {
            operator: ArithmeticOperator::Add,
            destination: m("c"),
            source: ArithmeticOperand::LiteralInteger(1),
        }),
        Instruction::Measurement(Measurement { name: None, qubit: Qubit::Fixed(0), target: Some(m("b")) }),
        Instruction::Capture(Capture { blocking: true, frame: fr(), memory_reference: m("c"), waveform: wfi(&[expr::addr("a", 0)]) }),
        Instruction::Pulse(Pulse { blocking: true, frame: fr(), waveform: wfi(&[expr::addr("b", 1)]) }),
        gate_with(&[expr::infix(expr::addr("c", 0), InfixOperator::Star, expr::real(2.0))]),
        Instruction::Load(Load { destination: m("a"), source: "b".to_string(), offset: m("c") }),
        Instruction::Halt(),
        call("f", vec![UnresolvedCallArgument::Identifier("a".to_string()), UnresolvedCallArgument::MemoryReference(m("b"))]),
        call("nosuch", vec![UnresolvedCallArgument::Identifier("c".to_string())]),
        defframe(&[expr::real(1.0)]),
        Instruction::JumpWhen(JumpWhen { target: Target::Fixed("l".to_string()), condition: m("c") }),
    ]
}

fn main() {
    main_with(run)
}

fn run(ctx: &mut Ctx) {
    let no_sigs = signature_map(&[]);
    let fg_sigs = signature_map(&[
        SigDesc { name: "f".to_string(), ret: true, muts: vec![false] },
        SigDesc { name: "g".to_string(), ret: false, muts: vec![true, false] },
    ]);

    // ---- 1. corpus: the statement's clauses, the three repaired defects (regression cases), nesting
    {
        let a0 = expr::addr("a", 0);
        let nested = expr::infix(
            expr::call(ExpressionFunction::Cosine, expr::addr("a", 1)),
            InfixOperator::Plus,
            expr::prefix(PrefixOperator::Minus, expr::infix(expr::addr("b", 0), InfixOperator::Caret, expr::var("x"))),
        );
        let id = |s: &str| UnresolvedCallArgument::Identifier(s.to_string());
        let mrf = |s: &str| UnresolvedCallArgument::MemoryReference(m(s));
        let imm = UnresolvedCallArgument::Immediate(num_complex::Complex64::new(1.0, 0.0));
        let corpus = vec![
            // regression cases: under-reported reads before fix: commits 9c5e66f, 595a980, 8044518
            defframe(&[a0.clone()]),
            defframe(&[expr::real(1.0), nested.clone()]),
            defgate_pauli(&[a0.clone()]),
            call("f", vec![id("a"), mrf("b"), mrf("c")]), // f: INTEGER (p0 : INTEGER) — one argument too many
            call("g", vec![id("a"), mrf("b"), id("c")]),  // g: (p0 : mut, p1) — one argument too many
            defcal(&[], vec![call("g", vec![id("a"), mrf("b"), id("c")])]),
            // CALL clauses
            call("f", vec![id("a"), mrf("b")]),
            call("f", vec![imm.clone(), mrf("b")]),
            call("f", vec![id("a")]),
            call("f", vec![]),
            call("g", vec![id("a"), id("b")]),
            call("g", vec![imm.clone(), imm.clone()]),
            call("g", vec![mrf("c")]),
            call("h", vec![id("a")]),
            defcal(&[], vec![Instruction::Halt(), call("h", vec![id("a")])]),
            defcircuit(vec![defcalm(vec![call("h", vec![])])]),
            // nesting
            defcal(&[nested.clone()], vec![defcalm(vec![Instruction::Measurement(Measurement {
                name: None,
                qubit: Qubit::Fixed(0),
                target: Some(m("c")),
            })])]),
            Instruction::SetPhase(SetPhase { frame: fr(), phase: nested.clone() }),
        ];
        for i in &corpus {
            run_case(ctx, &fg_sigs, i);
            run_case(ctx, &no_sigs, i);
        }
    }

    // ---- 2. exhaustive enumerations over regions {a,b,c}
    for i in classical_forms() {
        run_case(ctx, &no_sigs, &i);
    }
    // expressions: leaves {a[0], b[1], c[0], 1.5, %x, pi}; quick: depth ≤ 1 with every operator;
    // thorough: additionally depth ≤ 2 with one operator of each kind
    let leaves = vec![expr::addr("a", 0), expr::addr("b", 1), expr::addr("c", 0), expr::real(1.5), expr::var("x"), Expression::PiConstant()];
    let mut exprs = expr::all_exprs(&Alphabet::full(leaves.clone()), 1);
    if !ctx.quick() {
        let reduced = Alphabet {
            leaves: leaves.clone(),
            functions: vec![ExpressionFunction::Sine],
            prefix: vec![PrefixOperator::Minus],
            infix: vec![InfixOperator::Slash],
        };
        exprs.extend(expr::all_exprs(&reduced, 2));
    }
    for e in &exprs {
        for i in single_expr_forms(e) {
            run_case(ctx, &no_sigs, &i);
        }
    }
    // expression lists of length 0..=2 (quick) / 0..=3 (thorough) over a depth-≤1 set with one operator
    // of each kind
    let small = expr::all_exprs(
        &Alphabet {
            leaves: vec![expr::addr("a", 0), expr::addr("b", 1), expr::addr("c", 0), expr::real(1.5)],
            functions: vec![ExpressionFunction::Exponent],
            prefix: vec![],
            infix: vec![InfixOperator::Plus],
        },
        1,
    );
    let list_elems: Vec<Expression> = if ctx.quick() { small.iter().step_by(2).cloned().collect() } else { small.clone() };
    for es in lists(&list_elems, if ctx.quick() { 2 } else { 3 }) {
        if es.len() == 3 && !ctx.quick() && (es[0] == es[1] || es[1] == es[2]) {
            continue;
        }
        for i in expr_list_forms(&es) {
            run_case(ctx, &no_sigs, &i);
        }
    }
    // calls: every signature shape with ≤ 3 parameters × every argument list of
    // length ≤ 4 (quick) / ≤ 5 (thorough) over {identifier a, a[1], b[0], immediate}; plus an unknown name
    {
        let (max_params, max_args) = if ctx.quick() { (3, 4) } else { (3, 5) };
        let arg_lists = lists(&call_args_alphabet(), max_args);
        for (ret, muts) in signature_shapes(max_params) {
            let sigs = signature_map(&[SigDesc { name: "f".to_string(), ret, muts }]);
            for args in &arg_lists {
                run_case(ctx, &sigs, &call("f", args.clone()));
            }
            for args in arg_lists.iter().take(30) {
                run_case(ctx, &sigs, &call("g", args.clone()));
            }
        }
    }
    // definitions with bodies: every body of length ≤ 2 over the pool, in each of the three definition
    // kinds, plus one level of nesting
    {
        let pool = body_pool();
        for body in lists(&pool, 2) {
            run_case(ctx, &fg_sigs, &defcal(&[expr::addr("c", 1)], body.clone()));
            run_case(ctx, &fg_sigs, &defcalm(body.clone()));
            run_case(ctx, &fg_sigs, &defcircuit(body.clone()));
            if body.len() == 2 {
                run_case(ctx, &fg_sigs, &defcircuit(vec![body[0].clone(), defcal(&[], vec![body[1].clone()])]));
                run_case(ctx, &no_sigs, &defcalm(vec![defcircuit(vec![body[0].clone()]), body[1].clone()]));
            }
        }
    }

    // ---- 2b. `MemoryAccesses::union` driven directly: every pair of access triples over {a,b} (64 × 64),
    // and left folds of three
    {
        let sets: Vec<Vec<&str>> = vec![vec![], vec!["a"], vec!["b"], vec!["a", "b"]];
        let mut triples = vec![];
        for r in &sets {
            for w in &sets {
                for c in &sets {
                    triples.push(quil_rs::program::MemoryAccesses {
                        reads: r.iter().map(|s| s.to_string()).collect(),
                        writes: w.iter().map(|s| s.to_string()).collect(),
                        captures: c.iter().map(|s| s.to_string()).collect(),
                    });
                }
            }
        }
        for x in &triples {
            for y in &triples {
                let input = tagged("union", vec![list(acc_sexp(x)), list(acc_sexp(y))]);
                ctx.case(input, || tagged("acc", acc_sexp(&x.clone().union(y.clone()))));
            }
        }
    }

    // ---- 2c. definitions nested three deep (all 27 chains of the three definition kinds) around every pool
    // instruction, alone and between a capture-only and a read-only neighbour; bodies of length 3 over a
    // reduced pool in every order (captures before / after reads, writes in between)
    {
        let pool = body_pool();
        let wrap = |kind: usize, body: Vec<Instruction>| match kind {
            0 => defcal(&[], body),
            1 => defcalm(body),
            _ => defcircuit(body),
        };
        let cap = Instruction::Measurement(Measurement { name: None, qubit: Qubit::Fixed(0), target: Some(m("c")) });
        let rd = Instruction::JumpWhen(JumpWhen { target: Target::Fixed("l".to_string()), condition: m("a") });
        for k1 in 0..3 {
            for k2 in 0..3 {
                for k3 in 0..3 {
                    for (n, leaf) in pool.iter().enumerate() {
                        let inner = wrap(k3, vec![leaf.clone()]);
                        run_case(ctx, &fg_sigs, &wrap(k1, vec![wrap(k2, vec![inner.clone()])]));
                        if n % 3 == (k1 + k2 + k3) % 3 {
                            run_case(ctx, &fg_sigs, &wrap(k1, vec![cap.clone(), wrap(k2, vec![rd.clone(), inner.clone(), cap.clone()]), rd.clone()]));
                            run_case(ctx, &no_sigs, &wrap(k1, vec![wrap(k2, vec![inner.clone()]), cap.clone()]));
                        }
                    }
                }
            }
        }
        let small: Vec<Instruction> = vec![
            cap.clone(),
            rd.clone(),
            Instruction::Move(Move { destination: m("b"), source: ArithmeticOperand::LiteralInteger(1) }),
            Instruction::RawCapture(RawCapture { blocking: true, frame: fr(), duration: expr::addr("b", 0), memory_reference: m("a") }),
            Instruction::Halt(),
            call("f", vec![UnresolvedCallArgument::Identifier("c".to_string()), UnresolvedCallArgument::MemoryReference(m("a"))]),
        ];
        for body in lists(&small, 3).into_iter().filter(|b| b.len() == 3) {
            run_case(ctx, &fg_sigs, &defcalm(body.clone()));
            run_case(ctx, &fg_sigs, &defcal(&[], vec![defcircuit(body)]));
        }
    }

    // ---- 2d. special shapes: PRAGMA variants, empty / wide collections, API-only shapes, special region names,
    // signature maps built by other routes
    {
        let pragma = |name: &str, args: Vec<PragmaArgument>, data: Option<&str>| {
            Instruction::Pragma(Pragma::new(name.to_string(), args, data.map(|s| s.to_string())))
        };
        let id = |s: &str| PragmaArgument::Identifier(s.to_string());
        let mut shapes = vec![
            pragma("NOTE", vec![], None),
            pragma("NOTE", vec![id("a"), id("b"), PragmaArgument::Integer(3)], Some("a[0] b[1]")),
            pragma("EXTERN", vec![id("f")], Some("INTEGER (p0 : mut INTEGER)")),
            pragma("EXTERN", vec![id("a"), id("b")], Some("(p0 : INTEGER)")),
            pragma("EXTERN", vec![], None),
            pragma("extern", vec![id("f")], Some("a")),
            pragma("LOAD-MEMORY", vec![id("a")], Some("b")),
            // an empty sequence body cannot be built by `try_new` or the parser: cfg hook of C20
            Instruction::GateDefinition(GateDefinition {
                name: "emptyseq".to_string(),
                parameters: vec![],
                specification: GateSpecification::Sequence(quil_rs::verif_hooks::c20::def_gate_sequence_unchecked(vec![], vec![])),
            }),
            defgate_matrix(vec![]),
            defgate_matrix(vec![vec![], vec![]]),
            defgate_pauli(&[]),
            defframe(&[]),
            defcal(&[], vec![]),
            defcircuit(vec![defcalm(vec![]), defcal(&[], vec![defcircuit(vec![])])]),
            // a capture reading its own target, an exchange with itself, a load from its destination
            Instruction::Capture(Capture { blocking: true, frame: fr(), memory_reference: m("a"), waveform: wfi(&[expr::addr("a", 1)]) }),
            Instruction::RawCapture(RawCapture { blocking: false, frame: fr(), duration: expr::addr("c", 0), memory_reference: m("c") }),
            Instruction::Exchange(Exchange { left: m("a"), right: m1("a") }),
            Instruction::Load(Load { destination: m("a"), source: "a".to_string(), offset: m("a") }),
            Instruction::Store(Store { destination: "b".to_string(), offset: m("b"), source: ArithmeticOperand::MemoryReference(m("b")) }),
            Instruction::Measurement(Measurement { name: Some("named".to_string()), qubit: Qubit::Fixed(0), target: Some(m("a")) }),
            Instruction::Measurement(Measurement { name: Some("named".to_string()), qubit: Qubit::Variable("q".to_string()), target: None }),
            // region names that differ only in case, the empty name, keyword-like names, boundary indices
            Instruction::Move(Move { destination: MemoryReference { name: "A".to_string(), index: u64::MAX }, source: ArithmeticOperand::MemoryReference(m("a")) }),
            Instruction::Arithmetic(Arithmetic { operator: ArithmeticOperator::Add, destination: m(""), source: ArithmeticOperand::MemoryReference(m("pi")) }),
            Instruction::Exchange(Exchange { left: m("RO"), right: m("ro") }),
            gate_with(&[expr::infix(expr::addr("A", 0), InfixOperator::Plus, expr::addr("a", 1u64 << 63))]),
            call("f", vec![UnresolvedCallArgument::Identifier("".to_string()), UnresolvedCallArgument::Identifier("A".to_string())]),
        ];
        // more than 32 (and more than 64) elements wherever a collection is walked
        let many: Vec<Expression> = (0..70).map(|k| expr::addr(&format!("r{k}"), 0)).collect();
        shapes.push(gate_with(&many));
        shapes.push(Instruction::Pulse(Pulse { blocking: true, frame: fr(), waveform: wfi(&many) }));
        shapes.push(defgate_sequence(many.iter().map(|e| vec![e.clone()]).collect()));
        shapes.push(defcircuit(
            (0..70).map(|k| Instruction::Move(Move { destination: m(&format!("w{k}")), source: ArithmeticOperand::MemoryReference(m(&format!("r{k}"))) })).collect(),
        ));
        shapes.push(call("g", (0..70).map(|k| UnresolvedCallArgument::Identifier(format!("r{k}"))).collect()));
        let mut deep = expr::addr("deep", 0);
        for k in 0..200 {
            deep = if k % 2 == 0 {
                expr::infix(expr::real(1.0), InfixOperator::Star, deep)
            } else {
                expr::infix(deep, InfixOperator::Minus, expr::addr(if k % 3 == 0 { "x" } else { "y" }, 0))
            };
        }
        shapes.push(Instruction::Delay(Delay { duration: deep, frame_names: vec![], qubits: vec![] }));
        // the same signatures through other routes: the derived Default (empty map), and a parsed program text
        let default_map = (ExternSignatureMap::default(), list(vec![]));
        let parsed = Program::from_str(
            "PRAGMA EXTERN f \"INTEGER (p0 : INTEGER)\"\nPRAGMA EXTERN g \"(p0 : mut REAL[], p1 : BIT[3])\"\n",
        )
        .expect("extern text parses");
        let parsed_map = (parsed.try_extern_signature_map_from_pragma_map().expect("map"), fg_sigs.1.clone());
        for i in &shapes {
            run_case(ctx, &fg_sigs, i);
            run_case(ctx, &default_map, i);
            run_case(ctx, &parsed_map, i);
        }
        for i in body_pool().iter().chain(classical_forms().iter().step_by(7)) {
            run_case(ctx, &parsed_map, i);
            run_case(ctx, &default_map, i);
        }
    }

    // ---- 3. seeded random: all 40 variants in turn, nested bodies up to depth 2, random signature maps
    let mut rng = ctx.rng(27);
    let mut alpha = Alpha::small();
    alpha.regions.push("A".to_string());
    alpha.regions.push("".to_string());
    let n_random = if ctx.quick() { 20_000 } else { 600_000 };
    let mut sigs = signature_map(&[]);
    for k in 0..n_random {
        if k % 16 == 0 {
            let mut descs = vec![];
            for name in &alpha.externs {
                if rng.chance(2, 3) {
                    let muts: Vec<bool> = (0..rng.below(4)).map(|_| rng.chance(1, 2)).collect();
                    let ret = rng.chance(1, 2) || muts.is_empty();
                    descs.push(SigDesc { name: name.clone(), ret, muts });
                }
            }
            sigs = signature_map(&descs);
        }
        let variant = instrgen::VARIANTS[k % instrgen::VARIANTS.len()];
        let i = instrgen::gen_variant(&mut rng, &alpha, variant, 2);
        run_case(ctx, &sigs, &i);
    }
}
