//! C01 — parsing never panics or aborts on any input text.
//!
//! The real code runs in a persistent child process (`Isolated`): a panic is `(crash "msg")` for the
//! entry point it happened in, a process abort (stack overflow) is `(abort "status")`, a hang
//! `(timeout)`.
//!
//! Case inputs
//!   (toks STREAM (tok…))   the token-level parsers behind the five `from_str` entry points (and
//!                          `ExternSignature::from_str`), driven directly through the cfg hook
//!                          `verif_hooks::c01::parse_tokens`
//!   (text STREAM "…")      `lex`, `Program::from_str`, `Instruction::from_str`, `Expression::from_str`,
//!                          `MemoryReference::from_str`, `FrameIdentifier::from_str` on the text
//! Outputs
//!   (results (instructions O) (expression O) (memref O) (frame O) (extern O))     O = (ok V LEFTOVER)|(err)|(fail)
//!   (results (lex (ok tok…)|(err)) (program R) (instruction R) (expression R) (memref R) (frame R))
//!                                                                                  R = (ok V)|(err)
//!   with `(crash "msg")` in place of O / R on a panic, or `(abort ..)` / `(timeout)` for the whole case.
use qvh::ast::{self, Enc};
use qvh::expr::{expr_to_sexp, memref_to_sexp};
use qvh::instrgen::{self, Alpha};
use qvh::lexwire::token_sexp;
use qvh::*;
use quil_rs::expression::Expression;
use quil_rs::instruction::{FrameIdentifier, Instruction, MemoryReference};
use quil_rs::quil::Quil;
use quil_rs::verif_hooks::c01::{parse_tokens, Entry, Parsed, Rejected};
use quil_rs::verif_hooks::{self, Command, DataType, Modifier, Token};
use quil_rs::Program;
use std::panic::{catch_unwind, AssertUnwindSafe};
use std::str::FromStr;
use std::time::Duration;

// ------------------------------------------------------------------------------------------ tokens

/// The single token a spelling lexes to.
fn tok(spelling: &str) -> Token {
    let v = verif_hooks::lex_tokens(spelling).unwrap_or_else(|e| panic!("alphabet spelling {spelling:?}: {e}"));
    assert_eq!(v.len(), 1, "alphabet spelling {spelling:?} is not one token");
    v.into_iter().next().unwrap()
}

fn f64_of_hex(a: &str) -> Option<f64> {
    let h = a.strip_prefix('x')?;
    if h.len() != 16 {
        return None;
    }
    u64::from_str_radix(h, 16).ok().map(f64::from_bits)
}

/// Inverse of `lexwire::token_sexp`.
fn sexp_to_token(s: &Sexp) -> Option<Token> {
    Some(match s {
        Sexp::Atom(a) => match a.as_str() {
            "As" => Token::As,
            "Bang" => Token::Bang,
            "Colon" => Token::Colon,
            "Comma" => Token::Comma,
            "Indentation" => Token::Indentation,
            "LBracket" => Token::LBracket,
            "LParenthesis" => Token::LParenthesis,
            "NonBlocking" => Token::NonBlocking,
            "Matrix" => Token::Matrix,
            "Mutable" => Token::Mutable,
            "NewLine" => Token::NewLine,
            "Offset" => Token::Offset,
            "PauliSum" => Token::PauliSum,
            "Permutation" => Token::Permutation,
            "RBracket" => Token::RBracket,
            "RParenthesis" => Token::RParenthesis,
            "Semicolon" => Token::Semicolon,
            "Sequence" => Token::Sequence,
            "Sharing" => Token::Sharing,
            _ => return None,
        },
        Sexp::List(v) => match v.as_slice() {
            [Sexp::Atom(k), Sexp::Str(x)] => match k.as_str() {
                "Command" => Token::Command(Command::from_str(x).ok()?),
                "Comment" => Token::Comment(x.clone()),
                "DataType" => Token::DataType(DataType::from_str(x).ok()?),
                "Identifier" => Token::Identifier(x.clone()),
                "Target" => Token::Target(x.clone()),
                "Modifier" => Token::Modifier(Modifier::from_str(x).ok()?),
                "Operator" => tok(x),
                "String" => Token::String(x.clone()),
                "Variable" => Token::Variable(x.clone()),
                _ => return None,
            },
            [Sexp::Atom(k), Sexp::Atom(x)] => match k.as_str() {
                "Float" => Token::Float(f64_of_hex(x)?),
                "Integer" => Token::Integer(x.parse().ok()?),
                _ => return None,
            },
            _ => return None,
        },
        Sexp::Str(_) => return None,
    })
}

// ------------------------------------------------------------------------------------- child side

fn guarded(f: impl FnOnce() -> Sexp) -> Sexp {
    match catch_unwind(AssertUnwindSafe(f)) {
        Ok(s) => s,
        Err(e) => {
            let msg = if let Some(s) = e.downcast_ref::<&str>() {
                s.to_string()
            } else if let Some(s) = e.downcast_ref::<String>() {
                s.clone()
            } else {
                "panic".to_string()
            };
            tagged("crash", vec![st(msg)])
        }
    }
}

fn parsed_to_sexp(p: &Parsed) -> Sexp {
    match p {
        Parsed::Instructions(is) => ast::instructions_to_sexp(is),
        Parsed::Expression(e) => expr_to_sexp(e),
        Parsed::MemoryReference(r) => memref_to_sexp(r),
        Parsed::FrameIdentifier(f) => ast::frame_identifier_to_sexp(f),
        Parsed::ExternSignature(s) => ast::extern_signature(s),
    }
}

fn run_tokens(tokens: &[Token]) -> Sexp {
    let entry = |name: &str, e: Entry| {
        let ts = tokens.to_vec();
        tagged(
            name,
            vec![guarded(move || match parse_tokens(e, ts) {
                Ok((parsed, leftover)) => tagged("ok", vec![parsed_to_sexp(&parsed), nat(leftover as u64)]),
                Err(Rejected::Error) => tagged("err", vec![]),
                Err(Rejected::Failure) => tagged("fail", vec![]),
            })],
        )
    };
    tagged(
        "results",
        vec![
            entry("instructions", Entry::Instructions),
            entry("expression", Entry::Expression),
            entry("memref", Entry::MemoryReference),
            entry("frame", Entry::FrameIdentifier),
            entry("extern", Entry::ExternSignature),
        ],
    )
}

/// What a caller does with a returned error: `to_string()`, the alternate form (with the chain of
/// causes), `Debug`, and the same for every `source()` in the chain.  These build snippets and
/// line / column information; a panic in there is a C01 violation too.
fn consume_error<E: std::error::Error>(e: &E) {
    let _ = e.to_string();
    let _ = format!("{e:#} {e:?}");
    let mut source = e.source();
    while let Some(inner) = source {
        let _ = format!("{inner} {inner:#} {inner:?}");
        source = inner.source();
    }
}

fn run_text(text: &str) -> Sexp {
    let ok = |v: Vec<Sexp>| tagged("ok", v);
    let err = || tagged("err", vec![]);
    tagged(
        "results",
        vec![
            tagged("lex", vec![guarded(|| qvh::lexwire::lex_out(text))]),
            tagged(
                "program",
                vec![guarded(|| match Program::from_str(text) {
                    Ok(p) => {
                        // what `quil-cli parse` does next with the parsed program: print it
                        let _ = p.to_quil().map_err(|e| e.to_string());
                        let _ = p.to_quil_or_debug();
                        let _ = format!("{p:?}");
                        ok(vec![])
                    }
                    Err(e) => {
                        consume_error(&e);
                        err()
                    }
                })],
            ),
            tagged(
                "instruction",
                vec![guarded(|| match Instruction::from_str(text) {
                    Ok(i) => ok(vec![Enc::new().instruction(&i)]),
                    Err(e) => {
                        consume_error(&e);
                        err()
                    }
                })],
            ),
            tagged(
                "expression",
                vec![guarded(|| match Expression::from_str(text) {
                    Ok(e) => {
                        // `quil-cli parse -t expression` prints it
                        let _ = e.to_quil().map_err(|e| e.to_string());
                        ok(vec![expr_to_sexp(&e)])
                    }
                    Err(e) => {
                        consume_error(&e);
                        err()
                    }
                })],
            ),
            tagged(
                "memref",
                vec![guarded(|| match MemoryReference::from_str(text) {
                    Ok(r) => ok(vec![memref_to_sexp(&r)]),
                    Err(e) => {
                        consume_error(&e);
                        err()
                    }
                })],
            ),
            tagged(
                "frame",
                vec![guarded(|| match FrameIdentifier::from_str(text) {
                    Ok(f) => ok(vec![ast::frame_identifier_to_sexp(&f)]),
                    Err(e) => {
                        consume_error(&e);
                        err()
                    }
                })],
            ),
            // extra coverage, specification only ("does not panic"; the results are not compared): every
            // other public `FromStr` of the crate that reads Quil text
            tagged(
                "extra",
                vec![guarded(|| {
                    match quil_rs::instruction::ExternSignature::from_str(text) {
                        Ok(sig) => {
                            let _ = sig.to_quil().map_err(|e| e.to_string());
                            let _ = format!("{sig:?}");
                        }
                        Err(e) => consume_error(&e),
                    }
                    match quil_rs::reserved::ReservedToken::from_str(text) {
                        Ok(t) => {
                            let _ = t.to_string();
                        }
                        Err(e) => consume_error(&e),
                    }
                    let _ = Command::from_str(text).map(|c| c.to_string());
                    let _ = DataType::from_str(text).map(|c| c.to_string());
                    let _ = Modifier::from_str(text).map(|c| c.to_string());
                    let _ = verif_hooks::KeywordToken::from_str(text).map(|c| c.to_string());
                    let _ = quil_rs::instruction::PauliGate::from_str(text).map(|c| c.to_string());
                    let _ = quil_rs::validation::identifier::validate_identifier(text).map_err(|e| e.to_string());
                    let _ = quil_rs::validation::identifier::validate_user_identifier(text).map_err(|e| e.to_string());
                    tagged("done", vec![])
                })],
            ),
        ],
    )
}

/// Very large inputs (10^5–10^6 characters): specification only — the quadratic lexer / parser models
/// are not run on them; the input carries the class `Program::from_str` must return.
fn run_big(text: &str) -> Sexp {
    tagged(
        "big",
        vec![
            guarded(|| match Program::from_str(text) {
                Ok(p) => {
                    let _ = p.to_quil().map_err(|e| e.to_string());
                    tagged("ok", vec![])
                }
                Err(e) => {
                    consume_error(&e);
                    tagged("err", vec![])
                }
            }),
            guarded(|| {
                if let Err(e) = Instruction::from_str(text) {
                    consume_error(&e);
                }
                if let Err(e) = Expression::from_str(text) {
                    consume_error(&e);
                }
                if let Err(e) = MemoryReference::from_str(text) {
                    consume_error(&e);
                }
                if let Err(e) = FrameIdentifier::from_str(text) {
                    consume_error(&e);
                }
                tagged("done", vec![])
            }),
        ],
    )
}

fn handler(payload: &Sexp) -> Sexp {
    match payload {
        Sexp::List(v) if v.first() == Some(&atom("batch")) => tagged("batch", v[1..].iter().map(handler).collect()),
        Sexp::List(v) => match v.as_slice() {
            [Sexp::Atom(k), _, Sexp::List(toks)] if k == "toks" => {
                match toks.iter().map(sexp_to_token).collect::<Option<Vec<Token>>>() {
                    Some(ts) => run_tokens(&ts),
                    None => tagged("garbled-tokens", vec![]),
                }
            }
            [Sexp::Atom(k), _, Sexp::Str(text)] if k == "text" => run_text(text),
            [Sexp::Atom(k), _, _, Sexp::Str(text)] if k == "bigtext" => run_big(text),
            _ => tagged("garbled-payload", vec![]),
        },
        _ => tagged("garbled-payload", vec![]),
    }
}

// --------------------------------------------------------------------------------- generator side

struct Gen<'a> {
    ctx: &'a mut Ctx,
    iso: Isolated,
    /// inputs waiting to be sent to the child as one batch (one pipe round trip per batch)
    pending: Vec<Sexp>,
}

const BATCH: usize = 64;

impl Gen<'_> {
    fn push(&mut self, input: Sexp, big: bool) {
        if big {
            // large inputs (deep nesting) go alone, so that an abort is attributed directly
            self.flush();
            let iso = &mut self.iso;
            let payload = input.clone();
            self.ctx.case(input, || iso.call(&payload));
            return;
        }
        self.pending.push(input);
        if self.pending.len() >= BATCH {
            self.flush();
        }
    }
    fn flush(&mut self) {
        if self.pending.is_empty() {
            return;
        }
        let inputs = std::mem::take(&mut self.pending);
        // replaying one case: run only that one
        if let Some(only) = self.ctx.only {
            for input in inputs {
                if self.ctx.next_index == only {
                    let iso = &mut self.iso;
                    let payload = input.clone();
                    self.ctx.case(input, || iso.call(&payload));
                } else {
                    self.ctx.case(input, || tagged("skipped", vec![]));
                }
            }
            return;
        }
        let batch = tagged("batch", inputs.clone());
        let outs = match self.iso.call(&batch) {
            Sexp::List(v) if v.len() == inputs.len() + 1 && v[0] == atom("batch") => Some(v[1..].to_vec()),
            _ => None,
        };
        match outs {
            Some(outs) => {
                for (input, out) in inputs.into_iter().zip(outs) {
                    self.ctx.case(input, || out);
                }
            }
            // the batch died (abort / timeout): run its members one by one to find the culprit
            None => {
                for input in inputs {
                    let iso = &mut self.iso;
                    let payload = input.clone();
                    self.ctx.case(input, || iso.call(&payload));
                }
            }
        }
    }
    fn toks(&mut self, stream: &str, tokens: &[Token]) {
        let input = tagged("toks", vec![atom(stream), list(tokens.iter().map(token_sexp).collect())]);
        self.push(input, tokens.len() > 2000);
    }
    /// a very large text, checked against the expected class of `Program::from_str` only
    fn bigtext(&mut self, stream: &str, expected: &str, text: &str) {
        let input = tagged("bigtext", vec![atom(stream), atom(expected), st(text)]);
        self.push(input, true);
    }
    fn text(&mut self, stream: &str, text: &str) {
        let input = tagged("text", vec![atom(stream), st(text)]);
        self.push(input, text.len() > 2000);
    }
}

/// Every command keyword (51), in the lexer's declaration order.
const COMMANDS: [&str; 51] = [
    "ADD", "AND", "ASHR", "CALL", "CAPTURE", "CONVERT", "DECLARE", "DEFCAL", "DEFCIRCUIT", "DEFFRAME", "DEFGATE",
    "DEFWAVEFORM", "DELAY", "DIV", "EQ", "EXCHANGE", "FENCE", "GE", "GT", "HALT", "INCLUDE", "IOR", "JUMP",
    "JUMP-UNLESS", "JUMP-WHEN", "LABEL", "LE", "LOAD", "LT", "MEASURE", "MOVE", "MUL", "NEG", "NOP", "NOT", "PRAGMA",
    "PULSE", "RAW-CAPTURE", "RESET", "SET-FREQUENCY", "SET-PHASE", "SET-SCALE", "SHIFT-FREQUENCY", "SHIFT-PHASE",
    "SHL", "SHR", "STORE", "SUB", "SWAP-PHASES", "WAIT", "XOR",
];

/// Everything that is not a command: punctuation, operators, keywords, modifiers, data types and one
/// (or two) of each payload-carrying class.
const NON_COMMANDS: [&str; 43] = [
    "!", ":", ",", "[", "]", "(", ")", ";", "\n", "\t", "^", "-", "+", "/", "*", "AS", "MATRIX", "PERMUTATION",
    "PAULI-SUM", "SEQUENCE", "SHARING", "OFFSET", "mut", "NONBLOCKING", "CONTROLLED", "DAGGER", "FORKED", "BIT",
    "OCTET", "REAL", "INTEGER", "q", "i", "pi", "sin", "XY", "1", "2.5", "\"s\"", "%v", "@t", "# c",
    "18446744073709551615",
];

/// The core alphabet of the exhaustive streams (one command per parser shape that takes few tokens,
/// every punctuation / operator, the keywords that matter to short inputs, one of each payload class).
const CORE: [&str; 40] = [
    "MOVE", "AND", "EQ", "MEASURE", "DELAY", "RESET", "PULSE", "SET-PHASE", "DEFGATE", "DEFCAL", "DECLARE", "CALL",
    "NONBLOCKING", "!", ":", ",", "[", "]", "(", ")", ";", "\n", "\t", "^", "-", "+", "/", "*", "AS", "SHARING", "DAGGER",
    "BIT", "q", "i", "sin", "1", "2.5", "\"s\"", "%v", "@t",
];

fn for_all_indices(alphabet: &[usize], len: usize, f: &mut impl FnMut(&[usize])) {
    let mut idx = vec![0usize; len];
    loop {
        let seq: Vec<usize> = idx.iter().map(|&i| alphabet[i]).collect();
        f(&seq);
        let mut k = len;
        loop {
            if k == 0 {
                return;
            }
            k -= 1;
            idx[k] += 1;
            if idx[k] < alphabet.len() {
                break;
            }
            idx[k] = 0;
        }
    }
}

fn for_all_sequences(alphabet: &[Token], len: usize, f: &mut impl FnMut(&[Token])) {
    let mut idx = vec![0usize; len];
    let mut seq: Vec<Token> = idx.iter().map(|&i| alphabet[i].clone()).collect();
    loop {
        f(&seq);
        let mut k = len;
        loop {
            if k == 0 {
                return;
            }
            k -= 1;
            idx[k] += 1;
            if idx[k] < alphabet.len() {
                seq[k] = alphabet[idx[k]].clone();
                break;
            }
            idx[k] = 0;
            seq[k] = alphabet[0].clone();
        }
    }
}

/// Hand-written witnesses and past failures (always first).
const CORPUS: &[&str] = &[
    "",
    "X 0",
    "ADD ro +1",
    "EQ a b +1",
    "STORE a b[0] +2",
    "AND a +1",
    "NONBLOCKING",
    "NONBLOCKING X 0",
    "NONBLOCKING PULSE 0 \"xy\" w()",
    "NONBLOCKING MEASURE 0",
    "MOVE ro -9223372036854775808",
    "MOVE ro -9223372036854775809",
    "MOVE ro 9223372036854775807",
    "MOVE ro 9223372036854775808",
    "MOVE ro 18446744073709551615",
    "MOVE ro 18446744073709551616",
    "MOVE ro -1.5",
    "MOVE ro --1",
    "ADD ro -",
    "DELAY 0 1 2",
    "DELAY 0 1 theta[0]",
    "DELAY 0 1 theta",
    "DELAY 0 1 pi/2",
    "DELAY 0 q \"a\" 1",
    "DELAY 0 q \"a\"",
    "DELAY 0 1 +",
    "DELAY 0 1 2 (",
    "DELAY q r s",
    "DELAY %a %b",
    "DELAY 0 1 sin",
    "DELAY 0 1 sin(2)",
    "CALL f -1 -2.5 -1i 1+2i 1-2.5i -1-2i -1+2i",
    "CALL f 1+2",
    "CALL f 1i+2i",
    "CALL f 1+0i",
    "CALL f 1+2i+3i",
    "CALL f 1 + 2i a",
    "CALL f - 1",
    "CALL f --1",
    "CALL f -a",
    "CALL f 0-0i",
    "CALL f -0",
    "CALL f -0.0-0.0i",
    "CALL f i",
    "CALL f 1+i",
    // error construction / formatting: a lex error on a line longer than 100 bytes with a multi-byte
    // character straddling byte offset 100 (a seeded `&s[..100]` in the lex-error snippet panics here)
    "H 0;H 0;H 0;H 0;H 0;H 0;H 0;H 0;H 0;H 0;H 0;H 0;H 0;H 0;H 0;H 0;H 0;H 0;H 0;H 0;H 0;H 0;H 0;H 0;H 1\u{e9}",
    "PULSE 0 \"aaaaaaaaaaaaaaaaaaaaaaaaaaaaaaaaaaaaaaaaaaaaaaaaaaaaaaaaaaaaaaaaaaaaaaaaaaaaaaaaaaaaaaa\u{416}\u{416}\u{416}\u{416}\" w() $",
    // regression: these three tripped a debug assertion inside `lexical` before c330f06
    "MOVE ro 1._0000000000000000001",
    "MOVE ro 45._13920674617104288926664e272",
    "MOVE ro 0o7._777777777777777777_30",
    "DELAY 0 \"a\" 1.0",
    "DELAY 0 %t",
    "DELAY q",
    "DELAY",
    "MEASURE 0 ro[",
    "MEASURE !name q ro",
    "RX(",
    "RX(1",
    "RX() 0",
    "RX(,) 0",
    "RX(1,) 0",
    "RX(-) 0",
    "RX(--1) 0",
    "RX(-(-1)) 0",
    "RX(1 2) 0",
    "RX(sin) 0",
    "RX(SIN(1)) 0",
    "RX(pi i) 0",
    "RX(1i+2.5i) 0",
    "RX(a[) 0",
    "RX(a[1]) 0",
    "RX(1^2^3*4+5) 0",
    "PULSE 0 \"f\" w(a: 1, a: 2)",
    "PULSE 0 \"f\" w(a: 1",
    "PULSE 0 \"f\" w(a:)",
    "PULSE 0 \"f\" w/x(a: 1)",
    "PULSE 0 \"f\" w/",
    "CAPTURE 0 \"f\" w ro[0]",
    "RAW-CAPTURE 0 \"f\" 1 ro",
    "DEFCAL X 0:\n\tX 0",
    "DEFCAL X 0:",
    "DEFCAL X 0:\n\t",
    "DEFCAL X 0:\n\tDEFCAL Y 0:\n\tNOP",
    "DEFCAL MEASURE 0 dest:\n\tNOP",
    "DEFCAL MEASURE !n 0:\n\tNOP",
    "DEFCIRCUIT C(%a) q r:\n\tRX(%a) q\n\tCNOT q r",
    "DEFFRAME 0 \"f\":\n\tA: 1\n\tB: \"s\"\n\tA: 2",
    "DEFFRAME 0 \"f\":",
    "DEFGATE G:\n\t1, 0\n\t0, 1",
    "DEFGATE G(%a) AS MATRIX:\n\t%a,\t0\n\t0, 1",
    "DEFGATE G AS PERMUTATION:\n\t0, 1",
    "DEFGATE G AS PERMUTATION:\n\t0, 1.0",
    "DEFGATE G p q AS PAULI-SUM:\n\tXY(1) p q",
    "DEFGATE G p q AS PAULI-SUM:\n\tXY(1) p",
    "DEFGATE G p AS PAULI-SUM:\n\tA(1) p",
    "DEFGATE G p AS PAULI-SUM:\n\tX(1) r",
    "DEFGATE G p q AS SEQUENCE:\n\tH p\n\tCNOT p q",
    "DEFGATE G AS SEQUENCE:\n\tH p",
    "DEFGATE G p AS SEQUENCE:\n\tH 0",
    "DEFGATE G p AS SEQUENCE:\n\tH r",
    "DEFGATE G AS:",
    "DEFWAVEFORM w(%a):\n\t1, %a, 2i",
    "DEFWAVEFORM w:\n\t",
    "DECLARE ro BIT",
    "DECLARE ro BIT[",
    "DECLARE ro BIT[2] SHARING x OFFSET 1 BIT 2 REAL",
    "DECLARE ro BIT[2] SHARING x OFFSET",
    "PRAGMA a b 1 \"d\"",
    "PRAGMA",
    "CALL f a b[1] 1 2.5 1i i",
    "CALL f -1",
    "LABEL @a\nJUMP @a\nJUMP-WHEN @a ro\nJUMP-UNLESS @a ro[1]",
    "JUMP a",
    "INCLUDE \"f\"",
    "RESET\nRESET 0\nRESET q",
    "FENCE\nFENCE 0 1",
    "SWAP-PHASES 0 \"a\" 1 \"b\"",
    "LOAD a b c\nSTORE a b c\nSTORE a b 1\nSTORE a b -1.0",
    "CONVERT a b\nEXCHANGE a b\nNOT a\nNEG a[1]",
    "HALT\nNOP\nWAIT",
    "; ; \n # c\n\tX 0 # d\n;",
    "\t# c",
    "X 0 Y 1",
    "1",
    "(",
    ")",
    "CONTROLLED",
    "CONTROLLED DAGGER X 0 1",
    "0 \"xy\"",
    "0 q %r \"xy\"",
    "ro[1]",
    "ro",
    "(1+2)*3",
    "INTEGER (a : INTEGER, b : mut REAL[3], c : BIT[])",
    "(a : INTEGER",
    "INTEGER",
    "()",
];

/// Numeric boundary spellings (stream iii), placed in operand, expression, qubit and index positions.
const NUMBERS: &[&str] = &[
    "0", "1", "00", "007", "2147483647", "2147483648", "4294967295", "4294967296", "9007199254740992",
    "9007199254740993", "9223372036854775807", "9223372036854775808", "9223372036854775809",
    "18446744073709551615", "18446744073709551616", "99999999999999999999", "0x0", "0xFFFFFFFFFFFFFFFF",
    "0x10000000000000000", "0x7FFFFFFFFFFFFFFF", "0x8000000000000000", "0b1", "0b", "0o777", "0o8", "0xg", "1_000",
    "1__0", "_1", "1_", "0x_", "1.0", "1.", ".5", ".", "1e3", "1e", "1e+", "1E-3", "1e308", "1e309", "1.7976931348623157e308",
    "1.7976931348623159e308", "4.9e-324", "2e-324", "1e-400", "0.0", "1._5", "1_.5", "1.5_", "1e1_0", "1i", "1.5i",
    "1 i", "0x1i",
];

fn number_templates(n: &str) -> Vec<String> {
    vec![
        format!("MOVE ro {n}"),
        format!("MOVE ro -{n}"),
        format!("MOVE ro +{n}"),
        format!("EQ a b -{n}"),
        format!("AND a -{n}"),
        format!("AND a {n}"),
        format!("STORE a b {n}"),
        format!("RX({n}) 0"),
        format!("RX(-{n}) 0"),
        format!("RX(a[{n}]) 0"),
        format!("X {n}"),
        format!("MOVE ro[{n}] 1"),
        format!("DECLARE ro BIT[{n}]"),
        format!("DECLARE ro BIT SHARING x OFFSET {n} BIT"),
        format!("DELAY 0 {n}"),
        format!("DELAY {n}"),
        format!("PRAGMA a {n}"),
        format!("CALL f {n}"),
        format!("DEFGATE G AS PERMUTATION:\n\t{n}, 0"),
        n.to_string(),
        format!("-{n}"),
        format!("a[{n}]"),
        format!("{n} \"f\""),
    ]
}

/// Deep nesting (stream iv): text with nesting depth `n` in one of several shapes.
fn nested(shape: usize, n: usize) -> String {
    match shape {
        0 => format!("RX({}1{}) 0", "(".repeat(n), ")".repeat(n)),
        1 => format!("{}1{}", "(".repeat(n), ")".repeat(n)),
        2 => format!("RX({}1{}) 0", "sin(".repeat(n), ")".repeat(n)),
        3 => format!("RX({}1{}) 0", "-(".repeat(n), ")".repeat(n)),
        4 => format!("RX({}1{}) 0", "1+(".repeat(n), ")".repeat(n)),
        5 => {
            // nested blocks: DEFCAL inside DEFCAL inside …
            let mut s = String::new();
            for _ in 0..n {
                s.push_str("DEFCAL X 0:\n\t");
            }
            s.push_str("NOP");
            s
        }
        // unbalanced: n opening parentheses only (error path at depth n)
        _ => format!("RX({}1 0", "(".repeat(n)),
    }
}

/// ASCII filler of exactly `n` bytes made of `;`-separated instructions (`H 0;H 0;…`, padded with
/// spaces), so that a long line is still a sequence of valid instructions.
fn filler(n: usize) -> String {
    let mut s = String::new();
    while s.len() + 4 <= n {
        s.push_str("H 0;");
    }
    while s.len() < n {
        s.push(' ');
    }
    s
}

/// Stream (v): long single-line inputs with a multi-byte character (`width` bytes) starting at byte
/// offset `start` of its line, in one of three contexts, combined with no error, a lex error after it,
/// a lex error before it, or a parse error.  `lead` is put in front (earlier lines, `\r\n`, tabs).
fn long_line(lead: &str, start: usize, ch: char, context: usize, error: usize) -> String {
    // the text of the line up to the character, of exactly `start` bytes
    let (mut line, close) = match context {
        // inside a string literal: `PRAGMA x "aaaa…` (10 bytes of head)
        0 => {
            let head = "PRAGMA x \"";
            if start < head.len() + 1 {
                (filler(start), "")
            } else {
                (format!("{head}{}", "a".repeat(start - head.len())), "\"")
            }
        }
        // inside a comment: `H 0;…;# ccc…`
        1 => {
            if start < 8 {
                (filler(start), "")
            } else {
                let code = filler((start / 2) & !3);
                (format!("{code}#{}", "c".repeat(start - code.len() - 1)), "")
            }
        }
        // bare: the character itself is a lex error
        _ => (filler(start), ""),
    };
    // a lex error BEFORE the character, on the same line (replaces one filler byte)
    if error == 2 && start > 12 {
        let at = if context == 0 { 0 } else { 4 };
        if context == 0 {
            line = format!("${}", &line[1..]);
        } else {
            line.replace_range(at..at + 1, "$");
        }
    }
    line.push(ch);
    line.push_str(match context {
        0 => "bbbb",
        1 => "cccc",
        _ => "",
    });
    line.push_str(close);
    match error {
        // a lex error after the character
        1 => line.push_str(" $"),
        // a parse error after the character (new statement, so it also works after a comment… no: a
        // comment swallows the rest of the line; put it on the next line there)
        3 => line.push_str(if context == 1 { "\n)" } else { ";)" }),
        _ => {}
    }
    format!("{lead}{line}")
}

/// Stream (vi): error positions at the end of input, on empty lines, after `\r\n`, with tabs.
fn error_positions() -> Vec<String> {
    let prefixes = ["", "\n", "\n\n", "\r\n", "X 0\r\n", "\t", "X 0\n\t", "# c\n", "   ", "X 0;", "\u{e9}\n", "# \u{1F600}\r\n"];
    let bodies = [
        "$", "RX(", "\"abc", "ADD ro +1", "1e", "0x", "\u{e9}", "X 0 $", ")", "DEFCAL X 0:\n\t$", "DEFCAL X 0:\n\tRX(",
        "PULSE 0 \"f\" w(a: ", "\"\u{416}\" $", "X 0 # \u{91cf}\n$", "MOVE ro 99999999999999999999", "X 0 Y 1",
    ];
    let suffixes = ["", "\n", "\r\n", "\n\n", " ", "\t", "\nX 0", "\r", "\n\t\n"];
    let mut v = Vec::new();
    for p in prefixes {
        for b in bodies {
            for s in suffixes {
                v.push(format!("{p}{b}{s}"));
            }
        }
    }
    v
}

/// One sample of every instruction kind (and of every DEFGATE specification kind), as the lines of a
/// block body would spell it: continuation lines are indented by exactly one tab, like the body itself.
const KIND_SAMPLES: &[&str] = &[
    "ADD a 1",
    "AND a b",
    "DEFCAL Z q:\n\tNOP",
    "CALL f a 1",
    "CAPTURE 0 \"f\" w(a: 1) ro",
    "DEFCIRCUIT D(%p) r:\n\tRX(%p) r",
    "CONVERT a b",
    "EQ a b c",
    "DECLARE m REAL[2] SHARING n OFFSET 1 BIT",
    "DELAY 0 \"f\" 1.5",
    "EXCHANGE a b",
    "FENCE 0 1",
    "DEFFRAME 0 \"f\":\n\tSAMPLE-RATE: 1.0\n\tDIRECTION: \"tx\"",
    "CONTROLLED RX(pi/2) 1 q",
    "DEFGATE G(%a) AS MATRIX:\n\t1, 0\n\t0, %a",
    "DEFGATE P AS PERMUTATION:\n\t1, 0",
    "DEFGATE S p q AS PAULI-SUM:\n\tXY(1.0) p q",
    "DEFGATE Q p AS SEQUENCE:\n\tH p",
    "HALT",
    "INCLUDE \"file\"",
    "JUMP @l",
    "JUMP-UNLESS @l a",
    "JUMP-WHEN @l a[1]",
    "LABEL @l",
    "LOAD a b c",
    "DEFCAL MEASURE 2 dst:\n\tNOP",
    "MEASURE !n 0 ro[1]",
    "MOVE a -1.5",
    "NOP",
    "PRAGMA a b 1 \"d\"",
    "PRAGMA EXTERN f \"INTEGER (a : INTEGER)\"",
    "NONBLOCKING PULSE 0 1 \"f\" w",
    "RAW-CAPTURE 0 \"f\" 1 ro",
    "RESET q",
    "SET-FREQUENCY 0 \"f\" 1",
    "SET-PHASE 0 \"f\" pi",
    "SET-SCALE 0 \"f\" 1",
    "SHIFT-FREQUENCY 0 \"f\" 1",
    "SHIFT-PHASE 0 \"f\" -pi",
    "STORE a b 1",
    "SWAP-PHASES 0 \"f\" 1 \"g\"",
    "NOT a",
    "DEFWAVEFORM w(%a):\n\t1, %a, 2i",
    "WAIT",
];

/// The three kinds of body-carrying definition, as headers.
const BODY_HEADS: [&str; 3] = ["DEFCAL X 0:", "DEFCAL MEASURE 0 addr:", "DEFCIRCUIT C(%t) q:"];

/// `sample` as the last line of a body nested in the given headers (outermost first).  Every level is a
/// block: each of its lines is `NewLine Indentation instruction`, so one tab per line at every depth.
fn nested_in(heads: &[&str], sample: &str) -> String {
    let mut s = String::new();
    for h in heads {
        s.push_str(h);
        s.push_str("\n\t");
    }
    s.push_str(sample);
    s.push('\n');
    s
}

/// Duplicate definitions of every kind `Program` keys (same key, different value, then the first again),
/// and PRAGMA EXTERN in every arity.
const DUPLICATES: &[&str] = &[
    "DECLARE a BIT\nDECLARE a REAL[3]\nDECLARE a BIT",
    "DECLARE a BIT[2] SHARING b\nDECLARE a BIT[2] SHARING b OFFSET 1 BIT\nDECLARE b BIT[8]",
    "DEFGATE G:\n\t1, 0\n\t0, 1\nDEFGATE G AS PERMUTATION:\n\t1, 0\nDEFGATE G:\n\t1, 0\n\t0, 1\nG 0",
    "DEFGATE G p AS SEQUENCE:\n\tH p\nDEFGATE G p AS PAULI-SUM:\n\tX(1) p\nDEFGATE G p AS SEQUENCE:\n\tG p",
    "DEFCAL X 0:\n\tNOP\nDEFCAL X 0:\n\tWAIT\nDEFCAL X q:\n\tNOP\nDEFCAL DAGGER X 0:\n\tNOP\nDEFCAL X 0:\n\tNOP",
    "DEFCAL RX(pi) 0:\n\tNOP\nDEFCAL RX(pi/1) 0:\n\tWAIT\nDEFCAL RX(%t) 0:\n\tNOP\nDEFCAL RX(%t) 0:\n\tWAIT",
    "DEFCAL MEASURE 0 a:\n\tNOP\nDEFCAL MEASURE 0 b:\n\tWAIT\nDEFCAL MEASURE q a:\n\tNOP\nDEFCAL MEASURE !n 0 a:\n\tNOP\nDEFCAL MEASURE 0 a:\n\tNOP\nDEFCAL MEASURE 0:\n\tNOP",
    "DEFCIRCUIT C q:\n\tX q\nDEFCIRCUIT C(%a) q r:\n\tRX(%a) q\nDEFCIRCUIT C q:\n\tX q",
    "DEFFRAME 0 \"f\":\n\tA: 1\nDEFFRAME 0 \"f\":\n\tA: 2\n\tB: \"s\"\nDEFFRAME 1 0 \"f\":\n\tA: 1\nDEFFRAME 0 \"f\":\n\tA: 1",
    "DEFWAVEFORM w:\n\t1, 2\nDEFWAVEFORM w(%a):\n\t%a\nDEFWAVEFORM w/x:\n\t1\nDEFWAVEFORM w:\n\t1, 2",
    "LABEL @a\nLABEL @a\nJUMP @a\nJUMP @b",
    "PRAGMA EXTERN",
    "PRAGMA EXTERN f",
    "PRAGMA EXTERN \"INTEGER\"",
    "PRAGMA EXTERN f \"INTEGER\"",
    "PRAGMA EXTERN f \"(a : INTEGER)\"\nCALL f 1",
    "PRAGMA EXTERN f \"INTEGER (a : mut REAL[3], b : BIT[])\"\nDECLARE r INTEGER\nDECLARE x REAL[3]\nDECLARE y BIT[4]\nCALL f r x y",
    "PRAGMA EXTERN f g \"INTEGER\"",
    "PRAGMA EXTERN f g h \"INTEGER\"",
    "PRAGMA EXTERN f 1 \"INTEGER\"",
    "PRAGMA EXTERN 1 f",
    "PRAGMA EXTERN f g",
    "PRAGMA EXTERN f \"\"",
    "PRAGMA EXTERN f \"not a signature (\"",
    "PRAGMA EXTERN f \"INTEGER (DEFGATE : INTEGER)\"",
    "PRAGMA EXTERN f \"INTEGER\"\nPRAGMA EXTERN f \"REAL\"\nPRAGMA EXTERN g \"BIT\"\nPRAGMA EXTERN f \"INTEGER\"",
    "PRAGMA EXTERN f g \"INTEGER\"\nPRAGMA EXTERN f h \"REAL\"\nPRAGMA EXTERN \"BIT\"\nPRAGMA EXTERN \"OCTET\"\nPRAGMA EXTERN\nPRAGMA EXTERN",
    "PRAGMA extern f \"INTEGER\"\nPRAGMA Extern f \"INTEGER\"\nPRAGMA EXTERNAL f",
    "DEFCAL X 0:\n\tPRAGMA EXTERN f \"INTEGER\"\n\tCALL f 1\nPRAGMA EXTERN f \"REAL\"\nX 0",
];

/// Names that some stage treats specially, in every letter case, in every position that takes a name.
fn special_names() -> Vec<String> {
    let names = ["pi", "i", "sin", "cos", "sqrt", "exp", "cis", "mut", "as", "matrix", "nonblocking", "bit", "h", "measure"];
    let mut v = Vec::new();
    for n in names {
        let upper = n.to_uppercase();
        let mut mixed = n.to_string();
        mixed[..1].make_ascii_uppercase();
        for name in [n.to_string(), upper, mixed] {
            v.push(format!("RX({name}) 0"));
            v.push(format!("RX({name}(1)) 0"));
            v.push(format!("RX(2*{name}[1]) 0"));
            v.push(format!("{name} 0"));
            v.push(format!("X {name}"));
            v.push(format!("MOVE {name} 1"));
            v.push(format!("DECLARE {name} BIT"));
            v.push(format!("CALL {name} {name} 1"));
            v.push(format!("DELAY {name} {name}"));
            v.push(format!("DEFGATE {name} {name} AS PAULI-SUM:\n\tX(1) {name}"));
            v.push(format!("PULSE 0 \"f\" {name}({name}: {name})"));
            v.push(format!("PRAGMA {name} {name}"));
            v.push(format!("DEFCIRCUIT {name}(%{name}) {name}:\n\tNOP"));
            v.push(format!("JUMP @{name}"));
            v.push(name.clone());
            v.push(format!("{name}[0]"));
            v.push(format!("0 \"{name}\""));
        }
    }
    v
}

/// Unusual characters and layouts: BOM, zero-width and other Unicode spaces / separators, NUL and other
/// control characters, CR / CRLF mixtures, tab / space indentation mixtures, unterminated strings and
/// comments at the end of input.
fn odd_characters() -> Vec<String> {
    let mut v = Vec::new();
    let odd = [
        "\u{FEFF}", "\u{200B}", "\u{200D}", "\u{2028}", "\u{2029}", "\u{85}", "\u{A0}", "\u{0}", "\u{1}", "\u{7F}", "\u{B}", "\u{C}",
        "\u{1B}", "\u{FFFD}", "\u{10FFFF}", "\u{E000}",
    ];
    for o in odd {
        for t in [
            format!("{o}"),
            format!("{o}X 0"),
            format!("X 0{o}"),
            format!("X{o}0"),
            format!("X {o} 0"),
            format!("X 0\n{o}\nY 1"),
            format!("PRAGMA a \"x{o}y\""),
            format!("X 0 # c{o}c\nY 1"),
            format!("DEFCAL X 0:\n\t{o}NOP"),
            format!("DEFCAL X 0:\n{o}\tNOP"),
            format!("RX({o}1) 0"),
            format!("0 \"{o}\""),
            format!("a{o}[0]"),
        ] {
            v.push(t);
        }
    }
    // line endings
    let program = ["DECLARE ro BIT[2]", "DEFCAL X 0:", "\tNOP", "\tPULSE 0 \"f\" w", "X 0", "MEASURE 0 ro[0]", "# done"];
    for eol in ["\n", "\r\n", "\r", "\n\r", "\r\r\n", "\n\n", "\r\n\r\n", ";", ";\n", " \n", "\t\n", " \r\n "] {
        v.push(program.join(eol));
        v.push(format!("{}{eol}", program.join(eol)));
    }
    v.push(format!("X 0\r\nY 1\nZ 2\rH 3\n\rS 4"));
    // indentation mixtures in a body
    for indent in ["\t", "    ", "  ", "   ", "     ", "        ", "\t\t", "\t    ", "    \t", " \t", "\t ", ""] {
        v.push(format!("DEFCAL X 0:\n{indent}NOP\n{indent}WAIT\nY 1"));
        v.push(format!("DEFCAL X 0:\n\tNOP\n{indent}WAIT"));
        v.push(format!("DEFGATE G:\n{indent}1, 0\n{indent}0, 1"));
        v.push(format!("DEFFRAME 0 \"f\":\n{indent}A: 1"));
        v.push(format!("{indent}X 0\n{indent}Y 1"));
        v.push(format!("DEFCIRCUIT C q:\n{indent}DEFCAL X q:\n{indent}{indent}NOP"));
    }
    // unterminated things at the end of input
    for t in [
        "\"abc", "X 0 \"", "PRAGMA a \"x\\\"", "\"\\", "PRAGMA a \"x\\", "# c", "X 0 #", "#", "X 0 # c\r", "\"a\nb", "PRAGMA a \"a\nb\"",
        "DEFCAL X 0:\n\t# c", "DEFCAL X 0:\n\t\"", "RX(\"", "@", "%", "a[", "0 \"", "1.", "1e", "0x", "@a-", "a-",
    ] {
        v.push(t.to_string());
    }
    v
}

fn mutate_text(rng: &mut Rng, text: &str) -> String {
    const INSERT: [char; 24] = [
        '(', ')', '[', ']', ',', ':', ';', '\n', '\t', ' ', '"', '\\', '#', '-', '+', '*', '/', '^', '%', '@', '!', '0',
        'x', '.',
    ];
    let mut cs: Vec<char> = text.chars().collect();
    for _ in 0..1 + rng.below(3) {
        let pos = rng.below(cs.len() as u64 + 1) as usize;
        match rng.below(4) {
            0 if pos < cs.len() => {
                cs.remove(pos);
            }
            1 => cs.insert(pos, *rng.pick(&INSERT)),
            2 if pos < cs.len() => cs[pos] = *rng.pick(&INSERT),
            _ if !cs.is_empty() && pos < cs.len() => {
                // duplicate or swap with the neighbour
                if pos + 1 < cs.len() && rng.chance(1, 2) {
                    cs.swap(pos, pos + 1);
                } else {
                    let c = cs[pos];
                    cs.insert(pos, c);
                }
            }
            _ => {}
        }
    }
    cs.into_iter().collect()
}

fn mutate_tokens(rng: &mut Rng, tokens: &[Token], alphabet: &[Token]) -> Vec<Token> {
    let mut ts = tokens.to_vec();
    for _ in 0..1 + rng.below(3) {
        let pos = rng.below(ts.len() as u64 + 1) as usize;
        match rng.below(5) {
            0 if pos < ts.len() => {
                ts.remove(pos);
            }
            1 => ts.insert(pos, rng.pick(alphabet).clone()),
            2 if pos < ts.len() => ts[pos] = rng.pick(alphabet).clone(),
            3 if pos + 1 < ts.len() => ts.swap(pos, pos + 1),
            _ if pos < ts.len() => {
                let t = ts[pos].clone();
                ts.insert(pos, t);
            }
            _ => {}
        }
    }
    ts
}

fn main() {
    main_with_child(run, handler)
}

fn run(ctx: &mut Ctx) {
    let quick = ctx.quick();
    let mut rng = ctx.rng(1);
    let mut g = Gen { ctx, iso: Isolated::new(Duration::from_secs(60)), pending: Vec::new() };

    let commands: Vec<Token> = COMMANDS.iter().map(|s| tok(s)).collect();
    let non_commands: Vec<Token> = NON_COMMANDS.iter().map(|s| tok(s)).collect();
    let full: Vec<Token> = commands.iter().chain(non_commands.iter()).cloned().collect();
    let core: Vec<Token> = CORE.iter().map(|s| tok(s)).collect();

    // (1) corpus: as text (all from_str entry points) and as tokens
    for text in CORPUS {
        g.text("corpus", text);
        // (the parent lexes corpus texts itself to obtain the token form: guard it, a corpus text may
        // be the witness of a lexer panic)
        if let Ok(Ok(ts)) = catch_unwind(|| verif_hooks::lex_tokens(text)) {
            g.toks("corpus", &ts);
        }
    }

    // (4) deep nesting: below the stack limit (must parse, or be rejected, like any other input) and
    // the known finding's witnesses above it (the smallest aborting depth measured on this build with
    // the default 8 MiB main-thread stack: 12.4k parentheses, 9.5k function calls, 8.4k `1+(`, 3.6k
    // nested DEFCAL blocks — see docs/C01.md)
    let depths: &[usize] = if quick { &[10, 100, 1000] } else { &[10, 100, 1000, 2000, 3000] };
    for shape in 0..7 {
        for &n in depths {
            if shape == 5 && n > 1000 {
                continue;
            }
            g.text("nest", &nested(shape, n));
        }
    }
    for (shape, n) in [(0usize, 20_000usize), (1, 20_000), (2, 20_000), (3, 20_000), (4, 20_000), (5, 6_000), (6, 20_000)] {
        g.text("nest-deep", &nested(shape, n));
    }

    // (3) numeric boundary spellings in every operand position
    for n in NUMBERS {
        for t in number_templates(n) {
            g.text("num", &t);
        }
    }

    // (v) long lines with multi-byte characters straddling every byte offset of a window, in a string,
    // a comment or bare, with no error / a lex error after / a lex error before / a parse error
    let offsets: Vec<usize> = if quick {
        (58..=70).chain(90..=140).chain(124..=132).chain(250..=262).collect()
    } else {
        (8..=300).collect()
    };
    let chars = ['\u{e9}', '\u{91cf}', '\u{1F600}'];
    for &k in &offsets {
        for ch in chars {
            let w = ch.len_utf8();
            // the character covers byte offset k: it starts at k - a for a in 0..w
            for a in 0..w {
                if k < a {
                    continue;
                }
                let start = k - a;
                for context in 0..3 {
                    for error in 0..4 {
                        // one representative alignment per (offset, width) carries all contexts and
                        // errors; the other alignments only the lex-error-after form
                        if a != w / 2 && !(error == 1 && context == 0) {
                            continue;
                        }
                        g.text("longline", &long_line("", start, ch, context, error));
                    }
                }
            }
        }
    }
    for lead in ["X 0\n", "X 0\r\n", "\n\n", "\tX 0\n", "# \u{91cf}\n"] {
        for &k in &[63usize, 64, 99, 100, 101, 127, 128, 255, 256] {
            for ch in chars {
                for context in 0..3 {
                    for error in 1..4 {
                        g.text("longline", &long_line(lead, k - 1, ch, context, error));
                    }
                }
            }
        }
    }
    // (v') parse errors whose offending TOKEN (shown, Debug-formatted, in the error's snippet) holds a
    // multi-byte character at every small byte offset
    for k in 0..48usize {
        for ch in chars {
            let body = format!("{}{ch}{}", "a".repeat(k), "b".repeat(3));
            g.text("tokerr", &format!("\"{body}\""));
            g.text("tokerr", &format!("X 0 \"{body}\" )"));
            g.text("tokerr", &format!("DECLARE ro BIT # {body}\n)"));
            g.text("tokerr", &format!("PRAGMA {} \"{body}\" \"{body}\"", "p".repeat(k + 1)));
        }
    }
    // (vi) error positions at the end of input, on empty lines, after \r\n, with tabs
    for t in error_positions() {
        g.text("errpos", &t);
    }

    // (vii) what Program::from_str runs AFTER parsing (add_instructions → get_qubits, calibration /
    // frame / extern-pragma insertion, …) and what quil-cli does with the result (to_quil): every
    // instruction kind nested in every kind of body, 1–3 levels deep; duplicate definitions of every
    // kind; PRAGMA EXTERN in every arity
    for sample in KIND_SAMPLES {
        g.text("nested", &format!("{sample}\n"));
        for a in BODY_HEADS {
            g.text("nested", &nested_in(&[a], sample));
            for b in BODY_HEADS {
                g.text("nested", &nested_in(&[a, b], sample));
            }
        }
    }
    for (k, sample) in KIND_SAMPLES.iter().enumerate() {
        // third level: all 27 head combinations in thorough, a rotating third of them in quick
        let mut n = 0;
        for a in BODY_HEADS {
            for b in BODY_HEADS {
                for c in BODY_HEADS {
                    n += 1;
                    if quick && (n + k) % 3 != 0 {
                        continue;
                    }
                    g.text("nested", &nested_in(&[a, b, c], sample));
                }
            }
        }
    }
    // a body holding every kind at once, and the same nested once more
    let all_kinds: String = KIND_SAMPLES.iter().map(|k| format!("\t{k}\n")).collect();
    for a in BODY_HEADS {
        g.text("nested", &format!("{a}\n{all_kinds}"));
        g.text("nested", &format!("{a}\n{all_kinds}{}", KIND_SAMPLES.join("\n")));
    }
    for d in DUPLICATES {
        g.text("dups", d);
        for a in BODY_HEADS {
            g.text("dups", &format!("{d}\n{a}\n\t{}\n{d}", d.replace('\n', "\n\t")));
        }
    }
    // (viii) specially treated names in every letter case, in every position
    for t in special_names() {
        g.text("names", &t);
    }
    // (ix) odd characters, line endings, indentation mixtures, unterminated tokens at EOF
    for t in odd_characters() {
        g.text("odd", &t);
    }
    // (x) very long tokens and very many instructions
    let long = if quick { 6_000 } else { 200_000 };
    for (expected, t) in [
        ("ok", format!("{} 0", "G".repeat(long))),
        ("ok", format!("X {}", "q".repeat(long))),
        ("ok", format!("PRAGMA a \"{}\"", "s\\\"\u{e9}".repeat(long / 4))),
        ("ok", format!("X 0 # {}", "c\u{91cf}".repeat(long / 4))),
        ("err", format!("MOVE ro {}", "9".repeat(long))),
        ("ok", format!("MOVE ro 0.{}", "3".repeat(long))),
        ("ok", format!("MOVE ro {}.5", "0".repeat(long))),
        ("err", format!("MOVE ro 1e{}", "9".repeat(long))),
        ("ok", format!("MOVE ro 1{}", "_".repeat(long))),
        ("ok", format!("MOVE ro 0x{}1", "0".repeat(long))),
        ("ok", format!("JUMP @{}", "l-".repeat(long / 2) + "l")),
        ("ok", format!("RX(%{}) 0", "v".repeat(long))),
        // a flat sum: parsed iteratively, but printed / debug-printed / dropped recursively — above
        // about 50 000 terms this is the known finding C01/deep-expression-drop (thorough only)
        ("ok", format!("RX({}1) 0", "1+".repeat(if quick { 4_000 } else { 60_000 }))),
        ("ok", format!("X 0{}", ";X 0".repeat(long / 4))),
        ("ok", format!("X{}", " 0".repeat(long / 2))),
        ("ok", format!("DEFCAL X 0:{}", "\n\tNOP".repeat(long / 5))),
        ("ok", format!("DECLARE ro BIT SHARING x OFFSET{}", " 1 BIT".repeat(long / 6))),
        ("ok", format!("PRAGMA a{}", " b 1".repeat(long / 4))),
        ("ok", format!("CALL f{}", " 1 a[0] -2i".repeat(long / 10))),
        ("ok", format!("DELAY{} 1", " 0".repeat(long / 2))),
        // every qubit but the last is given back one by one until the last `q` reads as the duration
        ("ok", format!("DELAY{}", " q".repeat(long / 20))),
        ("err", format!("DELAY{} \"f\"", " q".repeat(long / 20))),
        ("ok", format!("{}X 0", "\n".repeat(long))),
        // leading blanks are indentation tokens, which no instruction may start with
        ("err", format!("{}X 0", " ".repeat(long))),
        // … and four or more trailing blanks lex as indentation tokens too: a parse error (an
        // observation, not a C01 matter: `X 0    ` is rejected, `X 0   ` is accepted)
        ("err", format!("X 0{}", " ".repeat(long))),
        ("ok", format!("X 0{}", "\n".repeat(long))),
        ("err", format!("{}$", "X 0\n".repeat(long / 4))),
        ("err", format!("{}\u{e9}", "a".repeat(long))),
        ("err", format!("\"{}", "a\u{416}".repeat(long / 3))),
    ] {
        g.bigtext("big", expected, &t);
    }
    if !quick {
        g.bigtext("big", "ok", &format!("X 0{}", ";X 0".repeat(100_000)));
        g.bigtext("big", "ok", &format!("{} 0", "G".repeat(1_000_000)));
        g.bigtext("big", "ok", &format!("PRAGMA a \"{}\"", "s".repeat(1_000_000)));
    }
    // the same shapes small enough for the models
    for (n, stream) in [(300usize, "longtok")] {
        for t in [
            format!("{} 0", "G".repeat(n)),
            format!("MOVE ro {}", "9".repeat(n)),
            format!("MOVE ro 0.{}", "3".repeat(n)),
            format!("MOVE ro 1e{}", "9".repeat(n)),
            format!("MOVE ro 1{}", "_".repeat(n)),
            format!("X 0{}", ";X 0".repeat(n)),
            format!("DEFCAL X 0:{}", "\n\tNOP".repeat(n)),
            format!("DELAY{} 1", " 0".repeat(n)),
            format!("DELAY{}", " q".repeat(n)),
            format!("CALL f{}", " 1 a[0] -2i".repeat(n)),
            format!("RX({}1) 0", "1+".repeat(n)),
        ] {
            g.text(stream, &t);
        }
    }

    // (2a) exhaustive token sequences
    //   full alphabet (every command, keyword, punctuation, operator, class): length ≤ 2 (quick) / 3 (thorough)
    //   core alphabet (40 tokens): length ≤ 3 (quick) / 4 (thorough)
    let (full_len, core_len) = if quick { (2, 3) } else { (3, 4) };
    for len in 0..=full_len {
        for_all_sequences(&full, len, &mut |s| g.toks("exh-full", s));
    }
    for len in (full_len + 1).min(3)..=core_len {
        for_all_sequences(&core, len, &mut |s| g.toks("exh-core", s));
    }
    //   every command (and NONBLOCKING) as head, core alphabet tails: length 3 (quick) / 4 (thorough)
    let head_tail = if quick { 1 } else { 2 };
    let mut heads = commands.clone();
    heads.push(tok("NONBLOCKING"));
    for h in &heads {
        for_all_sequences(&core, head_tail, &mut |s| {
            let mut v = vec![h.clone()];
            v.extend_from_slice(s);
            g.toks("exh-head", &v);
        });
    }
    //   command head + random tails over the full alphabet, length 5..8
    let n_random_head = if quick { 3_000 } else { 300_000 };
    for _ in 0..n_random_head {
        let len = 4 + rng.below(4) as usize;
        let mut v = vec![rng.pick(&heads).clone()];
        for _ in 0..len {
            v.push(if rng.chance(3, 4) { rng.pick(&core).clone() } else { rng.pick(&full).clone() });
        }
        g.toks("rand-head", &v);
    }
    //   the same rendered as text (tokens separated by one space) through the from_str entry points
    let n_text_exh = if quick { 2 } else { 3 };
    for len in 1..=n_text_exh {
        let idx_alphabet: Vec<usize> = (0..CORE.len()).collect();
        for_all_indices(&idx_alphabet, len, &mut |idx| {
            let text: Vec<&str> = idx.iter().map(|&i| CORE[i]).collect();
            g.text("exh-text", &text.join(" "));
        });
    }

    // (2b) grammar-derived valid programs covering every instruction kind, and mutations of them
    let alpha = Alpha::small();
    let n_valid = if quick { 450 } else { 40_000 };
    let n_mut = if quick { 4 } else { 8 };
    for k in 0..n_valid {
        let count = 1 + rng.below(3);
        let mut text = String::new();
        for j in 0..count {
            let variant = instrgen::VARIANTS[((k as u64 * 3 + j) % 40) as usize];
            let i = instrgen::gen_variant(&mut rng, &alpha, variant, 2);
            match i.to_quil() {
                Ok(t) => {
                    text.push_str(&t);
                    text.push('\n');
                }
                Err(_) => {}
            }
        }
        g.text("valid", &text);
        let tokens = verif_hooks::lex_tokens(&text).ok();
        if let Some(ts) = &tokens {
            g.toks("valid", ts);
        }
        for _ in 0..n_mut {
            g.text("mut-text", &mutate_text(&mut rng, &text));
            if let Some(ts) = &tokens {
                g.toks("mut-toks", &mutate_tokens(&mut rng, ts, &full));
            }
        }
    }
    g.flush();
}
