//! C10 — a program's used-qubit set and equality depend only on its content.
//!
//! Input: `(hist <history tree>)` or `(pair <history> <history>)`. A history is
//! `(new (<instr>…)) | (op <history> <op>) | (concat <history> <history>)`; the opaque inputs of an
//! operation (expansion outputs, kept keys, resolved body, …) are read off the REAL run and embedded in
//! the op, see `lean/QV/C10/Model.lean`. Output: the state (listing + used-qubit set) after every
//! operation on the top-level chain, the used set of the program rebuilt from the final listing, and
//! `final == rebuilt` (for pairs: both final states and `a == b`).
use qvh::progwire::{parse_one, pool_or_exit, Pool, Proj};
use qvh::*;
use quil_rs::instruction::{
    Arithmetic, ArithmeticOperand, ArithmeticOperator, Declaration, DefaultHandler, Instruction, JumpWhen, Label,
    MemoryReference, Move, ScalarType, Target, Vector,
};
use quil_rs::Program;

thread_local! {
    /// names of sibling-entry-point relations that failed while running the current case
    static SIB: std::cell::RefCell<Vec<String>> = const { std::cell::RefCell::new(Vec::new()) };
}

fn rel(name: &str, ok: bool) {
    if !ok {
        SIB.with(|s| s.borrow_mut().push(name.to_string()));
    }
}

/// two programs that must be the same program: equal both ways, same listing, same used-qubit set
fn same(a: &Program, b: &Program) -> bool {
    a == b && b == a && a.to_instructions() == b.to_instructions() && a.get_used_qubits() == b.get_used_qubits()
}

/// every returned error is formatted in all the ways a caller might (a panic there is a crash)
fn format_error<E: std::error::Error>(e: &E) {
    let _ = e.to_string();
    let _ = format!("{e:#} {e:?}");
    let mut src = e.source();
    while let Some(s) = src {
        let _ = s.to_string();
        src = s.source();
    }
}

#[derive(Clone)]
enum OpSpec {
    Add(Instruction),
    AddMany(Vec<Instruction>),
    CloneWb,
    ExpCal { with_map: bool },
    ExpSeq { filter: u8, with_map: bool },
    Simplify,
    Wrap(u32),
    Resolve,
    Filter(u64),
    Rebuild,
    IntoRebuild,
    Clone,
    Concat(Box<HistSpec>, bool),
}

#[derive(Clone)]
struct HistSpec {
    init: Vec<Instruction>,
    ops: Vec<OpSpec>,
}

fn opt_some(x: Vec<Sexp>) -> Sexp {
    tagged("some", x)
}
fn opt_none() -> Sexp {
    atom("none")
}

/// the sequence of instructions `expand_calibrations` hands to `add_instruction`, through the public
/// per-instruction expansion API; `None` = some expansion is an error
fn expansion_output(p: &Program) -> Option<Vec<Instruction>> {
    let mut out = Vec::new();
    for i in p.body_instructions() {
        match p.calibrations.expand(i, &[]) {
            Ok(Some(v)) => out.extend(v),
            Ok(None) => out.push(i.clone()),
            Err(_) => return None,
        }
    }
    Some(out)
}

fn seq_filter(kind: u8) -> impl Fn(&str) -> bool {
    move |name: &str| match kind {
        0 => true,
        1 => false,
        2 => name != "SEQ2",
        _ => name == "SEQ3",
    }
}

fn keys_of(pr: &mut Proj, is: &[Instruction]) -> Sexp {
    list(is.iter().map(|i| st(pr.kind_key(i).1)).collect())
}

/// Apply one operation to the real program; returns the op's wire form.
fn apply(p: &mut Program, op: &OpSpec, pr: &mut Proj) -> Sexp {
    match op {
        OpSpec::Add(i) => {
            let mut sib = p.clone();
            sib.add_instructions(vec![i.clone()]);
            p.add_instruction(i.clone());
            rel("add_instructions([i]) = add_instruction(i)", same(p, &sib));
            tagged("add", vec![pr.instr(i)])
        }
        OpSpec::AddMany(is) => {
            let mut sib = p.clone();
            for i in is {
                sib.add_instruction(i.clone());
            }
            p.add_instructions(is.clone());
            rel("add_instruction loop = add_instructions", same(p, &sib));
            tagged("addMany", vec![pr.instrs(is)])
        }
        OpSpec::CloneWb => {
            let r = MemoryReference { name: "loopn".to_string(), index: 0 };
            let sib = p.wrap_in_loop(r, Target::Fixed("loop-start".to_string()), 0);
            *p = p.clone_without_body_instructions();
            rel("wrap_in_loop(0) = clone_without_body_instructions", same(p, &sib));
            tagged("cloneWb", vec![])
        }
        OpSpec::ExpCal { with_map } => {
            let out = expansion_output(p);
            let plain = p.expand_calibrations();
            let mapped = p.expand_calibrations_with_source_map().map(|(q, _)| q);
            match (&plain, &mapped) {
                (Ok(a), Ok(b)) => rel("expand_calibrations = expand_calibrations_with_source_map", same(a, b)),
                (Err(a), Err(b)) => {
                    format_error(a);
                    format_error(b);
                }
                _ => rel("expand_calibrations / _with_source_map: one Ok, one Err", false),
            }
            let res = if *with_map { mapped } else { plain };
            match (res, out) {
                (Ok(q), Some(out)) => {
                    *p = q;
                    tagged("expCal", vec![opt_some(vec![pr.instrs(&out)])])
                }
                (Err(_), None) => tagged("expCal", vec![opt_none()]),
                (Ok(_), None) => panic!("expand_calibrations succeeded but Calibrations::expand failed"),
                (Err(e), Some(_)) => panic!("expand_calibrations failed but every per-instruction expansion succeeded: {e}"),
            }
        }
        OpSpec::ExpSeq { filter, with_map } => {
            let mapped = p.expand_defgate_sequences_with_source_map(seq_filter(*filter)).map(|(q, _)| q);
            let consuming = p.clone().expand_defgate_sequences(seq_filter(*filter));
            match (&consuming, &mapped) {
                (Ok(a), Ok(b)) => rel("expand_defgate_sequences(self) = _with_source_map(&self)", same(a, b)),
                (Err(a), Err(b)) => {
                    format_error(a);
                    format_error(b);
                }
                _ => rel("expand_defgate_sequences / _with_source_map: one Ok, one Err", false),
            }
            let res = if *with_map { mapped } else { consuming };
            match res {
                Ok(q) => {
                    let kept: Vec<Instruction> =
                        q.gate_definitions.values().cloned().map(Instruction::GateDefinition).collect();
                    let body: Vec<Instruction> = q.body_instructions().cloned().collect();
                    let s = tagged("expSeq", vec![opt_some(vec![keys_of(pr, &kept), pr.instrs(&body)])]);
                    *p = q;
                    s
                }
                Err(_) => tagged("expSeq", vec![opt_none()]),
            }
        }
        OpSpec::Simplify => {
            let out = expansion_output(p);
            match (p.simplify(&DefaultHandler), p.clone().simplify(&DefaultHandler)) {
                (Ok(a), Ok(b)) => rel("simplify twice (on a clone)", same(&a, &b)),
                (Err(a), Err(b)) => {
                    format_error(&a);
                    format_error(&b);
                }
                _ => rel("simplify twice: one Ok, one Err", false),
            }
            match (p.simplify(&DefaultHandler), out) {
                (Ok(q), Some(out)) => {
                    let frames = q.frames.to_instructions();
                    let waves: Vec<Sexp> = q.waveforms.keys().map(|k| st(k.clone())).collect();
                    let exts = q.extern_pragma_map.to_instructions();
                    let s = tagged(
                        "simplify",
                        vec![opt_some(vec![pr.instrs(&out), keys_of(pr, &frames), list(waves), keys_of(pr, &exts)])],
                    );
                    *p = q;
                    s
                }
                (Err(_), None) => tagged("simplify", vec![opt_none()]),
                (Ok(_), None) => panic!("simplify succeeded but Calibrations::expand failed"),
                (Err(e), Some(_)) => panic!("simplify failed but every per-instruction expansion succeeded: {e}"),
            }
        }
        OpSpec::Wrap(n) => {
            let r = MemoryReference { name: "loopn".to_string(), index: 0 };
            let t = Target::Fixed("loop-start".to_string());
            // the five instructions wrap_in_loop generates (program/mod.rs:383-416)
            let hd = vec![
                Instruction::Declaration(Declaration {
                    name: r.name.clone(),
                    size: Vector { data_type: ScalarType::Integer, length: 1 },
                    sharing: None,
                }),
                Instruction::Move(Move { destination: r.clone(), source: ArithmeticOperand::LiteralInteger((*n).into()) }),
                Instruction::Label(Label { target: t.clone() }),
            ];
            let tl = vec![
                Instruction::Arithmetic(Arithmetic {
                    operator: ArithmeticOperator::Subtract,
                    destination: MemoryReference { name: r.name.clone(), index: 0 },
                    source: ArithmeticOperand::LiteralInteger(1),
                }),
                Instruction::JumpWhen(JumpWhen { target: t.clone(), condition: r.clone() }),
            ];
            *p = p.wrap_in_loop(r, t, *n);
            tagged("wrap", vec![nat(*n as u64), pr.instrs(&hd), pr.instrs(&tl)])
        }
        OpSpec::Resolve => {
            let mut sib = p.clone();
            sib.resolve_placeholders_with_custom_resolvers(sib.default_target_resolver(), sib.default_qubit_resolver());
            p.resolve_placeholders();
            rel("resolve_placeholders = _with_custom_resolvers(default resolvers)", same(p, &sib));
            // resolving again changes nothing
            let mut again = p.clone();
            again.resolve_placeholders();
            rel("resolve_placeholders idempotent", same(p, &again));
            let body: Vec<Instruction> = p.body_instructions().cloned().collect();
            tagged("resolve", vec![pr.instrs(&body)])
        }
        OpSpec::Filter(seed) => {
            let n = p.to_instructions().len();
            let mut r = Rng::new(*seed);
            let mask: Vec<bool> = (0..n).map(|_| r.chance(3, 4)).collect();
            let mut k = 0;
            *p = p.filter_instructions(|_| {
                let b = mask[k];
                k += 1;
                b
            });
            tagged("filter", vec![list(mask.iter().map(|b| boolean(*b)).collect())])
        }
        OpSpec::Rebuild => {
            let sib = Program::from_instructions(p.clone().into_instructions());
            *p = Program::from_instructions(p.to_instructions());
            rel("from_instructions(into_instructions) = from_instructions(to_instructions)", same(p, &sib));
            tagged("rebuild", vec![])
        }
        OpSpec::IntoRebuild => {
            let sib = Program::from(p.to_instructions());
            *p = Program::from_instructions(p.clone().into_instructions());
            rel("From<Vec>(to_instructions) = from_instructions(into_instructions)", same(p, &sib));
            tagged("intoRebuild", vec![])
        }
        OpSpec::Clone => {
            *p = p.clone();
            tagged("clone", vec![])
        }
        OpSpec::Concat(..) => unreachable!("handled in run_hist"),
    }
}

/// Run a history on the real `Program`; returns its wire form, the final program, and (if asked) the
/// state after the initial build and after every top-level operation.
fn run_hist(spec: &HistSpec, pr: &mut Proj, trace: &mut Option<Vec<Sexp>>) -> (Sexp, Program) {
    let mut p = Program::from_instructions(spec.init.clone());
    let mut h = tagged("new", vec![pr.instrs(&spec.init)]);
    if let Some(t) = trace.as_mut() {
        t.push(pr.state(&p));
    }
    for op in &spec.ops {
        match op {
            OpSpec::Concat(sub, assign) => {
                let (hs, q) = run_hist(sub, pr, &mut None);
                let sib = if *assign { p.clone() + q.clone() } else { let mut s = p.clone(); s += q.clone(); s };
                if *assign {
                    p += q;
                } else {
                    p = p + q;
                }
                rel("a + b = (a += b)", same(&p, &sib));
                h = tagged("concat", vec![h, hs]);
            }
            _ => {
                let o = apply(&mut p, op, pr);
                h = tagged("op", vec![h, o]);
            }
        }
        rel("p == p.clone() after every operation", p == p.clone() && p.clone() == p);
        if let Some(t) = trace.as_mut() {
            t.push(pr.state(&p));
        }
    }
    (h, p)
}

fn emit_hist(ctx: &mut Ctx, spec: &HistSpec) {
    let mut pr = Proj::new();
    SIB.with(|s| s.borrow_mut().clear());
    let r = std::panic::catch_unwind(std::panic::AssertUnwindSafe(|| {
        let mut trace = Some(Vec::new());
        let (h, p) = run_hist(spec, &mut pr, &mut trace);
        let rebuilt = Program::from_instructions(p.to_instructions());
        let rused = pr.qubit_set(rebuilt.get_used_qubits());
        let eq = p == rebuilt;
        let new = pr.take_new();
        let calq = nat(pr.cal_qubit_mismatches);
        (
            h,
            tagged(
                "out",
                vec![new, tagged("trace", trace.unwrap()), tagged("rused", vec![rused]), tagged("eq", vec![boolean(eq)]), tagged("calq", vec![calq]), pr.key_report(), tagged("sib", SIB.with(|s| s.borrow().iter().map(|x| st(x.clone())).collect()))],
            ),
        )
    }));
    match r {
        Ok((h, out)) => ctx.case(tagged("hist", vec![h]), move || out),
        Err(e) => {
            let msg = e.downcast_ref::<String>().cloned().or_else(|| e.downcast_ref::<&str>().map(|s| s.to_string()));
            ctx.case(tagged("hist", vec![atom("generation-panicked")]), move || panic!("{}", msg.unwrap_or_default()))
        }
    }
}

fn emit_pair(ctx: &mut Ctx, a: &HistSpec, b: &HistSpec) {
    let mut pr = Proj::new();
    SIB.with(|s| s.borrow_mut().clear());
    let r = std::panic::catch_unwind(std::panic::AssertUnwindSafe(|| {
        let (ha, pa) = run_hist(a, &mut pr, &mut None);
        let (hb, pb) = run_hist(b, &mut pr, &mut None);
        let sa = pr.state(&pa);
        let sb = pr.state(&pb);
        let eq = pa == pb;
        rel("a == b symmetric", eq == (pb == pa));
        let new = pr.take_new();
        (tagged("pair", vec![ha, hb]), tagged("pout", vec![new, sa, sb, tagged("eq", vec![boolean(eq)]), pr.key_report(), tagged("sib", SIB.with(|s| s.borrow().iter().map(|x| st(x.clone())).collect()))]))
    }));
    match r {
        Ok((i, out)) => ctx.case(i, move || out),
        Err(e) => {
            let msg = e.downcast_ref::<String>().cloned().or_else(|| e.downcast_ref::<&str>().map(|s| s.to_string()));
            ctx.case(tagged("pair", vec![atom("generation-panicked")]), move || panic!("{}", msg.unwrap_or_default()))
        }
    }
}

fn texts(ts: &[&str]) -> Vec<Instruction> {
    ts.iter().map(|t| parse_one(t)).collect()
}

fn random_op(rng: &mut Rng, pool: &Pool, depth: u32) -> OpSpec {
    match rng.below(if depth == 0 { 20 } else { 18 }) {
        0..=3 => OpSpec::Add(pool.history(rng, 1, 60, true).pop().unwrap()),
        4..=5 => {
            let n = 1 + rng.below(4);
            OpSpec::AddMany(pool.history(rng, n, 50, false))
        }
        6 => OpSpec::CloneWb,
        7..=8 => OpSpec::ExpCal { with_map: rng.chance(1, 2) },
        9..=10 => OpSpec::ExpSeq { filter: rng.below(4) as u8, with_map: rng.chance(1, 2) },
        11..=12 => OpSpec::Simplify,
        13 => OpSpec::Wrap(*rng.pick(&[0u32, 1, 2, 3, 7])),
        14 => OpSpec::Resolve,
        15 => OpSpec::Filter(rng.next()),
        16 => rng.pick(&[OpSpec::Rebuild, OpSpec::IntoRebuild]).clone(),
        17 => OpSpec::Clone,
        _ => {
            let sub = random_hist(rng, pool, 1, 2);
            OpSpec::Concat(Box::new(sub), rng.chance(1, 2))
        }
    }
}

fn random_hist(rng: &mut Rng, pool: &Pool, depth: u32, max_ops: u64) -> HistSpec {
    let len = rng.below(if depth == 0 { 13 } else { 7 });
    let def_pct = *rng.pick(&[30u64, 50, 70]);
    let with_api = rng.chance(1, 3);
    let init = pool.history(rng, len, def_pct, with_api);
    let n = rng.below(max_ops + 1);
    let ops = (0..n).map(|_| random_op(rng, pool, depth)).collect();
    HistSpec { init, ops }
}

fn run(ctx: &mut Ctx) {
    let pool = pool_or_exit();

    // (1) corpus: the findings' witnesses, the repaired defects' witnesses, clean neighbours
    let cal5x0 = texts(&["DEFCAL X 5:\n\tNOP", "X 0"]);
    let redef = texts(&["DEFCAL X 0:\n\tY 7", "DEFCAL X 0:\n\tY 13"]);
    let corpus: Vec<HistSpec> = vec![
        HistSpec { init: vec![], ops: vec![] },
        HistSpec { init: cal5x0.clone(), ops: vec![] },
        HistSpec { init: cal5x0.clone(), ops: vec![OpSpec::CloneWb] },
        HistSpec { init: cal5x0.clone(), ops: vec![OpSpec::Wrap(0)] },
        HistSpec { init: cal5x0.clone(), ops: vec![OpSpec::Wrap(1)] },
        HistSpec { init: cal5x0.clone(), ops: vec![OpSpec::Wrap(3)] },
        HistSpec { init: cal5x0.clone(), ops: vec![OpSpec::ExpCal { with_map: false }] },
        HistSpec { init: cal5x0.clone(), ops: vec![OpSpec::ExpCal { with_map: true }] },
        HistSpec { init: cal5x0.clone(), ops: vec![OpSpec::ExpSeq { filter: 0, with_map: false }] },
        HistSpec { init: cal5x0.clone(), ops: vec![OpSpec::ExpSeq { filter: 0, with_map: true }] },
        HistSpec { init: cal5x0.clone(), ops: vec![OpSpec::Simplify] },
        HistSpec { init: cal5x0.clone(), ops: vec![OpSpec::CloneWb, OpSpec::Rebuild] },
        HistSpec { init: cal5x0.clone(), ops: vec![OpSpec::CloneWb, OpSpec::Add(parse_one("X 5"))] },
        HistSpec { init: redef.clone(), ops: vec![] },
        HistSpec { init: redef[..1].to_vec(), ops: vec![OpSpec::Add(redef[1].clone())] },
        HistSpec {
            init: redef[..1].to_vec(),
            ops: vec![OpSpec::Concat(Box::new(HistSpec { init: redef[1..].to_vec(), ops: vec![] }), true)],
        },
        HistSpec {
            init: redef[..1].to_vec(),
            ops: vec![OpSpec::Concat(Box::new(HistSpec { init: redef[1..].to_vec(), ops: vec![] }), false)],
        },
        HistSpec { init: redef.clone(), ops: vec![OpSpec::Resolve] },
        HistSpec { init: redef.clone(), ops: vec![OpSpec::Simplify] },
        HistSpec { init: redef.clone(), ops: vec![OpSpec::Add(parse_one("Y 7"))] },
        HistSpec { init: texts(&["DEFCAL X 0:\n\tY 7", "Y 7", "DEFCAL X 0:\n\tY 13"]), ops: vec![] },
        HistSpec { init: texts(&["DEFCAL MEASURE 2 addr:\n\tX 11", "DEFCAL MEASURE 2 addr:\n\tX 2", "MEASURE 2 ro[0]"]), ops: vec![OpSpec::ExpCal { with_map: false }] },
        HistSpec { init: texts(&["DEFCAL I 6:\n\tI 6", "I 6"]), ops: vec![OpSpec::ExpCal { with_map: false }, OpSpec::Simplify] },
        HistSpec {
            init: texts(&["PRAGMA EXTERN foo legacy \"(c : REAL)\"", "PRAGMA EXTERN bar legacy \"(c : REAL)\"", "CALL foo acc[0]", "DECLARE acc INTEGER[2]"]),
            ops: vec![OpSpec::Add(parse_one("PRAGMA EXTERN foo \"INTEGER (x : INTEGER)\"")), OpSpec::Simplify],
        },
        HistSpec {
            init: texts(&["DEFGATE CYC a AS SEQUENCE:\n\tCYD a", "DEFGATE CYD a AS SEQUENCE:\n\tCYC a", "DEFCAL MEASURE 2 addr:\n\tX 11", "CYC 2"]),
            ops: vec![OpSpec::ExpSeq { filter: 0, with_map: false }, OpSpec::ExpSeq { filter: 0, with_map: true }, OpSpec::Simplify],
        },
        // placeholders shared between calibrations and the body: resolve rewrites the body only
        HistSpec { init: pool.api.clone(), ops: vec![OpSpec::Resolve, OpSpec::Resolve, OpSpec::ExpCal { with_map: false }, OpSpec::Resolve] },
        HistSpec { init: pool.api.iter().rev().cloned().collect(), ops: vec![OpSpec::CloneWb, OpSpec::Resolve, OpSpec::Rebuild] },
        // simplify keeps a frame that calibration expansion hoisted out of a calibration body (fix 768d37f)
        HistSpec { init: pool.defs.iter().filter(|d| qvh::progs::text_of(d).starts_with("DEFCAL W 3")).cloned().chain(texts(&["W 3", "PULSE 3 \"aux\" wf"])).collect(), ops: vec![OpSpec::Simplify] },
        HistSpec { init: texts(&["DEFCAL RX(pi) 0:\n\tX 30", "DEFCAL DAGGER RX(pi) 0:\n\tX 31", "RX(pi) 0", "DAGGER RX(pi) 0"]), ops: vec![OpSpec::ExpCal { with_map: false }] },
        HistSpec {
            init: texts(&["DEFCAL DAGGER X 0 1:\n\tX 23", "DEFCAL CONTROLLED X 0 1:\n\tX 24", "DEFCAL X 0 1:\n\tX 22", "X 0 1"]),
            ops: vec![OpSpec::Rebuild, OpSpec::CloneWb],
        },
        HistSpec {
            init: texts(&["DEFGATE SEQ a b AS SEQUENCE:\n\tH a\n\tCNOT a b", "DEFCAL X 5:\n\tNOP", "SEQ 4 6"]),
            ops: vec![OpSpec::ExpSeq { filter: 0, with_map: false }, OpSpec::ExpSeq { filter: 1, with_map: true }],
        },
    ];
    for h in &corpus {
        emit_hist(ctx, h);
    }
    for (a, b) in [(1usize, 2usize), (13, 14), (13, 15), (2, 11), (6, 7)] {
        emit_pair(ctx, &corpus[a], &corpus[b]);
    }

    // (2) exhaustive operation sequences over a small alphabet on three start programs
    let alphabet: Vec<OpSpec> = vec![
        OpSpec::Add(parse_one("DEFCAL X 0:\n\tY 13")),
        OpSpec::Add(parse_one("X 0")),
        OpSpec::CloneWb,
        OpSpec::ExpCal { with_map: false },
        OpSpec::ExpSeq { filter: 0, with_map: false },
        OpSpec::Simplify,
        OpSpec::Wrap(0),
        OpSpec::Wrap(3),
        OpSpec::Rebuild,
        OpSpec::Concat(Box::new(HistSpec { init: texts(&["DEFCAL X 0:\n\tY 7", "Y 7"]), ops: vec![] }), true),
    ];
    let starts: Vec<Vec<Instruction>> = vec![
        cal5x0.clone(),
        texts(&["DEFCAL X 0:\n\tY 7"]),
        texts(&["DECLARE ro BIT[2]", "DEFGATE SEQ a b AS SEQUENCE:\n\tH a\n\tCNOT a b", "SEQ 4 6", "MEASURE 0 ro[0]"]),
    ];
    // programs that are "empty" in one flavour, through every operation of the alphabet
    let flavour_starts: Vec<Vec<Instruction>> = vec![
        vec![],
        texts(&["DEFCAL MEASURE 2 addr:\n\tX 11"]),
        texts(&["DEFCAL MEASURE 2 addr:\n\tX 11", "DEFCAL MEASURE 0:\n\tX 43"]),
        texts(&["DEFCAL X 5:\n\tNOP"]),
        texts(&["PRAGMA EXTERN foo \"INTEGER (x : INTEGER)\""]),
        texts(&["DECLARE ro BIT[2]", "DEFGATE SEQ a b AS SEQUENCE:\n\tH a\n\tCNOT a b"]),
        texts(&["DEFCAL MEASURE 2 addr:\n\tX 11", "MEASURE 2 ro[0]"]),
    ];
    let max_len = if ctx.quick() { 3 } else { 4 };
    for (starts, max_len) in [(&starts, max_len), (&flavour_starts, 2)] {
    for start in starts.iter() {
        for len in 1..=max_len {
            let mut idx = vec![0usize; len];
            'outer: loop {
                let ops: Vec<OpSpec> = idx.iter().map(|&k| alphabet[k].clone()).collect();
                emit_hist(ctx, &HistSpec { init: start.clone(), ops });
                let mut k = len;
                loop {
                    if k == 0 {
                        break 'outer;
                    }
                    k -= 1;
                    idx[k] += 1;
                    if idx[k] < alphabet.len() {
                        break;
                    }
                    idx[k] = 0;
                }
            }
        }
    }
    }

    // (3) random operation sequences (length <= 8) on random programs
    let mut rng = ctx.rng(10);
    let n = if ctx.quick() { 6_000 } else { 500_000 };
    for _ in 0..n {
        let h = random_hist(&mut rng, &pool, 0, 8);
        emit_hist(ctx, &h);
    }

    // (4) pairs: the same content reached by different histories
    let n = if ctx.quick() { 2_000 } else { 120_000 };
    for _ in 0..n {
        let a = random_hist(&mut rng, &pool, 0, 4);
        let b = match rng.below(5) {
            // rebuilt from the listing
            0 => {
                let mut b = a.clone();
                b.ops.push(OpSpec::Rebuild);
                b
            }
            // the same initial instructions with the definitions in another order (IndexMap equality
            // ignores order, calibration sets and the body do not)
            1 => {
                let mut init = a.init.clone();
                if init.len() >= 2 {
                    let i = rng.below(init.len() as u64) as usize;
                    let j = rng.below(init.len() as u64) as usize;
                    init.swap(i, j);
                }
                HistSpec { init, ops: a.ops.clone() }
            }
            // the initial instructions split into two programs that are concatenated
            2 => {
                let cut = rng.below(a.init.len() as u64 + 1) as usize;
                let mut ops = vec![OpSpec::Concat(Box::new(HistSpec { init: a.init[cut..].to_vec(), ops: vec![] }), true)];
                ops.extend(a.ops.clone());
                HistSpec { init: a.init[..cut].to_vec(), ops }
            }
            // one more operation
            3 => {
                let mut b = a.clone();
                b.ops.push(random_op(&mut rng, &pool, 0));
                b
            }
            _ => random_hist(&mut rng, &pool, 0, 4),
        };
        emit_pair(ctx, &a, &b);
    }
}

fn main() {
    main_with(run)
}
