//! C09 — all instruction views of a program agree.
//!
//! Input: `(hist <path> (<projected instruction>…))` — an insertion history and the public construction
//! path used. Output: the copying listing, the consuming listing, the listing of the program rebuilt
//! from the listing, both texts, `rebuilt == original`, both used-qubit sets.
use qvh::progwire::{parse_one, pool_or_exit, Proj};
use qvh::*;
use quil_rs::instruction::Instruction;
use quil_rs::quil::Quil;
use quil_rs::Program;
use std::str::FromStr;

const PATHS: [&str; 5] = ["from_instructions", "add_instruction", "add_instructions", "from_vec", "from_str"];

fn build(path: &str, is: &[Instruction]) -> Program {
    match path {
        "from_instructions" => Program::from_instructions(is.to_vec()),
        "add_instruction" => {
            let mut p = Program::new();
            for i in is {
                p.add_instruction(i.clone());
            }
            p
        }
        "add_instructions" => {
            let mut p = Program::new();
            p.add_instructions(is.to_vec());
            p
        }
        "from_vec" => Program::from(is.to_vec()),
        "from_str" => {
            let text: String = is.iter().map(|i| i.to_quil().expect("text path needs printable instructions") + "\n").collect();
            Program::from_str(&text).expect("joined text parses")
        }
        _ => unreachable!(),
    }
}

fn observe(path: &str, is: &[Instruction], pr: &mut Proj) -> Sexp {
    let p = build(path, is);
    pr.check_map_keys(&p);
    let to = p.to_instructions();
    let into = p.clone().into_instructions();
    let rebuilt = Program::from_instructions(p.to_instructions());
    let rebuilt_l = rebuilt.to_instructions();
    let a = pr.pids(&to);
    let b = pr.pids(&into);
    let c = pr.pids(&rebuilt_l);
    let used = pr.qubit_set(p.get_used_qubits());
    let rused = pr.qubit_set(rebuilt.get_used_qubits());
    // further views of the same content and the relations that must hold between sibling entry points
    let body: Vec<Instruction> = p.body_instructions().cloned().collect();
    let cals = p.calibrations.to_instructions();
    let frames = p.frames.to_instructions();
    let exts = p.extern_pragma_map.to_instructions();
    let filt = p.filter_instructions(|_| true).to_instructions();
    let mut sib: Vec<Sexp> = Vec::new();
    let mut rel = |name: &str, ok: bool| {
        if !ok {
            sib.push(st(name))
        }
    };
    rel("into_body_instructions = body_instructions", p.clone().into_body_instructions().collect::<Vec<_>>() == body);
    rel(
        "get_instruction(i) = body[i]",
        (0..body.len() + 1).map(|k| p.get_instruction(k).cloned()).collect::<Vec<_>>()
            == body.iter().cloned().map(Some).chain(std::iter::once(None)).collect::<Vec<_>>(),
    );
    rel("Calibrations::into_instructions = to_instructions", p.calibrations.clone().into_instructions() == cals);
    rel("FrameSet::into_instructions = to_instructions", p.frames.clone().into_instructions() == frames);
    rel("to_instructions twice", p.to_instructions() == to);
    rel("into_instructions of a clone twice", p.clone().into_instructions() == into);
    rel("p == p.clone()", p == p.clone() && p.clone() == p);
    rel("== symmetric with rebuilt", (rebuilt == p) == (p == rebuilt));
    rel("to_quil_or_debug twice", p.to_quil_or_debug() == p.to_quil_or_debug());
    rel("From<Vec>(listing) == from_instructions(listing)", Program::from(to.clone()) == rebuilt);
    rel("is_empty = (len == 0)", p.is_empty() == (p.len() == 0));
    let aux = tagged(
        "aux",
        vec![
            tagged("body", vec![pr.pids(&body)]),
            tagged("cals", vec![pr.pids(&cals)]),
            tagged("frames", vec![pr.pids(&frames)]),
            tagged("exts", vec![pr.pids(&exts)]),
            tagged("filt", vec![pr.pids(&filt)]),
            tagged("len", vec![nat(p.len() as u64)]),
            tagged("empty", vec![boolean(p.is_empty())]),
            tagged("sib", sib),
        ],
    );
    let new = pr.take_new();
    tagged(
        "views",
        vec![
            new,
            tagged("to", vec![a]),
            tagged("into", vec![b]),
            tagged("rebuilt", vec![c]),
            tagged("text", vec![st(pr.text(&p))]),
            tagged("rtext", vec![st(pr.text(&rebuilt))]),
            tagged("eq", vec![boolean(rebuilt == p)]),
            tagged("used", vec![used]),
            tagged("rused", vec![rused]),
            pr.key_report(),
            aux,
        ],
    )
}

fn emit(ctx: &mut Ctx, path: &str, is: Vec<Instruction>) {
    let mut pr = Proj::new();
    let input = tagged("hist", vec![atom(path), pr.instrs(&is)]);
    ctx.case(input, || observe(path, &is, &mut pr));
}

/// every instruction of the history re-parses from its own text to an equal instruction
fn text_stable(is: &[Instruction]) -> bool {
    is.iter().all(|i| match i.to_quil() {
        Ok(t) => Program::from_str(&t).map(|p| p.to_instructions() == vec![i.clone()]).unwrap_or(false),
        Err(_) => false,
    })
}

fn one(t: &str) -> Instruction {
    parse_one(t)
}

fn run(ctx: &mut Ctx) {
    let pool = pool_or_exit();

    // (1) corpus: witnesses of the repaired defect (extern pragmas first/last), of the known finding
    // (redefined calibration), and of every clause
    let corpus: Vec<Vec<&str>> = vec![
        vec![],
        vec!["X 0", "PRAGMA EXTERN foo \"INTEGER (x : INTEGER)\""],
        vec!["DECLARE ro BIT[2]", "X 0", "PRAGMA EXTERN foo \"INTEGER (x : INTEGER)\"", "DEFCIRCUIT BELL a b:\n\tH a\n\tCNOT a b"],
        vec!["PRAGMA EXTERN foo \"INTEGER (x : INTEGER)\"", "PRAGMA EXTERN \"OCTET\"", "PRAGMA EXTERN foo \"REAL (x : REAL)\"", "PRAGMA EXTERN"],
        vec!["DEFCAL X 0:\n\tY 7", "DEFCAL X 0:\n\tY 13"],
        vec!["DEFCAL X 0:\n\tY 7", "X 1", "DEFCAL X 5:\n\tNOP", "DEFCAL X 0:\n\tNOP", "Y 7"],
        vec!["DEFCAL MEASURE 2 addr:\n\tX 11", "DEFCAL MEASURE 2 addr:\n\tX 2"],
        vec!["DECLARE ro BIT[2]", "DECLARE theta REAL[1]", "MEASURE 0 ro[0]", "DECLARE ro BIT[4]", "H 1"],
        vec!["DEFFRAME 0 \"rf\":\n\tINITIAL-FREQUENCY: 1000000000", "DEFFRAME 1 \"rf\":\n\tSAMPLE-RATE: 1000000000",
             "DEFFRAME 0 1 \"cz\":\n\tHARDWARE-OBJECT: \"q0_q1\"", "DEFFRAME 0 \"rf\":\n\tINITIAL-FREQUENCY: 2000000000\n\tDIRECTION: \"tx\""],
        vec!["DEFGATE FOO:\n\t1, 0\n\t0, 1", "DEFWAVEFORM wf:\n\t1, 0.5, 0.25", "FOO 3", "DEFGATE FOO:\n\t0, 1\n\t1, 0", "DEFWAVEFORM wf:\n\t0.5i, 1"],
        vec!["PRAGMA EXTERNAL foo", "PRAGMA extern foo", "PRAGMA EXTERN foo"],
        // programs that are "empty" in one flavour: only gate calibrations / only measure calibrations /
        // only extern pragmas / only definitions (is_empty() and len() ignore calibrations,
        // Calibrations::is_empty ignores measure calibrations)
        vec!["DEFCAL X 5:\n\tNOP"],
        vec!["DEFCAL MEASURE 2 addr:\n\tX 11"],
        vec!["DEFCAL MEASURE 2 addr:\n\tX 11", "DEFCAL MEASURE 0:\n\tX 43"],
        vec!["DEFCAL X 5:\n\tNOP", "DEFCAL MEASURE 2 addr:\n\tX 11"],
        vec!["PRAGMA EXTERN foo \"INTEGER (x : INTEGER)\""],
        vec!["PRAGMA EXTERN"],
        vec!["DECLARE ro BIT[2]"],
        vec!["DEFFRAME 0 \"rf\":\n\tDIRECTION: \"tx\""],
        vec!["DEFWAVEFORM wf:\n\t1"],
        vec!["DEFGATE FOO:\n\t1, 0\n\t0, 1"],
        vec!["DEFCIRCUIT BELL a b:\n\tH a\n\tCNOT a b"],
        vec!["X 0"],
        // PRAGMA EXTERN: the key is the first argument when it is an identifier, whatever follows
        vec!["PRAGMA EXTERN foo legacy \"(c : REAL)\"", "PRAGMA EXTERN foo \"INTEGER (x : INTEGER)\""],
        vec!["PRAGMA EXTERN foo legacy \"(c : REAL)\"", "PRAGMA EXTERN bar legacy \"(c : REAL)\""],
        vec!["PRAGMA EXTERN foo \"INTEGER (x : INTEGER)\"", "PRAGMA EXTERN bar \"(y : mut INTEGER)\"", "PRAGMA EXTERN foo 1 \"INTEGER (x : INTEGER)\"",
             "PRAGMA EXTERN 1 foo \"(c : REAL)\"", "PRAGMA EXTERN foo a b", "PRAGMA EXTERN", "PRAGMA EXTERN 1 2 3", "PRAGMA EXTERN baz 1 2", "PRAGMA EXTERN \"OCTET\"",
             "PRAGMA EXTERN baz legacy \"(c : REAL)\"", "PRAGMA EXTERN foo legacy"],
        // one key, values of different shapes, in every keyed container
        vec!["DEFGATE FOO:\n\t1, 0\n\t0, 1", "DEFGATE BAR(%t):\n\tcos(%t), 0\n\t0, sin(%t)", "DEFGATE FOO(%t):\n\tcos(%t), 0\n\t0, sin(%t)",
             "DEFGATE FOO AS PERMUTATION:\n\t1, 0", "DEFGATE FOO a AS SEQUENCE:\n\tX a", "DEFGATE FOO(%t) p q AS PAULI-SUM:\n\tZZ(-%t/4) p q\n\tY(%t/4) p"],
        vec!["DEFWAVEFORM wf:\n\t1, 0.5, 0.25", "DEFWAVEFORM wg(%a):\n\t%a, 2*%a", "DEFWAVEFORM wf(%a, %b):\n\t%a, %b", "DEFWAVEFORM wf:\n\t1",
             "DECLARE ro BIT[2]", "DECLARE theta REAL[1]", "DECLARE ro REAL[1]", "DECLARE oct OCTET[8]", "DECLARE ro BIT[8] SHARING oct OFFSET 1 BIT", "DECLARE ro INTEGER"],
        vec!["DEFFRAME 0 \"rf\":\n\tINITIAL-FREQUENCY: 1000000000", "DEFFRAME 1 \"rf\":\n\tSAMPLE-RATE: 1000000000",
             "DEFFRAME 0 \"rf\":\n\tDIRECTION: \"tx\"\n\tINITIAL-FREQUENCY: 1\n\tHARDWARE-OBJECT: \"h\"\n\tSAMPLE-RATE: 2", "DEFFRAME 0 \"rf\":\n\tCENTER-FREQUENCY: 3",
             "DEFCIRCUIT BELL a b:\n\tH a\n\tCNOT a b", "DEFCIRCUIT ROT(%t) q:\n\tRX(%t) q", "DEFCIRCUIT BELL:\n\tX 0", "DEFCIRCUIT BELL(%a) q:\n\tRX(%a) q",
             "DEFCIRCUIT BELL(%a, %b) a b c:\n\tRX(%a) a\n\tRZ(%b) b\n\tCCNOT a b c"],
        // calibrations that differ only in modifiers / parameters' syntax / qubit kind: all distinct keys
        vec!["DEFCAL RX(pi) 0:\n\tX 30", "DEFCAL DAGGER RX(pi) 0:\n\tX 31"],
        vec!["DEFCAL DAGGER X 0 1:\n\tX 23", "DEFCAL CONTROLLED X 0 1:\n\tX 24", "DEFCAL X 0 1:\n\tX 22"],
        vec!["DEFCAL X 0 1:\n\tX 22", "DEFCAL DAGGER X 0 1:\n\tX 23", "DEFCAL DAGGER DAGGER X 0 1:\n\tX 25",
             "DEFCAL DAGGER CONTROLLED X 0 1:\n\tX 26", "DEFCAL CONTROLLED DAGGER X 0 1:\n\tX 27", "DEFCAL FORKED X 0 1:\n\tX 28"],
        vec!["DEFCAL RX(pi/2) 0:\n\tPULSE 0 \"rf\" wf", "DEFCAL RX(1.5707963267948966) 0:\n\tX 32", "DEFCAL RX(2*pi/4) 0:\n\tX 33",
             "DEFCAL RX(0.5*pi) 0:\n\tX 34", "DEFCAL RX(%t) 0:\n\tSHIFT-PHASE 0 \"rf\" %t", "DEFCAL RX(%u) 0:\n\tX 35", "DEFCAL RX 0:\n\tX 37", "DEFCAL RX(pi, pi) 0:\n\tX 36"],
        vec!["DEFCAL X 0:\n\tY 7", "DEFCAL X q:\n\tPULSE q \"rf\" wf", "DEFCAL X r:\n\tX r", "DEFCAL X 0 q:\n\tX 38", "DEFCAL X q 0:\n\tX 39",
             "DEFCAL X q r:\n\tX 40", "DEFCAL X 0 1:\n\tX 22", "DEFCAL X 1 0:\n\tX 41"],
        vec!["DEFCAL MEASURE 0 addr:\n\tNOP", "DEFCAL MEASURE 0:\n\tX 43", "DEFCAL MEASURE 0 dest:\n\tX 44", "DEFCAL MEASURE q:\n\tX 45",
             "DEFCAL MEASURE q addr:\n\tNOP", "DEFCAL MEASURE r addr:\n\tX 46", "DEFCAL MEASURE!mid 0 addr:\n\tX 47", "DEFCAL MEASURE!mid 0:\n\tX 48",
             "DEFCAL MEASURE!end 0 addr:\n\tX 49"],
        vec!["DEFFRAME 0 1 \"cz\":\n\tHARDWARE-OBJECT: \"q0_q1\"", "DEFFRAME 1 0 \"cz\":\n\tDIRECTION: \"tx\"", "DEFFRAME 0 \"cz\":\n\tDIRECTION: \"tx\"",
             "DEFFRAME 0 1 \"rf\":\n\tDIRECTION: \"tx\""],
    ];
    for h in &corpus {
        let is: Vec<Instruction> = h.iter().map(|t| one(t)).collect();
        for path in PATHS {
            emit(ctx, path, is.clone());
        }
    }

    // (2) exhaustive histories over a small alphabet with repeated keys in four kinds
    let alphabet: Vec<Instruction> = [
        "DECLARE ro BIT[2]",
        "DECLARE ro BIT[4]",
        "PRAGMA EXTERN foo \"INTEGER (x : INTEGER)\"",
        "PRAGMA EXTERN foo \"REAL (x : REAL)\"",
        "PRAGMA EXTERN \"OCTET\"",
        "DEFCAL X 0:\n\tY 7",
        "DEFCAL X 0:\n\tY 13",
        "DEFCAL DAGGER X 0:\n\tY 14",
        "DEFCAL CONTROLLED X 0:\n\tY 15",
        "DEFCAL MEASURE 2 addr:\n\tX 11",
        "DEFFRAME 0 \"rf\":\n\tDIRECTION: \"tx\"",
        "X 0",
        "PRAGMA hello \"w\"",
    ]
    .iter()
    .map(|t| one(t))
    .collect();
    let max_len = if ctx.quick() { 4 } else { 5 };
    for len in 1..=max_len {
        let mut idx = vec![0usize; len];
        'outer: loop {
            let is: Vec<Instruction> = idx.iter().map(|&k| alphabet[k].clone()).collect();
            let path = PATHS[idx.iter().sum::<usize>() % 4];
            emit(ctx, path, is);
            let mut k = len;
            loop {
                if k == 0 {
                    break 'outer;
                }
                k -= 1;
                idx[k] += 1;
                if idx[k] < alphabet.len() {
                    break;
                }
                idx[k] = 0;
            }
        }
    }

    // (2b) exhaustive histories over PRAGMA EXTERN shapes (key = first argument if identifier, else none)
    let ext_alphabet: Vec<Instruction> = [
        "PRAGMA EXTERN foo \"INTEGER (x : INTEGER)\"",
        "PRAGMA EXTERN foo legacy \"(c : REAL)\"",
        "PRAGMA EXTERN bar legacy \"(c : REAL)\"",
        "PRAGMA EXTERN foo 1 \"INTEGER (x : INTEGER)\"",
        "PRAGMA EXTERN 1 foo \"(c : REAL)\"",
        "PRAGMA EXTERN \"OCTET\"",
        "PRAGMA EXTERN bar",
    ]
    .iter()
    .map(|t| one(t))
    .collect();
    for len in 1..=max_len {
        let mut idx = vec![0usize; len];
        'outer2: loop {
            let is: Vec<Instruction> = idx.iter().map(|&k| ext_alphabet[k].clone()).collect();
            let path = PATHS[idx.iter().sum::<usize>() % 5];
            emit(ctx, path, is);
            let mut k = len;
            loop {
                if k == 0 {
                    break 'outer2;
                }
                k -= 1;
                idx[k] += 1;
                if idx[k] < ext_alphabet.len() {
                    break;
                }
                idx[k] = 0;
            }
        }
    }

    // (3) random histories over the full pools (every definition kind, repeated keys, placeholders)
    let mut rng = ctx.rng(9);
    let n = if ctx.quick() { 6_000 } else { 150_000 };
    for _ in 0..n {
        let len = rng.below(25);
        let def_pct = *rng.pick(&[20u64, 50, 80]);
        let with_api = rng.chance(1, 4);
        // one history in a hundred is long (64-300 instructions, few keys, many redefinitions)
        let is = if rng.chance(1, 100) { pool.long_history(&mut rng) } else { pool.history(&mut rng, len, def_pct, with_api) };
        let mut path = *rng.pick(&PATHS);
        if path == "from_str" && !text_stable(&is) {
            path = "from_instructions";
        }
        emit(ctx, path, is);
    }
}

fn main() {
    main_with(run)
}
