//! C18 — calibration expansion always terminates without crashing.
//!
//! The real `Program::expand_calibrations` runs in a persistent CHILD process (`Isolated`): a stack overflow
//! cannot be caught in-process.  A case is a program given as Quil text pieces; the parent parses them (the
//! parser is not what is under test) and sends the AST-encoded instruction list to the Lean driver as the
//! input `(prog (instr…))`; the child receives the pieces as `(texts "…" …)`, parses them again, builds the
//! program with `Program::from_instructions` and expands.  Output classes:
//! `(ok N S)` (N = body length of the expanded program) | `(recursive instr S)` | `(error S)` | `(abort "status")` |
//! `(timeout)`; `S` = `same` iff `expand_calibrations_with_source_map` and the instruction-by-instruction route
//! through `Calibrations::expand` end in the same class (same length / same error instruction).
use qvh::ast::{instruction_to_sexp, instructions_to_sexp};
use qvh::calgen::{self, parse_pieces, Mode};
use qvh::*;
use quil_rs::program::ProgramError;
use quil_rs::Program;
use std::time::Duration;

fn handler(payload: &Sexp) -> Sexp {
    let pieces: Vec<String> = match payload {
        Sexp::List(v) => v
            .iter()
            .skip(1)
            .filter_map(|x| match x {
                Sexp::Str(s) => Some(s.clone()),
                _ => None,
            })
            .collect(),
        _ => return tagged("garbled-payload", vec![]),
    };
    // The expansion runs on a thread with a STACK of `STACK_BYTES` (Rust's default for spawned threads is 2 MiB,
    // the main thread's usually 8 MiB): an unbounded recursion overflows it after a few thousand levels instead of
    // tens of thousands — with the growing expressions every level costs time linear in its depth, so reaching
    // the end of an 8 MiB stack takes more than a minute per case.  The overflow aborts the whole child process
    // either way (observed by the parent as `(abort "signal: 6 …")`).
    let worker = std::thread::Builder::new().stack_size(STACK_BYTES).spawn(move || {
        let p = Program::from_instructions(parse_pieces(&pieces));
        // the three public routes into the expansion; each returned error is also formatted
        let class = |r: Result<usize, ProgramError>| match r {
            Ok(n) => tagged("ok", vec![nat(n as u64)]),
            Err(e) => {
                let _ = format!("{e} {e:#} {e:?}");
                match e {
                    ProgramError::RecursiveCalibration(i) => tagged("recursive", vec![instruction_to_sexp(&i)]),
                    _ => tagged("error", vec![]),
                }
            }
        };
        let plain = class(p.expand_calibrations().map(|e| e.body_instructions().count()));
        let mapped = class(p.expand_calibrations_with_source_map().map(|(e, _)| e.body_instructions().count()));
        // instruction by instruction through `Calibrations::expand`: the first error, else the total length
        let mut total = 0usize;
        let mut first_err = None;
        for i in p.body_instructions() {
            match p.calibrations.expand(i, &[]) {
                Ok(Some(v)) => total += v.len(),
                Ok(None) => total += 1,
                Err(e) => {
                    first_err = Some(e);
                    break;
                }
            }
        }
        let stepwise = class(match first_err {
            Some(e) => Err(e),
            None => Ok(total),
        });
        // `stepwise` counts hoisted definitions too, so only its CLASS (and error instruction) is comparable
        let same_class = |a: &Sexp, b: &Sexp| match (a, b) {
            (Sexp::List(x), Sexp::List(y)) => match (x.first(), y.first()) {
                (Some(Sexp::Atom(p)), Some(Sexp::Atom(q))) if p == q => p == "ok" || a == b,
                _ => false,
            },
            _ => false,
        };
        let siblings = atom(if plain == mapped && same_class(&plain, &stepwise) { "same" } else { "differs" });
        match plain {
            Sexp::List(mut v) => {
                v.push(siblings);
                Sexp::List(v)
            }
            other => other,
        }
    });
    match worker.expect("spawn worker").join() {
        Ok(s) => s,
        Err(e) => {
            let msg = if let Some(s) = e.downcast_ref::<&str>() {
                s.to_string()
            } else if let Some(s) = e.downcast_ref::<String>() {
                s.clone()
            } else {
                "panic".to_string()
            };
            tagged("crash", vec![st(msg)])
        }
    }
}

/// stack of the thread the expansion runs on (see `handler`)
const STACK_BYTES: usize = 128 << 10;

/// Hand-written witnesses (pieces).
const CORPUS: &[&[&str]] = &[
    // the known finding: the parameter grows on every expansion, no instruction ever repeats
    &["DEFCAL RX(%t) 0:\n\tRX(%t+1) 0", "RX(0) 0"],
    &["DEFCAL RX(%t) q:\n\tNOP\n\tRX(2*%t) q", "RX(1) 2"],
    &["DEFCAL RX(%t) 0:\n\tRX(%t*1) 0", "RX(0) 0"],
    &["DEFCAL RX(%t) 0:\n\tRY(%t+1) 0", "DEFCAL RY(%t) 0:\n\tRX(%t) 0", "NOP\nRX(0) 0"],
    // the same calibration, rescued by a literal one that the growing parameter reaches after simplification
    &["DEFCAL RX(%t) 0:\n\tRX(%t+1) 0", "DEFCAL RX(3) 0:\n\tNOP", "RX(0) 0"],
    &["DEFCAL RX(%t) 0:\n\tRX(%t+1) 0", "DEFCAL RX(3) 0:\n\tNOP", "RX(0.5) 0"],
    // literal cycles: reported as errors
    &["DEFCAL X 0:\n\tX 0", "X 0"],
    &["DEFCAL X 0:\n\tNOP\n\tY 0", "DEFCAL Y 0:\n\tX 0", "Y 0"],
    &["DEFCAL RX(%t) 0:\n\tRX(%t) 0", "RX(1) 0"],
    &["DEFCAL RZ(%t) q:\n\tRZ(%t) 0", "RZ(1) 1"],
    &["DEFCAL MEASURE 0 addr:\n\tMEASURE 0 addr[1]", "MEASURE 0 ro[2]"],
    &["DEFCAL MEASURE q addr:\n\tX q", "DEFCAL X 0:\n\tMEASURE 0 ro[0]", "MEASURE 0 ro[0]"],
    // a variable calibration legitimately re-entered: terminates
    &["DEFCAL CZ q r:\n\tCZ r 0", "DEFCAL CZ 0 0:\n\tNOP", "CZ 1 2"],
    &["DEFCAL X q:\n\tX 0", "DEFCAL X 0:\n\tNOP", "X 1"],
    // … and not rescued: `CZ 1 2 -> CZ 2 0 -> CZ 0 0 -> CZ 0 0` repeats
    &["DEFCAL CZ q r:\n\tCZ r 0", "CZ 1 2"],
    // the same instruction twice in sequence (not nested) is fine
    &["DEFCAL X 0:\n\tY 0\n\tY 0", "DEFCAL Y 0:\n\tNOP", "X 0\nX 0"],
    // near misses: the body instruction differs from the one being expanded in exactly ONE component and has no
    // match itself — nothing is expanded again, no error
    &["DEFCAL MEASURE!fast 0 addr:\n\tMEASURE 0 addr", "MEASURE!fast 0 ro[0]"],
    &["DEFCAL MEASURE 0 addr:\n\tMEASURE!fast 0 addr", "MEASURE 0 ro[0]"],
    &["DEFCAL MEASURE!a 0 addr:\n\tMEASURE!b 0 addr", "DEFCAL MEASURE!b 0 addr:\n\tMEASURE 0 addr", "MEASURE!a 0 ro[1]"],
    &["DEFCAL MEASURE 0 addr:\n\tMEASURE 0", "MEASURE 0 ro[0]"],
    &["DEFCAL MEASURE 0:\n\tMEASURE 0 ro[0]", "MEASURE 0"],
    &["DEFCAL MEASURE 0 addr:\n\tMEASURE 1 addr", "MEASURE 0 ro[0]"],
    &["DEFCAL X 0:\n\tDAGGER X 0", "X 0"],
    &["DEFCAL DAGGER X 0:\n\tX 0", "DAGGER X 0"],
    &["DEFCAL X 0:\n\tCONTROLLED X 1 0", "X 0"],
    &["DEFCAL RX(1) 0:\n\tRX(2) 0", "RX(1) 0"],
    &["DEFCAL RX(1) 0:\n\tRX(1.0+0) 0", "RX(1) 0"],
    &["DEFCAL U2(1, 2) 0:\n\tU2(2, 1) 0", "U2(1, 2) 0"],
    &["DEFCAL CZ 0 1:\n\tCZ 1 0", "CZ 0 1"],
    &["DEFCAL X 0:\n\tX 1", "X 0"],
    // … and the real thing through named measurements
    &["DEFCAL MEASURE!a 0 addr:\n\tMEASURE!b 0 addr", "DEFCAL MEASURE!b 0 addr:\n\tMEASURE!a 0 addr", "MEASURE!a 0 ro[1]"],
    // cycles longer than the number of calibrations: one variable calibration permuting its qubits
    &["DEFCAL CZ a b:\n\tCZ b a", "CZ 0 1"],
    &["DEFCAL CCZ a b c:\n\tCCZ b c a", "CCZ 0 1 2"],
    &["DEFCAL CCZ a b c:\n\tNOP\n\tCCZ b a c", "DEFCAL CCZ 1 0 2:\n\tCCZ 2 1 0", "CCZ 0 1 2"],
    // nothing to expand
    &["H 0"],
    &[],
];

/// Calibration pool of the exhaustive stream: self-recursive, mutually recursive, terminating re-entrant and
/// parameter-growing definitions.
const CAL_POOL: &[&str] = &[
    "DEFCAL X 0:\n\tX 0",
    "DEFCAL X 0:\n\tY 0",
    "DEFCAL Y 0:\n\tNOP\n\tX 0",
    "DEFCAL X q:\n\tX 0",
    "DEFCAL X q:\n\tY q",
    "DEFCAL Y q:\n\tNOP",
    "DEFCAL CZ q r:\n\tCZ r 0",
    "DEFCAL CZ 0 0:\n\tX 0",
    "DEFCAL RX(%t) 0:\n\tRX(%t+1) 0",
    "DEFCAL RX(%t) q:\n\tRX(%t) q",
    "DEFCAL RX(2) 0:\n\tNOP",
    "DEFCAL RX(%t) 0:\n\tRY(%t) 0",
    "DEFCAL RY(%t) 0:\n\tRX(2*%t) 0",
    "DEFCAL MEASURE q addr:\n\tMEASURE 0 addr[0]",
    "DEFCAL MEASURE 0 addr:\n\tX 0",
    "DEFCAL MEASURE!fast q addr:\n\tMEASURE q addr[0]",
    "DEFCAL MEASURE 1 addr:\n\tMEASURE!fast 1 addr[0]",
];

const BODY_POOL: &[&str] =
    &["X 0", "Y 0", "RX(0) 0", "RX(1) 1", "CZ 1 2", "X 1", "MEASURE 1 ro[0]", "RY(1) 0", "MEASURE!fast 1 ro[0]"];

fn run(ctx: &mut Ctx) {
    let mut iso = Isolated::new(Duration::from_secs(30));
    let mut emit = |ctx: &mut Ctx, pieces: Vec<String>| {
        let instrs = parse_pieces(&pieces);
        let input = tagged("prog", vec![instructions_to_sexp(&instrs)]);
        let mut payload = vec![];
        for p in &pieces {
            payload.push(st(p.clone()));
        }
        let payload = tagged("texts", payload);
        ctx.case(input, || iso.call(&payload));
    };
    // (1) corpus
    for parts in CORPUS {
        emit(ctx, parts.iter().map(|s| s.to_string()).collect());
    }
    // (1b) chains of n calibrations G0 -> G1 -> … : terminating (the last one is a NOP) and closed into a cycle,
    // also entered in the middle
    for n in [1usize, 2, 5, 12, 30] {
        for cyclic in [false, true] {
            let mut pieces: Vec<String> = (0..n)
                .map(|k| {
                    let next = if k + 1 < n { format!("G{} 0", k + 1) } else if cyclic { "G0 0".to_string() } else { "NOP".to_string() };
                    format!("DEFCAL G{k} 0:\n\tWAIT\n\t{next}")
                })
                .collect();
            pieces.push(format!("G0 0\nG{} 0", n / 2));
            emit(ctx, pieces);
        }
    }
    // (2) exhaustive: ordered selections of up to 2 (quick) / 3 (thorough) pool calibrations x body instructions
    let quick = ctx.quick();
    let n = CAL_POOL.len();
    let mut sets: Vec<Vec<usize>> = vec![];
    for a in 0..n {
        sets.push(vec![a]);
        for b in 0..n {
            if a != b {
                sets.push(vec![a, b]);
                if !quick {
                    for c in 0..n {
                        if c != a && c != b {
                            sets.push(vec![a, b, c]);
                        }
                    }
                }
            }
        }
    }
    // quick: every other body-pool entry (still one instruction per gate name and the measurement)
    let bodies: Vec<&str> = BODY_POOL.iter().enumerate().filter(|(k, _)| !quick || k % 2 == 0).map(|(_, b)| *b).collect();
    for set in &sets {
        for (k, b) in bodies.iter().enumerate() {
            // triples (thorough only): two body instructions, `X 0` and `RX(0) 0`
            if set.len() == 3 && !(k == 0 || k == 2 || k == 6) {
                continue;
            }
            let mut pieces: Vec<String> = set.iter().map(|&k| CAL_POOL[k].to_string()).collect();
            pieces.push(b.to_string());
            emit(ctx, pieces);
        }
    }
    // (3) seeded random programs, no discipline on invocations (`Mode::Wild`): cycles, growth, re-entrance
    let count = if quick { 1_000 } else { 15_000 };
    let mut rng = ctx.rng(18);
    for _ in 0..count {
        let ncal = 1 + rng.below(5);
        let nbody = 1 + rng.below(3);
        let pieces = calgen::random_program_texts(&mut rng, Mode::Wild, ncal, nbody, false);
        emit(ctx, pieces);
    }
}

fn main() {
    main_with_child(run, handler)
}
