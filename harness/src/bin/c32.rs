//! C32 — built-in waveforms sample to the right length and respond linearly.
//!
//! Every case runs the REAL quil-rs sampling entry points
//! (`BuiltinWaveform::<Partial<Concrete>>::partial_iq_values_at_sample_rate`,
//! `BuiltinWaveform::<Concrete>::iq_values_at_sample_rate`, `concretize`) on one request and a few
//! variants of it (unknown parameters filled in, scale doubled, phase advanced by a quarter turn,
//! common parameters defaulted), and prints all the results; the Lean driver recomputes lengths,
//! error classes, placeholders and sample values from the model.
use num_complex::Complex64;
use quil_rs::units::Cycles;
use quil_rs::waveform::builtin::{
    BoxcarKernel, BuiltinWaveform, BuiltinWaveformParameters, CommonBuiltinParameters, DragGaussian, ErfSquare, Flat,
    Gaussian, HermiteGaussian, IqSamplesOrPlaceholder, PartialBuiltinWaveformParameters, RaisedCosine,
};
use quil_rs::waveform::sampling::{IqSamples, SamplingError};
use quil_rs::waveform::{Concrete, Partial};
use qvh::*;

#[derive(Clone, Copy, Debug, PartialEq)]
enum Kind {
    Flat,
    Gaussian,
    Drag,
    Erf,
    Hermite,
    Boxcar,
    Rc,
}
const KINDS: [Kind; 7] = [Kind::Flat, Kind::Gaussian, Kind::Drag, Kind::Erf, Kind::Hermite, Kind::Boxcar, Kind::Rc];

impl Kind {
    fn name(self) -> &'static str {
        match self {
            Kind::Flat => "flat",
            Kind::Gaussian => "gaussian",
            Kind::Drag => "dragGaussian",
            Kind::Erf => "erfSquare",
            Kind::Hermite => "hermiteGaussian",
            Kind::Boxcar => "boxcarKernel",
            Kind::Rc => "raisedCosine",
        }
    }
    /// number of `Real`/`Complex` (possibly missing) fields
    fn fields(self) -> u32 {
        match self {
            Kind::Flat => 1,
            Kind::Gaussian => 2,
            Kind::Drag => 4,
            Kind::Erf => 1,
            Kind::Hermite => 5,
            Kind::Boxcar => 0,
            Kind::Rc => 1,
        }
    }
    fn padded(self) -> bool {
        matches!(self, Kind::Erf | Kind::Rc)
    }
}

/// absent / specified-but-unknown / known
#[derive(Clone, Copy, Debug, PartialEq)]
enum P {
    Absent,
    Unknown,
    Known(f64),
}
impl P {
    fn sexp(self) -> Sexp {
        match self {
            P::Absent => atom("absent"),
            P::Unknown => atom("unknown"),
            P::Known(x) => tagged("k", vec![f64bits(x)]),
        }
    }
    fn partial(self) -> Option<Option<f64>> {
        match self {
            P::Absent => None,
            P::Unknown => Some(None),
            P::Known(x) => Some(Some(x)),
        }
    }
    fn filled(self, v: f64) -> Option<f64> {
        match self {
            P::Absent => None,
            P::Unknown => Some(v),
            P::Known(x) => Some(x),
        }
    }
}

#[derive(Clone, Debug)]
struct Req {
    kind: Kind,
    dur: f64,
    rate: f64,
    padl: f64,
    padr: f64,
    scale: P,
    phase: P,
    det: P,
    /// bit i set = the i-th Real/Complex field of the waveform is missing
    mask: u32,
    iq: Complex64,
    /// fwhm/risetime/rolloff, t0, anh, alpha, coeff
    params: [f64; 5],
    /// values substituted for unknown scale, phase, detuning
    fill: [f64; 3],
    /// run the variants that need a full vector of samples
    light: bool,
}

impl Req {
    fn sexp(&self) -> Sexp {
        tagged(
            "req",
            vec![
                atom(self.kind.name()),
                tagged("dur", vec![f64bits(self.dur)]),
                tagged("rate", vec![f64bits(self.rate)]),
                tagged("pad", vec![f64bits(self.padl), f64bits(self.padr)]),
                tagged("scale", vec![self.scale.sexp()]),
                tagged("phase", vec![self.phase.sexp()]),
                tagged("det", vec![self.det.sexp()]),
                tagged("mask", vec![nat(self.mask as u64)]),
                tagged("iq", vec![f64bits(self.iq.re), f64bits(self.iq.im)]),
                tagged("fill", self.fill.iter().map(|x| f64bits(*x)).collect()),
                tagged("params", self.params.iter().map(|x| f64bits(*x)).collect()),
                tagged("light", vec![boolean(self.light)]),
            ],
        )
    }

    fn concrete(&self) -> BuiltinWaveform<Concrete> {
        let [a, t0, anh, alpha, coeff] = self.params;
        match self.kind {
            Kind::Flat => Flat::<Concrete> { iq: self.iq }.into(),
            Kind::Gaussian => Gaussian::<Concrete> { fwhm: a, t0 }.into(),
            Kind::Drag => DragGaussian::<Concrete> { fwhm: a, t0, anh, alpha }.into(),
            Kind::Erf => ErfSquare::<Concrete> { risetime: a, pad_left: self.padl, pad_right: self.padr }.into(),
            Kind::Hermite => {
                HermiteGaussian::<Concrete> { fwhm: a, t0, anh, alpha, second_order_hrm_coeff: coeff }.into()
            }
            Kind::Boxcar => BoxcarKernel.into(),
            Kind::Rc => RaisedCosine::<Concrete> { rolloff: a, pad_left: self.padl, pad_right: self.padr }.into(),
        }
    }

    fn partial(&self, mask: u32) -> BuiltinWaveform<Partial<Concrete>> {
        let [a, t0, anh, alpha, coeff] = self.params;
        let f = |i: u32, x: f64| if mask & (1 << i) != 0 { None } else { Some(x) };
        match self.kind {
            Kind::Flat => {
                Flat::<Partial<Concrete>> { iq: if mask & 1 != 0 { None } else { Some(self.iq) } }.into()
            }
            Kind::Gaussian => Gaussian::<Partial<Concrete>> { fwhm: f(0, a), t0: f(1, t0) }.into(),
            Kind::Drag => {
                DragGaussian::<Partial<Concrete>> { fwhm: f(0, a), t0: f(1, t0), anh: f(2, anh), alpha: f(3, alpha) }
                    .into()
            }
            Kind::Erf => {
                ErfSquare::<Partial<Concrete>> { risetime: f(0, a), pad_left: self.padl, pad_right: self.padr }.into()
            }
            Kind::Hermite => HermiteGaussian::<Partial<Concrete>> {
                fwhm: f(0, a),
                t0: f(1, t0),
                anh: f(2, anh),
                alpha: f(3, alpha),
                second_order_hrm_coeff: f(4, coeff),
            }
            .into(),
            Kind::Boxcar => BoxcarKernel.into(),
            Kind::Rc => {
                RaisedCosine::<Partial<Concrete>> { rolloff: f(0, a), pad_left: self.padl, pad_right: self.padr }.into()
            }
        }
    }

    fn common_partial(&self) -> CommonBuiltinParameters<Partial<Concrete>> {
        CommonBuiltinParameters {
            duration: self.dur,
            scale: self.scale.partial(),
            phase: self.phase.partial().map(Cycles),
            detuning: self.det.partial(),
        }
    }
    fn common_filled_partial(&self) -> CommonBuiltinParameters<Partial<Concrete>> {
        CommonBuiltinParameters {
            duration: self.dur,
            scale: self.scale.filled(self.fill[0]).map(Some),
            phase: self.phase.filled(self.fill[1]).map(|p| Cycles(Some(p))),
            detuning: self.det.filled(self.fill[2]).map(Some),
        }
    }
    fn common_filled(&self) -> CommonBuiltinParameters<Concrete> {
        CommonBuiltinParameters {
            duration: self.dur,
            scale: self.scale.filled(self.fill[0]),
            phase: self.phase.filled(self.fill[1]).map(Cycles),
            detuning: self.det.filled(self.fill[2]),
        }
    }
}

fn err_sexp(e: &SamplingError) -> Sexp {
    match e {
        SamplingError::SampleCountOutOfRange { .. } => tagged("err", vec![atom("range")]),
        SamplingError::MisalignedDuration { .. } => tagged("err", vec![atom("misaligned")]),
    }
}

fn samples_sexp(s: &IqSamples<Complex64>) -> Sexp {
    match s {
        IqSamples::Flat { iq, sample_count } => {
            tagged("s", vec![atom("flat"), nat(*sample_count as u64), f64bits(iq.re), f64bits(iq.im)])
        }
        IqSamples::Samples(v) => {
            let mut xs = vec![atom("vec")];
            for z in v {
                xs.push(f64bits(z.re));
                xs.push(f64bits(z.im));
            }
            tagged("s", xs)
        }
    }
}

fn placeholder_sexp(s: &IqSamples<()>) -> Sexp {
    match s {
        IqSamples::Flat { sample_count, .. } => tagged("ph", vec![atom("flat"), nat(*sample_count as u64)]),
        IqSamples::Samples(v) => tagged("ph", vec![atom("vec"), nat(v.len() as u64)]),
    }
}

fn partial_result(r: Result<IqSamplesOrPlaceholder, SamplingError>) -> Sexp {
    match r {
        Err(e) => err_sexp(&e),
        Ok(IqSamplesOrPlaceholder::Placeholder(p)) => {
            // the public length accessor must agree with the representation
            assert_eq!(p.sample_count(), p.iter().count());
            placeholder_sexp(&p)
        }
        Ok(IqSamplesOrPlaceholder::Samples(s)) => samples_sexp(&s),
    }
}

fn concrete_result(r: Result<IqSamples<Complex64>, SamplingError>) -> Sexp {
    match r {
        Err(e) => err_sexp(&e),
        Ok(s) => samples_sexp(&s),
    }
}

/// run `f` under catch_unwind so that one variant panicking (usize overflow) is recorded per variant
fn guarded(f: impl FnOnce() -> Sexp) -> Sexp {
    match std::panic::catch_unwind(std::panic::AssertUnwindSafe(f)) {
        Ok(s) => s,
        Err(_) => tagged("crash", vec![]),
    }
}

fn run_case(ctx: &mut Ctx, q: Req) {
    let input = q.sexp();
    ctx.case(input, || {
        let main = guarded(|| {
            partial_result(q.partial(q.mask).partial_iq_values_at_sample_rate(q.common_partial(), q.rate))
        });
        let conc = match q.partial(q.mask).concretize() {
            Some(w) => {
                assert_eq!(w, q.concrete());
                atom("some")
            }
            None => atom("none"),
        };
        let filled =
            guarded(|| partial_result(q.partial(0).partial_iq_values_at_sample_rate(q.common_filled_partial(), q.rate)));
        let direct = guarded(|| concrete_result(q.concrete().iq_values_at_sample_rate(q.common_filled(), q.rate)));
        let skip = || atom("skip");
        let (base, dbl, rot) = if q.light {
            let base = guarded(|| {
                concrete_result(q.concrete().iq_values_at_sample_rate(
                    CommonBuiltinParameters { duration: q.dur, scale: None, phase: None, detuning: None },
                    q.rate,
                ))
            });
            let c = q.common_filled();
            let c_dbl = CommonBuiltinParameters::<Concrete> {
                duration: c.duration,
                scale: Some(2.0 * c.scale.unwrap_or(1.0)),
                phase: c.phase,
                detuning: c.detuning,
            };
            let c_rot = CommonBuiltinParameters::<Concrete> {
                duration: c.duration,
                scale: c.scale,
                phase: Some(Cycles(c.phase.map(|p| p.0).unwrap_or(0.0) + 0.25)),
                detuning: c.detuning,
            };
            let dbl = guarded(|| concrete_result(q.concrete().iq_values_at_sample_rate(c_dbl, q.rate)));
            let rot = guarded(|| concrete_result(q.concrete().iq_values_at_sample_rate(c_rot, q.rate)));
            (base, dbl, rot)
        } else {
            (skip(), skip(), skip())
        };
        tagged(
            "out",
            vec![
                tagged("main", vec![main]),
                tagged("conc", vec![conc]),
                tagged("filled", vec![filled]),
                tagged("direct", vec![direct]),
                tagged("base", vec![base]),
                tagged("dbl", vec![dbl]),
                tagged("rot", vec![rot]),
            ],
        )
    });
}

// ---------------------------------------------------------------------------------------------
// generators

/// number of significant bits of a positive finite f64's mantissa
fn sig_bits(x: f64) -> u32 {
    if x == 0.0 {
        return 0;
    }
    let bits = x.abs().to_bits();
    let frac = bits & ((1u64 << 52) - 1);
    let m = if (bits >> 52) == 0 { frac } else { frac | (1u64 << 52) };
    64 - m.leading_zeros() - m.trailing_zeros()
}

/// truncate the mantissa of `x` to `keep` significant bits (toward zero)
fn truncate_bits(x: f64, keep: u32) -> f64 {
    if x == 0.0 || !x.is_finite() || keep >= 53 {
        return x;
    }
    let bits = x.to_bits();
    let drop = 53 - keep.max(1);
    f64::from_bits(bits & !((1u64 << drop) - 1))
}

/// a duration whose f64 product with `rate` is exact and close to `target` samples
fn exact_duration(target: f64, rate: f64) -> f64 {
    let d = target / rate;
    let keep = 53u32.saturating_sub(sig_bits(rate));
    let d = truncate_bits(d, keep);
    debug_assert!(sig_bits(d) + sig_bits(rate) <= 53);
    d
}

const RATES: [f64; 16] = [
    1.0, 2.0, 0.5, 3.0, 100.0, 101.0, 1000.0, 1024.0, 1e6, 1048576.0, 2.5e8, 5e8, 1e9, 1073741824.0, 2e9, 0.125,
];

fn dyadic_unit(rng: &mut Rng, bits: u32) -> f64 {
    // k / 2^bits in [0,1)
    (rng.below(1u64 << bits) as f64) / ((1u64 << bits) as f64)
}

fn gen_param(rng: &mut Rng, absent: u64, unknown: u64, mut known: impl FnMut(&mut Rng) -> f64) -> P {
    let r = rng.below(100);
    if r < absent {
        P::Absent
    } else if r < absent + unknown {
        P::Unknown
    } else {
        P::Known(known(rng))
    }
}

fn gen_scale(rng: &mut Rng) -> f64 {
    match rng.below(8) {
        0 => 0.0,
        1 => -0.0,
        2 => 1.0,
        3 => -1.0,
        4 => 0.5,
        _ => (rng.unit() - 0.5) * 4.0,
    }
}
fn gen_phase(rng: &mut Rng) -> f64 {
    match rng.below(6) {
        0 => 0.0,
        1 => 0.5,
        2 => 0.25,
        3 => -0.125,
        _ => (rng.unit() - 0.5) * 3.0,
    }
}
fn gen_det(rng: &mut Rng, rate: f64) -> f64 {
    match rng.below(4) {
        0 => 0.0,
        1 => rate / 8.0,
        _ => (rng.unit() - 0.5) * rate * 0.25,
    }
}

/// envelope parameters scaled to the duration so that envelopes are not all underflowed
fn gen_params(rng: &mut Rng, kind: Kind, dur: f64) -> [f64; 5] {
    let d = if dur.is_finite() && dur > 0.0 { dur } else { 1.0 };
    let a = match kind {
        Kind::Rc => match rng.below(5) {
            0 => 0.0,
            1 => 1.0,
            _ => rng.unit(),
        },
        _ => d * (0.05 + rng.unit()),
    };
    [a, d * rng.unit(), (rng.unit() + 0.1) * 1e3 / d, rng.unit() * 2.0 - 1.0, rng.unit() - 0.5]
}

fn gen_request(rng: &mut Rng, kind: Kind) -> Req {
    let rate = *rng.pick(&RATES);
    let thr = 1.0 / (rate * 100.0);
    // target sample count
    let (n, huge) = match rng.below(40) {
        0 => (0.0, false),
        1 => (1.0, false),
        2..=29 => (rng.below(24) as f64 + 2.0, false),
        30..=34 => (rng.below(90) as f64 + 2.0, false),
        35 => (rng.below(500) as f64 + 100.0, false),
        36 => ((1u64 << 32) as f64 - 3.0 + rng.below(6) as f64, true), // around u32::MAX
        37 => (rng.below(1u64 << 31) as f64 * 2.0, true),
        38 => (-(rng.below(5) as f64) - 1.0, false),
        _ => ((1u64 << 33) as f64 * (1.0 + rng.unit()), true),
    };
    // offset from the integer, in samples
    let delta = match rng.below(24) {
        16.. => 0.0,
        0..=5 => 0.0,
        6 => thr * (1.0 - 1.0 / 64.0),
        7 => thr * (1.0 + 1.0 / 64.0),
        8 => -thr * (1.0 - 1.0 / 1024.0),
        9 => -thr * (1.0 + 1.0 / 1024.0),
        10 => thr * dyadic_unit(rng, 10),
        11 => 0.5,
        12 => -0.5,
        13 => dyadic_unit(rng, 12) - 0.5,
        14 => thr * 2.0 * dyadic_unit(rng, 8),
        _ => f64::EPSILON * (rng.below(5) as f64 - 2.0),
    };
    let target = n + delta;
    // rates with more than 20 significant bits leave too few bits for an aligned exact product
    let realistic = if sig_bits(rate) > 20 { rng.chance(3, 4) } else { rng.chance(1, 6) };
    let dur = if realistic {
        // realistic, generally inexact product
        n / rate
    } else {
        exact_duration(target, rate)
    };
    let (padl, padr) = if kind.padded() {
        let p = |rng: &mut Rng| match rng.below(8) {
            0..=2 => 0.0,
            3 => (rng.below(6) as f64) / rate,
            4 => exact_duration(rng.below(5) as f64 + dyadic_unit(rng, 6), rate),
            5 => -exact_duration(rng.below(3) as f64 + dyadic_unit(rng, 4), rate),
            6 => exact_duration(thr * dyadic_unit(rng, 6), rate),
            _ => exact_duration(rng.below(9) as f64 + 1.0, rate),
        };
        (p(rng), p(rng))
    } else {
        (0.0, 0.0)
    };
    let mut scale = gen_param(rng, 25, 10, gen_scale);
    let phase = gen_param(rng, 30, 8, gen_phase);
    let mut det = gen_param(rng, 55, 8, |r| gen_det(r, rate));
    let mask = if kind.fields() > 0 && rng.chance(1, 5) { 1 + rng.below((1u64 << kind.fields()) - 1) as u32 } else { 0 };
    let mut fill = [gen_scale(rng), gen_phase(rng), gen_det(rng, rate)];
    let mut light = true;
    if huge || n > 4000.0 {
        // keep every variant O(1): flat-shaped results only
        light = false;
        match kind {
            Kind::Flat | Kind::Boxcar => {
                if !matches!(det, P::Absent) {
                    det = if rng.chance(1, 2) { P::Known(0.0) } else { P::Absent };
                }
                fill[2] = 0.0;
            }
            _ => {
                scale = P::Known(if rng.chance(1, 2) { 0.0 } else { -0.0 });
            }
        }
    }
    let iq = Complex64::new((rng.unit() - 0.5) * 2.0, (rng.unit() - 0.5) * 2.0);
    let params = gen_params(rng, kind, dur);
    Req { kind, dur, rate, padl, padr, scale, phase, det, mask, iq, params, fill, light }
}

fn corpus() -> Vec<Req> {
    let base = Req {
        kind: Kind::Gaussian,
        dur: 16.0,
        rate: 1.0,
        padl: 0.0,
        padr: 0.0,
        scale: P::Absent,
        phase: P::Absent,
        det: P::Absent,
        mask: 0,
        iq: Complex64::new(0.5, -0.25),
        params: [4.0, 8.0, 1e3, 0.5, 0.1],
        fill: [1.5, 0.25, 0.0],
        light: true,
    };
    let mut v = vec![];
    // the unit tests of builtin.rs (`sample_count`): (duration, rate)
    for (d, r) in [
        (0.0, 0.0),
        (0.0, 1e9),
        (1e9, 0.0),
        (f64::EPSILON, 1.0),
        (-f64::EPSILON, 1.0),
        (0.9999999, 101.0),
        (1.0000001, 101.0),
        (0.99, 101.0),
        (1.01, 101.0),
        (8.800_000_000_000_001e-8, 1.0e9),
        (0.5, 3.0),
        (1e-4, 1e6),
        (0.1, 100.0),
        (2.5, 1.0),
        (-0.5, 1.0),
        (-0.25, 1.0),
        (4294967294.0, 1.0),
        (4294967295.0, 1.0),
        (4294967294.5, 1.0),
        (1.0, -1.0),
        (-0.25, -1.0),
        (10.0 / 1024.0 + 3.0, 1.0),
        (11.0 / 1024.0 + 3.0, 1.0),
    ] {
        for kind in [Kind::Flat, Kind::Boxcar] {
            v.push(Req { kind, dur: d, rate: r, light: false, ..base.clone() });
        }
        v.push(Req { kind: Kind::Gaussian, dur: d, rate: r, scale: P::Known(0.0), light: false, ..base.clone() });
    }
    // every kind: plain, scaled + phased, detuned, zero scale, unknown scale, missing field, padded
    for kind in KINDS {
        let k = Req { kind, padl: if kind.padded() { 2.5 } else { 0.0 }, padr: if kind.padded() { 0.25 } else { 0.0 }, ..base.clone() };
        v.push(k.clone());
        v.push(Req { scale: P::Known(-1.5), phase: P::Known(0.125), ..k.clone() });
        v.push(Req { scale: P::Known(0.75), phase: P::Known(0.5), det: P::Known(0.125), ..k.clone() });
        v.push(Req { scale: P::Known(0.0), phase: P::Known(0.3), ..k.clone() });
        v.push(Req { scale: P::Known(0.0), phase: P::Unknown, mask: if kind.fields() > 0 { 1 } else { 0 }, ..k.clone() });
        v.push(Req { scale: P::Unknown, ..k.clone() });
        v.push(Req { det: P::Unknown, ..k.clone() });
        v.push(Req { det: P::Known(0.0), phase: P::Unknown, ..k.clone() });
        if kind.fields() > 0 {
            v.push(Req { mask: 1, ..k.clone() });
            v.push(Req { mask: (1 << kind.fields()) - 1, det: P::Known(0.5), ..k.clone() });
        }
        if kind.padded() {
            v.push(Req { padl: -3.0, padr: 1.0 / 1024.0, ..k.clone() });
            // usize overflow when the paddings are added (zero scale keeps it O(1)); see docs/C32.md
            v.push(Req { padl: 1e30, padr: 0.0, scale: P::Known(0.0), light: false, ..k.clone() });
            v.push(Req { padl: 1e30, padr: 0.0, scale: P::Known(0.0), mask: 1, light: false, ..k.clone() });
        }
    }
    v
}

fn main() {
    main_with(run)
}

fn run(ctx: &mut Ctx) {
    for q in corpus() {
        run_case(ctx, q);
    }
    // exhaustive small grid: every kind × small dyadic durations × a few rates × parameter patterns
    let grid_rates: &[f64] = if ctx.quick() { &[1.0, 2.0, 100.0] } else { &[1.0, 2.0, 0.5, 3.0, 100.0, 1024.0] };
    let steps: u64 = if ctx.quick() { 3 } else { 5 };
    let pats: [(P, P, P, u32); 8] = [
        (P::Absent, P::Absent, P::Absent, 0),
        (P::Known(2.0), P::Known(0.25), P::Absent, 0),
        (P::Known(-0.5), P::Absent, P::Known(0.0), 0),
        (P::Known(0.0), P::Known(0.75), P::Absent, 0),
        (P::Unknown, P::Known(0.1), P::Absent, 0),
        (P::Known(1.25), P::Unknown, P::Known(0.0625), 0),
        (P::Known(0.0), P::Absent, P::Unknown, 0),
        (P::Known(3.0), P::Known(-0.25), P::Absent, 1),
    ];
    let mut rng = ctx.rng(31);
    for kind in KINDS {
        for &rate in grid_rates {
            // durations = j / (4·rate) samples-quarters: aligned ones and quarter/half-sample offsets
            for j in 0..=(4 * steps) {
                let dur = exact_duration(j as f64 / 4.0, rate);
                for (scale, phase, det, mask) in pats {
                    let mask = if kind.fields() == 0 { 0 } else { mask };
                    let params = gen_params(&mut rng, kind, dur);
                    let (padl, padr) = if kind.padded() { (exact_duration(1.5, rate), exact_duration(0.0, rate)) } else { (0.0, 0.0) };
                    run_case(
                        ctx,
                        Req {
                            kind,
                            dur,
                            rate,
                            padl,
                            padr,
                            scale,
                            phase,
                            det: match det {
                                P::Known(x) => P::Known(x * rate),
                                d => d,
                            },
                            mask,
                            iq: Complex64::new(0.75, -0.5),
                            params,
                            fill: [1.5, 0.375, 0.0],
                            light: true,
                        },
                    );
                }
            }
        }
    }
    // seeded random requests
    let n_random = if ctx.quick() { 9_000 } else { 120_000 };
    let mut rng = ctx.rng(32);
    for i in 0..n_random {
        let kind = KINDS[i % KINDS.len()];
        let q = gen_request(&mut rng, kind);
        run_case(ctx, q);
    }
}
