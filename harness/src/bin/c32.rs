//! C32 — built-in waveforms sample to the right length and respond linearly.
//!
//! Every case runs the REAL quil-rs sampling entry points
//! (`BuiltinWaveform::<Partial<Concrete>>::partial_iq_values_at_sample_rate`,
//! `BuiltinWaveform::<Concrete>::iq_values_at_sample_rate`, `concretize`) on one request and a few
//! variants of it (unknown parameters filled in, scale doubled, phase advanced by a quarter turn,
//! common parameters defaulted), and prints all the results; the Lean driver recomputes lengths,
//! error classes, placeholders and sample values from the model.
use num_complex::Complex64;
use quil_rs::units::Cycles;
use quil_rs::waveform::builtin::{
    BoxcarKernel, BuiltinWaveform, BuiltinWaveformParameters, CommonBuiltinParameters, DragGaussian, ErfSquare, Flat,
    Gaussian, HermiteGaussian, IqSamplesOrPlaceholder, PartialBuiltinWaveformParameters, RaisedCosine,
};
use indexmap::IndexMap;
use quil_rs::expression::Expression;
use quil_rs::instruction::WaveformInvocation;
use quil_rs::waveform::builtin::apply_phase_and_detuning;
use quil_rs::waveform::sampling::{IqSamples, SamplingError};
use quil_rs::waveform::{Concrete, Partial, Syntactic, Waveform};
use qvh::*;
use std::collections::HashMap;

#[derive(Clone, Copy, Debug, PartialEq)]
enum Kind {
    Flat,
    Gaussian,
    Drag,
    Erf,
    Hermite,
    Boxcar,
    Rc,
}
const KINDS: [Kind; 7] = [Kind::Flat, Kind::Gaussian, Kind::Drag, Kind::Erf, Kind::Hermite, Kind::Boxcar, Kind::Rc];

impl Kind {
    fn name(self) -> &'static str {
        match self {
            Kind::Flat => "flat",
            Kind::Gaussian => "gaussian",
            Kind::Drag => "dragGaussian",
            Kind::Erf => "erfSquare",
            Kind::Hermite => "hermiteGaussian",
            Kind::Boxcar => "boxcarKernel",
            Kind::Rc => "raisedCosine",
        }
    }
    /// number of `Real`/`Complex` (possibly missing) fields
    fn fields(self) -> u32 {
        match self {
            Kind::Flat => 1,
            Kind::Gaussian => 2,
            Kind::Drag => 4,
            Kind::Erf => 1,
            Kind::Hermite => 5,
            Kind::Boxcar => 0,
            Kind::Rc => 1,
        }
    }
    fn padded(self) -> bool {
        matches!(self, Kind::Erf | Kind::Rc)
    }
}

/// absent / specified-but-unknown / known
#[derive(Clone, Copy, Debug, PartialEq)]
enum P {
    Absent,
    Unknown,
    Known(f64),
}
impl P {
    fn sexp(self) -> Sexp {
        match self {
            P::Absent => atom("absent"),
            P::Unknown => atom("unknown"),
            P::Known(x) => tagged("k", vec![f64bits(x)]),
        }
    }
    fn partial(self) -> Option<Option<f64>> {
        match self {
            P::Absent => None,
            P::Unknown => Some(None),
            P::Known(x) => Some(Some(x)),
        }
    }
    fn filled(self, v: f64) -> Option<f64> {
        match self {
            P::Absent => None,
            P::Unknown => Some(v),
            P::Known(x) => Some(x),
        }
    }
}

#[derive(Clone, Debug)]
struct Req {
    kind: Kind,
    dur: f64,
    rate: f64,
    padl: f64,
    padr: f64,
    scale: P,
    phase: P,
    det: P,
    /// bit i set = the i-th Real/Complex field of the waveform is missing
    mask: u32,
    iq: Complex64,
    /// fwhm/risetime/rolloff, t0, anh, alpha, coeff
    params: [f64; 5],
    /// values substituted for unknown scale, phase, detuning
    fill: [f64; 3],
    /// run the variants that need a full vector of samples
    light: bool,
}

impl Req {
    fn sexp(&self) -> Sexp {
        tagged(
            "req",
            vec![
                atom(self.kind.name()),
                tagged("dur", vec![f64bits(self.dur)]),
                tagged("rate", vec![f64bits(self.rate)]),
                tagged("pad", vec![f64bits(self.padl), f64bits(self.padr)]),
                tagged("scale", vec![self.scale.sexp()]),
                tagged("phase", vec![self.phase.sexp()]),
                tagged("det", vec![self.det.sexp()]),
                tagged("mask", vec![nat(self.mask as u64)]),
                tagged("iq", vec![f64bits(self.iq.re), f64bits(self.iq.im)]),
                tagged("fill", self.fill.iter().map(|x| f64bits(*x)).collect()),
                tagged("params", self.params.iter().map(|x| f64bits(*x)).collect()),
                tagged("light", vec![boolean(self.light)]),
            ],
        )
    }

    fn concrete(&self) -> BuiltinWaveform<Concrete> {
        let [a, t0, anh, alpha, coeff] = self.params;
        match self.kind {
            Kind::Flat => Flat::<Concrete> { iq: self.iq }.into(),
            Kind::Gaussian => Gaussian::<Concrete> { fwhm: a, t0 }.into(),
            Kind::Drag => DragGaussian::<Concrete> { fwhm: a, t0, anh, alpha }.into(),
            Kind::Erf => ErfSquare::<Concrete> { risetime: a, pad_left: self.padl, pad_right: self.padr }.into(),
            Kind::Hermite => {
                HermiteGaussian::<Concrete> { fwhm: a, t0, anh, alpha, second_order_hrm_coeff: coeff }.into()
            }
            Kind::Boxcar => BoxcarKernel.into(),
            Kind::Rc => RaisedCosine::<Concrete> { rolloff: a, pad_left: self.padl, pad_right: self.padr }.into(),
        }
    }

    fn partial(&self, mask: u32) -> BuiltinWaveform<Partial<Concrete>> {
        let [a, t0, anh, alpha, coeff] = self.params;
        let f = |i: u32, x: f64| if mask & (1 << i) != 0 { None } else { Some(x) };
        match self.kind {
            Kind::Flat => {
                Flat::<Partial<Concrete>> { iq: if mask & 1 != 0 { None } else { Some(self.iq) } }.into()
            }
            Kind::Gaussian => Gaussian::<Partial<Concrete>> { fwhm: f(0, a), t0: f(1, t0) }.into(),
            Kind::Drag => {
                DragGaussian::<Partial<Concrete>> { fwhm: f(0, a), t0: f(1, t0), anh: f(2, anh), alpha: f(3, alpha) }
                    .into()
            }
            Kind::Erf => {
                ErfSquare::<Partial<Concrete>> { risetime: f(0, a), pad_left: self.padl, pad_right: self.padr }.into()
            }
            Kind::Hermite => HermiteGaussian::<Partial<Concrete>> {
                fwhm: f(0, a),
                t0: f(1, t0),
                anh: f(2, anh),
                alpha: f(3, alpha),
                second_order_hrm_coeff: f(4, coeff),
            }
            .into(),
            Kind::Boxcar => BoxcarKernel.into(),
            Kind::Rc => {
                RaisedCosine::<Partial<Concrete>> { rolloff: f(0, a), pad_left: self.padl, pad_right: self.padr }.into()
            }
        }
    }

    fn common_partial(&self) -> CommonBuiltinParameters<Partial<Concrete>> {
        CommonBuiltinParameters {
            duration: self.dur,
            scale: self.scale.partial(),
            phase: self.phase.partial().map(Cycles),
            detuning: self.det.partial(),
        }
    }
    fn common_filled_partial(&self) -> CommonBuiltinParameters<Partial<Concrete>> {
        CommonBuiltinParameters {
            duration: self.dur,
            scale: self.scale.filled(self.fill[0]).map(Some),
            phase: self.phase.filled(self.fill[1]).map(|p| Cycles(Some(p))),
            detuning: self.det.filled(self.fill[2]).map(Some),
        }
    }
    fn common_filled(&self) -> CommonBuiltinParameters<Concrete> {
        CommonBuiltinParameters {
            duration: self.dur,
            scale: self.scale.filled(self.fill[0]),
            phase: self.phase.filled(self.fill[1]).map(Cycles),
            detuning: self.det.filled(self.fill[2]),
        }
    }
}

impl Req {
    /// sibling route 1: the trait implementation on the individual waveform struct (not the enum)
    fn struct_concrete(&self, c: CommonBuiltinParameters<Concrete>) -> Result<IqSamples<Complex64>, SamplingError> {
        let [a, t0, anh, alpha, coeff] = self.params;
        let r = self.rate;
        match self.kind {
            Kind::Flat => Flat::<Concrete> { iq: self.iq }.iq_values_at_sample_rate(c, r),
            Kind::Gaussian => Gaussian::<Concrete> { fwhm: a, t0 }.iq_values_at_sample_rate(c, r),
            Kind::Drag => DragGaussian::<Concrete> { fwhm: a, t0, anh, alpha }.iq_values_at_sample_rate(c, r),
            Kind::Erf => ErfSquare::<Concrete> { risetime: a, pad_left: self.padl, pad_right: self.padr }
                .iq_values_at_sample_rate(c, r),
            Kind::Hermite => HermiteGaussian::<Concrete> { fwhm: a, t0, anh, alpha, second_order_hrm_coeff: coeff }
                .iq_values_at_sample_rate(c, r),
            Kind::Boxcar => BuiltinWaveformParameters::iq_values_at_sample_rate(BoxcarKernel, c, r),
            Kind::Rc => RaisedCosine::<Concrete> { rolloff: a, pad_left: self.padl, pad_right: self.padr }
                .iq_values_at_sample_rate(c, r),
        }
    }

    fn struct_partial(
        &self,
        mask: u32,
        c: CommonBuiltinParameters<Partial<Concrete>>,
    ) -> Result<IqSamplesOrPlaceholder, SamplingError> {
        let [a, t0, anh, alpha, coeff] = self.params;
        let f = |i: u32, x: f64| if mask & (1 << i) != 0 { None } else { Some(x) };
        let r = self.rate;
        match self.kind {
            Kind::Flat => Flat::<Partial<Concrete>> { iq: if mask & 1 != 0 { None } else { Some(self.iq) } }
                .partial_iq_values_at_sample_rate(c, r),
            Kind::Gaussian => {
                Gaussian::<Partial<Concrete>> { fwhm: f(0, a), t0: f(1, t0) }.partial_iq_values_at_sample_rate(c, r)
            }
            Kind::Drag => {
                DragGaussian::<Partial<Concrete>> { fwhm: f(0, a), t0: f(1, t0), anh: f(2, anh), alpha: f(3, alpha) }
                    .partial_iq_values_at_sample_rate(c, r)
            }
            Kind::Erf => ErfSquare::<Partial<Concrete>> { risetime: f(0, a), pad_left: self.padl, pad_right: self.padr }
                .partial_iq_values_at_sample_rate(c, r),
            Kind::Hermite => HermiteGaussian::<Partial<Concrete>> {
                fwhm: f(0, a),
                t0: f(1, t0),
                anh: f(2, anh),
                alpha: f(3, alpha),
                second_order_hrm_coeff: f(4, coeff),
            }
            .partial_iq_values_at_sample_rate(c, r),
            Kind::Boxcar => PartialBuiltinWaveformParameters::partial_iq_values_at_sample_rate(BoxcarKernel, c, r),
            Kind::Rc => {
                RaisedCosine::<Partial<Concrete>> { rolloff: f(0, a), pad_left: self.padl, pad_right: self.padr }
                    .partial_iq_values_at_sample_rate(c, r)
            }
        }
    }

    fn quil_name(&self) -> &'static str {
        match self.kind {
            Kind::Flat => "flat",
            Kind::Gaussian => "gaussian",
            Kind::Drag => "drag_gaussian",
            Kind::Erf => "erf_square",
            Kind::Hermite => "hrm_gauss",
            Kind::Boxcar => "boxcar_kernel",
            Kind::Rc => "raised_cosine",
        }
    }

    /// the waveform's own named parameters, `None` where `mask` says the field is missing
    fn named_own(&self, mask: u32) -> Vec<(&'static str, Option<Complex64>)> {
        let [a, t0, anh, alpha, coeff] = self.params;
        let re = |x: f64| Some(Complex64::new(x, 0.0));
        let f = |i: u32, x: f64| if mask & (1 << i) != 0 { None } else { re(x) };
        match self.kind {
            Kind::Flat => vec![("iq", if mask & 1 != 0 { None } else { Some(self.iq) })],
            Kind::Gaussian => vec![("fwhm", f(0, a)), ("t0", f(1, t0))],
            Kind::Drag => vec![("fwhm", f(0, a)), ("t0", f(1, t0)), ("anh", f(2, anh)), ("alpha", f(3, alpha))],
            Kind::Erf => vec![("risetime", f(0, a)), ("pad_left", re(self.padl)), ("pad_right", re(self.padr))],
            Kind::Hermite => vec![
                ("fwhm", f(0, a)),
                ("t0", f(1, t0)),
                ("anh", f(2, anh)),
                ("alpha", f(3, alpha)),
                ("second_order_hrm_coeff", f(4, coeff)),
            ],
            Kind::Boxcar => vec![],
            Kind::Rc => vec![("rolloff", f(0, a)), ("pad_left", re(self.padl)), ("pad_right", re(self.padr))],
        }
    }

    /// named parameter map: own fields + duration + the optional common ones (absent ones are left out)
    fn named(&self, mask: u32, scale: Option<Option<f64>>, phase: Option<Option<f64>>, det: Option<Option<f64>>)
        -> IndexMap<String, Option<Complex64>> {
        let mut m = IndexMap::new();
        let re = |x: f64| Complex64::new(x, 0.0);
        // insertion order deliberately not the extraction order
        if let Some(d) = det {
            m.insert("detuning".to_string(), d.map(re));
        }
        for (k, v) in self.named_own(mask) {
            m.insert(k.to_string(), v);
        }
        if let Some(p) = phase {
            m.insert("phase".to_string(), p.map(re));
        }
        m.insert("duration".to_string(), Some(re(self.dur)));
        if let Some(sc) = scale {
            m.insert("scale".to_string(), sc.map(re));
        }
        m
    }

    /// sibling route 2: `Waveform::<Concrete>::from_parameters` on a name → value map
    fn via_parameters(&self, c: CommonBuiltinParameters<Concrete>) -> Sexp {
        let map: IndexMap<String, Complex64> = self
            .named(0, c.scale.map(Some), c.phase.map(|p| Some(p.0)), c.detuning.map(Some))
            .into_iter()
            .map(|(k, v)| (k, v.expect("known")))
            .collect();
        let w = Waveform::<Concrete>::from_parameters(
            self.quil_name().to_string(),
            map,
            |z: Complex64| Ok::<f64, ()>(z.re),
            |z: Complex64| Ok::<f64, ()>(z.re),
            |z: Complex64| Ok::<Complex64, ()>(z),
            Ok,
        );
        match w {
            Ok(Waveform::Builtin { waveform, common_parameters }) => {
                concrete_result(waveform.iq_values_at_sample_rate(common_parameters, self.rate))
            }
            Ok(Waveform::Custom { .. }) => atom("custom"),
            Err(e) => tagged("paramerr", vec![st(format!("{e:?}"))]),
        }
    }

    /// sibling route 3: a Quil `WaveformInvocation` with literal expressions → `Waveform::<Syntactic>::new`
    /// → `try_evaluate` → sample
    fn via_invocation(&self, c: CommonBuiltinParameters<Concrete>) -> Sexp {
        let params: IndexMap<String, Expression> = self
            .named(0, c.scale.map(Some), c.phase.map(|p| Some(p.0)), c.detuning.map(Some))
            .into_iter()
            .map(|(k, v)| (k, Expression::Number(v.expect("known"))))
            .collect();
        let w = match Waveform::<Syntactic>::new(WaveformInvocation::new(self.quil_name().to_string(), params)) {
            Ok(w) => w,
            Err(e) => return tagged("invocationerr", vec![st(format!("{e} | {e:?}"))]),
        };
        let none: HashMap<String, Complex64> = HashMap::new();
        let mem: HashMap<String, Vec<f64>> = HashMap::new();
        let w = w.try_evaluate::<Concrete, _>(|e: Expression| e.to_real(), |e: Expression| e.evaluate(&none, &mem));
        match w {
            Ok(Waveform::Builtin { waveform, common_parameters }) => {
                concrete_result(waveform.iq_values_at_sample_rate(common_parameters, self.rate))
            }
            Ok(Waveform::Custom { .. }) => atom("custom"),
            Err(e) => tagged("evalerr", vec![st(format!("{e:?}"))]),
        }
    }

    /// sibling route of `main`: `Waveform::<Partial<Concrete>>::from_parameters`
    fn via_partial_parameters(&self) -> Sexp {
        let map = self.named(self.mask, self.scale.partial(), self.phase.partial(), self.det.partial());
        let w = Waveform::<Partial<Concrete>>::from_parameters(
            self.quil_name().to_string(),
            map,
            |v: Option<Complex64>| v.map(|z| z.re).ok_or(()),
            |v: Option<Complex64>| Ok::<Option<f64>, ()>(v.map(|z| z.re)),
            |v: Option<Complex64>| Ok::<Option<Complex64>, ()>(v),
            Ok,
        );
        match w {
            Ok(Waveform::Builtin { waveform, common_parameters }) => {
                partial_result(waveform.partial_iq_values_at_sample_rate(common_parameters, self.rate))
            }
            Ok(Waveform::Custom { .. }) => atom("custom"),
            Err(e) => tagged("paramerr", vec![st(format!("{e:?}"))]),
        }
    }
}

/// `sample_count`, `get`, `get_ref`, `iter`, `into_iter`, `into_iq_values` must describe one sequence
fn check_accessors<T: Clone + std::fmt::Debug>(s: &IqSamples<T>, eq: impl Fn(&T, &T) -> bool) {
    let n = s.sample_count();
    assert!(s.get(n).is_none() && s.get_ref(n).is_none() && s.get(n + 1).is_none(), "get past the end");
    assert_eq!(s.iter().len(), n, "iter().len()");
    assert_eq!((&s).into_iter().len(), n, "(&s).into_iter().len()");
    if n > 0 {
        assert!(s.get(0).is_some() && s.get_ref(n - 1).is_some(), "get inside");
    }
    if n <= 100_000 {
        let v = s.clone().into_iq_values();
        assert_eq!(v.len(), n, "into_iq_values().len()");
        assert_eq!(s.iter().count(), n, "iter().count()");
        let w: Vec<T> = s.clone().into_iter().collect();
        assert_eq!(w.len(), n, "into_iter().count()");
        for i in 0..n {
            let g = s.get(i).expect("get");
            assert!(eq(&g, &v[i]) && eq(s.get_ref(i).expect("get_ref"), &v[i]) && eq(&w[i], &v[i]), "element {i}");
        }
        for (i, x) in s.iter().enumerate() {
            assert!(eq(x, &v[i]), "iter element {i}");
        }
    }
}

fn cbits(a: &Complex64, b: &Complex64) -> bool {
    a.re.to_bits() == b.re.to_bits() && a.im.to_bits() == b.im.to_bits()
}

fn err_sexp(e: &SamplingError) -> Sexp {
    // format every returned error: a panic in Display/Debug is a crash of the variant
    let _text = format!("{e} | {e:?} | {e:#}");
    match e {
        SamplingError::SampleCountOutOfRange { .. } => tagged("err", vec![atom("range")]),
        SamplingError::MisalignedDuration { .. } => tagged("err", vec![atom("misaligned")]),
    }
}

fn samples_sexp(s: &IqSamples<Complex64>) -> Sexp {
    match s {
        IqSamples::Flat { iq, sample_count } => {
            assert_eq!(s.sample_count(), *sample_count);
            tagged("s", vec![atom("flat"), nat(s.sample_count() as u64), f64bits(iq.re), f64bits(iq.im)])
        }
        IqSamples::Samples(v) => {
            let mut xs = vec![atom("vec")];
            for z in v {
                xs.push(f64bits(z.re));
                xs.push(f64bits(z.im));
            }
            tagged("s", xs)
        }
    }
}

fn placeholder_sexp(s: &IqSamples<()>) -> Sexp {
    match s {
        IqSamples::Flat { sample_count, .. } => tagged("ph", vec![atom("flat"), nat(*sample_count as u64)]),
        IqSamples::Samples(v) => tagged("ph", vec![atom("vec"), nat(v.len() as u64)]),
    }
}

fn partial_result(r: Result<IqSamplesOrPlaceholder, SamplingError>) -> Sexp {
    match r {
        Err(e) => err_sexp(&e),
        Ok(IqSamplesOrPlaceholder::Placeholder(p)) => {
            check_accessors(&p, |_, _| true);
            placeholder_sexp(&p)
        }
        Ok(IqSamplesOrPlaceholder::Samples(s)) => {
            check_accessors(&s, cbits);
            samples_sexp(&s)
        }
    }
}

fn concrete_result(r: Result<IqSamples<Complex64>, SamplingError>) -> Sexp {
    match r {
        Err(e) => err_sexp(&e),
        Ok(s) => {
            check_accessors(&s, cbits);
            samples_sexp(&s)
        }
    }
}

/// run `f` under catch_unwind so that one variant panicking (usize overflow) is recorded per variant
fn guarded(f: impl FnOnce() -> Sexp) -> Sexp {
    match std::panic::catch_unwind(std::panic::AssertUnwindSafe(f)) {
        Ok(s) => s,
        Err(_) => tagged("crash", vec![]),
    }
}

fn run_case(ctx: &mut Ctx, q: Req) {
    let input = q.sexp();
    ctx.case(input, || {
        let main = guarded(|| {
            partial_result(q.partial(q.mask).partial_iq_values_at_sample_rate(q.common_partial(), q.rate))
        });
        let conc = match q.partial(q.mask).concretize() {
            Some(w) => {
                assert_eq!(w, q.concrete());
                atom("some")
            }
            None => atom("none"),
        };
        let filled =
            guarded(|| partial_result(q.partial(0).partial_iq_values_at_sample_rate(q.common_filled_partial(), q.rate)));
        let direct = guarded(|| concrete_result(q.concrete().iq_values_at_sample_rate(q.common_filled(), q.rate)));
        // sibling entry points: must return exactly what `direct` / `main` return
        let sib_direct = vec![
            guarded(|| concrete_result(q.struct_concrete(q.common_filled()))),
            guarded(|| q.via_parameters(q.common_filled())),
            guarded(|| q.via_invocation(q.common_filled())),
            guarded(|| partial_result(q.struct_partial(0, q.common_filled_partial()))),
        ];
        let sib_main = vec![
            guarded(|| partial_result(q.struct_partial(q.mask, q.common_partial()))),
            guarded(|| q.via_partial_parameters()),
        ];
        // `CommonBuiltinParameters::resolve_with_sample_rate`
        let explicit = guarded(|| match q.common_filled().resolve_with_sample_rate(q.rate) {
            Ok(e) => tagged(
                "ex",
                vec![nat(e.sample_count as u64), f64bits(e.scale), f64bits(e.phase.0), f64bits(e.detuning)],
            ),
            Err(e) => err_sexp(&e),
        });
        let skip = || atom("skip");
        let (base, dbl, rot, apd) = if q.light {
            let base_r = std::panic::catch_unwind(std::panic::AssertUnwindSafe(|| {
                q.concrete().iq_values_at_sample_rate(
                    CommonBuiltinParameters { duration: q.dur, scale: None, phase: None, detuning: None },
                    q.rate,
                )
            }));
            let c = q.common_filled();
            // the public slice function `apply_phase_and_detuning` applied to scale * envelope
            let apd = match &base_r {
                Ok(Ok(b)) => {
                    let b = b.clone();
                    guarded(move || {
                        let sc = c.scale.unwrap_or(1.0);
                        let mut v: Vec<Complex64> = b.into_iq_values().into_iter().map(|z| sc * z).collect();
                        apply_phase_and_detuning(
                            &mut v,
                            Cycles(c.phase.map(|p| p.0).unwrap_or(0.0)),
                            c.detuning.unwrap_or(0.0),
                            q.rate,
                        );
                        samples_sexp(&IqSamples::Samples(v))
                    })
                }
                _ => skip(),
            };
            let base = match base_r {
                Ok(r) => guarded(|| concrete_result(r)),
                Err(_) => tagged("crash", vec![]),
            };
            let c_dbl = CommonBuiltinParameters::<Concrete> {
                duration: c.duration,
                scale: Some(2.0 * c.scale.unwrap_or(1.0)),
                phase: c.phase,
                detuning: c.detuning,
            };
            let c_rot = CommonBuiltinParameters::<Concrete> {
                duration: c.duration,
                scale: c.scale,
                phase: Some(Cycles(c.phase.map(|p| p.0).unwrap_or(0.0) + 0.25)),
                detuning: c.detuning,
            };
            let dbl = guarded(|| concrete_result(q.concrete().iq_values_at_sample_rate(c_dbl, q.rate)));
            let rot = guarded(|| concrete_result(q.concrete().iq_values_at_sample_rate(c_rot, q.rate)));
            (base, dbl, rot, apd)
        } else {
            (skip(), skip(), skip(), skip())
        };
        tagged(
            "out",
            vec![
                tagged("main", vec![main]),
                tagged("conc", vec![conc]),
                tagged("filled", vec![filled]),
                tagged("direct", vec![direct]),
                tagged("base", vec![base]),
                tagged("dbl", vec![dbl]),
                tagged("rot", vec![rot]),
                tagged("sibd", sib_direct),
                tagged("sibm", sib_main),
                tagged("explicit", vec![explicit]),
                tagged("apd", vec![apd]),
            ],
        )
    });
}

// ---------------------------------------------------------------------------------------------
// generators

/// number of significant bits of a positive finite f64's mantissa
fn sig_bits(x: f64) -> u32 {
    if x == 0.0 {
        return 0;
    }
    let bits = x.abs().to_bits();
    let frac = bits & ((1u64 << 52) - 1);
    let m = if (bits >> 52) == 0 { frac } else { frac | (1u64 << 52) };
    64 - m.leading_zeros() - m.trailing_zeros()
}

/// truncate the mantissa of `x` to `keep` significant bits (toward zero)
fn truncate_bits(x: f64, keep: u32) -> f64 {
    if x == 0.0 || !x.is_finite() || keep >= 53 {
        return x;
    }
    let bits = x.to_bits();
    let drop = 53 - keep.max(1);
    f64::from_bits(bits & !((1u64 << drop) - 1))
}

/// a duration whose f64 product with `rate` is exact and close to `target` samples
fn exact_duration(target: f64, rate: f64) -> f64 {
    let d = target / rate;
    let keep = 53u32.saturating_sub(sig_bits(rate));
    let d = truncate_bits(d, keep);
    debug_assert!(sig_bits(d) + sig_bits(rate) <= 53);
    d
}

const RATES: [f64; 16] = [
    1.0, 2.0, 0.5, 3.0, 100.0, 101.0, 1000.0, 1024.0, 1e6, 1048576.0, 2.5e8, 5e8, 1e9, 1073741824.0, 2e9, 0.125,
];

fn dyadic_unit(rng: &mut Rng, bits: u32) -> f64 {
    // k / 2^bits in [0,1)
    (rng.below(1u64 << bits) as f64) / ((1u64 << bits) as f64)
}

fn gen_param(rng: &mut Rng, absent: u64, unknown: u64, mut known: impl FnMut(&mut Rng) -> f64) -> P {
    let r = rng.below(100);
    if r < absent {
        P::Absent
    } else if r < absent + unknown {
        P::Unknown
    } else {
        P::Known(known(rng))
    }
}

fn gen_scale(rng: &mut Rng) -> f64 {
    match rng.below(8) {
        0 => 0.0,
        1 => -0.0,
        2 => 1.0,
        3 => -1.0,
        4 => 0.5,
        _ => (rng.unit() - 0.5) * 4.0,
    }
}
fn gen_phase(rng: &mut Rng) -> f64 {
    match rng.below(6) {
        0 => 0.0,
        1 => 0.5,
        2 => 0.25,
        3 => -0.125,
        _ => (rng.unit() - 0.5) * 3.0,
    }
}
fn gen_det(rng: &mut Rng, rate: f64) -> f64 {
    match rng.below(4) {
        0 => 0.0,
        1 => rate / 8.0,
        _ => (rng.unit() - 0.5) * rate * 0.25,
    }
}

/// envelope parameters scaled to the duration so that envelopes are not all underflowed
fn gen_params(rng: &mut Rng, kind: Kind, dur: f64) -> [f64; 5] {
    let d = if dur.is_finite() && dur > 0.0 { dur } else { 1.0 };
    let a = match kind {
        Kind::Rc => match rng.below(5) {
            0 => 0.0,
            1 => 1.0,
            _ => rng.unit(),
        },
        _ => d * (0.05 + rng.unit()),
    };
    [a, d * rng.unit(), (rng.unit() + 0.1) * 1e3 / d, rng.unit() * 2.0 - 1.0, rng.unit() - 0.5]
}

fn gen_request(rng: &mut Rng, kind: Kind) -> Req {
    let rate = *rng.pick(&RATES);
    let thr = 1.0 / (rate * 100.0);
    // target sample count
    let (n, huge) = match rng.below(40) {
        0 => (0.0, false),
        2 | 3 if kind.padded() => (0.0, false),
        1 => (1.0, false),
        2..=29 => (rng.below(24) as f64 + 2.0, false),
        30..=34 => (rng.below(90) as f64 + 2.0, false),
        35 => (rng.below(500) as f64 + 100.0, false),
        36 => ((1u64 << 32) as f64 - 3.0 + rng.below(6) as f64, true), // around u32::MAX
        37 => (rng.below(1u64 << 31) as f64 * 2.0, true),
        38 => (-(rng.below(5) as f64) - 1.0, false),
        _ => ((1u64 << 33) as f64 * (1.0 + rng.unit()), true),
    };
    // offset from the integer, in samples
    let delta = match rng.below(24) {
        16.. => 0.0,
        0..=5 => 0.0,
        6 => thr * (1.0 - 1.0 / 64.0),
        7 => thr * (1.0 + 1.0 / 64.0),
        8 => -thr * (1.0 - 1.0 / 1024.0),
        9 => -thr * (1.0 + 1.0 / 1024.0),
        10 => thr * dyadic_unit(rng, 10),
        11 => 0.5,
        12 => -0.5,
        13 => dyadic_unit(rng, 12) - 0.5,
        14 => thr * 2.0 * dyadic_unit(rng, 8),
        _ => f64::EPSILON * (rng.below(5) as f64 - 2.0),
    };
    let target = n + delta;
    // rates with more than 20 significant bits leave too few bits for an aligned exact product
    let realistic = if sig_bits(rate) > 20 { rng.chance(3, 4) } else { rng.chance(1, 6) };
    let dur = if realistic {
        // realistic, generally inexact product
        n / rate
    } else {
        exact_duration(target, rate)
    };
    let (padl, padr) = if kind.padded() {
        let p = |rng: &mut Rng| match rng.below(8) {
            0 | 1 => 0.0,
            2 | 3 => (rng.below(6) as f64) / rate,
            4 => exact_duration(rng.below(5) as f64 + dyadic_unit(rng, 6), rate),
            5 => -exact_duration(rng.below(3) as f64 + dyadic_unit(rng, 4), rate),
            6 => exact_duration(thr * dyadic_unit(rng, 6), rate),
            _ => exact_duration(rng.below(9) as f64 + 1.0, rate),
        };
        (p(rng), p(rng))
    } else {
        (0.0, 0.0)
    };
    let mut scale = gen_param(rng, 25, 10, gen_scale);
    let phase = gen_param(rng, 30, 8, gen_phase);
    let mut det = gen_param(rng, 55, 8, |r| gen_det(r, rate));
    let mask = if kind.fields() > 0 && rng.chance(1, 5) { 1 + rng.below((1u64 << kind.fields()) - 1) as u32 } else { 0 };
    let mut fill = [gen_scale(rng), gen_phase(rng), gen_det(rng, rate)];
    let mut light = true;
    if huge || n > 4000.0 {
        // keep every variant O(1): flat-shaped results only
        light = false;
        match kind {
            Kind::Flat | Kind::Boxcar => {
                if !matches!(det, P::Absent) {
                    det = if rng.chance(1, 2) { P::Known(0.0) } else { P::Absent };
                }
                fill[2] = 0.0;
            }
            _ => {
                scale = P::Known(if rng.chance(1, 2) { 0.0 } else { -0.0 });
            }
        }
    }
    let iq = Complex64::new((rng.unit() - 0.5) * 2.0, (rng.unit() - 0.5) * 2.0);
    let params = gen_params(rng, kind, dur);
    Req { kind, dur, rate, padl, padr, scale, phase, det, mask, iq, params, fill, light }
}

fn corpus() -> Vec<Req> {
    let base = Req {
        kind: Kind::Gaussian,
        dur: 16.0,
        rate: 1.0,
        padl: 0.0,
        padr: 0.0,
        scale: P::Absent,
        phase: P::Absent,
        det: P::Absent,
        mask: 0,
        iq: Complex64::new(0.5, -0.25),
        params: [4.0, 8.0, 1e3, 0.5, 0.1],
        fill: [1.5, 0.25, 0.0],
        light: true,
    };
    let mut v = vec![];
    // the unit tests of builtin.rs (`sample_count`): (duration, rate)
    for (d, r) in [
        (0.0, 0.0),
        (0.0, 1e9),
        (1e9, 0.0),
        (f64::EPSILON, 1.0),
        (-f64::EPSILON, 1.0),
        (0.9999999, 101.0),
        (1.0000001, 101.0),
        (0.99, 101.0),
        (1.01, 101.0),
        (8.800_000_000_000_001e-8, 1.0e9),
        (0.5, 3.0),
        (1e-4, 1e6),
        (0.1, 100.0),
        (2.5, 1.0),
        (-0.5, 1.0),
        (-0.25, 1.0),
        (4294967294.0, 1.0),
        (4294967295.0, 1.0),
        (4294967294.5, 1.0),
        (1.0, -1.0),
        (-0.25, -1.0),
        (10.0 / 1024.0 + 3.0, 1.0),
        (11.0 / 1024.0 + 3.0, 1.0),
    ] {
        for kind in [Kind::Flat, Kind::Boxcar] {
            v.push(Req { kind, dur: d, rate: r, light: false, ..base.clone() });
        }
        v.push(Req { kind: Kind::Gaussian, dur: d, rate: r, scale: P::Known(0.0), light: false, ..base.clone() });
    }
    // every kind: plain, scaled + phased, detuned, zero scale, unknown scale, missing field, padded
    for kind in KINDS {
        let k = Req { kind, padl: if kind.padded() { 2.5 } else { 0.0 }, padr: if kind.padded() { 0.25 } else { 0.0 }, ..base.clone() };
        v.push(k.clone());
        v.push(Req { scale: P::Known(-1.5), phase: P::Known(0.125), ..k.clone() });
        v.push(Req { scale: P::Known(0.75), phase: P::Known(0.5), det: P::Known(0.125), ..k.clone() });
        v.push(Req { scale: P::Known(0.0), phase: P::Known(0.3), ..k.clone() });
        v.push(Req { scale: P::Known(0.0), phase: P::Unknown, mask: if kind.fields() > 0 { 1 } else { 0 }, ..k.clone() });
        v.push(Req { scale: P::Unknown, ..k.clone() });
        v.push(Req { det: P::Unknown, ..k.clone() });
        v.push(Req { det: P::Known(0.0), phase: P::Unknown, ..k.clone() });
        if kind.fields() > 0 {
            v.push(Req { mask: 1, ..k.clone() });
            v.push(Req { mask: (1 << kind.fields()) - 1, det: P::Known(0.5), ..k.clone() });
        }
        if kind.padded() {
            v.push(Req { padl: -3.0, padr: 1.0 / 1024.0, ..k.clone() });
            // pulses that round to ZERO samples but have padding on both sides, on every path: concrete,
            // scaled, zero scale, partial (unknown common parameter / missing field), detuned
            for dur in [0.0, -0.0, 1.0 / 1024.0, -1.0 / 1024.0, f64::EPSILON] {
                for (pl, pr) in [(2.5, 0.25), (0.0, 3.0), (1.0, 0.0), (1.0 / 1024.0, 1.0 / 1024.0)] {
                    let z = Req { dur, padl: pl, padr: pr, ..k.clone() };
                    v.push(z.clone());
                    v.push(Req { scale: P::Known(2.0), phase: P::Known(0.25), ..z.clone() });
                    v.push(Req { scale: P::Known(0.0), ..z.clone() });
                    v.push(Req { scale: P::Known(0.0), mask: 1, ..z.clone() });
                    v.push(Req { phase: P::Unknown, ..z.clone() });
                    v.push(Req { scale: P::Unknown, det: P::Known(0.125), ..z.clone() });
                    v.push(Req { mask: 1, ..z.clone() });
                    v.push(Req { det: P::Known(0.25), scale: P::Known(-1.0), ..z.clone() });
                }
            }
            // one-sample pulses with padding
            v.push(Req { dur: 1.0, padl: 0.5, padr: 1.5, ..k.clone() });
            // usize overflow when the paddings are added (zero scale keeps it O(1)); see docs/C32.md
            v.push(Req { padl: 1e30, padr: 0.0, scale: P::Known(0.0), light: false, ..k.clone() });
            v.push(Req { padl: 1e30, padr: 0.0, scale: P::Known(0.0), mask: 1, light: false, ..k.clone() });
        }
    }
    // boundary sample counts (O(1) variants only): powers of two and their neighbours, i32/u32 limits
    for n in [
        255.0f64, 256.0, 257.0, 65535.0, 65536.0, 65537.0, 16777215.0, 16777216.0, 16777217.0, 2147483647.0,
        2147483648.0, 2147483649.0, 4294967293.0, 4294967294.0, 4294967295.0, 4294967296.0, 9007199254740992.0,
    ] {
        for (d, r) in [(n, 1.0), (n / 1024.0, 1024.0), (n * 8.0, 0.125)] {
            for kind in [Kind::Flat, Kind::Boxcar] {
                v.push(Req { kind, dur: d, rate: r, light: false, ..base.clone() });
                v.push(Req { kind, dur: d, rate: r, scale: P::Known(-0.5), phase: P::Unknown, light: false, ..base.clone() });
            }
            for kind in [Kind::Gaussian, Kind::Erf, Kind::Rc] {
                let pads = if kind.padded() { (3.0 / r, 2.0 / r) } else { (0.0, 0.0) };
                v.push(Req { kind, dur: d, rate: r, padl: pads.0, padr: pads.1, scale: P::Known(0.0), light: false, ..base.clone() });
                v.push(Req { kind, dur: d, rate: r, padl: pads.0, padr: pads.1, scale: P::Known(-0.0), mask: 1, light: false, ..base.clone() });
            }
        }
    }
    // exact special phases and detunings on every kind
    for kind in KINDS {
        let k = Req { kind, padl: if kind.padded() { 1.0 } else { 0.0 }, padr: if kind.padded() { 2.0 } else { 0.0 }, ..base.clone() };
        for ph in [1.0, -1.0, 0.5, -0.5, 0.75, 2.0, 0.125, 1e-300, 16.25] {
            v.push(Req { phase: P::Known(ph), scale: P::Known(1.25), ..k.clone() });
        }
        for dt in [-0.0, 1.0, 0.5, -0.25, 1.0 / 16.0, 1e-300] {
            v.push(Req { det: P::Known(dt), phase: P::Known(0.125), ..k.clone() });
        }
    }
    v
}

fn main() {
    main_with(run)
}

fn run(ctx: &mut Ctx) {
    for q in corpus() {
        run_case(ctx, q);
    }
    // exhaustive small grid: every kind × small dyadic durations × a few rates × parameter patterns
    let grid_rates: &[f64] = if ctx.quick() { &[1.0, 2.0, 100.0] } else { &[1.0, 2.0, 0.5, 3.0, 100.0, 1024.0] };
    let steps: u64 = if ctx.quick() { 3 } else { 5 };
    let pats: [(P, P, P, u32); 8] = [
        (P::Absent, P::Absent, P::Absent, 0),
        (P::Known(2.0), P::Known(0.25), P::Absent, 0),
        (P::Known(-0.5), P::Absent, P::Known(0.0), 0),
        (P::Known(0.0), P::Known(0.75), P::Absent, 0),
        (P::Unknown, P::Known(0.1), P::Absent, 0),
        (P::Known(1.25), P::Unknown, P::Known(0.0625), 0),
        (P::Known(0.0), P::Absent, P::Unknown, 0),
        (P::Known(3.0), P::Known(-0.25), P::Absent, 1),
    ];
    let mut rng = ctx.rng(31);
    for kind in KINDS {
        for &rate in grid_rates {
            // durations = j / (4·rate) samples-quarters: aligned ones and quarter/half-sample offsets
            for j in 0..=(4 * steps) {
                let dur = exact_duration(j as f64 / 4.0, rate);
                for (scale, phase, det, mask) in pats {
                    let mask = if kind.fields() == 0 { 0 } else { mask };
                    let params = gen_params(&mut rng, kind, dur);
                    let (padl, padr) = if kind.padded() { (exact_duration(1.5, rate), exact_duration(0.0, rate)) } else { (0.0, 0.0) };
                    run_case(
                        ctx,
                        Req {
                            kind,
                            dur,
                            rate,
                            padl,
                            padr,
                            scale,
                            phase,
                            det: match det {
                                P::Known(x) => P::Known(x * rate),
                                d => d,
                            },
                            mask,
                            iq: Complex64::new(0.75, -0.5),
                            params,
                            fill: [1.5, 0.375, 0.0],
                            light: true,
                        },
                    );
                }
            }
        }
    }
    // seeded random requests
    let n_random = if ctx.quick() { 9_000 } else { 120_000 };
    let mut rng = ctx.rng(32);
    for i in 0..n_random {
        let kind = KINDS[i % KINDS.len()];
        let q = gen_request(&mut rng, kind);
        run_case(ctx, q);
    }
}
