//! C03 — serialized expressions denote the same value when parsed back.
//!
//! One case = (expression e, seed of four assignments of the variables `x`, `y` and the regions `a`, `b`; the
//! assignments are derived from the seed by `assignments`, they are not needed by the driver).  On the
//! real code:  `e.to_quil()` → `verif_hooks::lex_tokens(text)` → `Expression::from_str(text)` →
//! `evaluate` of the original and of the re-parsed tree at the four assignments.  Output
//!
//!   (out "text" (toks TOKEN…)|(lexerr) (ok E')|(err) (vals (v v v v) (v v v v)))
//!
//! with `v = (ok (c xRE xIM)) | (err)`; the second value list is empty when the re-parse failed.
use num_complex::Complex64;
use quil_rs::expression::{Expression, ExpressionFunction, InfixOperator, PrefixOperator};
use quil_rs::quil::Quil;
use quil_rs::verif_hooks;
use qvh::expr::*;
use qvh::lexwire::token_sexp;
use qvh::*;
use std::collections::HashMap;
use std::str::FromStr;

type VarEnv = Vec<(String, Complex64)>;
type MemEnv = Vec<(String, Vec<f64>)>;
type Assignment = (VarEnv, MemEnv);

fn eval_to_sexp(r: Result<Complex64, quil_rs::expression::EvaluationError>) -> Sexp {
    match r {
        Ok(v) => tagged("ok", vec![complex_to_sexp(v)]),
        Err(_) => tagged("err", vec![]),
    }
}

/// a generic value: modulus in [0.3, 3], never exactly 0 or 1
fn generic(rng: &mut Rng) -> f64 {
    let m = 0.3 + 2.7 * rng.unit();
    if rng.chance(1, 2) {
        m
    } else {
        -m
    }
}

fn assignment(rng: &mut Rng) -> Assignment {
    let vars = vec![
        ("x".to_string(), Complex64::new(generic(rng), generic(rng))),
        ("y".to_string(), Complex64::new(generic(rng), if rng.chance(1, 2) { 0.0 } else { generic(rng) })),
    ];
    let mem = vec![("a".to_string(), vec![generic(rng), generic(rng)]), ("b".to_string(), vec![generic(rng), generic(rng)])];
    (vars, mem)
}

fn assignments(seed: u64) -> Vec<Assignment> {
    let mut rng = Rng::new(seed ^ 0xC03C_03C0_3C03_C03C);
    (0..4).map(|_| assignment(&mut rng)).collect()
}

fn emit(ctx: &mut Ctx, stream: &str, e: &Expression, aseed: u64) {
    let input = tagged("rt", vec![atom(stream), expr_to_sexp(e), nat(aseed)]);
    ctx.case(input, || {
        let asg = assignments(aseed);
        let text = match e.to_quil() {
            Ok(t) => t,
            Err(_) => return tagged("printerr", vec![]),
        };
        let toks = match verif_hooks::lex_tokens(&text) {
            Ok(ts) => tagged("toks", ts.iter().map(token_sexp).collect()),
            Err(_) => tagged("lexerr", vec![]),
        };
        let back = Expression::from_str(&text);
        let envs: Vec<(HashMap<String, Complex64>, HashMap<String, Vec<f64>>)> =
            asg.iter().map(|(v, m)| (v.iter().cloned().collect(), m.iter().cloned().collect())).collect();
        let orig: Vec<Sexp> = envs.iter().map(|(v, m)| eval_to_sexp(e.evaluate(v, m))).collect();
        let (back_sexp, re): (Sexp, Vec<Sexp>) = match &back {
            Ok(b) => (
                tagged("ok", vec![expr_to_sexp(b)]),
                envs.iter().map(|(v, m)| eval_to_sexp(b.evaluate(v, m))).collect(),
            ),
            Err(_) => (tagged("err", vec![]), vec![]),
        };
        tagged("out", vec![st(text), toks, back_sexp, tagged("vals", vec![list(orig), list(re)])])
    });
}

// ------------------------------------------------------------------ alphabets

fn leaves_full() -> Vec<Expression> {
    vec![
        real(2.0),
        real(0.5),
        real(-1.5),
        num(0.0, 2.0),
        num(1.0, 2.0),
        num(1.5, -0.5),
        Expression::PiConstant(),
        var("x"),
        var("y"),
        addr("a", 0),
        addr("b", 1),
    ]
}

/// the leaves whose printed forms differ in kind: trimmed real, negative real, imaginary, negative-imaginary
/// complex, pi, variable, address
fn leaves_mid() -> Vec<Expression> {
    vec![real(2.0), real(-1.5), num(0.0, 2.0), num(1.5, -0.5), Expression::PiConstant(), var("x"), addr("a", 0)]
}

fn alphabet(leaves: Vec<Expression>, f: &[ExpressionFunction], p: &[PrefixOperator], i: &[InfixOperator]) -> Alphabet {
    Alphabet { leaves, functions: f.to_vec(), prefix: p.to_vec(), infix: i.to_vec() }
}

// ------------------------------------------------------------------ numeric leaves

fn finite_from_bits(bits: u64) -> f64 {
    let x = f64::from_bits(bits);
    if x.is_finite() && !(x == 0.0 && x.is_sign_negative()) {
        x
    } else {
        1.25
    }
}

fn boundary_values() -> Vec<f64> {
    let mut v = vec![
        0.0,
        1.0,
        2.0,
        10.0,
        0.1,
        0.5,
        1.5,
        1e-5,
        9.9e-6,
        1e-4,
        0.00001234,
        123456.789,
        1e14,
        999_999_999_999_999.0,
        1e15,
        1_000_000_000_000_001.0,
        1e16,
        9_007_199_254_740_992.0,
        9_007_199_254_740_993.0,
        9.223372036854775807e18,
        1.8446744073709552e19,
        1e22,
        1e23,
        1e100,
        1e300,
        f64::MAX,
        f64::MIN_POSITIVE,
        5e-324,
        2.2250738585072009e-308,
        1e-300,
        std::f64::consts::PI,
        std::f64::consts::E,
        1.0 / 3.0,
        0.30000000000000004,
        4.35,
        1e-7,
        123456789012345.6,
        99999999999999.98,
    ];
    let neg: Vec<f64> = v.iter().filter(|x| **x != 0.0).map(|x| -*x).collect();
    v.extend(neg);
    v
}

fn random_finite(rng: &mut Rng) -> f64 {
    match rng.below(6) {
        0 => finite_from_bits(rng.next()),
        1 => {
            // an integer-valued double of random magnitude
            let k = rng.below(64);
            let n = rng.next() >> k;
            let x = n as f64;
            if rng.chance(1, 2) {
                x
            } else if x == 0.0 {
                0.0
            } else {
                -x
            }
        }
        2 => {
            // few significant decimal digits, any exponent
            let m = rng.range(-9999, 9999) as f64;
            let e = rng.range(-320, 305) as i32;
            let x = m * 10f64.powi(e);
            if x.is_finite() && x != 0.0 {
                x
            } else {
                0.0
            }
        }
        3 => {
            // a subnormal
            let x = f64::from_bits(rng.next() >> 12 >> rng.below(52));
            if x == 0.0 {
                5e-324
            } else if rng.chance(1, 2) {
                x
            } else {
                -x
            }
        }
        _ => random_f64(rng),
    }
}

fn random_literal(rng: &mut Rng) -> Expression {
    match rng.below(4) {
        0 => num(random_finite(rng), 0.0),
        1 => num(0.0, random_finite(rng)),
        _ => num(random_finite(rng), random_finite(rng)),
    }
}

fn random_alphabet(rng: &mut Rng) -> Alphabet {
    let mut leaves = leaves_full();
    for _ in 0..6 {
        leaves.push(random_literal(rng));
    }
    leaves.push(real(0.0));
    leaves.push(num(-1.0, 2.5));
    leaves.push(num(-3.0, -4.0));
    leaves.push(num(0.0, -1.0));
    leaves.push(addr("a", 1));
    leaves.push(addr("b", 7)); // out of range: evaluation fails on both sides
    leaves.push(var("z")); // unbound
    Alphabet::full(leaves)
}

fn main() {
    main_with(run)
}

fn run(ctx: &mut Ctx) {
    use ExpressionFunction::*;
    use InfixOperator as I;
    use PrefixOperator as P;
    let quick = ctx.quick();
    let mut rng = ctx.rng(3);
    let fixed = rng.next() >> 16;

    // 1. corpus: the witnesses named by the property and past failures
    let x = || var("x");
    let corpus: Vec<Expression> = vec![
        // '1+2.0i*%x' (complex literal inside an infix node) and '--%x' (negation of a negation)
        infix(num(1.0, 2.0), I::Star, x()),
        infix(x(), I::Star, num(1.0, 2.0)),
        prefix(P::Minus, prefix(P::Minus, x())),
        prefix(P::Minus, prefix(P::Minus, prefix(P::Minus, x()))),
        prefix(P::Minus, real(-1.0)),
        prefix(P::Minus, num(0.0, -1.0)),
        prefix(P::Minus, num(-1.0, -1.0)),
        prefix(P::Minus, prefix(P::Plus, real(-1.0))),
        prefix(P::Minus, prefix(P::Plus, prefix(P::Plus, prefix(P::Minus, x())))),
        prefix(P::Plus, prefix(P::Minus, x())),
        prefix(P::Plus, infix(x(), I::Plus, x())),
        prefix(P::Plus, num(1.0, -2.0)),
        prefix(P::Minus, num(1.0, -2.0)),
        // the literal -1 and Number(-1) under sqrt and ^ (branch cut)
        call(SquareRoot, real(-1.0)),
        call(SquareRoot, real(-4.0)),
        call(SquareRoot, prefix(P::Minus, real(4.0))),
        infix(real(-8.0), I::Caret, real(1.0 / 3.0)),
        infix(real(-1.0), I::Caret, real(2.0)),
        infix(real(2.0), I::Caret, real(-1.0)),
        infix(prefix(P::Minus, real(1.0)), I::Caret, real(0.5)),
        infix(num(0.0, -2.0), I::Caret, num(0.0, -2.0)),
        // exponentiation chains in both association orders, subtraction and division chains
        infix(infix(real(2.0), I::Caret, real(3.0)), I::Caret, real(2.0)),
        infix(real(2.0), I::Caret, infix(real(3.0), I::Caret, real(2.0))),
        infix(infix(x(), I::Minus, var("y")), I::Minus, var("y")),
        infix(x(), I::Minus, infix(var("y"), I::Minus, var("y"))),
        infix(infix(x(), I::Slash, var("y")), I::Slash, var("y")),
        infix(x(), I::Slash, infix(var("y"), I::Slash, var("y"))),
        // minus next to things that could glue into one identifier: pi-1, %x-1, 2.0i-1, a[0]-b[1]
        infix(Expression::PiConstant(), I::Minus, real(1.0)),
        infix(x(), I::Minus, real(1.0)),
        infix(num(0.0, 2.0), I::Minus, real(1.0)),
        infix(addr("a", 0), I::Minus, addr("b", 1)),
        infix(x(), I::Minus, prefix(P::Minus, x())),
        infix(x(), I::Plus, prefix(P::Minus, x())),
        infix(x(), I::Minus, real(-1.0)),
        infix(x(), I::Minus, num(0.0, -1.0)),
        // function calls, nested, with every kind of argument
        call(Cis, infix(num(1.0, 2.0), I::Star, x())),
        call(Sine, call(Cosine, call(Exponent, call(SquareRoot, call(Cis, x()))))),
        call(Exponent, num(1.0, -2.0)),
        call(Exponent, num(-1.0, 2.0)),
        call(Cosine, prefix(P::Minus, num(-1.0, 2.0))),
        // names that differ from the special identifiers only by case or brackets
        addr("pi", 0),
        addr("i", 0),
        addr("sin", 3),
        addr("Theta", 0),
        var("pi"),
        var("i"),
        // zero, in every spelling without a negative zero
        real(0.0),
        infix(real(0.0), I::Caret, real(0.0)),
        prefix(P::Minus, real(0.0)),
    ];
    for e in &corpus {
        emit(ctx, "corpus", e, fixed);
    }

    // 2. numeric leaves: the NumTok hypothesis on the real printer + real lexer
    for &re in &boundary_values() {
        emit(ctx, "numleaf", &num(re, 0.0), fixed);
        if re != 0.0 {
            emit(ctx, "numleaf", &num(0.0, re), fixed);
            emit(ctx, "numleaf", &num(re, re), fixed);
            emit(ctx, "numleaf", &num(-re, re), fixed);
            emit(ctx, "numleaf", &num(1.0, re), fixed);
        }
    }
    let n_leaves = if quick { 6_000 } else { 400_000 };
    for _ in 0..n_leaves {
        let e = random_literal(&mut rng);
        emit(ctx, "numleaf", &e, fixed);
    }
    // numeric leaves in operand position (next to operators, parentheses, function calls)
    for _ in 0..n_leaves / 4 {
        let l = random_literal(&mut rng);
        let r = random_literal(&mut rng);
        let e = match rng.below(4) {
            0 => infix(l, *rng.pick(&ALL_INFIX), r),
            1 => prefix(*rng.pick(&ALL_PREFIX), l),
            2 => call(*rng.pick(&ALL_FUNCTIONS), l),
            _ => infix(prefix(P::Minus, l), *rng.pick(&ALL_INFIX), call(Sine, r)),
        };
        emit(ctx, "numleaf-ctx", &e, fixed);
    }

    // 3. exhaustive enumeration
    //    (a) depth ≤ 1 over the full alphabet (11 leaves, 5 functions, 2 prefix, 5 infix)
    let full = Alphabet::full(leaves_full());
    for e in all_exprs(&full, 1) {
        emit(ctx, "exh-full-d1", &e, fixed);
    }
    //    (b) depth ≤ 2: quick over 5 leaves × {sqrt} × {+,-} × {^,-}; thorough over 7 leaves × {sin,sqrt} × {+,-} × {^,-,*,/}
    if quick {
        let a = alphabet(
            vec![real(-1.5), num(0.0, 2.0), num(1.5, -0.5), var("x"), addr("a", 0)],
            &[SquareRoot],
            &[P::Plus, P::Minus],
            &[I::Caret, I::Minus],
        );
        for e in all_exprs(&a, 2) {
            emit(ctx, "exh-mid-d2", &e, fixed);
        }
    } else {
        let a = alphabet(leaves_mid(), &[Sine, SquareRoot], &[P::Plus, P::Minus], &[I::Caret, I::Minus, I::Star, I::Slash]);
        for e in all_exprs(&a, 2) {
            emit(ctx, "exh-mid-d2", &e, fixed);
        }
    }
    //    (c) depth ≤ 3 over a minimal alphabet that still has every printed kind of operand:
    //        negative real, negative-imaginary complex / variable; one function, both prefixes, `^` (and `-`)
    if quick {
        let a = alphabet(vec![real(-1.5), var("x")], &[SquareRoot], &[P::Plus, P::Minus], &[I::Caret]);
        for e in all_exprs(&a, 3) {
            emit(ctx, "exh-min-d3", &e, fixed);
        }
    } else {
        let a = alphabet(vec![real(-1.5), num(1.5, -0.5), var("x")], &[SquareRoot], &[P::Plus, P::Minus], &[I::Caret]);
        for e in all_exprs(&a, 3) {
            emit(ctx, "exh-min-d3", &e, fixed);
        }
        let a = alphabet(vec![num(0.0, -2.0), var("x")], &[], &[P::Plus, P::Minus], &[I::Minus, I::Caret]);
        for e in all_exprs(&a, 3) {
            emit(ctx, "exh-min-d3", &e, fixed);
        }
    }

    // 4. random trees to depth 7 over the full alphabet + random literals, fresh assignments per case
    let n_random = if quick { 12_000 } else { 600_000 };
    let mut alpha = random_alphabet(&mut rng);
    for k in 0..n_random {
        if k % 64 == 0 {
            alpha = random_alphabet(&mut rng);
        }
        let d = 1 + rng.below(7) as usize;
        let e = random_expr(&mut rng, &alpha, d);
        let aseed = rng.next() >> 16;
        emit(ctx, "random", &e, aseed);
    }

    // 5. literals with a negative-zero component (finite, but the sign of a zero is not printed).  Built and
    //    dropped one at a time, with magnitudes used nowhere else in this binary: quil-rs interns expression
    //    children under an equality that identifies -0.0 with +0.0 (known finding C13/interning-merges-signed-zero).
    for k in 0..8 {
        let e = match k {
            0 => call(SquareRoot, num(-9.0, -0.0)),
            1 => infix(num(-16.0, -0.0), I::Caret, real(0.25)),
            2 => num(-0.0, 0.0),
            3 => num(-0.0, -0.0),
            4 => num(-0.0, 17.0),
            5 => num(19.0, -0.0),
            6 => call(SquareRoot, num(-0.0, -23.0)),
            _ => prefix(P::Minus, num(-25.0, -0.0)),
        };
        emit(ctx, "negzero", &e, fixed);
    }
}
