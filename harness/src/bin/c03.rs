//! C03 — serialized expressions denote the same value when parsed back.
//!
//! One case = (expression e, seed of four assignments of the variables `x`, `y` and the regions `a`, `b`; the
//! assignments are derived from the seed by `assignments`, they are not needed by the driver).  On the
//! real code:  `e.to_quil()` → `verif_hooks::lex_tokens(text)` → `Expression::from_str(text)` →
//! `evaluate` of the original and of the re-parsed tree at the four assignments.  Output
//!
//!   (out "text" (toks TOKEN…)|(lexerr) (ok E')|(err) (vals (v v v v) (v v v v)) (routes same|differ) (again true|false))
//!
//! with `v = (ok (c xRE xIM)) | (err)`; the second value list is empty when the re-parse failed.
//! `routes`: every printing entry point (`to_quil` before and after parsing, `to_quil_or_debug`,
//! `Quil::write` with `fall_back_to_debug`) wrote the same text; `again`: printing the re-parsed tree and
//! parsing that text gives the re-parsed tree back (second round trip is the identity).
//!
//! `(emb STREAM POS E ASEED)`: the expression embedded in an instruction (gate parameter, DELAY duration,
//! frame attribute, waveform argument, DEFGATE matrix entry, PAULI-SUM term, DEFCAL parameter, …), printed
//! with the instruction and read back through `Program::from_str`:
//!   (embout "text" (ok E')|(err)|(badshape) FROMSTR (vals (v…) (v…)))
//! `(imm xRE xIM)`: a CALL immediate argument: (immout "text" (ok xRE xIM)|(err)).
//! Every returned error is formatted (`{}`, `{:#}`, `{:?}`) under `catch_unwind`.
use num_complex::Complex64;
use quil_rs::expression::{Expression, ExpressionFunction, InfixOperator, PrefixOperator};
use quil_rs::instruction::{
    AttributeValue, CalibrationDefinition, CalibrationIdentifier, Call, Capture, Delay, FrameAttributes,
    FrameDefinition, FrameIdentifier, Gate, GateDefinition, GateSpecification, Instruction, MemoryReference,
    PauliGate, PauliSum, PauliTerm, Pulse, Qubit, RawCapture, SetFrequency, SetPhase, SetScale, ShiftFrequency,
    ShiftPhase, UnresolvedCallArgument, Waveform, WaveformDefinition, WaveformInvocation, WaveformParameters,
};
use quil_rs::quil::Quil;
use quil_rs::Program;
use quil_rs::verif_hooks;
use qvh::expr::*;
use qvh::lexwire::token_sexp;
use qvh::*;
use std::collections::HashMap;
use std::str::FromStr;

type VarEnv = Vec<(String, Complex64)>;
type MemEnv = Vec<(String, Vec<f64>)>;
type Assignment = (VarEnv, MemEnv);

fn eval_to_sexp(r: Result<Complex64, quil_rs::expression::EvaluationError>) -> Sexp {
    match r {
        Ok(v) => tagged("ok", vec![complex_to_sexp(v)]),
        Err(_) => tagged("err", vec![]),
    }
}

/// a generic value: modulus in [0.3, 3], never exactly 0 or 1
fn generic(rng: &mut Rng) -> f64 {
    let m = 0.3 + 2.7 * rng.unit();
    if rng.chance(1, 2) {
        m
    } else {
        -m
    }
}

fn assignment(rng: &mut Rng) -> Assignment {
    let vars = vec![
        ("x".to_string(), Complex64::new(generic(rng), generic(rng))),
        ("y".to_string(), Complex64::new(generic(rng), if rng.chance(1, 2) { 0.0 } else { generic(rng) })),
    ];
    let mem = vec![("a".to_string(), vec![generic(rng), generic(rng)]), ("b".to_string(), vec![generic(rng), generic(rng)])];
    (vars, mem)
}

fn assignments(seed: u64) -> Vec<Assignment> {
    let mut rng = Rng::new(seed ^ 0xC03C_03C0_3C03_C03C);
    (0..4).map(|_| assignment(&mut rng)).collect()
}

/// format an error every way a caller might (a panic in there is a crash of the case)
fn exercise_error<E: std::fmt::Display + std::fmt::Debug>(e: &E) -> usize {
    format!("{e}").len() + format!("{e:#}").len() + format!("{e:?}").len()
}

type Envs = Vec<(HashMap<String, Complex64>, HashMap<String, Vec<f64>>)>;

fn envs(aseed: u64) -> Envs {
    assignments(aseed).iter().map(|(v, m)| (v.iter().cloned().collect(), m.iter().cloned().collect())).collect()
}

fn values(e: &Expression, envs: &Envs) -> Vec<Sexp> {
    envs.iter()
        .map(|(v, m)| {
            let r = e.evaluate(v, m);
            if let Err(err) = &r {
                std::hint::black_box(exercise_error(err));
            }
            eval_to_sexp(r)
        })
        .collect()
}

fn emit(ctx: &mut Ctx, stream: &str, e: &Expression, aseed: u64) {
    let input = tagged("rt", vec![atom(stream), expr_to_sexp(e), nat(aseed)]);
    ctx.case(input, || {
        let text = match e.to_quil() {
            Ok(t) => t,
            Err(err) => {
                std::hint::black_box(exercise_error(&err));
                return tagged("printerr", vec![]);
            }
        };
        let toks = match verif_hooks::lex_tokens(&text) {
            Ok(ts) => tagged("toks", ts.iter().map(token_sexp).collect()),
            Err(_) => tagged("lexerr", vec![]),
        };
        let back = Expression::from_str(&text);
        if let Err(err) = &back {
            std::hint::black_box(exercise_error(err));
        }
        let envs = envs(aseed);
        let orig = values(e, &envs);
        let (back_sexp, re): (Sexp, Vec<Sexp>) = match &back {
            Ok(b) => (tagged("ok", vec![expr_to_sexp(b)]), values(b, &envs)),
            Err(_) => (tagged("err", vec![]), vec![]),
        };
        // every printing route, and printing again after the parser ran
        let mut written = String::new();
        let w = e.write(&mut written, true);
        let routes_same =
            e.to_quil().ok().as_deref() == Some(text.as_str()) && e.to_quil_or_debug() == text && w.is_ok() && written == text;
        // second round trip: print the re-parsed tree, parse it again
        let again = match &back {
            Ok(b) => match b.to_quil() {
                Ok(t2) => match Expression::from_str(&t2) {
                    Ok(b2) => expr_to_sexp(&b2) == expr_to_sexp(b),
                    Err(_) => false,
                },
                Err(_) => false,
            },
            Err(_) => false,
        };
        tagged(
            "out",
            vec![
                st(text),
                toks,
                back_sexp,
                tagged("vals", vec![list(orig), list(re)]),
                tagged("routes", vec![atom(if routes_same { "same" } else { "differ" })]),
                tagged("again", vec![boolean(again)]),
            ],
        )
    });
}

// ------------------------------------------------------------------ expressions embedded in instructions

const POSITIONS: [&str; 18] = [
    "gate-param",
    "gate-param2",
    "delay",
    "delay-frames",
    "set-scale",
    "set-phase",
    "set-frequency",
    "shift-phase",
    "shift-frequency",
    "raw-capture",
    "pulse-arg",
    "pulse-arg2",
    "capture-arg",
    "frame-attr",
    "defcal-param",
    "defgate-matrix",
    "pauli-term",
    "defwaveform",
];

fn frame() -> FrameIdentifier {
    FrameIdentifier::new("f".to_string(), vec![Qubit::Fixed(0)])
}

fn invocation(args: Vec<(&str, Expression)>) -> WaveformInvocation {
    let mut p = WaveformParameters::new();
    for (k, v) in args {
        p.insert(k.to_string(), v);
    }
    WaveformInvocation::new("w".to_string(), p)
}

fn embed(pos: &str, e: &Expression) -> Instruction {
    let e = e.clone();
    let ro = MemoryReference { name: "ro".to_string(), index: 0 };
    let vars = vec!["x".to_string(), "y".to_string(), "z".to_string()];
    match pos {
        "gate-param" => Instruction::Gate(Gate::new("RX", vec![e], vec![Qubit::Fixed(0)], vec![]).unwrap()),
        "gate-param2" => Instruction::Gate(Gate::new("U", vec![real(0.5), e, var("x")], vec![Qubit::Fixed(3)], vec![]).unwrap()),
        "delay" => Instruction::Delay(Delay::new(e, vec![], vec![Qubit::Fixed(0)])),
        "delay-frames" => Instruction::Delay(Delay::new(e, vec!["f".to_string()], vec![Qubit::Fixed(0), Qubit::Fixed(1)])),
        "set-scale" => Instruction::SetScale(SetScale::new(frame(), e)),
        "set-phase" => Instruction::SetPhase(SetPhase::new(frame(), e)),
        "set-frequency" => Instruction::SetFrequency(SetFrequency::new(frame(), e)),
        "shift-phase" => Instruction::ShiftPhase(ShiftPhase::new(frame(), e)),
        "shift-frequency" => Instruction::ShiftFrequency(ShiftFrequency::new(frame(), e)),
        "raw-capture" => Instruction::RawCapture(RawCapture::new(true, frame(), e, ro)),
        "pulse-arg" => Instruction::Pulse(Pulse::new(true, frame(), invocation(vec![("a", e)]))),
        "pulse-arg2" => Instruction::Pulse(Pulse::new(false, frame(), invocation(vec![("a", real(1.0)), ("b", e), ("c", var("x"))]))),
        "capture-arg" => Instruction::Capture(Capture::new(true, frame(), ro, invocation(vec![("a", e)]))),
        "frame-attr" => {
            let mut attributes = FrameAttributes::new();
            attributes.insert("DIRECTION".to_string(), AttributeValue::String("tx".to_string()));
            attributes.insert("SAMPLE-RATE".to_string(), AttributeValue::Expression(e));
            attributes.insert("INITIAL-FREQUENCY".to_string(), AttributeValue::Expression(real(1.0)));
            Instruction::FrameDefinition(FrameDefinition::new(frame(), attributes))
        }
        "defcal-param" => Instruction::CalibrationDefinition(CalibrationDefinition::new(
            CalibrationIdentifier::new("RX".to_string(), vec![], vec![e], vec![Qubit::Fixed(0)]).unwrap(),
            vec![Instruction::Nop()],
        )),
        "defgate-matrix" => Instruction::GateDefinition(
            GateDefinition::new(
                "G".to_string(),
                vars,
                GateSpecification::Matrix(vec![vec![real(1.0), e.clone()], vec![e, real(0.0)]]),
            )
            .unwrap(),
        ),
        "pauli-term" => Instruction::GateDefinition(
            GateDefinition::new(
                "P".to_string(),
                vars,
                GateSpecification::PauliSum(
                    PauliSum::new(
                        vec!["q".to_string()],
                        vec![PauliTerm::new(vec![(PauliGate::Z, "q".to_string())], real(2.0)), PauliTerm::new(vec![(PauliGate::X, "q".to_string())], e)],
                    )
                    .unwrap(),
                ),
            )
            .unwrap(),
        ),
        "defwaveform" => Instruction::WaveformDefinition(WaveformDefinition::new(
            "wf".to_string(),
            Waveform::new(vec![real(1.0), e.clone(), e], vars),
        )),
        _ => unreachable!(),
    }
}

/// every copy of the embedded expression read back from the instruction (all must agree)
fn extract(pos: &str, i: &Instruction) -> Option<Vec<Expression>> {
    Some(match (pos, i) {
        ("gate-param", Instruction::Gate(g)) if g.parameters.len() == 1 => vec![g.parameters[0].clone()],
        ("gate-param2", Instruction::Gate(g)) if g.parameters.len() == 3 => vec![g.parameters[1].clone()],
        ("delay", Instruction::Delay(d)) if d.qubits.len() == 1 && d.frame_names.is_empty() => vec![d.duration.clone()],
        ("delay-frames", Instruction::Delay(d)) if d.qubits.len() == 2 && d.frame_names.len() == 1 => vec![d.duration.clone()],
        ("set-scale", Instruction::SetScale(x)) => vec![x.scale.clone()],
        ("set-phase", Instruction::SetPhase(x)) => vec![x.phase.clone()],
        ("set-frequency", Instruction::SetFrequency(x)) => vec![x.frequency.clone()],
        ("shift-phase", Instruction::ShiftPhase(x)) => vec![x.phase.clone()],
        ("shift-frequency", Instruction::ShiftFrequency(x)) => vec![x.frequency.clone()],
        ("raw-capture", Instruction::RawCapture(x)) if x.memory_reference.name == "ro" => vec![x.duration.clone()],
        ("pulse-arg", Instruction::Pulse(x)) if x.waveform.parameters.len() == 1 => vec![x.waveform.parameters.get("a")?.clone()],
        ("pulse-arg2", Instruction::Pulse(x)) if x.waveform.parameters.len() == 3 => vec![x.waveform.parameters.get("b")?.clone()],
        ("capture-arg", Instruction::Capture(x)) if x.waveform.parameters.len() == 1 => vec![x.waveform.parameters.get("a")?.clone()],
        ("frame-attr", Instruction::FrameDefinition(x)) if x.attributes.len() == 3 => match x.attributes.get("SAMPLE-RATE")? {
            AttributeValue::Expression(e) => vec![e.clone()],
            _ => return None,
        },
        ("defcal-param", Instruction::CalibrationDefinition(x)) if x.identifier.parameters.len() == 1 => {
            vec![x.identifier.parameters[0].clone()]
        }
        ("defgate-matrix", Instruction::GateDefinition(x)) => match &x.specification {
            GateSpecification::Matrix(m) if m.len() == 2 && m[0].len() == 2 && m[1].len() == 2 => vec![m[0][1].clone(), m[1][0].clone()],
            _ => return None,
        },
        ("pauli-term", Instruction::GateDefinition(x)) => match &x.specification {
            GateSpecification::PauliSum(s) if s.terms.len() == 2 => vec![s.terms[1].expression.clone()],
            _ => return None,
        },
        ("defwaveform", Instruction::WaveformDefinition(x)) if x.definition.matrix.len() == 3 => {
            vec![x.definition.matrix[1].clone(), x.definition.matrix[2].clone()]
        }
        _ => return None,
    })
}

fn emit_embedded(ctx: &mut Ctx, stream: &str, pos: &'static str, e: &Expression, aseed: u64) {
    let input = tagged("emb", vec![atom(stream), atom(pos), expr_to_sexp(e), nat(aseed)]);
    ctx.case(input, || {
        let instruction = embed(pos, e);
        let text = match instruction.to_quil() {
            Ok(t) => t,
            Err(err) => {
                std::hint::black_box(exercise_error(&err));
                return tagged("printerr", vec![]);
            }
        };
        let envs = envs(aseed);
        let orig = values(e, &envs);
        let fromstr = match e.to_quil().ok().and_then(|t| Expression::from_str(&t).ok()) {
            Some(b) => tagged("ok", vec![expr_to_sexp(&b)]),
            None => tagged("err", vec![]),
        };
        let (emb, vals): (Sexp, Vec<Sexp>) = match Program::from_str(&text) {
            Ok(p) => {
                let is = p.to_instructions();
                let found = if is.len() == 1 { extract(pos, &is[0]) } else { None };
                match found {
                    Some(es) if es.iter().all(|x| expr_to_sexp(x) == expr_to_sexp(&es[0])) => {
                        (tagged("ok", vec![expr_to_sexp(&es[0])]), values(&es[0], &envs))
                    }
                    _ => (tagged("badshape", vec![]), vec![]),
                }
            }
            Err(err) => {
                std::hint::black_box(exercise_error(&err));
                (tagged("err", vec![]), vec![])
            }
        };
        tagged("embout", vec![st(text), emb, fromstr, tagged("vals", vec![list(orig), list(vals)])])
    });
}

fn emit_immediate(ctx: &mut Ctx, c: Complex64) {
    ctx.case(tagged("imm", vec![f64bits(c.re), f64bits(c.im)]), || {
        let call = Instruction::Call(Call::try_new("fn".to_string(), vec![UnresolvedCallArgument::Immediate(c)]).unwrap());
        let text = match call.to_quil() {
            Ok(t) => t,
            Err(_) => return tagged("printerr", vec![]),
        };
        let back = match Program::from_str(&text) {
            Ok(p) => match p.to_instructions().as_slice() {
                [Instruction::Call(c)] => match c.arguments.as_slice() {
                    [UnresolvedCallArgument::Immediate(v)] => tagged("ok", vec![f64bits(v.re), f64bits(v.im)]),
                    _ => tagged("badshape", vec![]),
                },
                _ => tagged("badshape", vec![]),
            },
            Err(err) => {
                std::hint::black_box(exercise_error(&err));
                tagged("err", vec![])
            }
        };
        tagged("immout", vec![st(text), back])
    });
}

// ------------------------------------------------------------------ alphabets

fn leaves_full() -> Vec<Expression> {
    vec![
        real(2.0),
        real(0.5),
        real(-1.5),
        num(0.0, 2.0),
        num(1.0, 2.0),
        num(1.5, -0.5),
        Expression::PiConstant(),
        var("x"),
        var("y"),
        addr("a", 0),
        addr("b", 1),
    ]
}

/// the leaves whose printed forms differ in kind: trimmed real, negative real, imaginary, negative-imaginary
/// complex, pi, variable, address
fn leaves_mid() -> Vec<Expression> {
    vec![real(2.0), real(-1.5), num(0.0, 2.0), num(1.5, -0.5), Expression::PiConstant(), var("x"), addr("a", 0)]
}

fn alphabet(leaves: Vec<Expression>, f: &[ExpressionFunction], p: &[PrefixOperator], i: &[InfixOperator]) -> Alphabet {
    Alphabet { leaves, functions: f.to_vec(), prefix: p.to_vec(), infix: i.to_vec() }
}

// ------------------------------------------------------------------ numeric leaves

fn finite_from_bits(bits: u64) -> f64 {
    let x = f64::from_bits(bits);
    if x.is_finite() && !(x == 0.0 && x.is_sign_negative()) {
        x
    } else {
        1.25
    }
}

/// every magnitude at which the formatter or the lexer changes behaviour, with both neighbours (±1 ulp):
/// fixed ↔ scientific notation (1e-5 … 1e-4, 1e15, 1e16), trimmed integers, 2^53 (integers stop being exact),
/// 2^63 / 2^64 (the lexer's u64 integer read), 1e19 … 1e23, 1e300, MAX, the normal/subnormal border, the
/// smallest subnormal; plus ordinary fractions
fn boundary_values() -> Vec<f64> {
    let pivots: Vec<f64> = vec![
        1.0,
        2.0,
        10.0,
        0.1,
        0.5,
        1.5,
        1e-7,
        1e-6,
        9.9e-6,
        1e-5,
        1.1e-5,
        1e-4,
        1e-3,
        0.00001234,
        123456.789,
        1e9,
        1e10,
        1e14,
        99999999999999.98,
        123456789012345.6,
        999_999_999_999_999.0,
        1e15,
        1_000_000_000_000_001.0,
        9_007_199_254_740_991.0,
        9_007_199_254_740_992.0,
        9_007_199_254_740_994.0,
        9_999_999_999_999_998.0,
        1e16,
        1e17,
        1e18,
        9.223372036854775807e18,
        1e19,
        1.8446744073709552e19,
        1.2345678901234567e19,
        9.9999999999999e19,
        1e20,
        1e21,
        1e22,
        1e23,
        1e100,
        1e300,
        f64::MAX,
        f64::MIN_POSITIVE,
        1e-300,
        1e-310,
        std::f64::consts::PI,
        std::f64::consts::E,
        1.0 / 3.0,
        0.30000000000000004,
        4.35,
    ];
    let mut v = vec![0.0, 5e-324, 1e-323, f64::from_bits(0x000F_FFFF_FFFF_FFFF)];
    for p in pivots {
        let b = p.to_bits();
        for x in [f64::from_bits(b - 1), p, f64::from_bits(b + 1)] {
            if x.is_finite() {
                v.push(x);
            }
        }
    }
    let neg: Vec<f64> = v.iter().filter(|x| **x != 0.0).map(|x| -*x).collect();
    v.extend(neg);
    v
}

fn random_finite(rng: &mut Rng) -> f64 {
    match rng.below(6) {
        0 => finite_from_bits(rng.next()),
        1 => {
            // an integer-valued double of random magnitude
            let k = rng.below(64);
            let n = rng.next() >> k;
            // up to 2^64, and (one time in four) up to 2^74: beyond the lexer's u64 integer read
            let x = if rng.chance(1, 4) { (n as f64) * 1024.0 } else { n as f64 };
            if rng.chance(1, 2) {
                x
            } else if x == 0.0 {
                0.0
            } else {
                -x
            }
        }
        2 => {
            // few significant decimal digits, any exponent
            let m = rng.range(-9999, 9999) as f64;
            let e = rng.range(-320, 305) as i32;
            let x = m * 10f64.powi(e);
            if x.is_finite() && x != 0.0 {
                x
            } else {
                0.0
            }
        }
        3 => {
            // a subnormal
            let x = f64::from_bits(rng.next() >> 12 >> rng.below(52));
            if x == 0.0 {
                5e-324
            } else if rng.chance(1, 2) {
                x
            } else {
                -x
            }
        }
        _ => random_f64(rng),
    }
}

fn random_literal(rng: &mut Rng) -> Expression {
    match rng.below(4) {
        0 => num(random_finite(rng), 0.0),
        1 => num(0.0, random_finite(rng)),
        _ => num(random_finite(rng), random_finite(rng)),
    }
}

fn random_alphabet(rng: &mut Rng) -> Alphabet {
    let mut leaves = leaves_full();
    for _ in 0..6 {
        leaves.push(random_literal(rng));
    }
    leaves.push(real(0.0));
    leaves.push(num(-1.0, 2.5));
    leaves.push(num(-3.0, -4.0));
    leaves.push(num(0.0, -1.0));
    leaves.push(addr("a", 1));
    leaves.push(addr("b", 7)); // out of range: evaluation fails on both sides
    leaves.push(var("z")); // unbound
    Alphabet::full(leaves)
}

fn main() {
    main_with(run)
}

fn run(ctx: &mut Ctx) {
    use ExpressionFunction::*;
    use InfixOperator as I;
    use PrefixOperator as P;
    let quick = ctx.quick();
    let mut rng = ctx.rng(3);
    let fixed = rng.next() >> 16;

    // 1. corpus: the witnesses named by the property and past failures
    let x = || var("x");
    let corpus: Vec<Expression> = vec![
        // '1+2.0i*%x' (complex literal inside an infix node) and '--%x' (negation of a negation)
        infix(num(1.0, 2.0), I::Star, x()),
        infix(x(), I::Star, num(1.0, 2.0)),
        prefix(P::Minus, prefix(P::Minus, x())),
        prefix(P::Minus, prefix(P::Minus, prefix(P::Minus, x()))),
        prefix(P::Minus, real(-1.0)),
        prefix(P::Minus, num(0.0, -1.0)),
        prefix(P::Minus, num(-1.0, -1.0)),
        prefix(P::Minus, prefix(P::Plus, real(-1.0))),
        prefix(P::Minus, prefix(P::Plus, prefix(P::Plus, prefix(P::Minus, x())))),
        prefix(P::Plus, prefix(P::Minus, x())),
        prefix(P::Plus, infix(x(), I::Plus, x())),
        prefix(P::Plus, num(1.0, -2.0)),
        prefix(P::Minus, num(1.0, -2.0)),
        // the literal -1 and Number(-1) under sqrt and ^ (branch cut)
        call(SquareRoot, real(-1.0)),
        call(SquareRoot, real(-4.0)),
        call(SquareRoot, prefix(P::Minus, real(4.0))),
        infix(real(-8.0), I::Caret, real(1.0 / 3.0)),
        infix(real(-1.0), I::Caret, real(2.0)),
        infix(real(2.0), I::Caret, real(-1.0)),
        infix(prefix(P::Minus, real(1.0)), I::Caret, real(0.5)),
        infix(num(0.0, -2.0), I::Caret, num(0.0, -2.0)),
        // exponentiation chains in both association orders, subtraction and division chains
        infix(infix(real(2.0), I::Caret, real(3.0)), I::Caret, real(2.0)),
        infix(real(2.0), I::Caret, infix(real(3.0), I::Caret, real(2.0))),
        infix(infix(x(), I::Minus, var("y")), I::Minus, var("y")),
        infix(x(), I::Minus, infix(var("y"), I::Minus, var("y"))),
        infix(infix(x(), I::Slash, var("y")), I::Slash, var("y")),
        infix(x(), I::Slash, infix(var("y"), I::Slash, var("y"))),
        // minus next to things that could glue into one identifier: pi-1, %x-1, 2.0i-1, a[0]-b[1]
        infix(Expression::PiConstant(), I::Minus, real(1.0)),
        infix(x(), I::Minus, real(1.0)),
        infix(num(0.0, 2.0), I::Minus, real(1.0)),
        infix(addr("a", 0), I::Minus, addr("b", 1)),
        infix(x(), I::Minus, prefix(P::Minus, x())),
        infix(x(), I::Plus, prefix(P::Minus, x())),
        infix(x(), I::Minus, real(-1.0)),
        infix(x(), I::Minus, num(0.0, -1.0)),
        // function calls, nested, with every kind of argument
        call(Cis, infix(num(1.0, 2.0), I::Star, x())),
        call(Sine, call(Cosine, call(Exponent, call(SquareRoot, call(Cis, x()))))),
        call(Exponent, num(1.0, -2.0)),
        call(Exponent, num(-1.0, 2.0)),
        call(Cosine, prefix(P::Minus, num(-1.0, 2.0))),
        // names that differ from the special identifiers only by case or brackets
        addr("pi", 0),
        addr("i", 0),
        addr("sin", 3),
        addr("Theta", 0),
        var("pi"),
        var("i"),
        // zero, in every spelling without a negative zero
        real(0.0),
        infix(real(0.0), I::Caret, real(0.0)),
        prefix(P::Minus, real(0.0)),
    ];
    for e in &corpus {
        emit(ctx, "corpus", e, fixed);
    }

    // 2. numeric leaves: the NumTok hypothesis on the real printer + real lexer
    for &re in &boundary_values() {
        emit(ctx, "numleaf", &num(re, 0.0), fixed);
        if re != 0.0 {
            emit(ctx, "numleaf", &num(0.0, re), fixed);
            emit(ctx, "numleaf", &num(re, re), fixed);
            emit(ctx, "numleaf", &num(-re, re), fixed);
            emit(ctx, "numleaf", &num(1.0, re), fixed);
        }
    }
    let n_leaves = if quick { 4_000 } else { 400_000 };
    for _ in 0..n_leaves {
        let e = random_literal(&mut rng);
        emit(ctx, "numleaf", &e, fixed);
    }
    // numeric leaves in operand position (next to operators, parentheses, function calls)
    for _ in 0..n_leaves / 4 {
        let l = random_literal(&mut rng);
        let r = random_literal(&mut rng);
        let e = match rng.below(4) {
            0 => infix(l, *rng.pick(&ALL_INFIX), r),
            1 => prefix(*rng.pick(&ALL_PREFIX), l),
            2 => call(*rng.pick(&ALL_FUNCTIONS), l),
            _ => infix(prefix(P::Minus, l), *rng.pick(&ALL_INFIX), call(Sine, r)),
        };
        emit(ctx, "numleaf-ctx", &e, fixed);
    }

    // 3. exhaustive enumeration
    //    (a) depth ≤ 1 over the full alphabet (11 leaves, 5 functions, 2 prefix, 5 infix)
    let full = Alphabet::full(leaves_full());
    for e in all_exprs(&full, 1) {
        emit(ctx, "exh-full-d1", &e, fixed);
    }
    //    (b) depth ≤ 2: quick over 5 leaves × {sqrt} × {+,-} × {^,-}; thorough over 7 leaves × {sin,sqrt} × {+,-} × {^,-,*,/}
    if quick {
        let a = alphabet(
            vec![real(-1.5), num(0.0, 2.0), num(1.5, -0.5), var("x"), addr("a", 0)],
            &[SquareRoot],
            &[P::Plus, P::Minus],
            &[I::Caret, I::Minus],
        );
        for e in all_exprs(&a, 2) {
            emit(ctx, "exh-mid-d2", &e, fixed);
        }
    } else {
        let a = alphabet(leaves_mid(), &[Sine, SquareRoot], &[P::Plus, P::Minus], &[I::Caret, I::Minus, I::Star, I::Slash]);
        for e in all_exprs(&a, 2) {
            emit(ctx, "exh-mid-d2", &e, fixed);
        }
    }
    //    (c) depth ≤ 3 over a minimal alphabet that still has every printed kind of operand:
    //        negative real, negative-imaginary complex / variable; one function, both prefixes, `^` (and `-`)
    if quick {
        // (function calls at depth 3 are in the thorough tier; a call resets the printing context)
        let a = alphabet(vec![real(-1.5), var("x")], &[], &[P::Plus, P::Minus], &[I::Caret]);
        for e in all_exprs(&a, 3) {
            emit(ctx, "exh-min-d3", &e, fixed);
        }
    } else {
        let a = alphabet(vec![real(-1.5), num(1.5, -0.5), var("x")], &[SquareRoot], &[P::Plus, P::Minus], &[I::Caret]);
        for e in all_exprs(&a, 3) {
            emit(ctx, "exh-min-d3", &e, fixed);
        }
        let a = alphabet(vec![num(0.0, -2.0), var("x")], &[], &[P::Plus, P::Minus], &[I::Minus, I::Caret]);
        for e in all_exprs(&a, 3) {
            emit(ctx, "exh-min-d3", &e, fixed);
        }
    }

    // 4. random trees to depth 7 over the full alphabet + random literals, fresh assignments per case
    let n_random = if quick { 8_000 } else { 600_000 };
    let mut alpha = random_alphabet(&mut rng);
    for k in 0..n_random {
        if k % 64 == 0 {
            alpha = random_alphabet(&mut rng);
        }
        let d = 1 + rng.below(7) as usize;
        let e = random_expr(&mut rng, &alpha, d);
        let aseed = rng.next() >> 16;
        emit(ctx, "random", &e, aseed);
    }

    // 6. names: region and variable names equal, up to letter case, to the identifiers the expression parser
    //    treats specially (cis cos exp i pi sin sqrt) and to every reserved word of the lexer (commands, data
    //    types, modifiers, keywords), in every expression position
    let special = ["cis", "cos", "exp", "i", "pi", "sin", "sqrt"];
    let case_variants = |w: &str| -> Vec<String> {
        let mut cap = w.to_string();
        cap[..1].make_ascii_uppercase();
        let alt: String = w.chars().enumerate().map(|(k, c)| if k % 2 == 1 { c.to_ascii_uppercase() } else { c }).collect();
        let mut v = vec![w.to_string(), w.to_uppercase(), cap, alt];
        v.dedup();
        v
    };
    let in_positions = |leaf: Expression| -> Vec<Expression> {
        vec![
            leaf.clone(),
            infix(leaf.clone(), I::Star, real(2.0)),
            infix(real(2.0), I::Caret, leaf.clone()),
            infix(leaf.clone(), I::Minus, leaf.clone()),
            infix(infix(leaf.clone(), I::Plus, x()), I::Slash, leaf.clone()),
            prefix(P::Minus, leaf.clone()),
            prefix(P::Minus, prefix(P::Plus, prefix(P::Minus, leaf.clone()))),
            call(Exponent, leaf.clone()),
            call(SquareRoot, infix(num(1.0, -2.0), I::Star, leaf)),
        ]
    };
    for w in special {
        for name in case_variants(w) {
            for (k, e) in in_positions(addr(&name, 0)).into_iter().enumerate() {
                emit(ctx, "names-special", &e, fixed);
                if k < 3 {
                    emit(ctx, "names-special", &in_positions(addr(&name, 1 + k as u64))[k], fixed);
                }
            }
            for e in in_positions(var(&name)) {
                emit(ctx, "names-special", &e, fixed);
            }
        }
    }
    let reserved = [
        "ADD", "AND", "ASHR", "CALL", "CAPTURE", "CONVERT", "DECLARE", "DEFCAL", "DEFCIRCUIT", "DEFFRAME", "DEFGATE",
        "DEFWAVEFORM", "DELAY", "DIV", "EQ", "EXCHANGE", "FENCE", "GE", "GT", "HALT", "INCLUDE", "IOR", "JUMP",
        "JUMP-UNLESS", "JUMP-WHEN", "LABEL", "LE", "LOAD", "LT", "MEASURE", "MOVE", "MUL", "NEG", "NOP", "NOT", "PRAGMA",
        "PULSE", "RAW-CAPTURE", "RESET", "SET-FREQUENCY", "SET-PHASE", "SET-SCALE", "SHIFT-FREQUENCY", "SHIFT-PHASE",
        "SHL", "SHR", "STORE", "SUB", "SWAP-PHASES", "WAIT", "XOR", "BIT", "OCTET", "REAL", "INTEGER", "CONTROLLED",
        "DAGGER", "FORKED", "AS", "MATRIX", "mut", "NONBLOCKING", "OFFSET", "PAULI-SUM", "PERMUTATION", "SEQUENCE",
        "SHARING",
    ];
    for w in reserved {
        // the reserved spelling itself (variables only: a region so named is the known finding below) and
        // its other-case spellings, which are ordinary identifiers
        emit(ctx, "names-reserved", &infix(var(w), I::Minus, real(1.0)), fixed);
        emit(ctx, "names-reserved", &call(Sine, var(&w.to_lowercase())), fixed);
        let other = if w == "mut" { "MUT".to_string() } else { w.to_lowercase() };
        emit(ctx, "names-reserved", &infix(addr(&other, 2), I::Star, addr(&other, 0)), fixed);
        emit(ctx, "names-reserved-region", &infix(addr(w, 0), I::Plus, real(1.0)), fixed);
    }

    // 7. operator chains of length 3 for every ordered pair of operators in both association orders, with
    //    plain, signed and complex operands and a prefix minus in every place; compared by VALUE
    let triples: Vec<[Expression; 3]> = vec![
        [x(), var("y"), addr("a", 1)],
        [real(2.0), real(-1.5), x()],
        [num(1.0, 2.0), x(), real(0.5)],
        [real(-3.0), num(0.0, -2.0), num(1.5, -0.5)],
    ];
    for o1 in ALL_INFIX {
        for o2 in ALL_INFIX {
            for [a, b, c] in triples.iter().cloned() {
                let left = |a: Expression, b: Expression, c: Expression| infix(infix(a, o1, b), o2, c);
                let right = |a: Expression, b: Expression, c: Expression| infix(a, o1, infix(b, o2, c));
                let neg = |e: Expression| prefix(P::Minus, e);
                for e in [
                    left(a.clone(), b.clone(), c.clone()),
                    right(a.clone(), b.clone(), c.clone()),
                    left(neg(a.clone()), b.clone(), c.clone()),
                    right(neg(a.clone()), b.clone(), c.clone()),
                    left(a.clone(), neg(b.clone()), c.clone()),
                    right(a.clone(), b.clone(), neg(c.clone())),
                    neg(left(a.clone(), b.clone(), c.clone())),
                    infix(neg(infix(a.clone(), o1, b.clone())), o2, c.clone()),
                    infix(a.clone(), o1, neg(infix(b.clone(), o2, c.clone()))),
                ] {
                    emit(ctx, "chains", &e, fixed);
                }
            }
        }
    }
    // chains of length 4 and 5, random association
    for _ in 0..(if quick { 600 } else { 20_000 }) {
        let n = 4 + rng.below(2) as usize;
        let pool = [x(), var("y"), real(2.0), real(-1.5), num(1.0, 2.0), num(0.0, -2.0), addr("a", 0), Expression::PiConstant()];
        let mut items: Vec<Expression> = (0..n).map(|_| rng.pick(&pool).clone()).collect();
        while items.len() > 1 {
            let k = rng.below(items.len() as u64 - 1) as usize;
            let r = items.remove(k + 1);
            let l = items.remove(k);
            let mut node = infix(l, *rng.pick(&ALL_INFIX), r);
            if rng.chance(1, 5) {
                node = prefix(P::Minus, node);
            }
            items.insert(k, node);
        }
        emit(ctx, "chains", &items[0], rng.next() >> 16);
    }

    // 8. the same expressions embedded in instructions, printed with the instruction and read back through
    //    Program::from_str: every position of the grammar that holds an expression
    let mut embedded: Vec<Expression> = corpus.clone();
    embedded.extend(all_exprs(&full, 0));
    for &v in &[1e-5, 9.9e-6, 1e15, 1e16, 9_007_199_254_740_993.0, 1.8446744073709552e19, 1e20, 1e21, 5e-324, -1e300] {
        embedded.push(real(v));
        embedded.push(num(0.0, v));
        embedded.push(num(-2.0, v));
    }
    // every shape of depth ≤ 1, and a prefix operator over every such shape (an instruction printer may treat
    // any of them specially, e.g. DELAY parenthesises durations that would read as a qubit)
    let shapes = all_exprs(
        &alphabet(
            vec![real(2.0), real(-1.5), num(1.5, -0.5), x(), addr("a", 0), Expression::PiConstant()],
            &[Sine],
            &[P::Plus, P::Minus],
            &[I::Minus, I::Caret],
        ),
        1,
    );
    for t in &shapes {
        embedded.push(t.clone());
        if depth(t) == 1 {
            embedded.push(prefix(P::Plus, t.clone()));
            embedded.push(prefix(P::Minus, t.clone()));
        }
    }
    embedded.push(addr("Sin", 1));
    embedded.push(addr("PI", 0));
    embedded.push(var("exp"));
    embedded.push(infix(infix(x(), I::Minus, var("y")), I::Minus, addr("a", 0)));
    let n_emb_random = if quick { 12 } else { 1500 };
    for pos in POSITIONS {
        for e in &embedded {
            emit_embedded(ctx, "embedded", pos, e, fixed);
        }
        for _ in 0..n_emb_random {
            let d = 1 + rng.below(4) as usize;
            let e = random_expr(&mut rng, &alpha, d);
            emit_embedded(ctx, "embedded-random", pos, &e, rng.next() >> 16);
        }
    }
    // CALL immediate arguments (a Complex64, printed by format_complex, read by parse_call_immediate)
    for &v in &boundary_values() {
        emit_immediate(ctx, Complex64::new(v, 0.0));
        if v != 0.0 {
            emit_immediate(ctx, Complex64::new(0.0, v));
            emit_immediate(ctx, Complex64::new(v, -v));
            emit_immediate(ctx, Complex64::new(1.5, v));
        }
    }

    // 5. literals with a negative-zero component (finite, but the sign of a zero is not printed).  Built and
    //    dropped one at a time, with magnitudes used nowhere else in this binary: quil-rs interns expression
    //    children under an equality that identifies -0.0 with +0.0 (known finding C13/interning-merges-signed-zero).
    for k in 0..8 {
        let e = match k {
            0 => call(SquareRoot, num(-9.0, -0.0)),
            1 => infix(num(-16.0, -0.0), I::Caret, real(0.25)),
            2 => num(-0.0, 0.0),
            3 => num(-0.0, -0.0),
            4 => num(-0.0, 17.0),
            5 => num(19.0, -0.0),
            6 => call(SquareRoot, num(-0.0, -23.0)),
            _ => prefix(P::Minus, num(-25.0, -0.0)),
        };
        emit(ctx, "negzero", &e, fixed);
    }
}
