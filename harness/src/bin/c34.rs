//! C34 — placeholder resolution assigns unique, consistent values.
//! Input: the projected body + the resolver mode (+ custom resolution tables).
//! Output: the projected body after `Program::resolve_placeholders*`.
use quil_rs::instruction::{
    Instruction, Jump, JumpUnless, JumpWhen, Label, MemoryReference, Qubit, QubitPlaceholder, Target,
    TargetPlaceholder,
};
use quil_rs::Program;
use qvh::progs::{qubit_id, target_id, text_of};
use qvh::*;
use std::collections::HashMap;
use std::str::FromStr;

/// Placeholder identities numbered by first occurrence.
#[derive(Default)]
struct Names {
    // keyed by the harness's own identity (Arc pointer bits), never by the types' ==/Hash
    targets: HashMap<usize, u64>,
    qubits: HashMap<usize, u64>,
}

impl Names {
    fn target(&mut self, t: &Target) -> Sexp {
        match t {
            Target::Fixed(s) => tagged("fixed", vec![st(s.clone())]),
            Target::Placeholder(p) => {
                let n = self.targets.len() as u64;
                let k = *self.targets.entry(target_id(p)).or_insert(n);
                tagged("ph", vec![nat(k), st(p.as_inner())])
            }
        }
    }
    fn qubit(&mut self, q: &Qubit) -> Sexp {
        match q {
            Qubit::Fixed(n) => tagged("f", vec![nat(*n)]),
            Qubit::Variable(v) => tagged("v", vec![st(v.clone())]),
            Qubit::Placeholder(p) => {
                let n = self.qubits.len() as u64;
                let k = *self.qubits.entry(qubit_id(p)).or_insert(n);
                tagged("p", vec![nat(k)])
            }
        }
    }
}

/// The harness's OWN traversal of every qubit an instruction syntactically contains (deliberately
/// not `Instruction::get_qubits_mut`, which is part of what is being checked).
fn all_qubits_mut(i: &mut Instruction) -> Vec<&mut Qubit> {
    match i {
        Instruction::Gate(g) => g.qubits.iter_mut().collect(),
        Instruction::Measurement(m) => vec![&mut m.qubit],
        Instruction::Reset(r) => r.qubit.iter_mut().collect(),
        Instruction::Delay(d) => d.qubits.iter_mut().collect(),
        Instruction::Fence(f) => f.qubits.iter_mut().collect(),
        Instruction::Capture(c) => c.frame.qubits.iter_mut().collect(),
        Instruction::Pulse(p) => p.frame.qubits.iter_mut().collect(),
        Instruction::RawCapture(c) => c.frame.qubits.iter_mut().collect(),
        Instruction::SetFrequency(s) => s.frame.qubits.iter_mut().collect(),
        Instruction::SetPhase(s) => s.frame.qubits.iter_mut().collect(),
        Instruction::SetScale(s) => s.frame.qubits.iter_mut().collect(),
        Instruction::ShiftFrequency(s) => s.frame.qubits.iter_mut().collect(),
        Instruction::ShiftPhase(s) => s.frame.qubits.iter_mut().collect(),
        Instruction::SwapPhases(s) => s.frame_1.qubits.iter_mut().chain(s.frame_2.qubits.iter_mut()).collect(),
        _ => vec![],
    }
}

fn kind_of(i: &Instruction) -> &'static str {
    match i {
        Instruction::Gate(_) => "Gate",
        Instruction::Measurement(_) => "Measurement",
        Instruction::Reset(_) => "Reset",
        Instruction::Delay(_) => "Delay",
        Instruction::Fence(_) => "Fence",
        Instruction::Capture(_) => "Capture",
        Instruction::Pulse(_) => "Pulse",
        Instruction::RawCapture(_) => "RawCapture",
        Instruction::SetFrequency(_) => "SetFrequency",
        Instruction::SetPhase(_) => "SetPhase",
        Instruction::SetScale(_) => "SetScale",
        Instruction::ShiftFrequency(_) => "ShiftFrequency",
        Instruction::ShiftPhase(_) => "ShiftPhase",
        Instruction::SwapPhases(_) => "SwapPhases",
        Instruction::Label(_) => "Label",
        Instruction::Jump(_) => "Jump",
        Instruction::JumpWhen(_) => "JumpWhen",
        Instruction::JumpUnless(_) => "JumpUnless",
        _ => "Other",
    }
}

fn project(names: &mut Names, i: &Instruction) -> Sexp {
    let blank = Target::Fixed("T".to_string());
    let tgt = |names: &mut Names, t: &Target, shape: Instruction| {
        tagged("tgt", vec![st(kind_of(i)), names.target(t), st(text_of(&shape))])
    };
    match i {
        Instruction::Label(Label { target }) => tgt(names, target, Instruction::Label(Label { target: blank.clone() })),
        Instruction::Jump(Jump { target }) => tgt(names, target, Instruction::Jump(Jump { target: blank.clone() })),
        Instruction::JumpWhen(JumpWhen { target, condition }) => tgt(
            names,
            target,
            Instruction::JumpWhen(JumpWhen { target: blank.clone(), condition: condition.clone() }),
        ),
        Instruction::JumpUnless(JumpUnless { target, condition }) => tgt(
            names,
            target,
            Instruction::JumpUnless(JumpUnless { target: blank.clone(), condition: condition.clone() }),
        ),
        other => {
            let mut shape = other.clone();
            let mut qs = vec![];
            for q in all_qubits_mut(&mut shape) {
                qs.push(names.qubit(q));
                *q = Qubit::Fixed(0);
            }
            tagged("qs", vec![st(kind_of(other)), st(text_of(&shape)), list(qs)])
        }
    }
}

fn project_body(names: &mut Names, p: &Program) -> Vec<Sexp> {
    p.body_instructions().map(|i| project(names, i)).collect()
}

#[derive(Clone, Copy, PartialEq)]
enum Mode {
    Default,
    Custom,
    CustomTargets,
    CustomQubits,
}

impl Mode {
    fn name(self) -> &'static str {
        match self {
            Mode::Default => "default",
            Mode::Custom => "custom",
            Mode::CustomTargets => "customTargets",
            Mode::CustomQubits => "customQubits",
        }
    }
}

fn resolve_case(
    ctx: &mut Ctx,
    body: &[Instruction],
    mode: Mode,
    tmap: &[(TargetPlaceholder, String)],
    qmap: &[(QubitPlaceholder, u64)],
) {
    let mut p = Program::new();
    p.add_instructions(body.iter().cloned());
    let mut names = Names::default();
    let body_sexp = project_body(&mut names, &p);
    // custom tables are expressed through the same numbering; entries for placeholders that do not occur
    // in the body get fresh numbers (they must simply be ignored)
    let tm: Vec<Sexp> = tmap
        .iter()
        .map(|(ph, l)| {
            let n = names.targets.len() as u64;
            let k = *names.targets.entry(target_id(ph)).or_insert(n);
            list(vec![nat(k), st(l.clone())])
        })
        .collect();
    let qm: Vec<Sexp> = qmap
        .iter()
        .map(|(ph, v)| {
            let n = names.qubits.len() as u64;
            let k = *names.qubits.entry(qubit_id(ph)).or_insert(n);
            list(vec![nat(k), nat(*v)])
        })
        .collect();
    let input = tagged(
        "resolve",
        vec![atom(mode.name()), tagged("body", body_sexp), tagged("tmap", tm), tagged("qmap", qm)],
    );
    let tmap: HashMap<usize, String> = tmap.iter().map(|(p, l)| (target_id(p), l.clone())).collect();
    let qmap: HashMap<usize, u64> = qmap.iter().map(|(p, v)| (qubit_id(p), *v)).collect();
    ctx.case(input, || {
        let mut p = p.clone();
        match mode {
            Mode::Default => p.resolve_placeholders(),
            Mode::Custom => p.resolve_placeholders_with_custom_resolvers(
                Box::new(move |k| tmap.get(&target_id(k)).cloned()),
                Box::new(move |k| qmap.get(&qubit_id(k)).copied()),
            ),
            Mode::CustomTargets => {
                let qr = p.default_qubit_resolver();
                p.resolve_placeholders_with_custom_resolvers(Box::new(move |k| tmap.get(&target_id(k)).cloned()), qr)
            }
            Mode::CustomQubits => {
                let tr = p.default_target_resolver();
                p.resolve_placeholders_with_custom_resolvers(tr, Box::new(move |k| qmap.get(&qubit_id(k)).copied()))
            }
        }
        tagged("body", project_body(&mut names, &p))
    });
}

/// Every qubit of a DEFINITION instruction (calibration identifier + body, recursively), by the harness's
/// own traversal.  Only calibrations carry `Qubit`s among the definitions used here.
fn def_qubits(i: &Instruction, out: &mut Vec<Qubit>) {
    match i {
        Instruction::CalibrationDefinition(c) => {
            out.extend(c.identifier.qubits.iter().cloned());
            for b in &c.instructions {
                def_qubits(b, out);
            }
        }
        Instruction::MeasureCalibrationDefinition(c) => {
            out.push(c.identifier.qubit.clone());
            for b in &c.instructions {
                def_qubits(b, out);
            }
        }
        other => {
            let mut o = other.clone();
            out.extend(all_qubits_mut(&mut o).into_iter().map(|q| q.clone()));
        }
    }
}

struct Call {
    mode: Mode,
    tmap: Vec<(TargetPlaceholder, String)>,
    qmap: Vec<(QubitPlaceholder, u64)>,
}

fn used_sexp(names: &mut Names, p: &Program) -> Sexp {
    let mut v: Vec<(String, Sexp)> = p
        .get_used_qubits()
        .iter()
        .map(|q| {
            let s = names.qubit(q);
            (s.to_string(), s)
        })
        .collect();
    v.sort_by(|a, b| a.0.cmp(&b.0));
    tagged("used", v.into_iter().map(|x| x.1).collect())
}

/// A sequence of resolution calls on ONE program (definitions + body); after every call the body and the
/// `used_qubits` cache are observed.
fn seq_case(ctx: &mut Ctx, defs: &[Instruction], body: &[Instruction], calls: &[Call]) {
    let mut p = Program::new();
    p.add_instructions(defs.iter().cloned());
    p.add_instructions(body.iter().cloned());
    let mut names = Names::default();
    let body_sexp = project_body(&mut names, &p);
    let mut dq = vec![];
    {
        let n_body = p.body_instructions().count();
        let listing = p.to_instructions();
        for d in &listing[..listing.len() - n_body] {
            def_qubits(d, &mut dq);
        }
    }
    let defq: Vec<Sexp> = dq.iter().map(|q| names.qubit(q)).collect();
    let mut call_sexps = vec![];
    for c in calls {
        let tm: Vec<Sexp> = c
            .tmap
            .iter()
            .map(|(ph, l)| {
                let n = names.targets.len() as u64;
                let k = *names.targets.entry(target_id(ph)).or_insert(n);
                list(vec![nat(k), st(l.clone())])
            })
            .collect();
        let qm: Vec<Sexp> = c
            .qmap
            .iter()
            .map(|(ph, v)| {
                let n = names.qubits.len() as u64;
                let k = *names.qubits.entry(qubit_id(ph)).or_insert(n);
                list(vec![nat(k), nat(*v)])
            })
            .collect();
        call_sexps.push(tagged("call", vec![atom(c.mode.name()), tagged("tmap", tm), tagged("qmap", qm)]));
    }
    let input = tagged("seq", vec![tagged("defq", defq), tagged("body", body_sexp), tagged("calls", call_sexps)]);
    ctx.case(input, || {
        let mut p = p.clone();
        let mut steps = vec![used_sexp(&mut names, &p)];
        for c in calls {
            let tmap: HashMap<usize, String> = c.tmap.iter().map(|(p, l)| (target_id(p), l.clone())).collect();
            let qmap: HashMap<usize, u64> = c.qmap.iter().map(|(p, v)| (qubit_id(p), *v)).collect();
            match c.mode {
                Mode::Default => p.resolve_placeholders(),
                Mode::Custom => p.resolve_placeholders_with_custom_resolvers(
                    Box::new(move |k| tmap.get(&target_id(k)).cloned()),
                    Box::new(move |k| qmap.get(&qubit_id(k)).copied()),
                ),
                Mode::CustomTargets => {
                    let qr = p.default_qubit_resolver();
                    p.resolve_placeholders_with_custom_resolvers(Box::new(move |k| tmap.get(&target_id(k)).cloned()), qr)
                }
                Mode::CustomQubits => {
                    let tr = p.default_target_resolver();
                    p.resolve_placeholders_with_custom_resolvers(tr, Box::new(move |k| qmap.get(&qubit_id(k)).copied()))
                }
            }
            // the definitions (calibrations) must be left exactly as they were: their qubits, by the harness's traversal
            let n_body = p.body_instructions().count();
            let listing = p.to_instructions();
            let mut dq_after = vec![];
            for d in &listing[..listing.len() - n_body] {
                def_qubits(d, &mut dq_after);
            }
            let defq_after: Vec<Sexp> = dq_after.iter().map(|q| names.qubit(q)).collect();
            steps.push(tagged(
                "step",
                vec![tagged("body", project_body(&mut names, &p)), used_sexp(&mut names, &p), tagged("defq", defq_after)],
            ));
        }
        tagged("seqout", steps)
    });
}

/// The two default resolvers queried directly (they are public API): every placeholder of `tph` / `qph`
/// (some of which do not occur in the body) is looked up in the closures they return.
fn tables_case(ctx: &mut Ctx, body: &[Instruction], tph: &[TargetPlaceholder], qph: &[QubitPlaceholder]) {
    let mut p = Program::new();
    p.add_instructions(body.iter().cloned());
    let mut names = Names::default();
    let body_sexp = project_body(&mut names, &p);
    let tk: Vec<u64> = tph
        .iter()
        .map(|ph| {
            let n = names.targets.len() as u64;
            *names.targets.entry(target_id(ph)).or_insert(n)
        })
        .collect();
    let qk: Vec<u64> = qph
        .iter()
        .map(|ph| {
            let n = names.qubits.len() as u64;
            *names.qubits.entry(qubit_id(ph)).or_insert(n)
        })
        .collect();
    let input = tagged(
        "tables",
        vec![tagged("body", body_sexp), tagged("tq", tk.iter().map(|k| nat(*k)).collect()), tagged("qq", qk.iter().map(|k| nat(*k)).collect())],
    );
    ctx.case(input, || {
        let tr = p.default_target_resolver();
        let qr = p.default_qubit_resolver();
        let dt: Vec<Sexp> = tph
            .iter()
            .zip(&tk)
            .map(|(ph, k)| match tr(ph) {
                Some(l) => list(vec![nat(*k), st(l)]),
                None => list(vec![nat(*k), atom("none")]),
            })
            .collect();
        let dq: Vec<Sexp> = qph
            .iter()
            .zip(&qk)
            .map(|(ph, k)| match qr(ph) {
                Some(v) => list(vec![nat(*k), nat(v)]),
                None => list(vec![nat(*k), atom("none")]),
            })
            .collect();
        tagged("tables", vec![tagged("dt", dt), tagged("dq", dq)])
    });
}

/// Qubit placeholders of the body by operand position: (never last operand, never first operand, all).
fn position_classes(body: &[Instruction]) -> (Vec<QubitPlaceholder>, Vec<QubitPlaceholder>, Vec<QubitPlaceholder>) {
    let mut all: Vec<QubitPlaceholder> = vec![];
    let mut first: Vec<QubitPlaceholder> = vec![];
    let mut last: Vec<QubitPlaceholder> = vec![];
    for i in body {
        let mut c = i.clone();
        let qs: Vec<Qubit> = all_qubits_mut(&mut c).into_iter().map(|q| q.clone()).collect();
        for (k, q) in qs.iter().enumerate() {
            if let Qubit::Placeholder(p) = q {
                let has = |v: &Vec<QubitPlaceholder>| v.iter().any(|x| qubit_id(x) == qubit_id(p));
                if !has(&all) {
                    all.push(p.clone());
                }
                if k == 0 && !has(&first) {
                    first.push(p.clone());
                }
                if k + 1 == qs.len() && !has(&last) {
                    last.push(p.clone());
                }
            }
        }
    }
    let never_last = all.iter().filter(|p| !last.iter().any(|x| qubit_id(x) == qubit_id(p))).cloned().collect();
    let never_first = all.iter().filter(|p| !first.iter().any(|x| qubit_id(x) == qubit_id(p))).cloned().collect();
    (never_last, never_first, all)
}

/// Instruction templates (parsed by the real parser); their qubit slots are then overwritten.
const TEMPLATES: &[&str] = &[
    "X 0",
    "CNOT 0 1",
    "RX(pi/2) 0",
    "CCNOT 0 1 2",
    "MEASURE 0 ro[0]",
    "MEASURE 0",
    "RESET 0",
    "RESET",
    "DELAY 0 1",
    "DELAY 0 1 \"rf\" 1",
    "FENCE 0 1",
    "FENCE",
    "PULSE 0 \"rf\" wf",
    "PULSE 0 1 \"cz\" wf",
    "CAPTURE 0 \"ro_rx\" wf ro[0]",
    "RAW-CAPTURE 0 \"ro_rx\" 1 ro[0]",
    "PRAGMA hello",
    "MOVE ro[0] 1",
    "NOP",
];
/// Frame-mutation instructions: they carry qubits in their frame identifiers.
const FRAME_TEMPLATES: &[&str] = &[
    "SET-FREQUENCY 0 \"rf\" 1",
    "SET-PHASE 0 \"rf\" 1",
    "SET-SCALE 0 \"rf\" 1",
    "SHIFT-FREQUENCY 0 \"rf\" 1",
    "SHIFT-PHASE 0 1 \"cz\" 1",
    "SWAP-PHASES 0 \"rf\" 1 \"rf\"",
];

fn parse_body(t: &str) -> Instruction {
    Program::from_str(t).unwrap_or_else(|e| panic!("{t:?}: {e}")).into_body_instructions().next().unwrap()
}

struct Gen {
    templates: Vec<Instruction>,
    frame_templates: Vec<Instruction>,
}

struct Pool {
    qph: Vec<QubitPlaceholder>,
    tph: Vec<TargetPlaceholder>,
}

const FIXED_LABELS: &[&str] = &["a", "a_0", "a_1", "a_2", "b", "b_0", "a_0_0", "loop", "b_1", "_0", "_1", "loop_0", "x_0", ""];
// degenerate bases: empty (several distinct placeholders share it), one character, equal to a fixed label, equal to
// another placeholder's resolved name
const BASES: &[&str] = &["a", "a", "b", "a_0", "loop", "c", "", "", "x", "loop_0", "_0", "_1", "_"];

impl Gen {
    fn new() -> Self {
        Gen {
            templates: TEMPLATES.iter().map(|t| parse_body(t)).collect(),
            frame_templates: FRAME_TEMPLATES.iter().map(|t| parse_body(t)).collect(),
        }
    }
    fn pool(&self, rng: &mut Rng, nq: u64, nt: u64) -> Pool {
        Pool {
            qph: (0..nq).map(|_| QubitPlaceholder::default()).collect(),
            tph: (0..nt).map(|_| TargetPlaceholder::new(rng.pick(BASES).to_string())).collect(),
        }
    }
    fn qubit(&self, rng: &mut Rng, pool: &Pool, max_fixed: u64) -> Qubit {
        match rng.below(10) {
            0..=3 if !pool.qph.is_empty() => Qubit::Placeholder(rng.pick(&pool.qph).clone()),
            9 if max_fixed > 0 => Qubit::Variable("q".to_string()),
            _ if max_fixed == 0 && !pool.qph.is_empty() => Qubit::Placeholder(rng.pick(&pool.qph).clone()),
            _ => Qubit::Fixed(rng.below(max_fixed.max(1))),
        }
    }
    fn target(&self, rng: &mut Rng, pool: &Pool) -> Target {
        if !pool.tph.is_empty() && rng.chance(1, 2) {
            Target::Placeholder(rng.pick(&pool.tph).clone())
        } else {
            Target::Fixed(rng.pick(FIXED_LABELS).to_string())
        }
    }
    fn instruction(&self, rng: &mut Rng, pool: &Pool, frames: bool, max_fixed: u64) -> Instruction {
        match rng.below(10) {
            0 | 1 => {
                let target = self.target(rng, pool);
                let condition = MemoryReference { name: "ro".to_string(), index: 0 };
                match rng.below(4) {
                    0 => Instruction::Label(Label { target }),
                    1 => Instruction::Jump(Jump { target }),
                    2 => Instruction::JumpWhen(JumpWhen { target, condition }),
                    _ => Instruction::JumpUnless(JumpUnless { target, condition }),
                }
            }
            2 if frames => {
                let mut i = rng.pick(&self.frame_templates).clone();
                for q in all_qubits_mut(&mut i) {
                    *q = self.qubit(rng, pool, max_fixed);
                }
                i
            }
            _ => {
                let mut i = rng.pick(&self.templates).clone();
                for q in all_qubits_mut(&mut i) {
                    *q = self.qubit(rng, pool, max_fixed);
                }
                i
            }
        }
    }
}

fn main() {
    main_with(run)
}

fn run(ctx: &mut Ctx) {
    let g = Gen::new();
    let quick = ctx.quick();
    let x = |q: Qubit| {
        let mut i = parse_body("X 0");
        for s in all_qubits_mut(&mut i) {
            *s = q.clone();
        }
        i
    };
    let cnot = |a: Qubit, b: Qubit| {
        let mut i = parse_body("CNOT 0 1");
        let mut qs = all_qubits_mut(&mut i);
        *qs[0] = a;
        *qs[1] = b;
        i
    };
    let set_phase = |q: Qubit| {
        let mut i = parse_body("SET-PHASE 0 \"rf\" 1");
        for s in all_qubits_mut(&mut i) {
            *s = q.clone();
        }
        i
    };
    let label = |t: Target| Instruction::Label(Label { target: t });
    let jump = |t: Target| Instruction::Jump(Jump { target: t });
    let fixed = |s: &str| Target::Fixed(s.to_string());

    // 1. corpus
    {
        let q0 = QubitPlaceholder::default();
        let q1 = QubitPlaceholder::default();
        let ta = TargetPlaceholder::new("a".to_string());
        let ta2 = TargetPlaceholder::new("a".to_string());
        let ta0 = TargetPlaceholder::new("a_0".to_string());
        let ph = |p: &QubitPlaceholder| Qubit::Placeholder(p.clone());
        let tp = |p: &TargetPlaceholder| Target::Placeholder(p.clone());
        let bodies: Vec<Vec<Instruction>> = vec![
            // the crate's own test shape: two placeholders of each kind
            vec![label(tp(&ta)), x(ph(&q0)), cnot(ph(&q0), ph(&q1)), jump(tp(&ta)), label(tp(&ta2)), jump(tp(&ta2))],
            // fixed qubits 0 and 2 in use: placeholders must get 1 and 3
            vec![x(Qubit::Fixed(0)), x(Qubit::Fixed(2)), cnot(ph(&q0), ph(&q1))],
            // shared base with pre-existing a_0, a_1: a -> a_2, second a -> a_3
            vec![label(fixed("a_0")), jump(fixed("a_1")), label(tp(&ta)), label(tp(&ta2))],
            // a resolves to a_0 first, then base a_0 must avoid it: a_0_0
            vec![label(tp(&ta)), label(tp(&ta0))],
            vec![label(tp(&ta0)), label(tp(&ta)), label(fixed("a_0_0"))],
            // frame-mutation instruction holding a placeholder, and one holding a fixed qubit
            vec![set_phase(ph(&q0))],
            vec![set_phase(Qubit::Fixed(0)), x(ph(&q0))],
            vec![x(ph(&q0)), set_phase(ph(&q0)), set_phase(ph(&q1))],
            vec![],
        ];
        for b in &bodies {
            resolve_case(ctx, b, Mode::Default, &[], &[]);
            resolve_case(ctx, b, Mode::Custom, &[(ta.clone(), "custom".to_string())], &[(q1.clone(), 7)]);
            resolve_case(ctx, b, Mode::CustomTargets, &[(ta2.clone(), "a_0".to_string())], &[]);
            resolve_case(ctx, b, Mode::CustomQubits, &[], &[(q0.clone(), 0)]);
        }
    }

    // 2. exhaustive small bodies: sequences over an alphabet of 10 instructions built from 2 qubit
    //    placeholders, fixed qubits {0,1}, 2 label placeholders sharing base "a" and fixed labels a_0, a_1
    {
        let q = [QubitPlaceholder::default(), QubitPlaceholder::default()];
        let t = [TargetPlaceholder::new("a".to_string()), TargetPlaceholder::new("a".to_string())];
        let alphabet: Vec<Instruction> = vec![
            x(Qubit::Placeholder(q[0].clone())),
            x(Qubit::Placeholder(q[1].clone())),
            x(Qubit::Fixed(0)),
            x(Qubit::Fixed(1)),
            cnot(Qubit::Placeholder(q[1].clone()), Qubit::Fixed(2)),
            label(Target::Placeholder(t[0].clone())),
            jump(Target::Placeholder(t[1].clone())),
            label(fixed("a_0")),
            jump(fixed("a_1")),
            set_phase(Qubit::Placeholder(q[0].clone())),
        ];
        let max_len = if quick { 3 } else { 5 };
        for len in 0..=max_len {
            let mut idx = vec![0usize; len];
            loop {
                let body: Vec<Instruction> = idx.iter().map(|&i| alphabet[i].clone()).collect();
                resolve_case(ctx, &body, Mode::Default, &[], &[]);
                let mut k = len;
                let mut done = true;
                while k > 0 {
                    k -= 1;
                    idx[k] += 1;
                    if idx[k] < alphabet.len() {
                        done = false;
                        break;
                    }
                    idx[k] = 0;
                }
                if done {
                    break;
                }
            }
        }
    }

    // 3. seeded random
    let mut rng = ctx.rng(34);
    let n_random = if quick { 6000 } else { 250_000 };
    for _ in 0..n_random {
        let (nq, nt) = (rng.below(5), rng.below(5));
        let pool = g.pool(&mut rng, nq, nt);
        let len = rng.below(14);
        let frames = rng.chance(1, 3);
        let max_fixed = 1 + rng.below(8);
        let body: Vec<Instruction> = (0..len).map(|_| g.instruction(&mut rng, &pool, frames, max_fixed)).collect();
        let mode = match rng.below(6) {
            0 => Mode::Custom,
            1 => Mode::CustomTargets,
            2 => Mode::CustomQubits,
            _ => Mode::Default,
        };
        // custom tables: a random subset of the pool (plus sometimes a placeholder that is not in the body)
        let mut tmap = vec![];
        let mut qmap = vec![];
        if mode != Mode::Default {
            for p in &pool.tph {
                if rng.chance(1, 2) {
                    tmap.push((p.clone(), rng.pick(FIXED_LABELS).to_string()));
                }
            }
            for p in &pool.qph {
                if rng.chance(1, 2) {
                    qmap.push((p.clone(), rng.below(6)));
                }
            }
            if rng.chance(1, 5) {
                tmap.push((TargetPlaceholder::new("zz".to_string()), "unused".to_string()));
                qmap.push((QubitPlaceholder::default(), 99));
            }
        }
        resolve_case(ctx, &body, mode, &tmap, &qmap);
    }

    // 3b. the default resolvers queried directly, on random bodies and on boundary shapes
    {
        let mut rng = ctx.rng(3435);
        let n_tab = if quick { 1500 } else { 40_000 };
        for _ in 0..n_tab {
            let (nq, nt) = (rng.below(5), rng.below(5));
            let pool = g.pool(&mut rng, nq, nt);
            let len = rng.below(12);
            let max_fixed = if rng.chance(1, 4) { 0 } else { 1 + rng.below(8) };
            let body: Vec<Instruction> = (0..len).map(|_| g.instruction(&mut rng, &pool, true, max_fixed)).collect();
            let mut tph = pool.tph.clone();
            let mut qph = pool.qph.clone();
            tph.push(TargetPlaceholder::new("a".to_string())); // foreign: not in the body
            qph.push(QubitPlaceholder::default());
            tables_case(ctx, &body, &tph, &qph);
        }
        // suffixes crossing 9 -> 10 -> 100: a_0 … a_k taken
        for k in [8u64, 9, 10, 11, 99, 100] {
            let t = TargetPlaceholder::new("a".to_string());
            let t2 = TargetPlaceholder::new("a".to_string());
            let mut body: Vec<Instruction> = (0..=k).map(|i| label(fixed(&format!("a_{i}")))).collect();
            body.push(jump(Target::Placeholder(t.clone())));
            body.push(label(Target::Placeholder(t2.clone())));
            tables_case(ctx, &body, &[t.clone(), t2.clone()], &[]);
            resolve_case(ctx, &body, Mode::Default, &[], &[]);
        }
        // more than 32 / 64 placeholders of each kind, fixed qubits 0..=40 all in use, holes in the used set
        for (n_ph, fixed_upto, step) in [(40usize, 40u64, 1u64), (70, 10, 1), (33, 80, 2), (5, 200, 3)] {
            let qs: Vec<QubitPlaceholder> = (0..n_ph).map(|_| QubitPlaceholder::default()).collect();
            let ts: Vec<TargetPlaceholder> = (0..n_ph).map(|i| TargetPlaceholder::new(format!("b{}", i % 3))).collect();
            let mut body = vec![];
            let mut f = 0;
            while f <= fixed_upto {
                body.push(x(Qubit::Fixed(f)));
                f += step;
            }
            for (q, t) in qs.iter().zip(&ts).rev() {
                body.push(x(Qubit::Placeholder(q.clone())));
                body.push(label(Target::Placeholder(t.clone())));
            }
            body.push(x(Qubit::Fixed(u64::MAX)));
            body.push(x(Qubit::Fixed(1 << 32)));
            tables_case(ctx, &body, &ts, &qs);
            resolve_case(ctx, &body, Mode::Default, &[], &[]);
            seq_case(ctx, &[], &body, &[Call { mode: Mode::Custom, tmap: vec![], qmap: vec![(qs[0].clone(), 1), (qs[1].clone(), 1), (qs[2].clone(), 0)] },
                Call { mode: Mode::Default, tmap: vec![], qmap: vec![] }]);
        }
    }

    // 3c. degenerate base labels: several DISTINCT placeholders sharing the empty base (an empty String owns no
    //     buffer), one-character bases, bases equal to a fixed label / to another placeholder's resolved name,
    //     very long bases — through every entry point
    {
        let tp = |b: &str| TargetPlaceholder::new(b.to_string());
        let long = "L".repeat(300);
        let groups: Vec<Vec<TargetPlaceholder>> = vec![
            vec![tp(""), tp(""), tp("")],
            vec![tp(""), tp("_0"), tp("")],
            vec![tp("x"), tp("x"), tp("")],
            vec![tp("loop"), tp("loop_0"), tp("loop")],
            vec![tp(&long), tp(&long)],
            vec![tp("_"), tp(""), tp("__0")],
            (0..40).map(|_| tp("")).collect(),
        ];
        for ts in &groups {
            let t = |i: usize| Target::Placeholder(ts[i % ts.len()].clone());
            let mut bodies: Vec<Vec<Instruction>> = vec![
                (0..ts.len()).map(|i| label(t(i))).collect(),
                vec![label(t(0)), jump(t(1)), label(t(1)), jump(t(0)), label(t(2))],
                vec![label(fixed("_0")), label(t(0)), jump(fixed("_1")), label(t(1)), label(fixed("loop_0")), label(t(2))],
                vec![jump(t(2)), label(fixed("")), label(t(1)), x(Qubit::Fixed(0)), label(t(0)), label(fixed("x_0"))],
            ];
            bodies.push(bodies[1].iter().rev().cloned().collect());
            for b in &bodies {
                resolve_case(ctx, b, Mode::Default, &[], &[]);
                resolve_case(ctx, b, Mode::Custom, &[(ts[0].clone(), "_0".to_string())], &[]);
                resolve_case(ctx, b, Mode::CustomTargets, &[(ts[ts.len() - 1].clone(), "custom".to_string())], &[]);
                resolve_case(ctx, b, Mode::CustomQubits, &[], &[]);
                tables_case(ctx, b, ts, &[]);
                seq_case(ctx, &[], b, &[
                    Call { mode: Mode::Custom, tmap: vec![(ts[0].clone(), "_1".to_string())], qmap: vec![] },
                    Call { mode: Mode::Default, tmap: vec![], qmap: vec![] },
                ]);
                seq_case(ctx, &[], b, &[
                    Call { mode: Mode::CustomTargets, tmap: vec![(ts[1 % ts.len()].clone(), "".to_string())], qmap: vec![] },
                    Call { mode: Mode::Default, tmap: vec![], qmap: vec![] },
                    Call { mode: Mode::Default, tmap: vec![], qmap: vec![] },
                ]);
            }
        }
    }

    // ---- sequences of calls on one program; body and used_qubits cache observed after every call ----
    let cal_defs: Vec<Vec<Instruction>> = vec![
        vec![],
        qvh::progs::parse_all("DEFCAL X 0:\n\tPULSE 0 \"rf\" wf\nDEFCAL CZ 0 1:\n\tFENCE 0 1"),
        qvh::progs::parse_all("DEFCAL X q:\n\tSET-PHASE q \"rf\" 1\nDEFCAL MEASURE 2 addr:\n\tFENCE 2\nDECLARE ro BIT[2]"),
    ];
    let gate2 = |name: &str, a: Qubit, b: Qubit| {
        let mut i = parse_body(&format!("{name} 0 1"));
        let mut qs = all_qubits_mut(&mut i);
        *qs[0] = a;
        *qs[1] = b;
        i
    };
    // calibrations built through the API whose identifier and body hold placeholders SHARED with the program body
    // (resolution only touches the body: they must stay as they are, and keep counting as used qubits)
    let cal_sharing = |qph: &[QubitPlaceholder], rng: &mut Rng| -> Vec<Instruction> {
        let mut out = vec![];
        let mut d = qvh::progs::parse_one("DEFCAL CZ 0 1:\n\tCZ 0 1\n\tSET-PHASE 0 \"rf\" 1\n\tX 1");
        let mut m = qvh::progs::parse_one("DEFCAL MEASURE 0 addr:\n\tFENCE 0\n\tX 0");
        let pickq = |rng: &mut Rng, q: &mut Qubit| {
            if !qph.is_empty() && rng.chance(2, 3) {
                *q = Qubit::Placeholder(rng.pick(qph).clone());
            } else {
                *q = Qubit::Fixed(rng.below(4));
            }
        };
        if let Instruction::CalibrationDefinition(c) = &mut d {
            for q in c.identifier.qubits.iter_mut() {
                pickq(rng, q);
            }
            for i in c.instructions.iter_mut() {
                for q in all_qubits_mut(i) {
                    pickq(rng, q);
                }
            }
        }
        if let Instruction::MeasureCalibrationDefinition(c) = &mut m {
            pickq(rng, &mut c.identifier.qubit);
            for i in c.instructions.iter_mut() {
                for q in all_qubits_mut(i) {
                    pickq(rng, q);
                }
            }
        }
        out.push(d);
        if rng.chance(1, 2) {
            out.push(m);
        }
        out
    };
    let partial = |set: &[QubitPlaceholder], base: u64| -> Vec<(QubitPlaceholder, u64)> {
        set.iter().enumerate().map(|(i, p)| (p.clone(), base + i as u64)).collect()
    };
    let dflt = || Call { mode: Mode::Default, tmap: vec![], qmap: vec![] };

    // 4. corpus of sequences
    {
        let q: Vec<QubitPlaceholder> = (0..4).map(|_| QubitPlaceholder::default()).collect();
        let ph = |i: usize| Qubit::Placeholder(q[i].clone());
        let ta = TargetPlaceholder::new("a".to_string());
        let tb = TargetPlaceholder::new("a".to_string());
        let bodies: Vec<Vec<Instruction>> = vec![
            // placeholders only; a partial resolver that leaves the LAST operand of every instruction open
            vec![gate2("CZ", ph(1), ph(2)), gate2("CNOT", ph(1), ph(3))],
            // … the FIRST operand open
            vec![gate2("CZ", ph(2), ph(1)), gate2("CNOT", ph(3), ph(1))],
            // some fixed qubits in the body
            vec![gate2("CZ", ph(1), ph(2)), x(Qubit::Fixed(1)), gate2("CNOT", ph(1), ph(3))],
            // labels too
            vec![label(Target::Placeholder(ta.clone())), gate2("CZ", ph(1), ph(2)), jump(Target::Placeholder(tb.clone())),
                 label(Target::Placeholder(tb.clone()))],
            vec![set_phase(ph(1)), gate2("CZ", ph(1), ph(2))],
        ];
        let mut rng0 = ctx.rng(3436);
        let mut all_defs = cal_defs.clone();
        for _ in 0..3 {
            all_defs.push(cal_sharing(&q, &mut rng0));
        }
        for defs in &all_defs {
            for b in &bodies {
                for v in [0u64, 1, 5] {
                    seq_case(ctx, defs, b, &[Call { mode: Mode::Custom, tmap: vec![], qmap: vec![(q[1].clone(), v)] }, dflt()]);
                    seq_case(ctx, defs, b, &[Call { mode: Mode::CustomQubits, tmap: vec![], qmap: vec![(q[1].clone(), v)] }, dflt()]);
                }
                seq_case(ctx, defs, b, &[dflt(), dflt()]);
                seq_case(ctx, defs, b, &[dflt(), Call { mode: Mode::Custom, tmap: vec![], qmap: vec![(q[2].clone(), 0)] }]);
                seq_case(ctx, defs, b, &[
                    Call { mode: Mode::Custom, tmap: vec![(ta.clone(), "a_0".to_string())], qmap: vec![(q[2].clone(), 0)] },
                    Call { mode: Mode::CustomTargets, tmap: vec![], qmap: vec![] },
                    dflt(),
                ]);
                seq_case(ctx, defs, b, &[
                    Call { mode: Mode::Custom, tmap: vec![], qmap: vec![(q[1].clone(), 0)] },
                    Call { mode: Mode::Custom, tmap: vec![], qmap: vec![(q[3].clone(), 1)] },
                    dflt(),
                ]);
            }
        }
    }

    // 5. exhaustive small bodies over placeholder-only instructions x every position pattern x then default
    {
        let q: Vec<QubitPlaceholder> = (0..3).map(|_| QubitPlaceholder::default()).collect();
        let mut alphabet: Vec<Instruction> = vec![];
        for a in 0..3 {
            alphabet.push(x(Qubit::Placeholder(q[a].clone())));
            for b in 0..3 {
                if a != b {
                    alphabet.push(gate2("CZ", Qubit::Placeholder(q[a].clone()), Qubit::Placeholder(q[b].clone())));
                }
            }
        }
        alphabet.push(x(Qubit::Fixed(0)));
        let max_len = if quick { 2 } else { 3 };
        let mut bodies: Vec<Vec<Instruction>> = vec![vec![]];
        let mut lastv: Vec<Vec<Instruction>> = vec![vec![]];
        for _ in 0..max_len {
            let mut next = vec![];
            for b in &lastv {
                for a in &alphabet {
                    let mut t = b.clone();
                    t.push(a.clone());
                    next.push(t);
                }
            }
            bodies.extend(next.iter().cloned());
            lastv = next;
        }
        for (bi, b) in bodies.iter().enumerate() {
            let (never_last, never_first, all) = position_classes(b);
            let alternate: Vec<QubitPlaceholder> = all.iter().step_by(2).cloned().collect();
            let defs = &cal_defs[bi % cal_defs.len()];
            for set in [&never_last, &never_first, &alternate] {
                if set.is_empty() {
                    continue;
                }
                seq_case(ctx, defs, b, &[Call { mode: Mode::Custom, tmap: vec![], qmap: partial(set, 0) }, dflt()]);
            }
            seq_case(ctx, defs, b, &[dflt(), dflt()]);
        }
    }

    // 6. random sequences of 2-3 calls
    let mut rng = ctx.rng(3434);
    let n_seq = if quick { 4000 } else { 120_000 };
    for _ in 0..n_seq {
        let (nq, nt) = (1 + rng.below(4), rng.below(4));
        let pool = g.pool(&mut rng, nq, nt);
        let len = 1 + rng.below(8);
        // a third of the bodies have no fixed qubit at all
        let max_fixed = if rng.chance(1, 3) { 0 } else { 1 + rng.below(5) };
        let frames = rng.chance(1, 4);
        let body: Vec<Instruction> = (0..len).map(|_| g.instruction(&mut rng, &pool, frames, max_fixed)).collect();
        let defs = if rng.chance(1, 3) { cal_sharing(&pool.qph, &mut rng) } else { rng.pick(&cal_defs).clone() };
        let (never_last, never_first, all) = position_classes(&body);
        let n_calls = 2 + rng.below(2);
        let mut calls = vec![];
        for ci in 0..n_calls {
            let mode = if ci + 1 == n_calls && rng.chance(2, 3) {
                Mode::Default
            } else {
                match rng.below(5) {
                    0 => Mode::Default,
                    1 => Mode::CustomTargets,
                    2 => Mode::CustomQubits,
                    _ => Mode::Custom,
                }
            };
            let mut tmap = vec![];
            let mut qmap = vec![];
            if mode != Mode::Default {
                for p in &pool.tph {
                    if rng.chance(1, 2) {
                        tmap.push((p.clone(), rng.pick(FIXED_LABELS).to_string()));
                    }
                }
                let base = rng.below(3);
                qmap = match rng.below(5) {
                    0 => partial(&never_last, base),
                    1 => partial(&never_first, base),
                    2 => partial(&all.iter().step_by(2).cloned().collect::<Vec<_>>(), base),
                    3 => partial(&all.iter().skip(1).step_by(2).cloned().collect::<Vec<_>>(), base),
                    _ => {
                        let mut m = vec![];
                        for p in &all {
                            if rng.chance(1, 2) {
                                m.push((p.clone(), rng.below(6)));
                            }
                        }
                        m
                    }
                };
            }
            calls.push(Call { mode, tmap, qmap });
        }
        seq_case(ctx, &defs, &body, &calls);
    }
}
