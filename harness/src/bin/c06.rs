//! C06 — names are preserved exactly and consistently by parsing.
//!
//! Streams (in this order; the case index is the replay key):
//!  1. corpus (past failures first: mixed-case region names inside expressions);
//!  2. lexer: exhaustive short strings over an identifier-centred alphabet, keyword soups: full token list;
//!  3. identifiers (mixed case, digits, underscores, interior dashes, near-keywords) placed in every
//!     syntactic position that takes a name, through `Program::from_str`, every occurrence read back;
//!  4. consistency: the same region spelled in DECLARE, in operands and inside expressions, then type_check;
//!  5. seeded random identifiers (valid and mutated) in random positions and through the lexer.
use quil_rs::expression::Expression;
use quil_rs::instruction::{
    ArithmeticOperand, AttributeValue, ExternSignatureMap, GateSpecification, Instruction, MemoryReference, PragmaArgument, Qubit, Target,
    UnresolvedCallArgument,
};
use quil_rs::program::type_check::type_check;
use quil_rs::quil::Quil;
use quil_rs::Program;
use qvh::instrgen::{self, Alpha};
use qvh::lexwire::{all_strings, lex_case, lex_out, rerender_case};
use qvh::*;
use std::str::FromStr;

const ALPHA: [char; 15] = ['a', 'Z', '_', '1', '-', ' ', '%', '@', '\n', ',', '(', ':', '#', '\t', '"'];

type Extract = fn(&Instruction) -> Option<Vec<String>>;

/// (position name, kind, text before the name, text after it, extractor of every occurrence)
/// kind: ident (an Identifier token is stored) | expr (bare identifier inside an expression) |
///       target (`@name`) | variable (`%name`) | qubitvar (bare identifier as a qubit)
struct Pos {
    name: &'static str,
    kind: &'static str,
    pre: &'static str,
    /// when set, the name is placed twice: `pre name mid name post`
    mid: Option<&'static str>,
    post: &'static str,
    extract: Extract,
}

fn mem(m: &MemoryReference) -> String {
    m.name.clone()
}
fn target(t: &Target) -> Option<String> {
    match t {
        Target::Fixed(s) => Some(s.clone()),
        _ => None,
    }
}
fn qvar(q: &Qubit) -> Option<String> {
    match q {
        Qubit::Variable(s) => Some(s.clone()),
        _ => None,
    }
}
/// every memory-region name and variable name in an expression, left to right; `<pi>` / `<number>` /
/// `<call>` markers make reserved-word readings visible
fn expr_names(e: &Expression, out: &mut Vec<String>) {
    match e {
        Expression::Address(m) => out.push(m.name.clone()),
        Expression::Variable(v) => out.push(format!("%{v}")),
        Expression::PiConstant() => out.push("<pi>".to_string()),
        Expression::Number(_) => out.push("<number>".to_string()),
        Expression::FunctionCall(f) => {
            out.push("<call>".to_string());
            expr_names(&f.expression, out)
        }
        Expression::Infix(i) => {
            expr_names(&i.left, out);
            expr_names(&i.right, out)
        }
        Expression::Prefix(p) => expr_names(&p.expression, out),
    }
}
fn en(e: &Expression) -> Vec<String> {
    let mut v = Vec::new();
    expr_names(e, &mut v);
    v
}

macro_rules! pos {
    ($name:expr, $kind:expr, $pre:expr, $post:expr, $pat:pat => $e:expr) => {
        Pos {
            name: $name,
            kind: $kind,
            pre: $pre,
            mid: None,
            post: $post,
            extract: |i: &Instruction| match i {
                $pat => $e,
                _ => None,
            },
        }
    };
}

fn positions() -> Vec<Pos> {
    use Instruction as I;
    vec![
        // memory regions: declarations and classical operands
        pos!("declare", "ident", "DECLARE ", " REAL[2]", I::Declaration(d) => Some(vec![d.name.clone()])),
        pos!("sharing", "ident", "DECLARE x BIT SHARING ", "", I::Declaration(d) => d.sharing.as_ref().map(|s| vec![s.name.clone()])),
        pos!("sharingoffset", "ident", "DECLARE x BIT SHARING ", " OFFSET 1 BIT", I::Declaration(d) => d.sharing.as_ref().map(|s| vec![s.name.clone()])),
        pos!("movedest", "ident", "MOVE ", "[1] 1", I::Move(m) => Some(vec![mem(&m.destination)])),
        pos!("movedestbare", "ident", "MOVE ", " 1", I::Move(m) => Some(vec![mem(&m.destination)])),
        pos!("movesrc", "ident", "MOVE a ", "", I::Move(m) => match &m.source { ArithmeticOperand::MemoryReference(r) => Some(vec![mem(r)]), _ => None }),
        pos!("addsrc", "ident", "ADD a ", "[3]", I::Arithmetic(a) => match &a.source { ArithmeticOperand::MemoryReference(r) => Some(vec![mem(r)]), _ => None }),
        pos!("cmplhs", "ident", "EQ a ", " 1", I::Comparison(c) => Some(vec![mem(&c.lhs)])),
        pos!("cmpdest", "ident", "GT ", "[0] a b", I::Comparison(c) => Some(vec![mem(&c.destination)])),
        pos!("logicdest", "ident", "AND ", " 1", I::BinaryLogic(b) => Some(vec![mem(&b.destination)])),
        pos!("neg", "ident", "NEG ", "", I::UnaryLogic(u) => Some(vec![mem(&u.operand)])),
        pos!("exchange", "ident", "EXCHANGE a ", "[2]", I::Exchange(e) => Some(vec![mem(&e.right)])),
        pos!("convert", "ident", "CONVERT ", " b", I::Convert(c) => Some(vec![mem(&c.destination)])),
        pos!("loadsource", "ident", "LOAD a ", " b", I::Load(l) => Some(vec![l.source.clone()])),
        pos!("loadoffset", "ident", "LOAD a b ", "", I::Load(l) => Some(vec![mem(&l.offset)])),
        pos!("storedest", "ident", "STORE ", " a 1", I::Store(s) => Some(vec![s.destination.clone()])),
        pos!("measuretarget", "ident", "MEASURE 0 ", "[1]", I::Measurement(m) => m.target.as_ref().map(|t| vec![mem(t)])),
        pos!("measuretargetbare", "ident", "MEASURE 0 ", "", I::Measurement(m) => m.target.as_ref().map(|t| vec![mem(t)])),
        pos!("measurename", "ident", "MEASURE!", " 0 ro", I::Measurement(m) => m.name.as_ref().map(|n| vec![n.clone()])),
        pos!("jumpwhencond", "ident", "JUMP-WHEN @l ", "", I::JumpWhen(j) => Some(vec![mem(&j.condition)])),
        pos!("capturemem", "ident", "CAPTURE 0 \"f\" w ", "[0]", I::Capture(c) => Some(vec![mem(&c.memory_reference)])),
        pos!("rawcapturemem", "ident", "RAW-CAPTURE 0 \"f\" dur ", "", I::RawCapture(c) => Some(vec![mem(&c.memory_reference)])),
        // expressions
        pos!("exprbare", "expr", "RX(", ") 0", I::Gate(g) => g.parameters.first().map(en)),
        pos!("exprinfix", "expr", "RX(2*", "+1) 0", I::Gate(g) => g.parameters.first().map(|e| en(e).into_iter().filter(|s| s != "<number>").collect())),
        pos!("exprsetphase", "expr", "SET-PHASE 0 \"f\" ", "", I::SetPhase(s) => Some(en(&s.phase))),
        pos!("exprmatrix", "expr", "DEFGATE G AS MATRIX:\n\t", ", 0\n\t0, 1", I::GateDefinition(g) => match &g.specification { GateSpecification::Matrix(m) => m.first().and_then(|r| r.first()).map(en), _ => None }),
        pos!("exprbracket", "ident", "RX(", "[1]) 0", I::Gate(g) => g.parameters.first().map(en)),
        pos!("exprfuncarg", "expr", "RX(cos(", ")) 0", I::Gate(g) => g.parameters.first().map(|e| en(e).into_iter().filter(|s| s != "<call>").collect())),
        // labels
        pos!("label", "target", "LABEL @", "", I::Label(l) => target(&l.target).map(|t| vec![t])),
        pos!("jump", "target", "JUMP @", "", I::Jump(j) => target(&j.target).map(|t| vec![t])),
        pos!("jumpwhen", "target", "JUMP-WHEN @", " ro", I::JumpWhen(j) => target(&j.target).map(|t| vec![t])),
        pos!("jumpunless", "target", "JUMP-UNLESS @", " ro[1]", I::JumpUnless(j) => target(&j.target).map(|t| vec![t])),
        // gates and definitions
        pos!("gatename", "ident", "", " 0", I::Gate(g) => Some(vec![g.name.clone()])),
        pos!("gatenameparams", "ident", "", "(1) 0 1", I::Gate(g) => Some(vec![g.name.clone()])),
        pos!("gatenamemod", "ident", "DAGGER CONTROLLED ", " 0 1", I::Gate(g) => Some(vec![g.name.clone()])),
        pos!("defgatename", "ident", "DEFGATE ", " AS MATRIX:\n\t1, 0\n\t0, 1", I::GateDefinition(g) => Some(vec![g.name.clone()])),
        pos!("defgatenamebare", "ident", "DEFGATE ", ":\n\t1, 0\n\t0, 1", I::GateDefinition(g) => Some(vec![g.name.clone()])),
        pos!("defgateparam", "variable", "DEFGATE G(%", ") AS MATRIX:\n\t1, 0\n\t0, 1", I::GateDefinition(g) => Some(g.parameters.clone())),
        pos!("defgateparamuse", "variable", "DEFGATE G(%a) AS MATRIX:\n\t%", ", 0\n\t0, 1", I::GateDefinition(g) => match &g.specification { GateSpecification::Matrix(m) => m.first().and_then(|r| r.first()).map(|e| en(e).into_iter().map(|s| s.trim_start_matches('%').to_string()).collect()), _ => None }),
        Pos { mid: Some(" AS PAULI-SUM:\n\tX(%t) "), ..pos!("paulisumargs", "ident", "DEFGATE G(%t) ", "", I::GateDefinition(g) => match &g.specification { GateSpecification::PauliSum(p) => Some(p.arguments.iter().cloned().chain(p.terms.iter().flat_map(|t| t.arguments.iter().map(|(_, a)| a.clone()))).collect()), _ => None }) },
        Pos { mid: Some(":\n\tX "), ..pos!("defcircuitqubituse", "qubitvar", "DEFCIRCUIT C ", "", I::CircuitDefinition(c) => match c.instructions.first() { Some(I::Gate(g)) => g.qubits.first().and_then(qvar).map(|q| vec![c.qubit_variables.first().cloned().unwrap_or_default(), q]), _ => None }) },
        pos!("defcircuitname", "ident", "DEFCIRCUIT ", ":\n\tX 0", I::CircuitDefinition(c) => Some(vec![c.name.clone()])),
        pos!("defcircuitparam", "variable", "DEFCIRCUIT C(%", ") q:\n\tX q", I::CircuitDefinition(c) => Some(c.parameters.clone())),
        pos!("defcircuitqubit", "qubitvar", "DEFCIRCUIT C ", ":\n\tX 0", I::CircuitDefinition(c) => Some(c.qubit_variables.clone())),
        pos!("defcircuitqubitpct", "variable", "DEFCIRCUIT C %", ":\n\tX 0", I::CircuitDefinition(c) => Some(c.qubit_variables.clone())),
        pos!("defcircuitbodyqubit", "qubitvar", "DEFCIRCUIT C q:\n\tX ", "", I::CircuitDefinition(c) => match c.instructions.first() { Some(I::Gate(g)) => g.qubits.first().and_then(qvar).map(|q| vec![q]), _ => None }),
        pos!("defcalname", "ident", "DEFCAL ", " 0:\n\tNOP", I::CalibrationDefinition(c) => Some(vec![c.identifier.name.clone()])),
        pos!("defcalqubit", "qubitvar", "DEFCAL X ", ":\n\tNOP", I::CalibrationDefinition(c) => c.identifier.qubits.first().and_then(qvar).map(|q| vec![q])),
        pos!("defcalqubitpct", "variable", "DEFCAL X %", ":\n\tNOP", I::CalibrationDefinition(c) => c.identifier.qubits.first().and_then(qvar).map(|q| vec![q])),
        pos!("defcalparam", "variable", "DEFCAL RX(%", ") 0:\n\tNOP", I::CalibrationDefinition(c) => c.identifier.parameters.first().map(|e| en(e).into_iter().map(|s| s.trim_start_matches('%').to_string()).collect())),
        pos!("defcalmeasurequbit", "qubitvar", "DEFCAL MEASURE ", " t:\n\tNOP", I::MeasureCalibrationDefinition(c) => qvar(&c.identifier.qubit).map(|q| vec![q])),
        pos!("defcalmeasuretarget", "ident", "DEFCAL MEASURE 0 ", ":\n\tNOP", I::MeasureCalibrationDefinition(c) => c.identifier.target.as_ref().map(|t| vec![t.clone()])),
        pos!("defcalmeasurename", "ident", "DEFCAL MEASURE!", " 0 t:\n\tNOP", I::MeasureCalibrationDefinition(c) => c.identifier.name.as_ref().map(|t| vec![t.clone()])),
        // waveforms and frames
        pos!("waveformname", "ident", "PULSE 0 \"f\" ", "", I::Pulse(p) => Some(vec![p.waveform.name.clone()])),
        pos!("waveformnameparams", "ident", "PULSE 0 \"f\" ", "(a: 1)", I::Pulse(p) => Some(vec![p.waveform.name.clone()])),
        pos!("waveformparamname", "ident", "PULSE 0 \"f\" w(", ": 1)", I::Pulse(p) => Some(p.waveform.parameters.keys().cloned().collect())),
        pos!("capturewaveform", "ident", "CAPTURE 0 \"f\" ", " ro", I::Capture(c) => Some(vec![c.waveform.name.clone()])),
        pos!("defwaveformname", "ident", "DEFWAVEFORM ", ":\n\t1, 0", I::WaveformDefinition(w) => Some(vec![w.name.clone()])),
        pos!("defwaveformparam", "variable", "DEFWAVEFORM w(%", "):\n\t1, 0", I::WaveformDefinition(w) => Some(w.definition.parameters.clone())),
        pos!("frameattrkey", "ident", "DEFFRAME 0 \"f\":\n\t", ": 1", I::FrameDefinition(f) => Some(f.attributes.keys().cloned().collect())),
        pos!("frameattrexpr", "expr", "DEFFRAME 0 \"f\":\n\tSAMPLE-RATE: ", "", I::FrameDefinition(f) => match f.attributes.get("SAMPLE-RATE") { Some(AttributeValue::Expression(e)) => Some(en(e)), _ => None }),
        // pragma, call, qubit variables, variables in expressions
        pos!("pragmaname", "ident", "PRAGMA ", "", I::Pragma(p) => Some(vec![p.name.clone()])),
        pos!("pragmaarg", "ident", "PRAGMA p ", " 1 \"d\"", I::Pragma(p) => match p.arguments.first() { Some(PragmaArgument::Identifier(s)) => Some(vec![s.clone()]), _ => None }),
        pos!("externname", "ident", "PRAGMA EXTERN ", " \"(a : INTEGER)\"", I::Pragma(p) => match p.arguments.first() { Some(PragmaArgument::Identifier(s)) => Some(vec![s.clone()]), _ => None }),
        pos!("callname", "ident", "CALL ", " 1", I::Call(c) => Some(vec![c.name.clone()])),
        pos!("callargident", "ident", "CALL f ", " 1", I::Call(c) => match c.arguments.first() { Some(UnresolvedCallArgument::Identifier(s)) => Some(vec![s.clone()]), _ => None }),
        pos!("callargmem", "ident", "CALL f ", "[2]", I::Call(c) => match c.arguments.first() { Some(UnresolvedCallArgument::MemoryReference(m)) => Some(vec![mem(m)]), _ => None }),
        pos!("gatequbit", "qubitvar", "X ", "", I::Gate(g) => g.qubits.first().and_then(qvar).map(|q| vec![q])),
        pos!("gatequbit2", "qubitvar", "CNOT 0 ", "", I::Gate(g) => g.qubits.get(1).and_then(qvar).map(|q| vec![q])),
        pos!("gatequbitpct", "variable", "X %", "", I::Gate(g) => g.qubits.first().and_then(qvar).map(|q| vec![q])),
        pos!("fencequbit", "qubitvar", "FENCE 0 ", "", I::Fence(f) => f.qubits.get(1).and_then(qvar).map(|q| vec![q])),
        pos!("resetqubit", "qubitvar", "RESET ", "", I::Reset(r) => r.qubit.as_ref().and_then(qvar).map(|q| vec![q])),
        // further syntactic variants of the same constructs
        pos!("nbpulsewf", "ident", "NONBLOCKING PULSE 0 \"f\" ", "(a: 1)", I::Pulse(p) => Some(vec![p.waveform.name.clone()])),
        pos!("wfemptyargs", "ident", "PULSE 0 \"f\" ", "()", I::Pulse(p) => Some(vec![p.waveform.name.clone()])),
        pos!("wftwoargs", "ident", "PULSE 0 1 \"f\" ", "(duration: 1e-6, iq: 2)", I::Pulse(p) => Some(vec![p.waveform.name.clone()])),
        pos!("capturewfargs", "ident", "CAPTURE 0 \"f\" ", "(a: 1, b: 2) ro[0]", I::Capture(c) => Some(vec![c.waveform.name.clone()])),
        pos!("nbcapturewf", "ident", "NONBLOCKING CAPTURE 0 \"f\" ", "(duration: 1) ro", I::Capture(c) => Some(vec![c.waveform.name.clone()])),
        pos!("wfinsidedefcal", "ident", "DEFCAL X 0:\n\tPULSE 0 \"f\" ", "(a: 1)", I::CalibrationDefinition(c) => match c.instructions.first() { Some(I::Pulse(p)) => Some(vec![p.waveform.name.clone()]), _ => None }),
        pos!("wfparamname2", "ident", "PULSE 0 \"f\" w(k0: 1, ", ": 2)", I::Pulse(p) => p.waveform.parameters.keys().nth(1).map(|k| vec![k.clone()])),
        pos!("gateparamsmod", "ident", "CONTROLLED DAGGER ", "(pi, 1) 0 1", I::Gate(g) => Some(vec![g.name.clone()])),
        pos!("gateforked", "ident", "FORKED ", "(1, 2) 0 1", I::Gate(g) => Some(vec![g.name.clone()])),
        pos!("gatenoqubits", "ident", "", "", I::Gate(g) => Some(vec![g.name.clone()])),
        pos!("gatequbitvars", "ident", "", " q %r", I::Gate(g) => Some(vec![g.name.clone()])),
        pos!("exprbracketinfix", "ident", "RX(2*", "[1]+1) 0", I::Gate(g) => g.parameters.first().map(|e| en(e).into_iter().filter(|s| s != "<number>").collect())),
        pos!("exprdefcalparam", "expr", "DEFCAL RX(", ") 0:\n\tNOP", I::CalibrationDefinition(c) => c.identifier.parameters.first().map(en)),
        pos!("exprwfparam", "expr", "PULSE 0 \"f\" w(a: ", ")", I::Pulse(p) => p.waveform.parameters.get("a").map(en)),
        pos!("exprdelay", "expr", "DELAY 0 \"f\" ", "", I::Delay(d) => Some(en(&d.duration))),
        pos!("exprrawcapture", "expr", "RAW-CAPTURE 0 \"f\" ", " ro", I::RawCapture(r) => Some(en(&r.duration))),
        pos!("exprdefwaveform", "expr", "DEFWAVEFORM w:\n\t", ", 0", I::WaveformDefinition(w) => w.definition.matrix.first().map(en)),
        pos!("exprshiftfreq", "expr", "SHIFT-FREQUENCY 0 \"f\" -", "", I::ShiftFrequency(s) => Some(en(&s.frequency))),
        pos!("defcalnameparams", "ident", "DEFCAL ", "(%a, 1) 0 q:\n\tNOP", I::CalibrationDefinition(c) => Some(vec![c.identifier.name.clone()])),
        pos!("defcalnamemod", "ident", "DEFCAL DAGGER ", " 0:\n\tNOP", I::CalibrationDefinition(c) => Some(vec![c.identifier.name.clone()])),
        pos!("defcircuitnameparams", "ident", "DEFCIRCUIT ", "(%a) q:\n\tRX(%a) q", I::CircuitDefinition(c) => Some(vec![c.name.clone()])),
        pos!("defgatenameparams", "ident", "DEFGATE ", "(%a, %b) AS MATRIX:\n\t%a, 0\n\t0, %b", I::GateDefinition(g) => Some(vec![g.name.clone()])),
        pos!("defgatenameperm", "ident", "DEFGATE ", " AS PERMUTATION:\n\t0, 1", I::GateDefinition(g) => Some(vec![g.name.clone()])),
        pos!("defgatenamepauli", "ident", "DEFGATE ", "(%t) q AS PAULI-SUM:\n\tX(%t) q", I::GateDefinition(g) => Some(vec![g.name.clone()])),
        pos!("defwaveformnameparams", "ident", "DEFWAVEFORM ", "(%a):\n\t%a, 0", I::WaveformDefinition(w) => Some(vec![w.name.clone()])),
        pos!("callargmembare", "ident", "CALL f x0 ", "", I::Call(c) => match c.arguments.get(1) { Some(UnresolvedCallArgument::Identifier(s)) => Some(vec![s.clone()]), _ => None }),
        pos!("pragmaargsmany", "ident", "PRAGMA p 1 ", " x", I::Pragma(p) => match p.arguments.get(1) { Some(PragmaArgument::Identifier(s)) => Some(vec![s.clone()]), _ => None }),
        pos!("exprvariable", "variable", "RX(%", ") 0", I::Gate(g) => g.parameters.first().map(|e| en(e).into_iter().map(|s| s.trim_start_matches('%').to_string()).collect())),
    ]
}

fn names_out(v: Vec<String>) -> Sexp {
    tagged("names", v.into_iter().map(st).collect())
}

fn pos_case(ctx: &mut Ctx, pos: &Pos, ident: &str) {
    let text = match pos.mid {
        Some(mid) => format!("{}{}{}{}{}", pos.pre, ident, mid, ident, pos.post),
        None => format!("{}{}{}", pos.pre, ident, pos.post),
    };
    let extract = pos.extract;
    ctx.case(tagged("pos", vec![atom(pos.name), atom(pos.kind), st(ident)]), move || {
        let prog = Program::from_str(&text);
        if let Err(e) = &prog {
            format_error(e);
        }
        let instr = Instruction::from_str(&text);
        if let Err(e) = &instr {
            format_error(e);
        }
        let out = match &prog {
            Ok(p) => {
                let is = p.to_instructions();
                if is.len() != 1 {
                    tagged("other", vec![])
                } else {
                    match extract(&is[0]) {
                        Some(v) => names_out(v),
                        None => tagged("other", vec![]),
                    }
                }
            }
            Err(_) => tagged("err", vec![]),
        };
        // sibling entry point: Instruction::from_str must give the same single instruction
        let consistent = match (&prog, &instr) {
            (Ok(p), Ok(i)) => {
                let is = p.to_instructions();
                is.len() == 1 && is[0] == *i && format!("{:?}", is[0]) == format!("{i:?}")
            }
            (Ok(p), Err(_)) => p.to_instructions().len() != 1,
            (Err(_), Ok(_)) => false,
            (Err(_), Err(_)) => true,
        };
        if consistent {
            out
        } else {
            tagged("mismatch", vec![out, st(format!("{instr:?}"))])
        }
    });
}

/// Format an error every way a caller might: a panic in there is a crash.
fn format_error<E: std::error::Error>(e: &E) {
    let _ = e.to_string();
    let _ = format!("{e:#}");
    let _ = format!("{e:?}");
    let mut src = e.source();
    while let Some(s) = src {
        let _ = s.to_string();
        src = s.source();
    }
}

/// waveform names of the form `a/b`
fn wf_case(ctx: &mut Ctx, a: &str, b: &str) {
    let text = format!("PULSE 0 \"f\" {a}/{b}(x: 1)");
    ctx.case(tagged("wfslash", vec![st(a), st(b)]), move || match Program::from_str(&text) {
        Ok(p) => match p.to_instructions().as_slice() {
            [Instruction::Pulse(pl)] => names_out(vec![pl.waveform.name.clone()]),
            _ => tagged("other", vec![]),
        },
        Err(_) => tagged("err", vec![]),
    });
}

/// waveform names of the form `a/b` without an argument list
fn wf_bare_case(ctx: &mut Ctx, a: &str, b: &str) {
    let text = format!("CAPTURE 0 \"f\" {a}/{b} ro");
    ctx.case(tagged("wfslash", vec![st(a), st(b)]), move || match Program::from_str(&text) {
        Ok(p) => match p.to_instructions().as_slice() {
            [Instruction::Capture(c)] => names_out(vec![c.waveform.name.clone()]),
            _ => tagged("other", vec![]),
        },
        Err(_) => tagged("err", vec![]),
    });
}

/// Cross-position consistency: the same spelling at a definition site and at each of its use sites.
/// (kind, program text with `{n}`)
const DEFUSE: &[(&str, &str)] = &[
    ("waveform", "DEFWAVEFORM {n}(%s):\n\t%s, 0\nPULSE 0 \"f\" {n}(s: 1)\nCAPTURE 0 \"f\" {n}(s: 2) ro\nNONBLOCKING PULSE 0 \"f\" {n}\n"),
    ("gate", "DEFGATE {n}(%a) AS MATRIX:\n\t%a, 0\n\t0, 1\n{n}(1) 0\nDAGGER {n}(2) 0\n"),
    ("gateplain", "DEFGATE {n} AS PERMUTATION:\n\t0, 1\n{n} 0\nCONTROLLED {n} 1 0\n"),
    ("circuit", "DEFCIRCUIT {n}(%a) q:\n\tRX(%a) q\n{n}(1) 0\n"),
    ("calibration", "DEFCAL {n}(%a) 0:\n\tNOP\nDEFCAL {n} 1:\n\tNOP\n{n}(1) 0\n{n} 1\n"),
    ("label", "LABEL @{n}\nJUMP @{n}\nJUMP-WHEN @{n} ro\nJUMP-UNLESS @{n} ro[1]\n"),
    ("extern", "PRAGMA EXTERN {n} \"(a : INTEGER)\"\nCALL {n} 1\n"),
    ("frame", "DEFFRAME 0 \"{n}\":\n\tDIRECTION: \"tx\"\nPULSE 0 \"{n}\" w\nSET-PHASE 0 \"{n}\" 1\nDELAY 0 \"{n}\" 1\n"),
    ("region", "DECLARE {n} REAL[2]\nDEFCAL X 0:\n\tSHIFT-PHASE 0 \"f\" {n}[1]\nRX({n}) 0\nPULSE 0 \"f\" w(a: {n}[0])\n"),
];

fn defuse_names(kind: &str, is: &[Instruction]) -> Vec<String> {
    let mut v = Vec::new();
    for i in is {
        match (kind, i) {
            ("waveform", Instruction::WaveformDefinition(w)) => v.push(w.name.clone()),
            ("waveform", Instruction::Pulse(p)) => v.push(p.waveform.name.clone()),
            ("waveform", Instruction::Capture(c)) => v.push(c.waveform.name.clone()),
            ("gate" | "gateplain", Instruction::GateDefinition(g)) => v.push(g.name.clone()),
            ("gate" | "gateplain" | "circuit" | "calibration", Instruction::Gate(g)) => v.push(g.name.clone()),
            ("circuit", Instruction::CircuitDefinition(c)) => v.push(c.name.clone()),
            ("calibration", Instruction::CalibrationDefinition(c)) => v.push(c.identifier.name.clone()),
            ("label", Instruction::Label(l)) => v.extend(target(&l.target)),
            ("label", Instruction::Jump(j)) => v.extend(target(&j.target)),
            ("label", Instruction::JumpWhen(j)) => v.extend(target(&j.target)),
            ("label", Instruction::JumpUnless(j)) => v.extend(target(&j.target)),
            ("extern", Instruction::Pragma(p)) => match p.arguments.first() {
                Some(PragmaArgument::Identifier(s)) => v.push(s.clone()),
                _ => v.push("<no-extern-name>".to_string()),
            },
            ("extern", Instruction::Call(c)) => v.push(c.name.clone()),
            ("frame", Instruction::FrameDefinition(f)) => v.push(f.identifier.name.clone()),
            ("frame", Instruction::Pulse(p)) => v.push(p.frame.name.clone()),
            ("frame", Instruction::SetPhase(sp)) => v.push(sp.frame.name.clone()),
            ("frame", Instruction::Delay(d)) => v.extend(d.frame_names.iter().cloned()),
            ("region", Instruction::Declaration(d)) => v.push(d.name.clone()),
            ("region", Instruction::CalibrationDefinition(c)) => {
                for b in &c.instructions {
                    if let Instruction::ShiftPhase(sp) = b {
                        v.extend(en(&sp.phase))
                    }
                }
            }
            ("region", Instruction::Gate(g)) => v.extend(g.parameters.iter().flat_map(en)),
            ("region", Instruction::Pulse(p)) => v.extend(p.waveform.parameters.values().flat_map(en)),
            _ => v.push("<unexpected-instruction>".to_string()),
        }
    }
    v
}

fn defuse_case(ctx: &mut Ctx, kind: &'static str, template: &'static str, ident: &str) {
    let text = template.replace("{n}", ident);
    let text2 = text.clone();
    ctx.case(tagged("defuse", vec![atom(kind), st(ident)]), move || match Program::from_str(&text) {
        Ok(p) => names_out(defuse_names(kind, &p.to_instructions())),
        Err(e) => {
            format_error(&e);
            tagged("err", vec![])
        }
    });
    // the same names after print -> re-parse (a name-only view of the round trip)
    ctx.case(tagged("defuse", vec![atom(format!("reparse-{kind}")), st(ident)]), move || {
        let p = match Program::from_str(&text2) {
            Ok(p) => p,
            Err(_) => return tagged("err", vec![]),
        };
        let printed = match p.to_quil() {
            Ok(t) => t,
            Err(_) => return tagged("other", vec![]),
        };
        match Program::from_str(&printed) {
            Ok(q) => names_out(defuse_names(kind, &q.to_instructions())),
            Err(_) => tagged("err", vec![]),
        }
    });
}

/// a spelling that differs from `s` only in letter case (or by one appended character when it has no letter)
fn case_flip(s: &str) -> String {
    let mut cs: Vec<char> = s.chars().collect();
    match cs.iter_mut().find(|c| c.is_ascii_alphabetic()) {
        Some(c) => {
            *c = if c.is_ascii_lowercase() { c.to_ascii_uppercase() } else { c.to_ascii_lowercase() };
            cs.into_iter().collect()
        }
        None => format!("{s}x"),
    }
}

/// Names through the later stages: a definition must match uses of exactly its own spelling and must NOT
/// match a spelling that differs only in letter case.
fn through_cases(ctx: &mut Ctx, ident: &str) {
    let n = ident.to_string();
    let n2 = case_flip(ident);
    let body_names = |is: &[Instruction]| -> Vec<String> {
        is.iter()
            .map(|i| match i {
                Instruction::Gate(g) => g.name.clone(),
                Instruction::Fence(_) => "<fence>".to_string(),
                _ => "<other>".to_string(),
            })
            .collect()
    };
    // calibration expansion
    {
        let text = format!("DEFCAL {n} 0:\n\tFENCE 0\n{n} 0\n{n2} 0\n");
        ctx.case(tagged("through", vec![atom("calexpand"), st(&n), st(&n2)]), move || match Program::from_str(&text) {
            Ok(p) => match p.expand_calibrations() {
                Ok(q) => names_out(body_names(q.body_instructions().cloned().collect::<Vec<_>>().as_slice())),
                Err(e) => {
                    format_error(&e);
                    tagged("other", vec![])
                }
            },
            Err(_) => tagged("err", vec![]),
        });
    }
    // sequence-gate expansion
    {
        let text = format!("DEFGATE {n} a AS SEQUENCE:\n\tZq9 a\n{n} 0\n{n2} 0\n");
        ctx.case(tagged("through", vec![atom("seqexpand"), st(&n), st(&n2)]), move || match Program::from_str(&text) {
            Ok(p) => match p.expand_defgate_sequences(|_| true) {
                Ok(q) => names_out(body_names(q.body_instructions().cloned().collect::<Vec<_>>().as_slice())),
                Err(e) => {
                    format_error(&e);
                    tagged("other", vec![])
                }
            },
            Err(_) => tagged("err", vec![]),
        });
    }
    // CALL resolution against PRAGMA EXTERN
    {
        let text = format!("PRAGMA EXTERN {n} \"(a : INTEGER)\"\nDECLARE x INTEGER\nCALL {n} x\nCALL {n2} x\n");
        ctx.case(tagged("through", vec![atom("callresolve"), st(&n), st(&n2)]), move || match Program::from_str(&text) {
            Ok(p) => match ExternSignatureMap::try_from(p.extern_pragma_map.clone()) {
                Ok(map) => names_out(
                    p.body_instructions()
                        .filter_map(|i| match i {
                            Instruction::Call(c) => Some(match c.resolve_arguments(&p.memory_regions, &map) {
                                Ok(_) => "<resolved>".to_string(),
                                Err(e) => {
                                    format_error(&e);
                                    "<unresolved>".to_string()
                                }
                            }),
                            _ => None,
                        })
                        .collect(),
                ),
                Err(_) => tagged("other", vec![]),
            },
            Err(_) => tagged("err", vec![]),
        });
    }
    // type checking: a region of another letter case is undefined
    {
        let text = format!("DECLARE {n} REAL[2]\nSET-PHASE 0 \"f\" {n}[1]\nSET-SCALE 0 \"f\" {n2}[1]\n");
        ctx.case(tagged("through", vec![atom("typecheck"), st(&n), st(&n2)]), move || match Program::from_str(&text) {
            Ok(p) => {
                let whole = type_check(&p).is_ok();
                let first = Program::from_str(&text[..text.find("SET-SCALE").unwrap()]).map(|q| type_check(&q).is_ok());
                names_out(vec![format!("first-ok:{}", first.unwrap_or(false)), format!("whole-ok:{whole}")])
            }
            Err(_) => tagged("err", vec![]),
        });
    }
}

fn all_defuse(ctx: &mut Ctx, ident: &str) {
    for (kind, template) in DEFUSE {
        defuse_case(ctx, kind, template, ident);
    }
}

/// The same region spelled in DECLARE, in classical operands and inside expressions; then type_check.
fn consistency_case(ctx: &mut Ctx, ident: &str) {
    let text = format!(
        "DECLARE {n} REAL[4]\nMOVE {n}[1] 1.5\nSET-PHASE 0 \"f\" {n}\nSET-FREQUENCY 0 \"f\" 2*{n}[1]+{n}\nSHIFT-PHASE 0 \"f\" {n}[3]\nADD {n} {n}[2]\n",
        n = ident
    );
    ctx.case(tagged("consist", vec![st(ident)]), move || match Program::from_str(&text) {
        Ok(p) => {
            let mut declared: Vec<String> = p.memory_regions.keys().cloned().collect();
            declared.sort();
            let mut used = Vec::new();
            for i in p.body_instructions() {
                match i {
                    Instruction::Move(m) => used.push(mem(&m.destination)),
                    Instruction::SetPhase(s) => used.extend(en(&s.phase)),
                    Instruction::SetFrequency(s) => used.extend(en(&s.frequency)),
                    Instruction::ShiftPhase(s) => used.extend(en(&s.phase)),
                    Instruction::Arithmetic(a) => {
                        used.push(mem(&a.destination));
                        if let ArithmeticOperand::MemoryReference(r) = &a.source {
                            used.push(mem(r))
                        }
                    }
                    _ => used.push("<other-instruction>".to_string()),
                }
            }
            let used: Vec<String> = used.into_iter().filter(|s| s != "<number>").collect();
            tagged(
                "ok",
                vec![
                    tagged("declared", declared.into_iter().map(st).collect()),
                    tagged("used", used.into_iter().map(st).collect()),
                    boolean(type_check(&p).is_ok()),
                ],
            )
        }
        Err(_) => tagged("err", vec![]),
    });
}

// ---------------------------------------------------------------- identifier generators

const KEYWORDS: &[&str] = &[
    "ADD", "AND", "ASHR", "CALL", "CAPTURE", "CONVERT", "DECLARE", "DEFCAL", "DEFCIRCUIT", "DEFFRAME", "DEFGATE",
    "DEFWAVEFORM", "DELAY", "DIV", "EQ", "EXCHANGE", "FENCE", "GE", "GT", "HALT", "INCLUDE", "IOR", "JUMP",
    "JUMP-UNLESS", "JUMP-WHEN", "LABEL", "LE", "LOAD", "LT", "MEASURE", "MOVE", "MUL", "NEG", "NOP", "NOT", "PRAGMA",
    "PULSE", "RAW-CAPTURE", "RESET", "SET-FREQUENCY", "SET-PHASE", "SET-SCALE", "SHIFT-FREQUENCY", "SHIFT-PHASE",
    "SHL", "SHR", "STORE", "SUB", "SWAP-PHASES", "WAIT", "XOR", "BIT", "OCTET", "REAL", "INTEGER", "CONTROLLED",
    "DAGGER", "FORKED", "AS", "MATRIX", "mut", "NONBLOCKING", "OFFSET", "PAULI-SUM", "PERMUTATION", "SEQUENCE",
    "SHARING",
];
/// spellings strum would accept if its matching were laxer than modelled
const NEAR_KEYWORDS: &[&str] = &[
    "DEF-CAL", "DEF-GATE", "DefGate", "Defgate", "defgate", "DEF_GATE", "JUMPWHEN", "JUMP_WHEN", "Jump-When", "jump-when",
    "RAWCAPTURE", "NON-BLOCKING", "NonBlocking", "nonblocking", "MUT", "Mut", "Mutable", "MUTABLE", "PAULISUM",
    "PAULI_SUM", "PauliSum", "as", "As", "matrix", "Matrix", "bit", "Bit", "real", "Real", "dagger", "Dagger", "Ge", "ge",
    "Add", "add", "ADD1", "ADDS", "XADD", "ADD-", "ADD_", "_ADD", "SET-PHASE-X", "SET--PHASE", "SETPHASE", "PRAGMAS",
    "EXTERN", "MEASUREX", "WAIT-1",
];
const EXPR_WORDS: &[&str] = &[
    "pi", "Pi", "PI", "pI", "i", "I", "sin", "Sin", "SIN", "sIn", "cos", "COS", "Cos", "sqrt", "SQRT", "Sqrt", "exp", "EXP",
    "Exp", "cis", "CIS", "Cis", "i2", "I2", "pi2", "Pi_", "_pi", "pi-1", "sine", "SINE", "cosine", "exps", "cist", "ii", "II",
    "p", "P", "s", "si", "Theta", "theta", "THETA", "tHeTa", "Ro", "RO", "ro", "Alpha-Beta", "x", "X", "Z",
];
const PLAIN: &[&str] = &[
    "a", "A", "_", "__", "_a", "a_", "a1", "A1b2", "aB", "Ab", "aBcDeFgHiJkL", "a-b", "a--b", "a-b-c", "a-1", "a_-_b", "A-B-1",
    "x-y--z", "q0", "Q0", "my_waveform", "My_Waveform", "q20_q27_xy", "sqrtiSWAP", "CZ", "cz", "Cz", "RX", "rx", "Rx", "H",
    "h", "CNOT", "cNOT", "a9-9a", "_-_", "z_Z_z", "abcdefghijkl", "ABCDEFGHIJKL", "a1b2c3d4e5f6",
];
/// names that some LATER stage of the library treats specially (string tables, built-in templates,
/// standard gates, reserved pragma names, frame attribute keys, waveform parameter names): a parser that
/// "normalises" them in one position but not another breaks C06.  Used in every letter case.
const DOMAIN: &[&str] = &[
    // built-in Quil-T waveform templates (waveform/mod.rs) and their parameter names
    "flat", "gaussian", "drag_gaussian", "erf_square", "hrm_gauss", "raised_cosine", "boxcar_kernel", "duration", "iq",
    "scale", "phase", "detuning", "fwhm", "t0", "anh", "alpha", "risetime", "pad_left", "pad_right",
    "second_order_hrm_coeff",
    // standard gates (instruction/gate.rs tables) and Pauli words
    "I", "X", "Y", "Z", "H", "S", "T", "CNOT", "CCNOT", "CZ", "SWAP", "CSWAP", "ISWAP", "PSWAP", "PHASE", "CPHASE00",
    "CPHASE01", "CPHASE10", "CPHASE", "RX", "RY", "RZ", "XY", "XX", "ZZ", "CAN", "PISWAP",
    // pragma names and frame attribute keys the library looks up by name
    "EXTERN", "LOAD-MEMORY", "DIRECTION", "INITIAL-FREQUENCY", "HARDWARE-OBJECT", "CENTER-FREQUENCY", "SAMPLE-RATE",
    "CHANNEL-DELAY", "ENABLE-RAW-CAPTURE", "tx", "rx",
    // expression words and type-like words once more, as plain names
    "pi", "i", "sin", "cos", "sqrt", "exp", "cis", "ro", "bit", "octet", "real", "integer", "measure", "dest",
];

/// letter-case variants of a word: as written, lower, UPPER, Capitalised, aLtErNaTiNg, last letter flipped
fn case_variants(w: &str, all: bool) -> Vec<String> {
    let lower = w.to_ascii_lowercase();
    let upper = w.to_ascii_uppercase();
    let mut cap: String = lower.clone();
    if let Some(f) = cap.get_mut(0..1) {
        f.make_ascii_uppercase();
    }
    let alt: String = lower
        .chars()
        .enumerate()
        .map(|(k, c)| if k % 2 == 1 { c.to_ascii_uppercase() } else { c })
        .collect();
    let mut last: Vec<char> = w.chars().collect();
    if let Some(c) = last.iter_mut().rev().find(|c| c.is_ascii_alphabetic()) {
        *c = if c.is_ascii_lowercase() { c.to_ascii_uppercase() } else { c.to_ascii_lowercase() };
    }
    let last: String = last.into_iter().collect();
    let mut v = vec![w.to_string(), cap, if w == lower { upper.clone() } else { lower.clone() }];
    if all {
        v.extend([lower, upper, alt, last]);
    }
    let mut seen = std::collections::HashSet::new();
    v.retain(|x| seen.insert(x.clone()));
    v
}

/// not identifiers (must not be silently repaired into names)
const INVALID: &[&str] = &["1a", "-a", "a-", "a--", "a.b", "a b", "a$", "é", "aé", "a\u{0301}", "9", "", "a-+b", "a@b", "a%b"];

fn random_ident(rng: &mut Rng) -> String {
    const START: &[u8] = b"abcxyzABCXYZ_iIpPsScCeEqQ";
    const MID: &[u8] = b"abcxyzABCXYZ_0123456789iIpPsSnNtT";
    let len = 1 + rng.below(12);
    let mut s = String::new();
    s.push(*rng.pick(START) as char);
    while (s.len() as u64) < len {
        if rng.chance(1, 6) && !s.ends_with('-') || (s.ends_with('-') && rng.chance(1, 4)) {
            s.push('-');
        } else {
            s.push(*rng.pick(MID) as char);
        }
    }
    while s.ends_with('-') {
        s.push(*rng.pick(MID) as char);
    }
    s
}

fn mutate(rng: &mut Rng, s: &str) -> String {
    const INS: [char; 14] = ['-', '_', '1', 'a', 'Z', ' ', '.', '%', '@', 'é', '[', '/', 'i', 'P'];
    let mut cs: Vec<char> = s.chars().collect();
    match rng.below(4) {
        0 if !cs.is_empty() => {
            let i = rng.below(cs.len() as u64) as usize;
            cs.remove(i);
        }
        1 if !cs.is_empty() => {
            let i = rng.below(cs.len() as u64) as usize;
            cs[i] = *rng.pick(&INS);
        }
        2 if !cs.is_empty() => {
            // flip the case of one letter
            let i = rng.below(cs.len() as u64) as usize;
            cs[i] = if cs[i].is_ascii_lowercase() { cs[i].to_ascii_uppercase() } else { cs[i].to_ascii_lowercase() };
        }
        _ => {
            let i = rng.below(cs.len() as u64 + 1) as usize;
            cs.insert(i, *rng.pick(&INS));
        }
    }
    cs.into_iter().collect()
}

/// Render stream: the text the REAL printer writes for a generated program, with the real lexer's tokens;
/// the driver checks that the text is a gap layout of those tokens within the domain of the render theorem
/// (lean/QV/Shared/RenderLemmas.lean) and that the canonical re-rendering lexes back to the same tokens.
fn render_case(ctx: &mut Ctx, text: &str) {
    let t = text.to_string();
    ctx.case(tagged("render", vec![st(text)]), move || lex_out(&t));
    rerender_case(ctx, text);
}

fn render_alpha() -> Alpha {
    Alpha {
        regions: ["ro", "Theta", "a-b", "x_1", "i2"].iter().map(|s| s.to_string()).collect(),
        qubits: vec![Qubit::Fixed(0), Qubit::Fixed(17), Qubit::Variable("q".to_string()), Qubit::Variable("Q-1".to_string())],
        frame_names: ["rf", "a \"b\"", "x\\y"].iter().map(|s| s.to_string()).collect(),
        externs: ["f", "G-h"].iter().map(|s| s.to_string()).collect(),
        expr_depth: 3,
    }
}

fn main() {
    main_with(run)
}

fn run(ctx: &mut Ctx) {
    let quick = ctx.quick();
    let positions = positions();
    // 1. corpus: the lower-casing defect (DECLARE Theta / RX(Theta)) and friends
    for s in ["Theta", "THETA", "Ro", "Pi", "I", "SIN", "Defgate", "i2", "a-b", "DEFGATE", "mut", "Gaussian", "FLAT", "Erf_Square"] {
        consistency_case(ctx, s);
        all_defuse(ctx, s);
        for p in &positions {
            pos_case(ctx, p, s);
        }
    }
    // 2. lexer: exhaustive short strings over the identifier alphabet; keyword soups
    let l = if quick { 4 } else { 5 };
    for len in 0..=l {
        all_strings(&ALPHA, len, &mut |s| lex_case(ctx, s));
    }
    for w in KEYWORDS.iter().chain(NEAR_KEYWORDS).chain(EXPR_WORDS).chain(PLAIN).chain(INVALID) {
        lex_case(ctx, w);
        lex_case(ctx, &format!("@{w} %{w} {w}-{w} {w}_{w}\n{w}1 1{w}"));
    }
    let mut rng = ctx.rng(6);
    let soups = if quick { 2000 } else { 100_000 };
    for _ in 0..soups {
        const SEP: &[&str] = &[" ", "  ", "    ", "\n", "\t", "-", "--", "", "_", ",", "(", ")", "[", "]", ":", ";", " # c\n", "/", "*", "@", "%", "\r\n"];
        let n = 1 + rng.below(6);
        let mut text = String::new();
        for _ in 0..n {
            let w = match rng.below(5) {
                0 => rng.pick(KEYWORDS).to_string(),
                1 => rng.pick(NEAR_KEYWORDS).to_string(),
                2 => rng.pick(EXPR_WORDS).to_string(),
                3 => random_ident(&mut rng),
                _ => rng.pick(PLAIN).to_string(),
            };
            let w = if rng.chance(1, 8) { mutate(&mut rng, &w) } else { w };
            text.push_str(&w);
            text.push_str(*rng.pick(SEP));
        }
        lex_case(ctx, &text);
        rerender_case(ctx, &text);
    }
    // 3a. domain-special names in every letter case: every position, definition/use consistency
    let domain_words: Vec<String> = DOMAIN.iter().flat_map(|w| case_variants(w, !quick)).collect();
    for w in &domain_words {
        lex_case(ctx, w);
        for p in &positions {
            pos_case(ctx, p, w);
        }
        consistency_case(ctx, w);
        all_defuse(ctx, w);
        through_cases(ctx, w);
        wf_case(ctx, w, "ext");
        wf_bare_case(ctx, "q0_q1", w);
    }
    // 3b. extreme shapes: one-character names, maximal dash/underscore patterns, names of length 10^4
    let long1: String = std::iter::once('L').chain(std::iter::repeat('x').take(9_999)).collect();
    let long2: String = "aB-".repeat(3_333) + "z";
    let long3: String = "_".repeat(5_000) + &"-_".repeat(2_500);
    let shapes: Vec<String> = ["a", "Z", "_", "q", "__", "_-_", "_--_", "a-_-_-b", "a---b", "_a_-_b_", "a1-2b-3c", "A-a-A-a", "x-0", "_0", "a_", "a-b_", "_-a", "a-_", "a--_--a"]
        .iter()
        .map(|s| s.to_string())
        .chain([long1, long2, long3])
        .collect();
    for w in &shapes {
        lex_case(ctx, w);
        for p in &positions {
            pos_case(ctx, p, w);
        }
        consistency_case(ctx, w);
        all_defuse(ctx, w);
        through_cases(ctx, w);
    }
    // 3. identifiers in every position
    let groups: Vec<&[&str]> = if quick {
        vec![&NEAR_KEYWORDS[..20], EXPR_WORDS, &PLAIN[..28], &INVALID[..8], &KEYWORDS[..12]]
    } else {
        vec![NEAR_KEYWORDS, EXPR_WORDS, PLAIN, INVALID, KEYWORDS]
    };
    for g in &groups {
        for s in g.iter() {
            for p in &positions {
                pos_case(ctx, p, s);
            }
            // 4. consistency
            consistency_case(ctx, s);
            all_defuse(ctx, s);
            through_cases(ctx, s);
        }
    }
    for a in ["q20_q27_xy", "Ab-1", "pi", "I"] {
        for b in ["sqrtiSWAP", "x-Y", "SIN", "i"] {
            wf_case(ctx, a, b);
        }
    }
    // 6. render stream: real printer output of generated instructions and programs
    {
        let alpha = render_alpha();
        let mut rr = ctx.rng(9);
        for v in instrgen::VARIANTS {
            for _ in 0..(if quick { 6 } else { 150 }) {
                let i = instrgen::gen_variant(&mut rr, &alpha, v, 2);
                if let Ok(text) = i.to_quil() {
                    render_case(ctx, &text);
                }
            }
        }
        for _ in 0..(if quick { 300 } else { 20_000 }) {
            let n = 1 + rr.below(5);
            let is: Vec<Instruction> = (0..n).map(|_| instrgen::any_instruction(&mut rr, &alpha, 1)).collect();
            let p = Program::from_instructions(is);
            if let Ok(text) = p.to_quil() {
                render_case(ctx, &text);
            }
        }
    }
    // 5. random identifiers, valid and mutated
    let n = if quick { 1500 } else { 60_000 };
    for _ in 0..n {
        let mut s = random_ident(&mut rng);
        if rng.chance(1, 5) {
            s = mutate(&mut rng, &s);
        }
        lex_case(ctx, &s);
        consistency_case(ctx, &s);
        for _ in 0..6 {
            let p = &positions[rng.below(positions.len() as u64) as usize];
            pos_case(ctx, p, &s);
        }
        if rng.chance(1, 10) {
            let b = random_ident(&mut rng);
            wf_case(ctx, &s, &b);
            wf_bare_case(ctx, &b, &s);
        }
        if rng.chance(1, 3) {
            let (kind, template) = DEFUSE[rng.below(DEFUSE.len() as u64) as usize];
            defuse_case(ctx, kind, template, &s);
            through_cases(ctx, &s);
        }
    }
}
