//! C13 — substitution, evaluation and memory-reference listing agree.
//!
//! One case = (expression e, variable map ρ, memory map μ, substitution σ); the implementation's output is
//! the tuple
//!   evaluate(e, ρ, μ),  substitute_variables(e, σ),  evaluate(substitute_variables(e, σ), ρ, μ),
//!   evaluate(e, σ▷ρ, μ),  e.memory_references().collect()
//! where σ▷ρ binds each substituted variable to the value of its replacement under (ρ, μ) (unbound if the
//! replacement does not evaluate) and every other variable as ρ does.
use num_complex::Complex64;
use quil_rs::expression::{EvaluationError, Expression, ExpressionFunction, InfixOperator, PrefixOperator};
use qvh::expr::*;
use qvh::*;
use std::collections::HashMap;

type VarEnv = Vec<(String, Complex64)>;
type MemEnv = Vec<(String, Vec<f64>)>;
type Subst = Vec<(String, Expression)>;

fn eval_to_sexp(r: Result<Complex64, EvaluationError>) -> Sexp {
    if let Err(e) = &r {
        // format every returned error (a panic here is a crash outcome of the case)
        use std::error::Error as _;
        let texts = [e.to_string(), format!("{e:#}"), format!("{e:?}"), format!("{:?}", e.source().map(|s| s.to_string()))];
        assert!(texts.iter().all(|t| !t.is_empty()), "empty error text");
    }
    match r {
        Ok(c) => tagged("ok", vec![complex_to_sexp(c)]),
        Err(EvaluationError::Incomplete) => tagged("err", vec![atom("incomplete")]),
        Err(EvaluationError::NumberNotReal) => tagged("err", vec![atom("number_not_real")]),
        Err(EvaluationError::NotANumber) => tagged("err", vec![atom("not_a_number")]),
        // a variant added later must not break the harness: the property does not constrain the error kind
        #[allow(unreachable_patterns)]
        Err(_) => tagged("err", vec![atom("other")]),
    }
}

fn subst_to_sexp(s: &Subst) -> Sexp {
    list(s.iter().map(|(k, v)| list(vec![st(k.clone()), expr_to_sexp(v)])).collect())
}

fn emit(ctx: &mut Ctx, e: &Expression, rho: &VarEnv, mu: &MemEnv, sigma: &Subst) {
    let input = tagged("c13", vec![expr_to_sexp(e), var_env_to_sexp(rho), mem_env_to_sexp(mu), subst_to_sexp(sigma)]);
    ctx.case(input, || {
        let variables: HashMap<String, Complex64> = rho.iter().cloned().collect();
        let memory: HashMap<String, Vec<f64>> = mu.iter().cloned().collect();
        let substitution: HashMap<String, Expression> = sigma.iter().cloned().collect();

        let direct = e.evaluate(&variables, &memory);
        let substituted = e.substitute_variables(&substitution);
        let after = substituted.evaluate(&variables, &memory);
        // σ▷ρ
        let mut merged = variables.clone();
        for (x, t) in sigma {
            match t.evaluate(&variables, &memory) {
                Ok(v) => {
                    merged.insert(x.clone(), v);
                }
                Err(_) => {
                    merged.remove(x);
                }
            }
        }
        let bound = e.evaluate(&merged, &memory);
        let refs: Vec<Sexp> = e.memory_references().map(memref_to_sexp).collect();
        tagged(
            "out",
            vec![eval_to_sexp(direct), expr_to_sexp(&substituted), eval_to_sexp(after), eval_to_sexp(bound), list(refs)],
        )
    });
}


// ------------------------------------------------------------------ iterator consumption routes
//
// `(c13iter e)` → `(routes (name k payload) …)`: the REAL `e.memory_references()` consumed through every std
// route an overriding `Iterator` method (fold, nth, count, last, size_hint, …) could special-case, fresh and
// after j calls of `next()`.  The Lean driver regenerates the same list (same order, same k's) twice: from the
// model's stack machine (`nextN`, `foldFrom`, `drain`) and from the recursive listing `e.addrs`.

fn refs(v: &[&quil_rs::instruction::MemoryReference]) -> Sexp {
    list(v.iter().map(|r| memref_to_sexp(r)).collect())
}
fn opt_ref(o: Option<&quil_rs::instruction::MemoryReference>) -> Sexp {
    match o {
        Some(r) => tagged("some", vec![memref_to_sexp(r)]),
        None => tagged("none", vec![]),
    }
}
fn opt_nat(o: Option<u64>) -> Sexp {
    match o {
        Some(n) => tagged("some", vec![nat(n)]),
        None => tagged("none", vec![]),
    }
}

/// the k's used by the per-k routes: 0..=min(len+1, 10) and len-1, len, len+1
fn route_ks(len: usize) -> Vec<usize> {
    let mut ks: Vec<usize> = (0..=(len + 1).min(10)).collect();
    for k in [len.saturating_sub(1), len, len + 1] {
        if !ks.contains(&k) {
            ks.push(k);
        }
    }
    ks
}

fn emit_routes(ctx: &mut Ctx, e: &Expression) {
    ctx.case(tagged("c13iter", vec![expr_to_sexp(e)]), || {
        let mut out: Vec<Sexp> = Vec::new();
        let mut route = |name: &str, k: usize, payload: Sexp| out.push(tagged(name, vec![nat(k as u64), payload]));
        let fresh = || e.memory_references();
        let after = |j: usize| {
            let mut it = e.memory_references();
            for _ in 0..j {
                let _ = it.next();
            }
            it
        };

        let collected: Vec<_> = fresh().collect();
        let len = collected.len();
        route("collect", 0, refs(&collected));
        {
            let mut it = fresh();
            let mut v = Vec::new();
            while let Some(r) = it.next() {
                v.push(r);
            }
            // fused: still None afterwards
            let again = it.next().is_none() && it.next().is_none();
            route("nextloop", 0, refs(&v));
            route("fused", 0, boolean(again));
        }
        {
            let mut v = Vec::new();
            fresh().for_each(|r| v.push(r));
            route("for_each", 0, refs(&v));
        }
        {
            let v = fresh().fold(Vec::new(), |mut acc, r| {
                acc.push(r);
                acc
            });
            route("fold", 0, refs(&v));
        }
        route("count", 0, nat(fresh().count() as u64));
        route("last", 0, opt_ref(fresh().last()));
        route("step_by", 0, refs(&fresh().step_by(2).collect::<Vec<_>>()));
        route("max_by_key", 0, opt_ref(fresh().max_by_key(|r| r.index)));
        route("min_by_key", 0, opt_ref(fresh().min_by_key(|r| r.index)));
        route("reduce", 0, opt_ref(fresh().reduce(|_, b| b)));
        route("max_index", 0, opt_nat(fresh().map(|r| r.index).max()));
        route("sum_index", 0, nat(fresh().map(|r| r.index % 1000).sum::<u64>()));
        {
            let mut p = fresh().peekable();
            let mut pairs = Vec::new();
            loop {
                let pk = p.peek().copied();
                let nx = p.next();
                pairs.push(list(vec![opt_ref(pk), opt_ref(nx)]));
                if nx.is_none() {
                    break;
                }
            }
            route("peek_pairs", 0, list(pairs));
        }
        for k in route_ks(len) {
            route("nth", k, opt_ref(fresh().nth(k)));
            route("skip", k, refs(&fresh().skip(k).collect::<Vec<_>>()));
            {
                let mut it = fresh();
                let first: Vec<_> = it.by_ref().take(k).collect();
                let rest: Vec<_> = it.collect();
                route("take_rest", k, list(vec![refs(&first), refs(&rest)]));
            }
            {
                let mut v = Vec::new();
                after(k).for_each(|r| v.push(r));
                route("after_for_each", k, refs(&v));
            }
            {
                let v = after(k).fold(Vec::new(), |mut acc, r| {
                    acc.push(r);
                    acc
                });
                route("after_fold", k, refs(&v));
            }
            route("after_count", k, nat(after(k).count() as u64));
            route("after_collect", k, refs(&after(k).collect::<Vec<_>>()));
            route("after_last", k, opt_ref(after(k).last()));
            {
                let mut p = after(k).peekable();
                let pk = p.peek().copied();
                let mut v = Vec::new();
                p.for_each(|r| v.push(r));
                route("after_peek_fold", k, list(vec![opt_ref(pk), refs(&v)]));
            }
            {
                let it = after(k);
                let cl = it.clone();
                let a: Vec<_> = cl.collect();
                let mut b = Vec::new();
                it.for_each(|r| b.push(r));
                route("after_clone", k, list(vec![refs(&a), refs(&b)]));
            }
            route("after_max_index", k, opt_nat(after(k).map(|r| r.index).max()));
            route("after_skip1", k, refs(&after(k).skip(1).collect::<Vec<_>>()));
            {
                let (lo, hi) = after(k).size_hint();
                route("size_hint", k, list(vec![nat(lo as u64), opt_nat(hi.map(|h| h as u64))]));
            }
        }
        tagged("routes", out)
    });
}

// ------------------------------------------------------------------ sequences, instruction-level routes, text routes

/// `(c13seq e ρ μ σ1 σ2)`: sequences of calls on one expression.  Output
/// `(seq <subst σ2 (subst σ1 e)> <evaluate of that> <evaluate e before> <evaluate e after all calls>
///       <e re-encoded after all calls> <simplified e> <substitute σ1 into the simplified e> <subst σ1 e, second call>)`.
fn emit_seq(ctx: &mut Ctx, e: &Expression, rho: &VarEnv, mu: &MemEnv, s1: &Subst, s2: &Subst) {
    let input = tagged(
        "c13seq",
        vec![expr_to_sexp(e), var_env_to_sexp(rho), mem_env_to_sexp(mu), subst_to_sexp(s1), subst_to_sexp(s2)],
    );
    ctx.case(input, || {
        let variables: HashMap<String, Complex64> = rho.iter().cloned().collect();
        let memory: HashMap<String, Vec<f64>> = mu.iter().cloned().collect();
        let m1: HashMap<String, Expression> = s1.iter().cloned().collect();
        let m2: HashMap<String, Expression> = s2.iter().cloned().collect();
        let before = e.evaluate(&variables, &memory);
        let first = e.substitute_variables(&m1);
        let twice = first.substitute_variables(&m2);
        let twice_value = twice.evaluate(&variables, &memory);
        let simplified = e.clone().into_simplified();
        let simplified_subst = simplified.substitute_variables(&m1);
        let first_again = e.substitute_variables(&m1);
        let after = e.evaluate(&variables, &memory);
        tagged(
            "seq",
            vec![
                expr_to_sexp(&twice),
                eval_to_sexp(twice_value),
                eval_to_sexp(before),
                eval_to_sexp(after),
                expr_to_sexp(e),
                expr_to_sexp(&simplified),
                expr_to_sexp(&simplified_subst),
                expr_to_sexp(&first_again),
                expr_to_sexp(&first),
            ],
        )
    });
}

/// `(c13instr e1 e2)`: the memory references of expressions embedded in instructions, through the public
/// instruction-level accessors: `DefaultHandler.memory_accesses(..).reads` (a set of region names, sent sorted)
/// for every instruction kind that carries expressions, and `WaveformInvocation::memory_references()`.
fn emit_instr(ctx: &mut Ctx, e1: &Expression, e2: &Expression) {
    use quil_rs::instruction::{
        Capture, DefaultHandler, Delay, ExternSignatureMap, FrameIdentifier, Gate, Instruction, InstructionHandler as _,
        MemoryReference, Pulse, Qubit, RawCapture, SetFrequency, SetPhase, SetScale, ShiftFrequency, ShiftPhase,
        WaveformInvocation,
    };
    ctx.case(tagged("c13instr", vec![expr_to_sexp(e1), expr_to_sexp(e2)]), || {
        let frame = || FrameIdentifier { name: "f".to_string(), qubits: vec![Qubit::Fixed(0)] };
        let mut parameters = quil_rs::instruction::WaveformParameters::new();
        parameters.insert("alpha".to_string(), e1.clone());
        parameters.insert("beta".to_string(), e2.clone());
        let waveform = WaveformInvocation { name: "w".to_string(), parameters };
        let target = MemoryReference { name: "target".to_string(), index: 0 };
        let single: Vec<(&str, Instruction)> = vec![
            ("delay", Instruction::Delay(Delay { duration: e1.clone(), frame_names: vec![], qubits: vec![Qubit::Fixed(0)] })),
            ("set_phase", Instruction::SetPhase(SetPhase { frame: frame(), phase: e1.clone() })),
            ("set_scale", Instruction::SetScale(SetScale { frame: frame(), scale: e1.clone() })),
            ("shift_phase", Instruction::ShiftPhase(ShiftPhase { frame: frame(), phase: e1.clone() })),
            ("set_frequency", Instruction::SetFrequency(SetFrequency { frame: frame(), frequency: e1.clone() })),
            ("shift_frequency", Instruction::ShiftFrequency(ShiftFrequency { frame: frame(), frequency: e1.clone() })),
            (
                "raw_capture",
                Instruction::RawCapture(RawCapture {
                    blocking: true,
                    frame: frame(),
                    duration: e1.clone(),
                    memory_reference: target.clone(),
                }),
            ),
        ];
        let double: Vec<(&str, Instruction)> = vec![
            (
                "gate",
                Instruction::Gate(Gate {
                    name: "G".to_string(),
                    parameters: vec![e1.clone(), e2.clone()],
                    qubits: vec![Qubit::Fixed(0)],
                    modifiers: vec![],
                }),
            ),
            ("pulse", Instruction::Pulse(Pulse { blocking: true, frame: frame(), waveform: waveform.clone() })),
            (
                "capture",
                Instruction::Capture(Capture {
                    blocking: true,
                    frame: frame(),
                    memory_reference: target.clone(),
                    waveform: waveform.clone(),
                }),
            ),
        ];
        let reads = |i: &Instruction| match DefaultHandler.memory_accesses(&ExternSignatureMap::default(), i) {
            Ok(a) => {
                let mut v: Vec<String> = a.reads.into_iter().collect();
                v.sort();
                list(v.into_iter().map(st).collect())
            }
            Err(e) => tagged("err", vec![st(e.to_string())]),
        };
        let mut out = Vec::new();
        for (n, i) in &single {
            out.push(tagged("single", vec![atom(*n), reads(i)]));
        }
        for (n, i) in &double {
            out.push(tagged("double", vec![atom(*n), reads(i)]));
        }
        // WaveformInvocation::memory_references(): collect, count, for_each, next() then for_each
        let collected: Vec<_> = waveform.memory_references().collect();
        out.push(tagged("wf_collect", vec![list(collected.iter().map(|r| memref_to_sexp(r)).collect())]));
        out.push(tagged("wf_count", vec![nat(waveform.memory_references().count() as u64)]));
        let mut v = Vec::new();
        waveform.memory_references().for_each(|r| v.push(memref_to_sexp(r)));
        out.push(tagged("wf_for_each", vec![list(v)]));
        let mut it = waveform.memory_references();
        let first = it.next().map(memref_to_sexp);
        let mut rest = Vec::new();
        it.for_each(|r| rest.push(memref_to_sexp(r)));
        out.push(tagged("wf_next_for_each", vec![list(first.into_iter().chain(rest).collect())]));
        tagged("instr", out)
    });
}

/// `(c13text e)`: text routes.  `MemoryReference` Display → `FromStr` for every reference of `e`, and
/// `Expression` `to_quil` → `from_str` → `memory_references()` (`(na)` when it does not print or re-parse: that is
/// C03's business, here only the references of a re-parsed expression are compared).
fn emit_text(ctx: &mut Ctx, e: &Expression) {
    use quil_rs::instruction::MemoryReference;
    use quil_rs::quil::Quil;
    use std::str::FromStr;
    ctx.case(tagged("c13text", vec![expr_to_sexp(e)]), || {
        let round: Vec<Sexp> = e
            .memory_references()
            .map(|r| {
                let text = r.to_string();
                let quil = r.to_quil().unwrap_or_default();
                match MemoryReference::from_str(&text) {
                    Ok(back) => tagged("ok", vec![memref_to_sexp(&back), boolean(text == quil)]),
                    Err(err) => {
                        let _ = (err.to_string(), format!("{err:?}"));
                        tagged("err", vec![st(text)])
                    }
                }
            })
            .collect();
        let reparsed = match e.to_quil() {
            Ok(text) => match Expression::from_str(&text) {
                Ok(back) => tagged("refs", vec![list(back.memory_references().map(memref_to_sexp).collect())]),
                Err(err) => {
                    let _ = (err.to_string(), format!("{err:?}"));
                    tagged("na", vec![atom("parse")])
                }
            },
            Err(_) => tagged("na", vec![atom("print")]),
        };
        tagged("text", vec![list(round), reparsed])
    });
}

fn c(re: f64, im: f64) -> Complex64 {
    Complex64::new(re, im)
}

/// the fixed partial assignments of the exhaustive streams
fn rho_subsets() -> Vec<VarEnv> {
    let x = ("x".to_string(), c(1.5, 0.25));
    let y = ("y".to_string(), c(-0.75, 2.0));
    vec![vec![], vec![x.clone()], vec![y.clone()], vec![x, y]]
}
fn sigma_subsets() -> Vec<Subst> {
    let x = ("x".to_string(), num(3.0, 0.0));
    let y = ("y".to_string(), num(0.5, -1.0));
    vec![vec![], vec![x.clone()], vec![y.clone()], vec![x, y]]
}
fn mem_configs() -> Vec<MemEnv> {
    let a_opts: Vec<Option<Vec<f64>>> = vec![None, Some(vec![0.25]), Some(vec![0.25, -2.0])];
    let b_opts: Vec<Option<Vec<f64>>> = vec![None, Some(vec![4.0]), Some(vec![4.0, 1e-3])];
    let mut out = Vec::new();
    for a in &a_opts {
        for b in &b_opts {
            let mut m = Vec::new();
            if let Some(a) = a {
                m.push(("a".to_string(), a.clone()));
            }
            if let Some(b) = b {
                m.push(("b".to_string(), b.clone()));
            }
            out.push(m);
        }
    }
    out
}

fn corpus(ctx: &mut Ctx) {
    use ExpressionFunction::*;
    use InfixOperator as I;
    let rho: VarEnv = vec![("beta".into(), c(1.0, 0.0)), ("x".into(), c(2.0, -1.0))];
    let mu: MemEnv = vec![("theta".into(), vec![2.0]), ("a".into(), vec![0.5, 1.5, -3.0]), ("empty".into(), vec![])];
    let none: Subst = vec![];
    // the doc example of `evaluate`
    emit(ctx, &infix(var("beta"), I::Plus, addr("theta", 0)), &rho, &mu, &none);
    // missing variable / region / index just past the end / huge index / empty region
    emit(ctx, &var("gamma"), &rho, &mu, &none);
    emit(ctx, &addr("nope", 0), &rho, &mu, &none);
    emit(ctx, &addr("a", 3), &rho, &mu, &none);
    emit(ctx, &addr("a", 2), &rho, &mu, &none);
    emit(ctx, &addr("a", u64::MAX), &rho, &mu, &none);
    emit(ctx, &addr("empty", 0), &rho, &mu, &none);
    // left operand fails / right operand fails / both
    emit(ctx, &infix(var("gamma"), I::Star, addr("a", 0)), &rho, &mu, &none);
    emit(ctx, &infix(addr("a", 0), I::Star, var("gamma")), &rho, &mu, &none);
    emit(ctx, &infix(var("gamma"), I::Star, addr("a", 9)), &rho, &mu, &none);
    // a variable and a region with the same name are different things
    emit(ctx, &infix(var("a"), I::Plus, addr("x", 0)), &rho, &mu, &none);
    emit(ctx, &infix(var("x"), I::Plus, addr("a", 0)), &rho, &mu, &none);
    // prefix plus / minus, every function, every operator on complex values
    for f in ALL_FUNCTIONS {
        emit(ctx, &call(f, var("x")), &rho, &mu, &none);
        emit(ctx, &call(f, prefix(PrefixOperator::Minus, addr("a", 2))), &rho, &mu, &none);
    }
    for o in ALL_INFIX {
        emit(ctx, &infix(var("x"), o, num(0.5, 2.0)), &rho, &mu, &none);
        emit(ctx, &infix(addr("a", 2), o, var("x")), &rho, &mu, &none);
    }
    emit(ctx, &prefix(PrefixOperator::Plus, var("x")), &rho, &mu, &none);
    emit(ctx, &prefix(PrefixOperator::Minus, prefix(PrefixOperator::Minus, var("x"))), &rho, &mu, &none);
    // non-finite values are values, not errors
    emit(ctx, &infix(real(1.0), I::Slash, real(0.0)), &rho, &mu, &none);
    emit(ctx, &infix(real(0.0), I::Slash, real(0.0)), &rho, &mu, &none);
    emit(ctx, &infix(real(0.0), I::Caret, real(0.0)), &rho, &mu, &none);
    emit(ctx, &infix(real(0.0), I::Caret, real(-1.0)), &rho, &mu, &none);
    emit(ctx, &call(SquareRoot, real(-4.0)), &rho, &mu, &none);
    emit(ctx, &call(SquareRoot, num(-4.0, -0.0)), &rho, &mu, &none);
    emit(ctx, &call(Exponent, real(1e6)), &rho, &mu, &none);
    emit(ctx, &call(Exponent, num(f64::NEG_INFINITY, f64::INFINITY)), &rho, &mu, &none);
    emit(ctx, &call(Cis, Expression::PiConstant()), &rho, &mu, &none);
    // the expression of quil-rs's own `expr_references` test (memory.rs), built by hand
    let big = {
        let fr = |i| addr("func_ref", i);
        let ir = |i, o| infix(addr("infix_ref", i), o, addr("infix_ref", i));
        let mut e = call(Cis, fr(0));
        let parts: Vec<(InfixOperator, Expression)> = vec![
            (I::Caret, call(Cosine, fr(1))),
            (I::Plus, call(Exponent, fr(2))),
            (I::Minus, call(Sine, fr(3))),
            (I::Slash, call(SquareRoot, fr(4))),
            (I::Star, ir(0, I::Caret)),
            (I::Caret, ir(1, I::Plus)),
            (I::Plus, ir(2, I::Minus)),
            (I::Minus, ir(3, I::Slash)),
            (I::Slash, ir(4, I::Star)),
            (I::Star, real(1.0)),
            (I::Caret, Expression::PiConstant()),
            (I::Plus, prefix(PrefixOperator::Minus, addr("prefix_ref", 0))),
            (I::Minus, var("variable")),
        ];
        for (o, p) in parts {
            e = infix(e, o, p);
        }
        e
    };
    emit(ctx, &big, &rho, &mu, &none);
    // deep chains: left-nested (stack stays small) and right-nested, 300 levels
    let mut left = addr("a", 0);
    let mut right = addr("a", 0);
    for i in 1..300u64 {
        left = infix(left, I::Plus, addr("a", i % 3));
        right = infix(addr("a", i % 3), I::Plus, right);
    }
    emit(ctx, &left, &rho, &mu, &none);
    emit(ctx, &right, &rho, &mu, &none);
    let mut unary = addr("a", 1);
    for i in 0..200 {
        unary = if i % 2 == 0 { call(Cosine, unary) } else { prefix(PrefixOperator::Minus, unary) };
    }
    emit(ctx, &unary, &rho, &mu, &none);
    // substitution by expressions: not re-substituted, may mention other variables / addresses / be unevaluable
    let e = infix(var("x"), I::Star, infix(var("y"), I::Plus, var("z")));
    let s1: Subst = vec![("x".into(), infix(var("x"), I::Plus, var("y"))), ("y".into(), addr("a", 1))];
    emit(ctx, &e, &rho, &mu, &s1);
    let s2: Subst = vec![("z".into(), var("x")), ("y".into(), var("unbound"))];
    emit(ctx, &e, &rho, &mu, &s2);
    let s3: Subst = vec![("x".into(), addr("a", 7)), ("y".into(), real(1.0)), ("z".into(), real(2.0))];
    emit(ctx, &e, &rho, &mu, &s3);
    let s4: Subst = vec![("x".into(), num(1.0, 1.0)), ("y".into(), real(1.0)), ("z".into(), real(2.0))];
    emit(ctx, &e, &vec![], &vec![], &s4);
    // hash-consing witness: children are interned with an equality that identifies +0.0 and -0.0, so the
    // substituted `-4+0i` is replaced by the live, "equal" `-4-0i` and lands on the other side of sqrt's branch cut
    let w = infix(call(SquareRoot, num(-4.0, -0.0)), I::Plus, call(SquareRoot, var("t")));
    emit(ctx, &w, &vec![], &vec![], &vec![("t".into(), num(-4.0, 0.0))]);
    let w2 = infix(infix(real(1.0), I::Slash, real(-0.0)), I::Plus, infix(real(1.0), I::Slash, var("t")));
    emit(ctx, &w2, &vec![], &vec![], &vec![("t".into(), real(0.0))]);
    // the iterator consumed through every std route (fresh and mid-iteration): the coordinator's example
    // ((a[0]+a[1])*b[2]) - sin(c[7]), the memory.rs test expression, the deep chains, expressions without refs
    let ex = infix(
        infix(infix(addr("a", 0), I::Plus, addr("a", 1)), I::Star, addr("b", 2)),
        I::Minus,
        call(Sine, addr("c", 7)),
    );
    for t in [&ex, &big, &left, &right, &unary, &real(1.0), &var("x"), &addr("a", 5), &infix(real(1.0), I::Plus, addr("z", 9))] {
        emit_routes(ctx, t);
    }
    // substituting a variable that does not occur, and one that ρ also binds (σ wins)
    emit(ctx, &var("x"), &rho, &mu, &vec![("x".into(), real(7.0)), ("q".into(), real(8.0))]);
}

fn exhaustive(ctx: &mut Ctx, alphabet: &Alphabet, depth: usize, skip_below: usize, all_mem: bool, vars: &[&str]) {
    let rhos: Vec<VarEnv> =
        rho_subsets().into_iter().filter(|r| r.iter().all(|(k, _)| vars.contains(&k.as_str()))).collect();
    let sigmas: Vec<Subst> =
        sigma_subsets().into_iter().filter(|r| r.iter().all(|(k, _)| vars.contains(&k.as_str()))).collect();
    let mems = mem_configs();
    let trees = all_exprs(alphabet, depth);
    let mut k = 0usize;
    for (ti, e) in trees.iter().enumerate() {
        if qvh::expr::depth(e) < skip_below {
            continue;
        }
        emit_routes(ctx, e);
        emit_text(ctx, e);
        emit_instr(ctx, e, &trees[(ti * 7 + 3) % trees.len()]);
        emit_seq(
            ctx,
            e,
            &rhos[ti % rhos.len()],
            &mems[ti % mems.len()],
            &sigmas[(ti / 2) % sigmas.len()],
            &sigmas[(ti / 3 + 1) % sigmas.len()],
        );
        for rho in &rhos {
            for sigma in &sigmas {
                if all_mem {
                    for mu in &mems {
                        emit(ctx, e, rho, mu, sigma);
                    }
                } else {
                    emit(ctx, e, rho, &mems[k % mems.len()], sigma);
                    k += 1;
                }
            }
        }
    }
}

/// names that some stage of quil-rs treats specially (constants, functions, the imaginary unit, keywords), in
/// several letter cases — used as VARIABLE names and as REGION names through the API
const SPECIAL_NAMES: [&str; 24] = [
    "pi", "PI", "Pi", "i", "I", "sin", "SIN", "Sin", "cos", "COS", "sqrt", "SQRT", "exp", "EXP", "cis", "CIS", "e", "E", "inf",
    "nan", "NaN", "x", "BIT", "theta-1",
];
/// indices around vector lengths and integer boundaries
const SPECIAL_INDICES: [u64; 10] =
    [0, 1, 2, 3, 4, 1 << 31, 1 << 32, 1 << 53, 1 << 63, u64::MAX];

fn random_stream(ctx: &mut Ctx, n: usize) {
    let mut rng = ctx.rng(13);
    const PLAIN_VARS: [&str; 4] = ["x", "y", "z", "theta"];
    const PLAIN_REGIONS: [&str; 4] = ["a", "b", "theta", "x"];
    let mut previous: Option<Expression> = None;
    for case_no in 0..n {
        // names of this case: plain, or (every 4th case) names some stage treats specially, in several cases
        let special = case_no % 4 == 3;
        let mut vars: Vec<&str> =
            if special { (0..4).map(|_| *rng.pick(&SPECIAL_NAMES)).collect() } else { PLAIN_VARS.to_vec() };
        let mut regions: Vec<&str> =
            if special { (0..4).map(|_| *rng.pick(&SPECIAL_NAMES)).collect() } else { PLAIN_REGIONS.to_vec() };
        // one entry per key in the maps built below
        vars.sort();
        vars.dedup();
        regions.sort();
        regions.dedup();
        // leaf alphabet of this case
        let mut leaves = vec![Expression::PiConstant()];
        for _ in 0..3 {
            leaves.push(num(random_f64(&mut rng), if rng.chance(1, 2) { 0.0 } else { random_f64(&mut rng) }));
        }
        for v in &vars {
            if rng.chance(2, 3) {
                leaves.push(var(v));
            }
        }
        for r in &regions {
            if rng.chance(2, 3) {
                leaves.push(addr(r, rng.below(4)));
                leaves.push(addr(r, if rng.chance(1, 6) { *rng.pick(&SPECIAL_INDICES) } else { rng.below(3) }));
            }
        }
        let alphabet = Alphabet::full(leaves);
        let max_depth = 1 + rng.below(7) as usize;
        let e = random_expr(&mut rng, &alphabet, max_depth);
        let mut rho: VarEnv = vec![];
        let mut sigma: Subst = vec![];
        let mut sigma2: Subst = vec![];
        for v in &vars {
            if rng.chance(1, 2) {
                rho.push((v.to_string(), c(random_f64(&mut rng), random_f64(&mut rng))));
            }
            if rng.chance(1, 2) {
                let value = if rng.chance(4, 5) {
                    num(random_f64(&mut rng), if rng.chance(1, 2) { 0.0 } else { random_f64(&mut rng) })
                } else {
                    random_expr(&mut rng, &alphabet, 2)
                };
                sigma.push((v.to_string(), value));
            }
            if rng.chance(1, 2) {
                let value = if rng.chance(1, 2) { real(random_f64(&mut rng)) } else { random_expr(&mut rng, &alphabet, 1) };
                sigma2.push((v.to_string(), value));
            }
        }
        // entries for variables that do not occur at all
        if rng.chance(1, 3) {
            sigma.push(("absent".to_string(), real(9.0)));
            rho.push(("unused".to_string(), c(1.0, 1.0)));
        }
        let mut mu: MemEnv = vec![];
        for r in &regions {
            if rng.chance(3, 4) {
                let len = rng.below(5) as usize;
                mu.push((r.to_string(), (0..len).map(|_| random_f64(&mut rng)).collect()));
            }
        }
        if rng.chance(1, 3) {
            mu.push(("extra".to_string(), vec![1.0]));
        }
        emit(ctx, &e, &rho, &mu, &sigma);
        if ctx.quick() || case_no % 4 == 0 {
            emit_routes(ctx, &e);
        }
        if case_no % 4 == 1 || special {
            emit_seq(ctx, &e, &rho, &mu, &sigma, &sigma2);
            emit_text(ctx, &e);
            if let Some(p) = &previous {
                emit_instr(ctx, &e, p);
            }
        }
        previous = Some(e);
    }
}

/// Tagged stream for the known finding C13/interning-merges-signed-zero: numeric leaves of the expression
/// and substituted numbers that differ only in the sign of a zero component, around operations that see the
/// sign (sqrt's branch cut, division by zero, powc's ln).  Every disagreement here must carry the kf: tag.
fn signed_zero_stream(ctx: &mut Ctx, n: usize) {
    use ExpressionFunction::*;
    let mut rng = ctx.rng(1313);
    for _ in 0..n {
        let mut leaves = vec![var("t"), var("u")];
        for _ in 0..3 {
            let re = if rng.chance(1, 2) { -4.0 } else { random_f64_signed_zero(&mut rng) };
            leaves.push(num(re, random_f64_signed_zero(&mut rng)));
        }
        let alphabet = Alphabet {
            leaves,
            functions: vec![SquareRoot, Exponent],
            prefix: vec![PrefixOperator::Minus],
            infix: vec![InfixOperator::Plus, InfixOperator::Slash, InfixOperator::Caret],
        };
        let d = 1 + rng.below(3) as usize;
        let e = random_expr(&mut rng, &alphabet, d);
        let mut sigma: Subst = vec![];
        for v in ["t", "u"] {
            if rng.chance(3, 4) {
                let re = if rng.chance(1, 2) { -4.0 } else { random_f64_signed_zero(&mut rng) };
                sigma.push((v.to_string(), num(re, random_f64_signed_zero(&mut rng))));
            }
        }
        emit(ctx, &e, &vec![], &vec![], &sigma);
    }
}

fn main() {
    main_with(run)
}

fn run(ctx: &mut Ctx) {
    use ExpressionFunction::*;
    // 1. corpus
    corpus(ctx);

    // 2. exhaustive small trees × all partial assignments
    // (a) depth ≤ 1, every operator, 8 leaves, × 4 ρ × 4 σ × 9 memory configurations
    let full = Alphabet::full(vec![
        real(2.0),
        num(0.5, 1.5),
        Expression::PiConstant(),
        var("x"),
        var("y"),
        addr("a", 0),
        addr("a", 1),
        addr("b", 0),
    ]);
    exhaustive(ctx, &full, 1, 0, true, &["x", "y"]);
    // (b) depth 2 over a reduced alphabet × 4 ρ × 4 σ, memory configuration cycled
    let small = Alphabet {
        leaves: vec![var("x"), var("y"), addr("a", 0), real(2.0)],
        functions: vec![Sine],
        prefix: vec![PrefixOperator::Minus],
        infix: vec![InfixOperator::Plus, InfixOperator::Caret],
    };
    let mid = Alphabet {
        leaves: vec![real(2.0), Expression::PiConstant(), var("x"), var("y"), addr("a", 0), addr("b", 1)],
        functions: vec![Sine, SquareRoot],
        prefix: vec![PrefixOperator::Minus],
        infix: vec![InfixOperator::Plus, InfixOperator::Caret, InfixOperator::Slash],
    };
    if ctx.quick() {
        exhaustive(ctx, &small, 2, 2, false, &["x", "y"]);
    } else {
        exhaustive(ctx, &mid, 2, 2, false, &["x", "y"]);
        // (c) depth 3 over a tiny alphabet × 2 ρ × 2 σ
        let tiny = Alphabet {
            leaves: vec![var("x"), addr("a", 1), real(2.0)],
            functions: vec![],
            prefix: vec![PrefixOperator::Minus],
            infix: vec![InfixOperator::Star],
        };
        exhaustive(ctx, &tiny, 3, 3, false, &["x"]);
    }

    // 3. seeded random trees to depth 7, random partial assignments, 20 % expression-valued substitutions
    random_stream(ctx, if ctx.quick() { 20_000 } else { 300_000 });

    // 4. the tagged signed-zero stream (known finding C13/interning-merges-signed-zero)
    signed_zero_stream(ctx, if ctx.quick() { 500 } else { 5_000 });
}
