//! C04 — programs built through the API serialize to text that parses back.
//!
//! Every case is a list of instructions BUILT THROUGH THE PUBLIC CONSTRUCTORS (`::new` / `try_new`, so the
//! constructors' own validation is the real one; a rejected candidate is re-drawn), put into a
//! `Program::from_instructions`.  Reported:
//!   input   (prog STREAM (instr I…))                       the instructions as given to from_instructions
//!   output  (out (listing I…)                              program.to_instructions()
//!                (print (ok TOK…) | (err qubit|label))     lex_tokens(program.to_quil())
//!                (reparse (ok (listing I…)) | (err) | (none))  Program::from_str(text).to_instructions()
//!                (debug TOK…)                              lex_tokens(mask(program.to_quil_or_debug()))
//!                (each ok|qubit|label …)                   Instruction::to_quil of every listed instruction
//!                (always (NAME BOOL)…)                     sibling routes that must agree for EVERY program
//!                (wf (NAME BOOL)…))                        sibling routes that must agree for well-formed,
//!                                                          placeholder-free programs (see `siblings`)
//! Every error met (constructor validation, ToQuilError, parse errors) is formatted under catch_unwind.
//! `mask` replaces the `Debug` text of a placeholder (which contains a pointer) by `PH` / `@PH`.
use indexmap::IndexMap;
use num_complex::Complex64;
use qvh::ast::Enc;
use qvh::expr;
use qvh::lexwire::token_sexp;
use qvh::*;
use quil_rs::expression::{Expression, ExpressionFunction, InfixOperator, PrefixOperator};
use quil_rs::instruction::*;
use quil_rs::quil::{Quil, ToQuilError};
use quil_rs::verif_hooks;
use quil_rs::Program;
use std::str::FromStr;

fn toks_list(tag: &str, text: &str) -> Sexp {
    let mut v = vec![atom(tag)];
    match verif_hooks::lex_tokens(text) {
        Ok(tokens) => v.extend(tokens.iter().map(token_sexp)),
        Err(_) => v.push(tagged("lexerr", vec![st(text)])),
    }
    list(v)
}

/// replace `Placeholder(QubitPlaceholder(0x…))` by `PH` and `Placeholder(TargetPlaceholder("…"))` by `PH`
fn mask(text: &str) -> String {
    let mut out = String::new();
    let mut rest = text;
    loop {
        let q = rest.find("Placeholder(QubitPlaceholder(");
        let t = rest.find("Placeholder(TargetPlaceholder(\"");
        let (at, is_q) = match (q, t) {
            (None, None) => break,
            (Some(a), None) => (a, true),
            (None, Some(b)) => (b, false),
            (Some(a), Some(b)) => {
                if a < b {
                    (a, true)
                } else {
                    (b, false)
                }
            }
        };
        out.push_str(&rest[..at]);
        out.push_str("PH");
        let tail = &rest[at..];
        let end = if is_q {
            tail.find("))").map(|e| e + 2)
        } else {
            tail.find("\"))").map(|e| e + 3)
        };
        match end {
            Some(e) => rest = &tail[e..],
            None => {
                rest = "";
                break;
            }
        }
    }
    out.push_str(rest);
    out
}

fn listing(is: &[Instruction], enc: &mut Enc, tag: &str) -> Sexp {
    let mut v = vec![atom(tag)];
    v.extend(is.iter().map(|i| enc.instruction(i)));
    list(v)
}

fn run_case(ctx: &mut Ctx, stream: &str, is: Vec<Instruction>) {
    // ONE encoder for input and output, so that placeholder numbers agree
    let mut enc = Enc::new();
    let input = tagged("prog", vec![atom(stream), listing(&is, &mut enc, "instr")]);
    ctx.case(input, move || {
        let p = Program::from_instructions(is.clone());
        let l = p.to_instructions();
        let lst = listing(&l, &mut enc, "listing");
        let debug = toks_list("debug", &mask(&p.to_quil_or_debug()));
        let (print, reparse) = match p.to_quil() {
            Ok(text) => {
                let pr = tagged("print", vec![toks_list("ok", &text)]);
                let rp = match Program::from_str(&text) {
                    Ok(p2) => {
                        let l2 = p2.to_instructions();
                        tagged("reparse", vec![tagged("ok", vec![listing(&l2, &mut Enc::new(), "listing")])])
                    }
                    Err(_) => tagged("reparse", vec![tagged("err", vec![])]),
                };
                (pr, rp)
            }
            Err(e) => {
                let k = match e {
                    ToQuilError::UnresolvedLabelPlaceholder => "label",
                    ToQuilError::UnresolvedQubitPlaceholder => "qubit",
                    _ => "format",
                };
                (tagged("print", vec![tagged("err", vec![atom(k)])]), tagged("reparse", vec![tagged("none", vec![])]))
            }
        };
        let (each, always, wf) = siblings(&is, &p);
        tagged("out", vec![lst, print, reparse, debug, each, always, wf])
    });
}

fn fmt_err<E: std::fmt::Display + std::fmt::Debug>(e: &E) {
    std::hint::black_box(format!("{e}").len() + format!("{e:#}").len() + format!("{e:?}").len());
}

/// `each`: the outcome of `Instruction::to_quil` for every listed instruction.
/// `always` (must hold for every program): printing twice gives the same result; `to_quil_or_debug` equals `to_quil`
/// when that succeeds; the program text is the concatenation of the instruction texts; into_/to_instructions agree;
/// from_instructions == add_instruction loop == add_instructions == From<Vec>; splitting the list anywhere and
/// adding the two programs with `+` prints the same (debug) text; the program-level error is the first
/// instruction-level error.
/// `wf` (must hold for well-formed placeholder-free programs): every instruction's own text parses with
/// Instruction::from_str and re-prints identically; the printed program re-parses to P' whose text2 re-parses to an
/// equal program with text3 == text2 (C02 on the printed text).
fn siblings(is: &[Instruction], p: &Program) -> (Sexp, Sexp, Sexp) {
    let l = p.to_instructions();
    let mut each = vec![atom("each")];
    let mut concat = String::new();
    let mut first_err: Option<&'static str> = None;
    let mut ifs = true;
    for i in &l {
        match i.to_quil() {
            Ok(t) => {
                each.push(atom("ok"));
                match Instruction::from_str(&t) {
                    Ok(j) => {
                        // the re-parsed instruction is a fixed point of print -> parse (its expressions are in the
                        // parser's normal form; the first text may differ from the second in layout)
                        match j.to_quil() {
                            Ok(t2) => match Instruction::from_str(&t2) {
                                Ok(k) => {
                                    if k != j || k.to_quil().ok().as_deref() != Some(t2.as_str()) {
                                        ifs = false;
                                    }
                                }
                                Err(_) => ifs = false,
                            },
                            Err(_) => ifs = false,
                        }
                    }
                    Err(e) => {
                        fmt_err(&e);
                        ifs = false;
                    }
                }
                concat.push_str(&t);
                concat.push('\n');
            }
            Err(e) => {
                fmt_err(&e);
                let k = match e {
                    ToQuilError::UnresolvedLabelPlaceholder => "label",
                    ToQuilError::UnresolvedQubitPlaceholder => "qubit",
                    _ => "format",
                };
                each.push(atom(k));
                if first_err.is_none() {
                    first_err = Some(k);
                }
            }
        }
    }
    let mut always: Vec<Sexp> = vec![atom("always")];
    let mut wf: Vec<Sexp> = vec![atom("wf")];
    {
        let mut put = |name: &str, b: bool| always.push(list(vec![atom(name), boolean(b)]));
        let r1 = p.to_quil();
        let r2 = p.to_quil();
        put("twice", r1 == r2 && p.to_quil_or_debug() == p.to_quil_or_debug());
        match &r1 {
            Ok(t1) => {
                put("debug-eq", &p.to_quil_or_debug() == t1);
                put("instr-concat", &concat == t1 && first_err.is_none());
            }
            Err(e) => {
                fmt_err(e);
                let k = match e {
                    ToQuilError::UnresolvedLabelPlaceholder => "label",
                    ToQuilError::UnresolvedQubitPlaceholder => "qubit",
                    _ => "format",
                };
                put("first-error", first_err == Some(k));
            }
        }
        put("into-eq-to", p.clone().into_instructions() == l);
        let mut looped = Program::new();
        for i in is {
            looped.add_instruction(i.clone());
        }
        let mut bulk = Program::new();
        bulk.add_instructions(is.to_vec());
        put("add-loop", &looped == p && looped.to_quil_or_debug() == p.to_quil_or_debug());
        put("add-bulk", &bulk == p);
        put("from-vec", &Program::from(is.to_vec()) == p);
        let mut plus_ok = true;
        for cut in [0, is.len() / 2, is.len()] {
            let a = Program::from_instructions(is[..cut].to_vec());
            let b = Program::from_instructions(is[cut..].to_vec());
            let sum = a + b;
            if sum.to_quil_or_debug() != p.to_quil_or_debug() || sum.to_quil().ok() != p.to_quil().ok() {
                plus_ok = false;
            }
        }
        put("plus-split", plus_ok);
    }
    {
        let mut put = |name: &str, b: bool| wf.push(list(vec![atom(name), boolean(b)]));
        put("instr-from-str", ifs);
        if let Ok(t1) = p.to_quil() {
            match Program::from_str(&t1) {
                Ok(p2) => match p2.to_quil() {
                    Ok(t2) => {
                        put("info-text2-eq-text1", t2 == t1);
                        match Program::from_str(&t2) {
                            Ok(p3) => put("trip3", p3 == p2 && p3.to_quil().map(|t3| t3 == t2).unwrap_or(false)),
                            Err(e) => {
                                fmt_err(&e);
                                put("trip3", false)
                            }
                        }
                    }
                    Err(e) => {
                        fmt_err(&e);
                        put("trip3", false)
                    }
                },
                Err(e) => {
                    fmt_err(&e);
                    put("trip3", false)
                }
            }
        }
    }
    (list(each), list(always), list(wf))
}

// ------------------------------------------------------------------------------------------------
// generator
// ------------------------------------------------------------------------------------------------
const NAMES: &[&str] = &[
    "a", "b", "q0", "ro", "theta", "x_1", "foo-bar", "G2", "my_gate", "Theta", "w", "iq", "e1", "amp", "_u", "pi", "i",
    "sin", "H", "RX", "inf", "NaN", "PH", "cis", "a--b", "I", "XY",
    // reserved words / template names / gate names / constants in other letter cases: identifiers to the lexer
    "dagger", "Dagger", "matrix", "As", "sharing", "Offset", "pauli-sum", "defgate", "measure", "Mut",
    "flat", "gaussian", "drag_gaussian", "erf_square", "FLAT", "h", "Rx", "cnot", "PI", "Pi", "SIN", "Sqrt", "Exp",
    "extern", "bit", "Real",
];
const GATE_NAMES: &[&str] = &["RX", "H", "CNOT", "my_gate", "foo-bar", "G2", "u3", "i", "pi"];
const STRINGS: &[&str] = &[
    "rf", "ro", "xy", "a b", "a\"b", "a\\b", "", "#x", "q0_rf", "é", ";", "a\nb", "\"", "\t", "a\rb", "\u{0}", "\u{1}",
    "\u{7f}", "\u{1b}[0m", "    ", "\n", "x\n    y", "\u{85}", "\\n", "\\", "a\\\"",
];
const REALS: &[f64] = &[
    0.0, 1.0, 2.0, -1.0, -3.0, 0.5, -0.25, 1e15, 1e16, 999999999999999.0, 1e-5, 1e-6, 1e300, -1e300, 1e-300, 5e-324,
    3.141592653589793, 0.1, 123456789012345678.0, 4294967296.0, 1.7976931348623157e308, 100.0, 1e21, 1e22,
    -2.5, 6.02e23, 1e14,
    // band boundaries of the number printers / the lexer
    9.999999999999999e-6, 0.00001, 0.000009, 1e-4, 99999999999999.0, 999999999999999.9, 1000000000000000.0,
    9999999999999998.0, 9007199254740992.0, 9007199254740994.0, 9223372036854775808.0, 18446744073709551615.0,
    18446744073709551616.0, 3.6893488147419103e19, 1e19, 9.9e19, 1e20, 99999999999999999999.0, 1.0000000000000002,
    2.2250738585072014e-308, 2.225073858507201e-308, 1e-323, 4294967296.0, 2147483648.0, -9223372036854775808.0,
    -18446744073709551616.0, -1e19, -1e-5, 65536.0, 4503599627370496.0,
];

struct G<'a> {
    r: &'a mut Rng,
    /// may this case contain placeholders?
    ph: bool,
    qph: Vec<QubitPlaceholder>,
    tph: Vec<TargetPlaceholder>,
}

impl G<'_> {
    fn name(&mut self) -> String {
        self.r.pick(NAMES).to_string()
    }
    fn string(&mut self) -> String {
        self.r.pick(STRINGS).to_string()
    }
    fn real(&mut self) -> f64 {
        if self.r.chance(1, 4) {
            let x = expr::random_f64(self.r);
            if x.is_finite() {
                x
            } else {
                1.0
            }
        } else if self.r.chance(1, 5) {
            self.r.range(-20, 20) as f64
        } else {
            *self.r.pick(REALS)
        }
    }
    fn lit_real(&mut self) -> f64 {
        // literal operands may also be -0.0
        if self.r.chance(1, 20) {
            -0.0
        } else {
            self.real()
        }
    }
    fn complex(&mut self) -> Complex64 {
        match self.r.below(6) {
            0 => Complex64::new(self.real(), 0.0),
            1 => Complex64::new(0.0, self.real()),
            2 => Complex64::new(0.0, 0.0),
            _ => Complex64::new(self.real(), self.real()),
        }
    }
    fn int(&mut self) -> i64 {
        match self.r.below(9) {
            0 => i64::MIN,
            1 => i64::MAX,
            2 => 0,
            3 => -1,
            4 => *self.r.pick(&[
                i64::MIN + 1,
                i64::MAX - 1,
                -(1 << 53),
                1 << 53,
                (1 << 53) + 1,
                -(1 << 53) - 1,
                (1 << 62) + 1,
                -(1 << 62) - 3,
                123_456_789_012_345_679,
                -(1 << 31),
                1 << 31,
                (1 << 32) - 1,
                -(1 << 32),
                1_000_000_000_000_000,
                -999_999_999_999_999,
            ]),
            _ => self.r.range(-1000, 1000),
        }
    }
    fn uint(&mut self) -> u64 {
        match self.r.below(9) {
            0 => u64::MAX,
            1 => 0,
            2 => 1 << 63,
            3 => *self.r.pick(&[
                1u64,
                (1 << 31) - 1,
                1 << 31,
                u32::MAX as u64,
                1 << 32,
                1 << 53,
                (1 << 53) + 1,
                (1 << 63) - 1,
                u64::MAX - 1,
                999_999_999_999_999,
                1_000_000_000_000_000,
                10_000_000_000_000_000,
            ]),
            _ => self.r.below(12),
        }
    }
    fn qubit(&mut self) -> Qubit {
        if self.ph && self.r.chance(1, 4) {
            if self.qph.is_empty() || self.r.chance(1, 2) {
                self.qph.push(QubitPlaceholder::default());
            }
            return Qubit::Placeholder(self.r.pick(&self.qph).clone());
        }
        if self.r.chance(1, 4) {
            Qubit::Variable(self.name())
        } else {
            Qubit::Fixed(self.r.below(6))
        }
    }
    fn qubits(&mut self, min: u64, max: u64) -> Vec<Qubit> {
        (0..min + self.r.below(max - min + 1)).map(|_| self.qubit()).collect()
    }
    fn target(&mut self) -> Target {
        if self.ph && self.r.chance(1, 3) {
            if self.tph.is_empty() || self.r.chance(1, 2) {
                let base = self.name();
                self.tph.push(TargetPlaceholder::new(base));
            }
            return Target::Placeholder(self.r.pick(&self.tph).clone());
        }
        Target::Fixed(self.name())
    }
    fn mref(&mut self) -> MemoryReference {
        MemoryReference::new(self.name(), self.uint())
    }
    fn expr(&mut self, depth: u32) -> Expression {
        if depth == 0 || self.r.chance(2, 5) {
            return match self.r.below(7) {
                0 => Expression::PiConstant(),
                1 => Expression::Variable(self.name()),
                2 => Expression::Address(self.mref()),
                3 => Expression::Number(Complex64::new(self.real(), 0.0)),
                _ => Expression::Number(self.complex()),
            };
        }
        match self.r.below(8) {
            0 => expr::prefix(PrefixOperator::Minus, self.expr(depth - 1)),
            1 => expr::prefix(PrefixOperator::Plus, self.expr(depth - 1)),
            2 => {
                let f = *self.r.pick(&[
                    ExpressionFunction::Cis,
                    ExpressionFunction::Cosine,
                    ExpressionFunction::Exponent,
                    ExpressionFunction::Sine,
                    ExpressionFunction::SquareRoot,
                ]);
                expr::call(f, self.expr(depth - 1))
            }
            _ => {
                let o = *self.r.pick(&[
                    InfixOperator::Caret,
                    InfixOperator::Plus,
                    InfixOperator::Minus,
                    InfixOperator::Slash,
                    InfixOperator::Star,
                ]);
                expr::infix(self.expr(depth - 1), o, self.expr(depth - 1))
            }
        }
    }
    fn exprs(&mut self, max: u64) -> Vec<Expression> {
        (0..self.r.below(max + 1)).map(|_| self.expr(2)).collect()
    }
    fn frame(&mut self) -> FrameIdentifier {
        FrameIdentifier::new(self.string(), self.qubits(1, 3))
    }
    fn invocation(&mut self) -> WaveformInvocation {
        let mut parameters: IndexMap<String, Expression> = IndexMap::new();
        for _ in 0..self.r.below(4) {
            parameters.insert(self.name(), self.expr(2));
        }
        let name = if self.r.chance(1, 4) { format!("{}/{}", self.name(), self.name()) } else { self.name() };
        WaveformInvocation::new(name, parameters)
    }
    fn modifiers(&mut self) -> Vec<GateModifier> {
        let mut v = vec![];
        while self.r.chance(1, 3) {
            v.push(*self.r.pick(&[GateModifier::Controlled, GateModifier::Dagger, GateModifier::Forked]));
        }
        v
    }
    fn gate(&mut self) -> Gate {
        loop {
            let name = if self.r.chance(1, 3) { self.name() } else { self.r.pick(GATE_NAMES).to_string() };
            match Gate::new(&name, self.exprs(3), self.qubits(1, 3), self.modifiers()) {
                Ok(g) => return g,
                Err(e) => fmt_err(&e),
            }
        }
    }
    fn arith_operand(&mut self) -> ArithmeticOperand {
        match self.r.below(3) {
            0 => ArithmeticOperand::LiteralInteger(self.int()),
            1 => ArithmeticOperand::LiteralReal(self.lit_real()),
            _ => ArithmeticOperand::MemoryReference(self.mref()),
        }
    }
    fn call_arg(&mut self) -> UnresolvedCallArgument {
        match self.r.below(4) {
            0 => UnresolvedCallArgument::Identifier(self.name()),
            1 => UnresolvedCallArgument::MemoryReference(self.mref()),
            _ => UnresolvedCallArgument::Immediate(self.complex()),
        }
    }
    fn scalar(&mut self) -> ScalarType {
        *self.r.pick(&[ScalarType::Bit, ScalarType::Integer, ScalarType::Octet, ScalarType::Real])
    }
    fn body(&mut self, depth: u32) -> Vec<Instruction> {
        (0..1 + self.r.below(3)).map(|_| self.instruction(depth)).collect()
    }
    fn delay(&mut self) -> Instruction {
        let names = match self.r.below(3) {
            0 => vec![],
            1 => vec![self.string()],
            _ => vec![self.string(), self.string()],
        };
        let duration = match self.r.below(5) {
            0 => Expression::Variable(self.name()),
            1 => Expression::Address(self.mref()),
            2 => Expression::Number(self.complex()),
            _ => self.expr(2),
        };
        Instruction::Delay(Delay::new(duration, names, self.qubits(0, 3)))
    }
    fn instruction(&mut self, depth: u32) -> Instruction {
        let k = self.r.below(if depth > 0 { 44 } else { 36 });
        match k {
            0 => Instruction::Arithmetic(Arithmetic::new(
                *self.r.pick(&[
                    ArithmeticOperator::Add,
                    ArithmeticOperator::Subtract,
                    ArithmeticOperator::Divide,
                    ArithmeticOperator::Multiply,
                ]),
                self.mref(),
                self.arith_operand(),
            )),
            1 => {
                let src = if self.r.chance(1, 2) {
                    BinaryOperand::LiteralInteger(self.int())
                } else {
                    BinaryOperand::MemoryReference(self.mref())
                };
                Instruction::BinaryLogic(BinaryLogic::new(
                    *self.r.pick(&[
                        BinaryOperator::And,
                        BinaryOperator::Ior,
                        BinaryOperator::Xor,
                        BinaryOperator::Shl,
                        BinaryOperator::Shr,
                        BinaryOperator::Ashr,
                    ]),
                    self.mref(),
                    src,
                ))
            }
            2 => {
                let rhs = match self.r.below(3) {
                    0 => ComparisonOperand::LiteralInteger(self.int()),
                    1 => ComparisonOperand::LiteralReal(self.lit_real()),
                    _ => ComparisonOperand::MemoryReference(self.mref()),
                };
                Instruction::Comparison(Comparison::new(
                    *self.r.pick(&[
                        ComparisonOperator::Equal,
                        ComparisonOperator::GreaterThanOrEqual,
                        ComparisonOperator::GreaterThan,
                        ComparisonOperator::LessThanOrEqual,
                        ComparisonOperator::LessThan,
                    ]),
                    self.mref(),
                    self.mref(),
                    rhs,
                ))
            }
            3 => Instruction::UnaryLogic(UnaryLogic::new(
                *self.r.pick(&[UnaryOperator::Neg, UnaryOperator::Not]),
                self.mref(),
            )),
            4 => Instruction::Convert(Convert::new(self.mref(), self.mref())),
            5 => Instruction::Exchange(Exchange::new(self.mref(), self.mref())),
            6 => Instruction::Move(Move::new(self.mref(), self.arith_operand())),
            7 => Instruction::Load(Load::new(self.mref(), self.name(), self.mref())),
            8 => Instruction::Store(Store::new(self.name(), self.mref(), self.arith_operand())),
            9 | 10 => loop {
                let args = (0..self.r.below(4)).map(|_| self.call_arg()).collect();
                match Call::try_new(self.name(), args) {
                    Ok(c) => break Instruction::Call(c),
                    Err(e) => fmt_err(&e),
                }
            },
            11 => Instruction::Capture(Capture::new(self.r.chance(2, 3), self.frame(), self.mref(), self.invocation())),
            12 => Instruction::Pulse(Pulse::new(self.r.chance(2, 3), self.frame(), self.invocation())),
            13 => {
                Instruction::RawCapture(RawCapture::new(self.r.chance(2, 3), self.frame(), self.expr(2), self.mref()))
            }
            14 | 15 | 16 => self.delay(),
            17 => Instruction::Fence(Fence::new(self.qubits(0, 3))),
            18 | 19 | 20 => Instruction::Gate(self.gate()),
            21 => Instruction::Halt(),
            22 => Instruction::Include(Include::new(self.string())),
            23 => Instruction::Jump(Jump::new(self.target())),
            24 => Instruction::JumpWhen(JumpWhen::new(self.target(), self.mref())),
            25 => Instruction::JumpUnless(JumpUnless::new(self.target(), self.mref())),
            26 => Instruction::Label(Label::new(self.target())),
            27 => {
                let name = if self.r.chance(1, 4) { Some(self.name()) } else { None };
                let target = if self.r.chance(1, 2) { Some(self.mref()) } else { None };
                Instruction::Measurement(Measurement::new(name, self.qubit(), target))
            }
            28 => {
                if self.r.chance(1, 2) {
                    Instruction::Nop()
                } else {
                    Instruction::Wait()
                }
            }
            29 => {
                let name = if self.r.chance(1, 6) { "EXTERN".to_string() } else { self.name() };
                let args = (0..self.r.below(3))
                    .map(|_| {
                        if self.r.chance(1, 2) {
                            PragmaArgument::Identifier(self.name())
                        } else {
                            PragmaArgument::Integer(self.uint())
                        }
                    })
                    .collect();
                let data = if self.r.chance(1, 2) { Some(self.string()) } else { None };
                Instruction::Pragma(Pragma::new(name, args, data))
            }
            30 => Instruction::Reset(Reset::new(if self.r.chance(1, 2) { Some(self.qubit()) } else { None })),
            31 => match self.r.below(5) {
                0 => Instruction::SetFrequency(SetFrequency::new(self.frame(), self.expr(2))),
                1 => Instruction::SetPhase(SetPhase::new(self.frame(), self.expr(2))),
                2 => Instruction::SetScale(SetScale::new(self.frame(), self.expr(2))),
                3 => Instruction::ShiftFrequency(ShiftFrequency::new(self.frame(), self.expr(2))),
                _ => Instruction::ShiftPhase(ShiftPhase::new(self.frame(), self.expr(2))),
            },
            32 => Instruction::SwapPhases(SwapPhases::new(self.frame(), self.frame())),
            33 => {
                let sharing = match self.r.below(3) {
                    0 => None,
                    1 => Some(Sharing::new(self.name(), vec![])),
                    _ => Some(Sharing::new(
                        self.name(),
                        (0..1 + self.r.below(3)).map(|_| Offset::new(self.uint(), self.scalar())).collect(),
                    )),
                };
                Instruction::Declaration(Declaration::new(self.name(), Vector::new(self.scalar(), self.uint()), sharing))
            }
            34 => {
                let mut attributes: IndexMap<String, AttributeValue> = IndexMap::new();
                for _ in 0..1 + self.r.below(3) {
                    let v = if self.r.chance(1, 2) {
                        AttributeValue::String(self.string())
                    } else {
                        AttributeValue::Expression(self.expr(2))
                    };
                    attributes.insert(self.name(), v);
                }
                Instruction::FrameDefinition(FrameDefinition::new(self.frame(), attributes))
            }
            35 => {
                let matrix = (0..1 + self.r.below(3)).map(|_| self.expr(2)).collect();
                let params = (0..self.r.below(3)).map(|_| self.name()).collect();
                let name = if self.r.chance(1, 4) { format!("{}/{}", self.name(), self.name()) } else { self.name() };
                Instruction::WaveformDefinition(WaveformDefinition::new(name, Waveform::new(matrix, params)))
            }
            // definitions with bodies / gate definitions: only when depth > 0
            36 => loop {
                let id = CalibrationIdentifier::new(
                    if self.r.chance(1, 2) { self.name() } else { self.r.pick(GATE_NAMES).to_string() },
                    self.modifiers(),
                    self.exprs(2),
                    self.qubits(0, 2),
                );
                if let Ok(id) = id {
                    break Instruction::CalibrationDefinition(CalibrationDefinition::new(id, self.body(depth - 1)));
                }
            },
            37 => {
                let name = if self.r.chance(1, 4) { Some(self.name()) } else { None };
                let target = if self.r.chance(1, 2) { Some(self.name()) } else { None };
                let id = MeasureCalibrationIdentifier::new(name, self.qubit(), target);
                Instruction::MeasureCalibrationDefinition(MeasureCalibrationDefinition::new(id, self.body(depth - 1)))
            }
            38 => {
                let params = (0..self.r.below(3)).map(|_| self.name()).collect();
                let qvs = (0..self.r.below(3)).map(|_| self.name()).collect();
                Instruction::CircuitDefinition(CircuitDefinition::new(self.name(), params, qvs, self.body(depth - 1)))
            }
            39 | 40 => loop {
                // DEFGATE matrix / permutation
                let spec = if self.r.chance(1, 2) {
                    let n = 1 + self.r.below(3);
                    GateSpecification::Matrix((0..n).map(|_| (0..n).map(|_| self.expr(1)).collect()).collect())
                } else {
                    GateSpecification::Permutation((0..1 + self.r.below(4)).map(|_| self.uint()).collect())
                };
                let params = (0..self.r.below(3)).map(|_| self.name()).collect();
                if let Ok(d) = GateDefinition::new(self.name(), params, spec) {
                    break Instruction::GateDefinition(d);
                }
            },
            41 => loop {
                // PAULI-SUM
                let args: Vec<String> = (0..1 + self.r.below(3)).map(|_| self.name()).collect();
                let terms = (0..1 + self.r.below(3))
                    .map(|_| {
                        let k = 1 + self.r.below(3);
                        let a = (0..k)
                            .map(|_| {
                                (
                                    *self.r.pick(&[PauliGate::I, PauliGate::X, PauliGate::Y, PauliGate::Z]),
                                    self.r.pick(&args).clone(),
                                )
                            })
                            .collect();
                        PauliTerm::new(a, self.expr(1))
                    })
                    .collect();
                if let Ok(sum) = PauliSum::new(args, terms) {
                    if let Ok(d) = GateDefinition::new(self.name(), vec![], GateSpecification::PauliSum(sum)) {
                        break Instruction::GateDefinition(d);
                    }
                }
            },
            _ => loop {
                // SEQUENCE
                let qs: Vec<String> = (0..1 + self.r.below(3)).map(|_| self.name()).collect();
                let gates: Vec<Gate> = (0..1 + self.r.below(3))
                    .filter_map(|_| {
                        let n = 1 + self.r.below(2);
                        let gq = (0..n).map(|_| Qubit::Variable(self.r.pick(&qs).clone())).collect();
                        let gname: &str = *self.r.pick(GATE_NAMES);
                        Gate::new(gname, self.exprs(2), gq, self.modifiers()).ok()
                    })
                    .collect();
                if let Ok(seq) = DefGateSequence::try_new(qs, gates) {
                    let params = (0..self.r.below(2)).map(|_| self.name()).collect();
                    if let Ok(d) = GateDefinition::new(self.name(), params, GateSpecification::Sequence(seq)) {
                        break Instruction::GateDefinition(d);
                    }
                }
            },
        }
    }
}

fn gen_case(rng: &mut Rng, n_max: u64) -> Vec<Instruction> {
    let ph = rng.chance(1, 4);
    let mut g = G { r: rng, ph, qph: vec![], tph: vec![] };
    let n = 1 + g.r.below(n_max);
    (0..n).map(|_| g.instruction(2)).collect()
}

/// definitions and uses sharing ONE name across kinds, in random order with repeats
fn shared_names_case(rng: &mut Rng) -> Vec<Instruction> {
    const POOL: &[&str] = &["X", "BELL", "w"];
    let n = 3 + rng.below(7);
    let mut out = Vec::new();
    for _ in 0..n {
        let a = rng.pick(POOL).to_string();
        let b = rng.pick(POOL).to_string();
        let q0 = vec![Qubit::Fixed(0)];
        let i = match rng.below(14) {
            0 => GateDefinition::new(a, vec![], GateSpecification::Permutation(vec![0, 1])).ok().map(Instruction::GateDefinition),
            1 => Some(Instruction::CircuitDefinition(CircuitDefinition::new(
                a,
                vec![],
                vec!["q".into()],
                vec![Instruction::Gate(Gate::new(&b, vec![], vec![Qubit::Variable("q".into())], vec![]).unwrap())],
            ))),
            2 => Some(Instruction::WaveformDefinition(WaveformDefinition::new(a, Waveform::new(vec![real(1.0)], vec![b])))),
            3 => Some(Instruction::Declaration(Declaration::new(a, Vector::new(ScalarType::Bit, 2), Some(Sharing::new(b, vec![]))))),
            4 => Some(Instruction::Pragma(Pragma::new(
                "EXTERN".into(),
                vec![PragmaArgument::Identifier(a)],
                Some("INTEGER (x : INTEGER)".into()),
            ))),
            5 => {
                let mut at = IndexMap::new();
                at.insert(b, AttributeValue::String(a.clone()));
                Some(Instruction::FrameDefinition(FrameDefinition::new(FrameIdentifier::new(a, q0), at)))
            }
            6 => Some(Instruction::Label(Label::new(Target::Fixed(a)))),
            7 => CalibrationIdentifier::new(a, vec![], vec![], q0)
                .ok()
                .map(|id| Instruction::CalibrationDefinition(CalibrationDefinition::new(id, vec![Instruction::Nop()]))),
            8 => Some(Instruction::MeasureCalibrationDefinition(MeasureCalibrationDefinition::new(
                MeasureCalibrationIdentifier::new(None, Qubit::Fixed(0), Some(a)),
                vec![Instruction::Nop()],
            ))),
            9 => Gate::new(&a, vec![], q0, vec![]).ok().map(Instruction::Gate),
            10 => Call::try_new(a, vec![UnresolvedCallArgument::Identifier(b)]).ok().map(Instruction::Call),
            11 => {
                let mut ps = IndexMap::new();
                ps.insert(a.clone(), real(1.0));
                Some(Instruction::Pulse(Pulse::new(true, FrameIdentifier::new(a, q0), WaveformInvocation::new(b, ps))))
            }
            12 => Some(Instruction::Jump(Jump::new(Target::Fixed(a)))),
            _ => Some(Instruction::Measurement(Measurement::new(None, Qubit::Fixed(0), Some(MemoryReference::new(a, 0))))),
        };
        if let Some(i) = i {
            out.push(i);
        }
    }
    out
}

/// collections of more than 32 / 64 elements
fn large_cases(rng: &mut Rng) -> Vec<Vec<Instruction>> {
    let mut out = Vec::new();
    for &n in &[33usize, 40, 65] {
        let mut keys: Vec<usize> = (0..n).collect();
        for i in (1..n).rev() {
            let j = rng.below(i as u64 + 1) as usize;
            keys.swap(i, j);
        }
        let mut ps = IndexMap::new();
        for k in &keys {
            ps.insert(format!("k{k}"), real(*k as f64));
        }
        let qs: Vec<Qubit> = (0..n as u64).map(Qubit::Fixed).collect();
        out.push(vec![
            Instruction::Pulse(Pulse::new(true, FrameIdentifier::new("rf".into(), qs.clone()), WaveformInvocation::new("w".into(), ps.clone()))),
            Instruction::Capture(Capture::new(false, FrameIdentifier::new("rf".into(), vec![Qubit::Fixed(0)]), MemoryReference::new("ro".into(), 0), WaveformInvocation::new("v".into(), ps))),
            Instruction::Gate(Gate::new("G", (0..n).map(|k| real(k as f64)).collect(), qs.clone(), vec![GateModifier::Dagger; n]).unwrap()),
            Instruction::Fence(Fence::new(qs.clone())),
            Instruction::Delay(Delay::new(real(1.0), (0..n).map(|k| format!("f{k}")).collect(), qs)),
            Instruction::Call(Call::try_new("foo".into(), (0..n).map(|k| UnresolvedCallArgument::Immediate(Complex64::new(k as f64, -(k as f64)))).collect()).unwrap()),
        ]);
        out.push(keys.iter().map(|k| Instruction::Declaration(Declaration::new(format!("r{}", k % 37), Vector::new(ScalarType::Bit, *k as u64), None))).collect());
    }
    // round 4: long lists in every list position of the six definition kinds (the generator's own lists have at
    // most 4 elements: a writer dropping what comes after the fourth element went unnoticed)
    for &n in &[5usize, 9, 33] {
        let names: Vec<String> = (0..n).map(|k| format!("a{k}")).collect();
        let qs: Vec<Qubit> = (0..n as u64).map(Qubit::Fixed).collect();
        let body: Vec<Instruction> = (0..n)
            .map(|k| Instruction::Gate(Gate::new("RX", vec![real(k as f64)], vec![Qubit::Fixed(k as u64)], vec![]).unwrap()))
            .collect();
        let mut defs: Vec<Instruction> = Vec::new();
        if let Ok(d) = GateDefinition::new("PERM".into(), vec![], GateSpecification::Permutation((0..n as u64).collect())) {
            defs.push(Instruction::GateDefinition(d));
        }
        if let Ok(d) = GateDefinition::new(
            "MAT".into(),
            names.clone(),
            GateSpecification::Matrix((0..n).map(|r| (0..n).map(|c| real((r * n + c) as f64)).collect()).collect()),
        ) {
            defs.push(Instruction::GateDefinition(d));
        }
        let terms: Vec<PauliTerm> = (0..n)
            .map(|t| {
                PauliTerm::new(
                    (0..n).map(|k| ([PauliGate::I, PauliGate::X, PauliGate::Y, PauliGate::Z][(k + t) % 4], names[k].clone())).collect(),
                    real(t as f64),
                )
            })
            .collect();
        if let Ok(sum) = PauliSum::new(names.clone(), terms) {
            if let Ok(d) = GateDefinition::new("PS".into(), vec![], GateSpecification::PauliSum(sum)) {
                defs.push(Instruction::GateDefinition(d));
            }
        }
        let gates: Vec<Gate> = (0..n)
            .filter_map(|k| Gate::new("RZ", vec![real(k as f64)], vec![Qubit::Variable(names[k].clone())], vec![]).ok())
            .collect();
        if let Ok(seq) = DefGateSequence::try_new(names.clone(), gates) {
            if let Ok(d) = GateDefinition::new("SEQ".into(), vec![], GateSpecification::Sequence(seq)) {
                defs.push(Instruction::GateDefinition(d));
            }
        }
        if let Ok(id) = CalibrationIdentifier::new("CAL".into(), vec![GateModifier::Dagger; n], (0..n).map(|k| real(k as f64)).collect(), qs.clone()) {
            defs.push(Instruction::CalibrationDefinition(CalibrationDefinition::new(id, body.clone())));
        }
        defs.push(Instruction::MeasureCalibrationDefinition(MeasureCalibrationDefinition::new(
            MeasureCalibrationIdentifier::new(None, Qubit::Fixed(0), Some("dest".into())),
            body.clone(),
        )));
        defs.push(Instruction::CircuitDefinition(CircuitDefinition::new("CIRC".into(), names.clone(), names.clone(), body.clone())));
        let mut attributes = IndexMap::new();
        for (k, name) in names.iter().enumerate() {
            attributes.insert(name.clone(), if k % 2 == 0 { AttributeValue::String(format!("s{k}")) } else { AttributeValue::Expression(real(k as f64)) });
        }
        defs.push(Instruction::FrameDefinition(FrameDefinition::new(FrameIdentifier::new("fr".into(), qs.clone()), attributes)));
        defs.push(Instruction::WaveformDefinition(WaveformDefinition::new(
            "wf/long".into(),
            Waveform::new((0..n).map(|k| real(k as f64)).collect(), names.clone()),
        )));
        out.push(defs);
    }
    out
}

fn real(x: f64) -> Expression {
    Expression::Number(Complex64::new(x, 0.0))
}

fn corpus() -> Vec<Vec<Instruction>> {
    let f0 = |name: &str| FrameIdentifier::new(name.to_string(), vec![Qubit::Fixed(0)]);
    let q0 = || vec![Qubit::Fixed(0)];
    let var = |s: &str| Expression::Variable(s.to_string());
    let addr = |s: &str, i: u64| Expression::Address(MemoryReference::new(s.to_string(), i));
    let imm = |re: f64, im: f64| UnresolvedCallArgument::Immediate(Complex64::new(re, im));
    let call = |args: Vec<UnresolvedCallArgument>| Instruction::Call(Call::try_new("foo".to_string(), args).unwrap());
    let ph = QubitPlaceholder::default();
    let tp = TargetPlaceholder::new("loop".to_string());
    vec![
        vec![],
        // DELAY (fix fce5d6b)
        vec![Instruction::Delay(Delay::new(var("t"), vec![], q0()))],
        vec![Instruction::Delay(Delay::new(addr("theta", 0), vec![], vec![Qubit::Fixed(0), Qubit::Fixed(1)]))],
        vec![Instruction::Delay(Delay::new(expr::infix(Expression::PiConstant(), InfixOperator::Slash, real(2.0)), vec![], q0()))],
        vec![Instruction::Delay(Delay::new(expr::call(ExpressionFunction::Sine, var("t")), vec![], q0()))],
        vec![Instruction::Delay(Delay::new(expr::call(ExpressionFunction::Sine, var("t")), vec!["rf".to_string()], q0()))],
        vec![Instruction::Delay(Delay::new(real(1.0), vec![], vec![]))],
        vec![Instruction::Delay(Delay::new(real(1.0), vec![], q0()))],
        vec![Instruction::Delay(Delay::new(real(-1.0), vec![], q0()))],
        vec![Instruction::Delay(Delay::new(Expression::Number(Complex64::new(1.0, -2.0)), vec![], q0()))],
        vec![Instruction::Delay(Delay::new(Expression::Number(Complex64::new(0.0, 2.0)), vec![], vec![Qubit::Variable("q".into())]))],
        vec![Instruction::Delay(Delay::new(expr::prefix(PrefixOperator::Plus, var("t")), vec![], q0()))],
        vec![Instruction::Delay(Delay::new(expr::prefix(PrefixOperator::Minus, var("t")), vec![], q0()))],
        vec![Instruction::Delay(Delay::new(var("t"), vec!["a\"b".to_string(), "".to_string()], q0()))],
        // CALL (fix 9ad4430)
        vec![call(vec![imm(-1.0, 0.0)])],
        vec![call(vec![imm(1.0, 2.0)])],
        vec![call(vec![imm(1.0, 0.0), imm(0.0, -2.0)])],
        vec![call(vec![imm(1.0, 0.0), imm(0.0, 2.0)])],
        vec![call(vec![imm(0.0, 1.0), imm(0.0, -2.0), imm(-1.0, -2.0), imm(0.0, 0.0)])],
        vec![call(vec![imm(2.5, 0.0), UnresolvedCallArgument::Identifier("i".into())])],
        vec![call(vec![imm(2.5, 0.0), UnresolvedCallArgument::MemoryReference(MemoryReference::new("i".into(), 0))])],
        vec![call(vec![imm(f64::NAN, 0.0)])],
        vec![call(vec![imm(f64::INFINITY, 1.0)])],
        // integral-valued and extreme real literal operands (fix 8e284d8)
        vec![Instruction::Move(Move::new(MemoryReference::new("ro".into(), 0), ArithmeticOperand::LiteralReal(1.0)))],
        vec![Instruction::Move(Move::new(MemoryReference::new("ro".into(), 0), ArithmeticOperand::LiteralReal(1e300)))],
        vec![Instruction::Move(Move::new(MemoryReference::new("ro".into(), 0), ArithmeticOperand::LiteralReal(-0.0)))],
        vec![Instruction::Move(Move::new(MemoryReference::new("ro".into(), 0), ArithmeticOperand::LiteralReal(f64::NAN)))],
        vec![Instruction::Move(Move::new(MemoryReference::new("ro".into(), 0), ArithmeticOperand::LiteralReal(f64::NEG_INFINITY)))],
        vec![Instruction::Move(Move::new(MemoryReference::new("ro".into(), 0), ArithmeticOperand::LiteralInteger(i64::MIN)))],
        // frames
        vec![Instruction::SetFrequency(SetFrequency::new(
            FrameIdentifier::new("rf".into(), vec![Qubit::Fixed(0), Qubit::Variable("q".into()), Qubit::Fixed(2)]),
            real(1e9),
        ))],
        vec![Instruction::RawCapture(RawCapture::new(true, f0("ro"), real(2.0), MemoryReference::new("i".into(), 0)))],
        vec![Instruction::Pulse(Pulse::new(false, f0("rf"), {
            let mut p = IndexMap::new();
            p.insert("b".to_string(), real(1.0));
            p.insert("a".to_string(), Expression::Number(Complex64::new(1.0, 2.0)));
            WaveformInvocation::new("lib/wf".to_string(), p)
        }))],
        // gates
        vec![Instruction::Gate(Gate::new("RX", vec![expr::prefix(PrefixOperator::Minus, expr::prefix(PrefixOperator::Minus, Expression::PiConstant()))], q0(), vec![GateModifier::Dagger, GateModifier::Controlled]).unwrap())],
        vec![Instruction::Gate(Gate::new("RX", vec![real(1.0)], vec![Qubit::Variable("NOT".into())], vec![]).unwrap())],
        // placeholders
        vec![Instruction::Gate(Gate::new("X", vec![], vec![Qubit::Placeholder(ph.clone())], vec![]).unwrap())],
        vec![Instruction::Jump(Jump::new(Target::Placeholder(tp.clone()))), Instruction::Label(Label::new(Target::Placeholder(tp.clone())))],
        vec![
            Instruction::Label(Label::new(Target::Placeholder(tp.clone()))),
            Instruction::Gate(Gate::new("X", vec![], vec![Qubit::Placeholder(ph.clone())], vec![]).unwrap()),
        ],
        vec![
            Instruction::Gate(Gate::new("X", vec![], vec![Qubit::Placeholder(ph.clone())], vec![]).unwrap()),
            Instruction::Label(Label::new(Target::Placeholder(tp.clone()))),
        ],
        vec![Instruction::CircuitDefinition(CircuitDefinition::new(
            "C".into(),
            vec![],
            vec!["q".into()],
            vec![Instruction::Measurement(Measurement::new(None, Qubit::Placeholder(ph.clone()), None))],
        ))],
        vec![Instruction::CalibrationDefinition(CalibrationDefinition::new(
            CalibrationIdentifier::new("X".into(), vec![GateModifier::Dagger], vec![var("t")], vec![Qubit::Placeholder(ph.clone())]).unwrap(),
            vec![Instruction::Jump(Jump::new(Target::Placeholder(tp.clone())))],
        ))],
        vec![Instruction::SwapPhases(SwapPhases::new(f0("a"), FrameIdentifier::new("b".into(), vec![Qubit::Placeholder(ph.clone())])))],
        // DEFCAL with modifiers (fix 5597188)
        vec![Instruction::CalibrationDefinition(CalibrationDefinition::new(
            CalibrationIdentifier::new("A".into(), vec![GateModifier::Dagger, GateModifier::Forked], vec![real(1.0)], q0()).unwrap(),
            vec![Instruction::Nop()],
        ))],
        // two calibrations whose keys differ structurally (literal -1.0 vs prefix minus) but print alike
        // (round 4: C04_counterexample_calibrationKeys); and the harmless sibling with distinct values
        vec![
            Instruction::CalibrationDefinition(CalibrationDefinition::new(
                CalibrationIdentifier::new("X".into(), vec![], vec![real(-1.0)], q0()).unwrap(),
                vec![Instruction::Nop()],
            )),
            Instruction::CalibrationDefinition(CalibrationDefinition::new(
                CalibrationIdentifier::new("X".into(), vec![], vec![expr::prefix(PrefixOperator::Minus, real(1.0))], q0()).unwrap(),
                vec![Instruction::Wait()],
            )),
        ],
        vec![
            Instruction::CalibrationDefinition(CalibrationDefinition::new(
                CalibrationIdentifier::new("X".into(), vec![], vec![real(-1.0)], q0()).unwrap(),
                vec![Instruction::Nop()],
            )),
            Instruction::CalibrationDefinition(CalibrationDefinition::new(
                CalibrationIdentifier::new("X".into(), vec![], vec![expr::prefix(PrefixOperator::Minus, real(2.0))], q0()).unwrap(),
                vec![Instruction::Wait()],
            )),
        ],
        // empty bodies / degenerate definitions
        vec![Instruction::CalibrationDefinition(CalibrationDefinition::new(
            CalibrationIdentifier::new("A".into(), vec![], vec![], q0()).unwrap(),
            vec![],
        ))],
        vec![Instruction::CircuitDefinition(CircuitDefinition::new("C".into(), vec![], vec![], vec![]))],
        vec![Instruction::GateDefinition(GateDefinition::new("G2".into(), vec![], GateSpecification::Matrix(vec![])).unwrap())],
    ]
}

fn main() {
    main_with(run)
}

fn run(ctx: &mut Ctx) {
    let (n_single, n_prog) = if ctx.quick() { (12_000, 4_000) } else { (400_000, 150_000) };
    for is in corpus() {
        run_case(ctx, "corpus", is);
    }
    let mut rng = ctx.rng(1);
    for _ in 0..n_single {
        let is = gen_case(&mut rng, 1);
        run_case(ctx, "single", is);
    }
    let mut rng = ctx.rng(2);
    for _ in 0..n_prog {
        let is = gen_case(&mut rng, 6);
        run_case(ctx, "program", is);
    }
    let n_shared = if ctx.quick() { 1500 } else { 50_000 };
    let mut rng = ctx.rng(3);
    for _ in 0..n_shared {
        let is = shared_names_case(&mut rng);
        run_case(ctx, "shared-names", is);
    }
    let mut rng = ctx.rng(4);
    for is in large_cases(&mut rng) {
        run_case(ctx, "large", is);
    }
}
