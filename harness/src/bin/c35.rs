//! C35 — dead-code removal (`Program::simplify`) keeps execution and removes exactly unused definitions.
//!
//! Every case builds a real `Program`, calls the real `Program::simplify(&DefaultHandler)` and reports the
//! simplified program (every definition map in order, the body), what `DefaultHandler::matching_frames`
//! answers for every body instruction w.r.t. the expanded / intermediate / simplified program, and the
//! block schedules (`ScheduledBasicBlock::as_schedule_seconds` via `ScheduledProgram::from_program`, and
//! `BasicBlock::as_schedule_seconds`) of the expanded and of the simplified program.
//!
//! The model's input is the expanded program (the real `expand_calibrations`, C17's business) and, per body
//! instruction, the frames the handler reports as used w.r.t. the intermediate program (expanded program
//! without calibrations, used qubits rebuilt — reconstructed through `Program::from_instructions`; C26's
//! business), the waveform name it invokes and the extern name it calls.
//!
//! Projection (trusted, meta/C35.json): definitions and instructions are identified by their Quil text,
//! frames by the text of their `FrameIdentifier`.
use std::collections::HashSet;
use std::str::FromStr;

use qvh::sched::{classical_line, rf_line};
use qvh::*;
use quil_rs::instruction::{
    CalibrationDefinition, CalibrationIdentifier, DefaultHandler, FrameIdentifier, Instruction, InstructionHandler,
    Qubit,
};
use quil_rs::program::analysis::{BasicBlockScheduleError, ControlFlowGraph};
use quil_rs::program::scheduling::{ComputedScheduleError, ScheduleSeconds, ScheduledProgram};
use quil_rs::program::{Calibrations, MatchedFrames};

/// A non-default handler (like the one in quil-rs's own `simplify` test): `PRAGMA USEALL` uses every frame of
/// the program, `PRAGMA USEX` the frames named "x"; everything else as the default handler. `simplify` must
/// ask THE GIVEN handler, not `DefaultHandler`.
struct PragmaHandler;

impl InstructionHandler for PragmaHandler {
    fn matching_frames<'p>(&self, program: &'p Program, instruction: &Instruction) -> Option<MatchedFrames<'p>> {
        match instruction {
            Instruction::Pragma(p) if p.name == "USEALL" => {
                Some(MatchedFrames { used: program.frames.get_keys().into_iter().collect(), blocked: HashSet::new() })
            }
            Instruction::Pragma(p) if p.name == "USEX" => Some(MatchedFrames {
                used: program.frames.get_keys().into_iter().filter(|f| f.name == "x").collect(),
                blocked: HashSet::new(),
            }),
            _ => DefaultHandler.matching_frames(program, instruction),
        }
    }
}
use quil_rs::quil::Quil;
use quil_rs::Program;

fn text<T: Quil>(x: &T) -> String {
    x.to_quil_or_debug()
}

fn frame_text(f: &FrameIdentifier) -> String {
    text(f)
}

fn opt_str(o: Option<&String>) -> Sexp {
    match o {
        Some(s) => tagged("some", vec![st(s.clone())]),
        None => atom("none"),
    }
}

fn sorted_frames(set: &HashSet<&FrameIdentifier>) -> Sexp {
    let mut v: Vec<String> = set.iter().map(|f| frame_text(f)).collect();
    v.sort();
    list(v.into_iter().map(st).collect())
}

fn matched(m: Option<MatchedFrames<'_>>) -> Sexp {
    match m {
        None => atom("none"),
        Some(m) => tagged("m", vec![sorted_frames(&m.used), sorted_frames(&m.blocked)]),
    }
}

/// the frame set in its own order: (identifier text, attributes text)
fn frames_sexp(p: &Program) -> Vec<Sexp> {
    p.frames
        .iter()
        .map(|(k, v)| {
            let mut attrs: Vec<String> = v.iter().map(|(a, b)| format!("{a}: {}", text(b))).collect();
            attrs.sort();
            list(vec![st(frame_text(k)), st(attrs.join("; "))])
        })
        .collect()
}

/// every definition map of `p` in its own order; `body_info` adds what `simplify` looks at per instruction
/// (computed against `inter`) when given
fn program_sexp<H: InstructionHandler>(p: &Program, inter: Option<&Program>, handler: &H) -> Sexp {
    let cals: Vec<Sexp> = p.calibrations.to_instructions().iter().map(|i| st(text(i))).collect();
    let externs: Vec<Sexp> =
        p.extern_pragma_map.clone().into_iter().map(|(k, v)| list(vec![opt_str(k.as_ref()), st(text(&v))])).collect();
    let frames: Vec<Sexp> = frames_sexp(p);
    let regions: Vec<Sexp> = p
        .memory_regions
        .iter()
        .map(|(k, v)| list(vec![st(k.clone()), st(format!("{:?}", v))]))
        .collect();
    let waveforms: Vec<Sexp> =
        p.waveforms.iter().map(|(k, v)| list(vec![st(k.clone()), st(format!("{:?}", v))])).collect();
    let gates: Vec<Sexp> = p.gate_definitions.iter().map(|(k, v)| list(vec![st(k.clone()), st(text(v))])).collect();
    let circuits: Vec<Sexp> = p.circuits.iter().map(|(k, v)| list(vec![st(k.clone()), st(text(v))])).collect();
    let body: Vec<Sexp> = p
        .body_instructions()
        .map(|i| match inter {
            None => list(vec![st(text(i))]),
            Some(inter) => {
                let used = match handler.matching_frames(inter, i) {
                    Some(m) => sorted_frames(&m.used),
                    None => list(vec![]),
                };
                let wf = match i {
                    Instruction::Pulse(p) => Some(&p.waveform.name),
                    Instruction::Capture(c) => Some(&c.waveform.name),
                    _ => None,
                };
                let call = match i {
                    Instruction::Call(c) => Some(&c.name),
                    _ => None,
                };
                list(vec![st(text(i)), used, opt_str(wf), opt_str(call)])
            }
        })
        .collect();
    tagged(
        "prog",
        vec![
            list(cals),
            list(externs),
            list(frames),
            list(regions),
            list(waveforms),
            list(gates),
            list(circuits),
            list(body),
        ],
    )
}

fn schedule_sexp(s: &ScheduleSeconds) -> (Sexp, Sexp) {
    let raw: Vec<Sexp> = s
        .items()
        .iter()
        .map(|it| list(vec![nat(it.instruction_index as u64), f64bits(it.time_span.start_time().0), f64bits(it.time_span.duration().0)]))
        .collect();
    let mut sorted = s.items().to_vec();
    sorted.sort_by_key(|it| it.instruction_index);
    let canon: Vec<Sexp> = sorted
        .iter()
        .map(|it| list(vec![nat(it.instruction_index as u64), f64bits(it.time_span.start_time().0), f64bits(it.time_span.duration().0)]))
        .collect();
    (tagged("ok", vec![f64bits(s.duration().0), list(canon)]), list(raw))
}

/// `(sched <per block: canonical schedule or error> ) (raw <per block: items in emission order>)`
fn schedules<H: InstructionHandler>(p: &Program, handler: &H) -> (Sexp, Sexp, Sexp) {
    // (a) ScheduledProgram::from_program + ScheduledBasicBlock::as_schedule_seconds
    let (a, raw) = match ScheduledProgram::from_program(p, handler) {
        Err(e) => (tagged("builderr", vec![atom(qvh::sched::error_variant(e.variant)), st(text(&e.instruction))]), list(vec![])),
        Ok(sp) => {
            let mut canon = Vec::new();
            let mut raws = Vec::new();
            for b in sp.basic_blocks() {
                match b.as_schedule_seconds(p, handler) {
                    Ok(s) => {
                        let (c, r) = schedule_sexp(&s);
                        canon.push(c);
                        raws.push(r);
                    }
                    Err(ComputedScheduleError::UnknownDuration { instruction }) => {
                        canon.push(tagged("err", vec![atom("unknown-duration"), st(text(&instruction))]));
                        raws.push(list(vec![]));
                    }
                    Err(_) => {
                        canon.push(tagged("err", vec![atom("invalid-graph")]));
                        raws.push(list(vec![]));
                    }
                }
            }
            (tagged("blocks", canon), list(raws))
        }
    };
    // (b) BasicBlock::as_schedule_seconds of every block
    let b: Vec<Sexp> = ControlFlowGraph::from(p)
        .into_blocks()
        .iter()
        .map(|blk| match blk.as_schedule_seconds(p, handler) {
            Ok(s) => schedule_sexp(&s).0,
            Err(BasicBlockScheduleError::ScheduleError(e)) => {
                tagged("err", vec![atom("sched"), atom(qvh::sched::error_variant(e.variant))])
            }
            Err(BasicBlockScheduleError::ComputedScheduleError(ComputedScheduleError::UnknownDuration { instruction })) => {
                tagged("err", vec![atom("unknown-duration"), st(text(&instruction))])
            }
            Err(BasicBlockScheduleError::ComputedScheduleError(_)) => tagged("err", vec![atom("invalid-graph")]),
            Err(BasicBlockScheduleError::ProgramError(_)) => tagged("err", vec![atom("program")]),
        })
        .collect();
    (a, raw, list(b))
}

fn run_case(ctx: &mut Ctx, p: &Program) {
    run_case_with(ctx, p, &DefaultHandler, "default")
}

fn run_case_with<H: InstructionHandler>(ctx: &mut Ctx, p: &Program, handler: &H, handler_name: &str) {
    let expanded = match p.expand_calibrations() {
        Ok(e) => e,
        Err(_) => {
            // expansion errors are C17/C18's subject: simplify must report an error too (and the error must
            // be printable)
            ctx.case(tagged("expand-error", vec![]), || match p.simplify(handler) {
                Ok(_) => tagged("ok", vec![]),
                Err(e) => {
                    let _ = format!("{e} {e:#} {e:?}");
                    tagged("err", vec![])
                }
            });
            return;
        }
    };
    // the intermediate program of `simplify`: no calibrations, used qubits rebuilt
    let inter = {
        let mut e = expanded.clone();
        e.calibrations = Calibrations::default();
        Program::from_instructions(e.to_instructions())
    };
    let self_frames: Vec<Sexp> = frames_sexp(p);
    let input = tagged("simp", vec![atom(handler_name), list(self_frames), program_sexp(&expanded, Some(&inter), handler)]);
    ctx.case(input, || {
        let s = match p.simplify(handler) {
            Ok(s) => s,
            Err(_) => return tagged("err", vec![]),
        };
        let same_avail = expanded.get_used_qubits() == s.get_used_qubits();
        let inter_avail = inter.get_used_qubits() == s.get_used_qubits();
        let per_instruction: Vec<Sexp> = s
            .body_instructions()
            .map(|i| {
                list(vec![
                    matched(handler.matching_frames(&expanded, i)),
                    matched(handler.matching_frames(&inter, i)),
                    matched(handler.matching_frames(&s, i)),
                    boolean(matches!(i, Instruction::Reset(r) if r.qubit.is_none())),
                ])
            })
            .collect();
        let (ea, eraw, eb) = schedules(&expanded, handler);
        let (sa, sraw, sb) = schedules(&s, handler);
        // simplifying again changes nothing
        let idem = s.simplify(handler).map(|t| t == s).unwrap_or(false);
        // the result is a consistent program: rebuilding it from its own listing gives an equal program
        // (this compares the used-qubit cache too), and a second call on the original gives the same result
        let rebuilt = Program::from_instructions(s.to_instructions()) == s;
        let again = p.simplify(handler).map(|t| t == s).unwrap_or(false);
        tagged(
            "ok",
            vec![
                program_sexp(&s, None, handler),
                boolean(same_avail),
                boolean(inter_avail),
                list(per_instruction),
                list(vec![ea, eb]),
                list(vec![sa, sb]),
                boolean(eraw == sraw),
                boolean(idem && rebuilt && again),
            ],
        )
    });
}

const FRAMES: [(&str, &str, &str); 9] = [
    ("0", "x", "SAMPLE-RATE: 4.0"),
    ("0", "y", "SAMPLE-RATE: 8.0"),
    ("1", "x", "SAMPLE-RATE: 4.0"),
    ("0 1", "z", "SAMPLE-RATE: 4.0"),
    ("2", "x", "INITIAL-FREQUENCY: 1.0"),
    ("5", "far", "SAMPLE-RATE: 2.0"),
    ("1 0", "z", "SAMPLE-RATE: 2.0"),
    // frame names shared with a waveform / an extern
    ("0", "w4", "SAMPLE-RATE: 4.0"),
    ("0", "f1", "SAMPLE-RATE: 2.0"),
];
const WAVEFORMS: [&str; 6] = [
    "DEFWAVEFORM w4:\n    1, 1, 1, 1\n",
    "DEFWAVEFORM w2:\n    1, 1\n",
    "DEFWAVEFORM unused_wf:\n    1\n",
    // DEFINED waveforms invoked with template-named arguments: their duration is sample count / SAMPLE-RATE,
    // not the `duration` argument
    "DEFWAVEFORM ramp(%duration):\n    %duration, 1, 1, 1\n",
    "DEFWAVEFORM flat(%duration, %iq):\n    %iq, 1\n",
    // a waveform named like an extern
    "DEFWAVEFORM f1:\n    1, 1\n",
];
const EXTERNS: [&str; 6] = [
    "PRAGMA EXTERN f1 \"(x : INTEGER)\"\n",
    "PRAGMA EXTERN f2 \"INTEGER (x : mut REAL)\"\n",
    "PRAGMA EXTERN f3 \"(x : REAL[])\"\n",
    // no name: stored under the key `None`, never kept
    "PRAGMA EXTERN \"(x : INTEGER)\"\n",
    // an extern named like a waveform; an extern pragma with two arguments (keyed by the first)
    "PRAGMA EXTERN w4 \"(x : INTEGER)\"\n",
    "PRAGMA EXTERN f4 extra \"(x : INTEGER)\"\n",
];
const CALS: [&str; 8] = [
    "DEFCAL A 0:\n    PULSE 0 \"x\" flat(duration: 1.0, iq: 1.0)\n",
    "DEFCAL B 0 1:\n    FENCE 1\n    PULSE 0 1 \"z\" w4\n",
    "DEFCAL C q:\n    DELAY q 0.5\n    A q\n    SHIFT-PHASE q \"x\" 1.0\n",
    "DEFCAL D 0:\n    NONBLOCKING PULSE 0 \"y\" w2\n    CALL f1 a[0]\n",
    "DEFCAL FAR 7:\n    PULSE 7 \"nowhere\" w4\n",
    "DEFCAL MEASURE 0 addr:\n    CAPTURE 0 \"y\" flat(duration: 0.25, iq: 1.0) addr\n",
    "DEFCAL R 0:\n    RESET\n    PULSE 0 \"x\" w2\n",
    "DEFCAL E 0:\n    PULSE 0 \"x\" ramp(duration: 3.0)\n    CAPTURE 0 \"y\" f1 b[0]\n",
];
// regions, gates and circuits include names shared with waveforms / externs (`w4`, `f1`)
const DECLS: &str = "DECLARE a INTEGER[2]\nDECLARE b REAL[2]\nDECLARE c BIT[2]\nDECLARE unused_region BIT\nDECLARE f1 INTEGER[2]\nDECLARE w4 REAL[1] SHARING b OFFSET 1 REAL\n";
const OTHER_DEFS: &str = "DEFGATE H2:\n    1, 0\n    0, 1\nDEFGATE w4:\n    1, 0\n    0, 1\nDEFCIRCUIT BELL q:\n    H2 q\nDEFCIRCUIT f1 q:\n    w4 q\n";

fn header(frames: u32, wfs: u32, exts: u32, cals: u32) -> String {
    let mut s = String::from(DECLS);
    for (k, (q, n, attr)) in FRAMES.iter().enumerate() {
        if frames & (1 << k) != 0 {
            s.push_str(&format!("DEFFRAME {q} \"{n}\":\n    {attr}\n"));
        }
    }
    for (k, w) in WAVEFORMS.iter().enumerate() {
        if wfs & (1 << k) != 0 {
            s.push_str(w);
        }
    }
    for (k, e) in EXTERNS.iter().enumerate() {
        if exts & (1 << k) != 0 {
            s.push_str(e);
        }
    }
    for (k, c) in CALS.iter().enumerate() {
        if cals & (1 << k) != 0 {
            s.push_str(c);
        }
    }
    s.push_str(OTHER_DEFS);
    s
}

/// body lines over the alphabets: pulses on defined / undefined frames with defined / template / unused
/// waveforms, calibrated gates, CALLs, RESET with and without qubit, fences, delays, classical code
const BODY_LINES: [&str; 40] = [
    "PULSE 0 \"x\" ramp(duration: 5.0)",
    "CAPTURE 0 \"y\" ramp(duration: 2.0) b[0]",
    "PULSE 0 \"x\" flat(duration: 1.0, iq: 1.0)",
    "PULSE 0 \"x\" f1",
    "PULSE 0 \"w4\" w4",
    "PULSE 0 \"f1\" flat(duration: 0.5, iq: 1.0)",
    "CALL w4 a[0]",
    "CALL f4 a[0]",
    "CALL f1 f1[0]",
    "E 0",
    "PRAGMA USEALL",
    "PRAGMA USEX",
    "PULSE 0 \"x\" w4",
    "PULSE 0 \"y\" w4",
    "NONBLOCKING PULSE 0 \"x\" w2",
    "PULSE 0 1 \"z\" w2",
    "PULSE 1 \"x\" flat(duration: 0.5, iq: 1.0)",
    "PULSE 3 \"u\" flat(duration: 1.0, iq: 1.0)",
    "PULSE 3 \"u\" w4",
    "PULSE 2 \"x\" w4",
    "CAPTURE 0 \"y\" w2 b[0]",
    "RAW-CAPTURE 0 \"x\" 0.75 b[0]",
    "A 0",
    "B 0 1",
    "C 0",
    "C 1",
    "D 0",
    "R 0",
    "MEASURE 0 c[0]",
    "CALL f1 a[0]",
    "CALL f2 a[0] b[0]",
    "RESET",
    "RESET 0",
    "FENCE",
    "FENCE 1",
    "DELAY 0 0.5",
    "DELAY 0 \"x\" 0.25",
    "SHIFT-PHASE 0 \"x\" 0.5",
    "SWAP-PHASES 0 \"x\" 1 \"x\"",
    "MOVE a[0] 1",
];

fn parse(text: &str) -> Option<Program> {
    Program::from_str(text).ok()
}

fn main() {
    main_with(run)
}

fn run(ctx: &mut Ctx) {
    // 1. corpus
    let all = header(0x7f, 7, 7, 0x7f);
    let corpus: Vec<String> = vec![
        // upstream tests' shapes: unused frame / waveform / extern / calibration removed
        format!("{all}PULSE 0 \"x\" w4\n"),
        format!("{all}A 0\nCALL f1 a[0]\n"),
        format!("{all}"),
        // blocking pulse on an undefined frame blocks a frame nobody uses
        format!("{}PULSE 0 \"undefined\" flat(duration: 1.0, iq: 1.0)\nPULSE 1 \"x\" flat(duration: 1.0, iq: 1.0)\n", header(0x05, 0, 0, 0)),
        // bare RESET: depends on the used qubits, which the removed calibrations contribute to
        format!("{}RESET\nPULSE 0 \"x\" w4\n", header(0x21, 1, 0, 0x10)),
        format!("{}RESET\n", header(0x7f, 0, 0, 0x7f)),
        format!("{}R 0\nPULSE 0 \"x\" w4\n", header(0x7f, 3, 0, 0x50)),
        // a frame used only through FENCE / DELAY / SWAP-PHASES
        format!("{}FENCE\n", header(0x7f, 0, 0, 0)),
        format!("{}DELAY 0 0.5\nSWAP-PHASES 0 \"x\" 1 \"x\"\n", header(0x7f, 0, 0, 0)),
        // several blocks
        format!("{all}LABEL @a\nA 0\nJUMP-WHEN @a c[0]\nPULSE 0 \"y\" w2\nCALL f2 a[0] b[0]\n"),
        // a nameless PRAGMA EXTERN (key None): never kept; the expanded program cannot be scheduled at all
        format!("{}PULSE 0 \"x\" w4\nCALL f1 a[0]\n", header(0x7f, 7, 15, 0x7f)),
        format!("{}PULSE 0 \"x\" w4\n", header(0x01, 1, 8, 0)),
        // a DEFINED waveform invoked with a template-named argument: duration = 4 samples / 4 Hz = 1 s, not 5 s
        format!("{}PULSE 0 \"x\" ramp(duration: 5.0)\nPULSE 0 \"x\" w4\n", header(0x01, 0x09, 0, 0)),
        format!("{}E 0\nCAPTURE 0 \"y\" ramp(duration: 2.0) b[0]\n", header(0x03, 0x3f, 0, 0x80)),
        format!("{}PULSE 0 \"x\" flat(duration: 1.0, iq: 1.0)\n", header(0x01, 0x10, 0, 0)),
        // names shared across definition kinds: waveform f1 / extern f1 / region f1 / frame "f1" / circuit f1,
        // waveform w4 / extern w4 / gate w4 / frame "w4" / region w4 — each used through one kind only
        format!("{}PULSE 0 \"x\" f1\n", header(0x1ff, 0x3f, 0x37, 0)),
        format!("{}CALL f1 f1[0]\n", header(0x1ff, 0x3f, 0x37, 0)),
        format!("{}CALL w4 a[0]\n", header(0x1ff, 0x3f, 0x37, 0)),
        format!("{}PULSE 0 \"w4\" flat(duration: 0.5, iq: 1.0)\n", header(0x1ff, 0x2f, 0x37, 0)),
        format!("{}PULSE 0 \"f1\" w4\nCALL f4 a[0]\n", header(0x1ff, 0x3f, 0x37, 0)),
        // recursive calibration
        "DEFCAL X 0:\n    X 0\nX 0\n".to_string(),
    ];
    for t in &corpus {
        let p = parse(t).unwrap_or_else(|| panic!("corpus text does not parse: {t}"));
        run_case(ctx, &p);
    }
    // a non-default handler: PRAGMA USEALL keeps every frame, PRAGMA USEX the frames named "x"
    for body in ["PRAGMA USEALL\n", "PRAGMA USEX\nPULSE 0 \"y\" w4\n", "PULSE 0 \"y\" w4\n", "PRAGMA USEALL\nA 0\nCALL f1 a[0]\n"] {
        let p = parse(&format!("{all}{body}")).expect("parse");
        run_case_with(ctx, &p, &PragmaHandler, "pragma");
        run_case(ctx, &p);
    }
    // a DEFFRAME / DEFWAVEFORM / PRAGMA EXTERN that exists only inside a calibration body (API-built)
    {
        let mut p = parse(&format!("{}FR 0\nCALL f1 a[0]\n", header(0x01, 1, 0, 0))).expect("parse");
        let body = Program::from_str(
            "DEFFRAME 0 \"incal\":\n    SAMPLE-RATE: 4.0\nDEFWAVEFORM wincal:\n    1, 1\nPRAGMA EXTERN f1 \"(x : INTEGER)\"\nPULSE 0 \"incal\" wincal\nPULSE 0 \"x\" w4\n",
        )
        .expect("parse")
        .to_instructions();
        p.add_instruction(Instruction::CalibrationDefinition(CalibrationDefinition::new(
            CalibrationIdentifier { modifiers: vec![], name: "FR".to_string(), parameters: vec![], qubits: vec![Qubit::Fixed(0)] },
            body,
        )));
        run_case(ctx, &p);
    }

    // 2. exhaustive: subsets of 3 frames x 2 waveforms x 2 externs x 3 calibrations, bodies of <= 2 lines
    //    over a 12-line alphabet
    let lines: Vec<&str> = vec![
        "PULSE 0 \"x\" w4",
        "NONBLOCKING PULSE 0 \"y\" w2",
        "PULSE 3 \"u\" flat(duration: 1.0, iq: 1.0)",
        "PULSE 0 1 \"z\" flat(duration: 0.5, iq: 1.0)",
        "A 0",
        "D 0",
        "CALL f2 a[0] b[0]",
        "RESET",
        "RESET 0",
        "FENCE 1",
        "DELAY 0 0.5",
        "MOVE a[0] 1",
        "PULSE 0 \"x\" ramp(duration: 5.0)",
        "PULSE 0 \"x\" f1",
        "CALL w4 a[0]",
    ];
    let frame_masks: &[u32] = if ctx.quick() { &[0x0, 0x3, 0xb, 0x2b] } else { &[0x0, 0x1, 0x3, 0x9, 0xb, 0x2b, 0x4b, 0x7f] };
    let cal_masks: &[u32] = if ctx.quick() { &[0x0, 0x19] } else { &[0x0, 0x1, 0x9, 0x19, 0x18] };
    for &fm in frame_masks {
        for wm in [0u32, 1, 3, 0x0b, 0x29, 0x10] {
            for em in [0u32, 3, 0x13] {
                for &cm in cal_masks {
                    let h = header(fm, wm, em, cm);
                    for (i, l1) in lines.iter().enumerate() {
                        for l2 in lines.iter().skip(if ctx.quick() { i } else { 0 }) {
                            if let Some(p) = parse(&format!("{h}{l1}\n{l2}\n")) {
                                run_case(ctx, &p);
                            }
                        }
                    }
                }
            }
        }
    }

    // 3. seeded random: random subsets of every alphabet, bodies up to 8 lines incl. control flow and the
    //    scheduling-flavoured RF / classical generators shared with C22-C25
    let n_random = if ctx.quick() { 4000 } else { 250_000 };
    let mut rng = ctx.rng(35);
    // lines that have a duration (so that the schedule is computed, not an error), given calibrations A, B, C
    const TIMED: [&str; 26] = [
        "PULSE 0 \"x\" ramp(duration: 5.0)",
        "CAPTURE 0 \"y\" ramp(duration: 2.0) b[0]",
        "PULSE 0 \"x\" flat(duration: 1.0, iq: 1.0)",
        "PULSE 0 \"x\" f1",
        "PULSE 0 \"w4\" w4",
        "E 0",
        "PULSE 0 \"x\" w4",
        "PULSE 0 \"y\" w4",
        "NONBLOCKING PULSE 0 \"x\" w2",
        "NONBLOCKING PULSE 0 \"y\" flat(duration: 0.75, iq: 1.0)",
        "PULSE 0 1 \"z\" w2",
        "PULSE 1 0 \"z\" w2",
        "PULSE 1 \"x\" flat(duration: 0.5, iq: 1.0)",
        "PULSE 3 \"u\" flat(duration: 1.0, iq: 1.0)",
        "PULSE 0 \"undefined\" flat(duration: 2.0, iq: 1.0)",
        "CAPTURE 0 \"y\" w2 b[0]",
        "RAW-CAPTURE 0 \"x\" 0.75 b[0]",
        "A 0",
        "B 0 1",
        "C 0",
        "C 1",
        "FENCE",
        "FENCE 1",
        "DELAY 0 0.5",
        "DELAY 0 \"x\" 0.25",
        "SWAP-PHASES 0 \"x\" 1 \"x\"",
    ];
    for _ in 0..n_random {
        let timed_only = rng.chance(1, 2);
        let cal_mask = if timed_only { (rng.below(256) as u32 & !0x48) | 0x07 } else { rng.below(256) as u32 };
        let wf_mask = if timed_only { rng.below(64) as u32 | 0x03 } else { rng.below(64) as u32 };
        let frame_mask = if timed_only && rng.chance(3, 4) { rng.below(512) as u32 | 0x0f } else { rng.below(512) as u32 };
        let ext_mask = rng.below(8) as u32 | if rng.chance(1, 10) { 8 } else { 0 } | ((rng.below(4) as u32) << 4);
        let h = header(frame_mask, wf_mask, ext_mask, cal_mask);
        let len = rng.below(9);
        let mut body = String::new();
        let mut label = 0;
        for _ in 0..len {
            let r = rng.below(100);
            if timed_only {
                body.push_str(TIMED[rng.below(TIMED.len() as u64) as usize]);
            } else if r < 60 {
                body.push_str(BODY_LINES[rng.below(BODY_LINES.len() as u64) as usize]);
            } else if r < 80 {
                body.push_str(&rf_line(&mut rng, 4, 3));
            } else if r < 90 {
                body.push_str(&classical_line(&mut rng, 3));
            } else if r < 95 {
                body.push_str(&format!("LABEL @l{label}"));
                label += 1;
            } else {
                body.push_str(&format!("JUMP-UNLESS @l{} c[0]", rng.below(label + 1)));
            }
            body.push('\n');
        }
        if let Some(p) = parse(&format!("{h}{body}")) {
            if rng.chance(1, 4) {
                run_case_with(ctx, &p, &PragmaHandler, "pragma");
            } else {
                run_case(ctx, &p);
            }
        }
    }
}
